//! C12 correspondence: BM25 scores over the searcher's statistics; explain agrees.
//!
//! For generated corpora (field lengths around every reachable quantisation boundary, 1-6 segments, with and
//! without deletes) and query trees (term, phrase, boolean must/should/must_not, boost, const-score,
//! disjunction-max) the harness observes, for every matching document:
//!   * the score from TopDocs with two different K and from a scoring custom collector (for_each path),
//!   * Query::explain(searcher, addr): its value and the whole JSON tree,
//! and decides the spec predicates on the Rust side in bulk (bit identity / n-ulp rules, node laws of the
//! explanation tree, statistics against the corpus, an independent f32 evaluation, the f64 formula), while a
//! sample of cases is shipped to Coq: `tie` = Flocq binary32 model against the implementation's bits,
//! `spec` = statistics of the shipped corpus (stats_of) and the exact-rational formula (bm25_formula).
//! `Bm25Weight` is also driven directly over all 256 field-norm ids.
use std::collections::BTreeMap;

use serde_json::{json, Value};
use tantivy::collector::{Collector, SegmentCollector, TopDocs};
use tantivy::fieldnorm::FieldNormReader;
use tantivy::indexer::NoMergePolicy;
use tantivy::query::{
    Bm25StatisticsProvider, Bm25Weight, BooleanQuery, BoostQuery, ConstScoreQuery, DisjunctionMaxQuery, EnableScoring,
    Explanation, Occur, PhraseQuery, Query, Scorer, TermQuery, Weight,
};
use tantivy::DocSet;
use std::sync::atomic::{AtomicU64, Ordering};
use std::sync::Arc;
use tantivy::schema::{Field, IndexRecordOption, Schema, FAST, INDEXED, STORED, TEXT};
use tantivy::{DocAddress, DocId, Index, IndexWriter, Score, Searcher, SegmentOrdinal, SegmentReader, TantivyDocument, Term};
use tvh::out::CaseOut;
use tvh::rng::Rng;
use tvh::{guarded, Args};

const HEADER: &str = "From TV Require Import Base.Prelude Generated.Constants Rank.BM25 Rank.BM25Float.";

// ------------------------------------------------------------------------------------------------
// query trees

#[derive(Clone, Debug, PartialEq)]
enum Occ { Must, Should, MustNot }

#[derive(Clone, Debug)]
enum Q {
    Term(usize),
    Phrase(Vec<usize>),
    Boost(Box<Q>, f32),
    Const(Box<Q>, f32),
    Bool(Vec<(Occ, Q)>),
    DisMax(Vec<Q>, f32),
}

fn term_text(t: usize) -> String { format!("w{}", t) }

/// BooleanQuery::new's default for minimum_number_should_match
fn default_msm(cs: &[(Occ, Q)]) -> usize {
    let mut m = 0;
    for (o, _) in cs {
        match o { Occ::Should => m = 1, _ => { m = 0; break; } }
    }
    m
}

impl Q {
    fn build(&self, f: Field) -> Box<dyn Query> { self.build_p(f, None) }
    /// with `probe`: every term leaf is wrapped in a ProbeQuery (same documents, same scores, same explanations)
    fn build_p(&self, f: Field, probe: Option<&Arc<AtomicU64>>) -> Box<dyn Query> {
        match self {
            Q::Term(t) => {
                let tq: Box<dyn Query> = Box::new(TermQuery::new(Term::from_field_text(f, &term_text(*t)), IndexRecordOption::WithFreqs));
                match probe { Some(c) => Box::new(ProbeQuery { inner: tq, backward: c.clone() }), None => tq }
            }
            Q::Phrase(ts) => Box::new(PhraseQuery::new(ts.iter().map(|t| Term::from_field_text(f, &term_text(*t))).collect())),
            Q::Boost(q, b) => Box::new(BoostQuery::new(q.build_p(f, probe), *b)),
            Q::Const(q, s) => Box::new(ConstScoreQuery::new(q.build_p(f, probe), *s)),
            Q::Bool(cs) => Box::new(BooleanQuery::new(cs.iter().map(|(o, q)| {
                (match o { Occ::Must => Occur::Must, Occ::Should => Occur::Should, Occ::MustNot => Occur::MustNot }, q.build_p(f, probe))
            }).collect())),
            Q::DisMax(qs, tie) => Box::new(DisjunctionMaxQuery::with_tie_breaker(qs.iter().map(|q| q.build_p(f, probe)).collect(), *tie)),
        }
    }
    /// the nodes whose Weight::explain seeks a fresh scorer without checking `scorer.doc() > doc`
    fn unguarded_nodes<'a>(&'a self, acc: &mut Vec<&'a Q>) {
        match self {
            Q::Term(_) => {}
            Q::Phrase(_) => acc.push(self),
            Q::Boost(q, _) => q.unguarded_nodes(acc),
            Q::Const(q, _) => { acc.push(self); q.unguarded_nodes(acc); }
            Q::Bool(cs) => { acc.push(self); cs.iter().for_each(|(_, q)| q.unguarded_nodes(acc)); }
            Q::DisMax(qs, _) => { acc.push(self); qs.iter().for_each(|q| q.unguarded_nodes(acc)); }
        }
    }
    fn n_leaves(&self) -> usize {
        match self {
            Q::Term(_) | Q::Phrase(_) => 1,
            Q::Boost(q, _) | Q::Const(q, _) => q.n_leaves(),
            Q::Bool(cs) => cs.iter().map(|(_, q)| q.n_leaves()).sum(),
            Q::DisMax(qs, _) => qs.iter().map(|q| q.n_leaves()).sum(),
        }
    }
    fn n_nodes(&self) -> usize {
        match self {
            Q::Term(_) | Q::Phrase(_) => 1,
            Q::Boost(q, _) | Q::Const(q, _) => 1 + q.n_nodes(),
            Q::Bool(cs) => 1 + cs.iter().map(|(_, q)| q.n_nodes()).sum::<usize>(),
            Q::DisMax(qs, _) => 3 + qs.iter().map(|q| q.n_nodes()).sum::<usize>(),
        }
    }
    fn has_boost(&self) -> bool {
        match self {
            Q::Term(_) | Q::Phrase(_) => false,
            Q::Boost(q, b) => *b != 1.0 || q.has_boost(),
            Q::Const(q, _) => q.has_boost(),
            Q::Bool(cs) => cs.iter().any(|(_, q)| q.has_boost()),
            Q::DisMax(qs, _) => qs.iter().any(|q| q.has_boost()),
        }
    }
    fn terms(&self, acc: &mut Vec<usize>) {
        match self {
            Q::Term(t) => acc.push(*t),
            Q::Phrase(ts) => acc.extend(ts.iter().cloned()),
            Q::Boost(q, _) | Q::Const(q, _) => q.terms(acc),
            Q::Bool(cs) => cs.iter().for_each(|(_, q)| q.terms(acc)),
            Q::DisMax(qs, _) => qs.iter().for_each(|q| q.terms(acc)),
        }
    }
    fn kind(&self) -> &'static str {
        match self { Q::Term(_) => "term", Q::Phrase(_) => "phrase", Q::Boost(..) => "boost", Q::Const(..) => "const", Q::Bool(_) => "bool", Q::DisMax(..) => "dismax" }
    }
    fn show(&self) -> String {
        match self {
            Q::Term(t) => term_text(*t),
            Q::Phrase(ts) => format!("\"{}\"", ts.iter().map(|t| term_text(*t)).collect::<Vec<_>>().join(" ")),
            Q::Boost(q, b) => format!("({})^{}", q.show(), b),
            Q::Const(q, s) => format!("const({},{})", q.show(), s),
            Q::Bool(cs) => format!("bool[{}]", cs.iter().map(|(o, q)| format!("{}{}", match o { Occ::Must => "+", Occ::Should => "", Occ::MustNot => "-" }, q.show())).collect::<Vec<_>>().join(" ")),
            Q::DisMax(qs, t) => format!("dismax[{}]~{}", qs.iter().map(|q| q.show()).collect::<Vec<_>>().join(" | "), t),
        }
    }
}


// ------------------------------------------------------------------------------------------------
// DocSet-contract probe: a transparent wrapper around a term query whose scorer counts the calls
// `seek(target)` with `target < doc()` (forbidden by DocSet::seek; TermScorer / PhraseScorer debug_assert it, so
// in a debug build such a call is a panic inside explain()).  Its own explain is guarded like TermWeight::explain.

struct ProbeQuery { inner: Box<dyn Query>, backward: Arc<AtomicU64> }
impl Clone for ProbeQuery { fn clone(&self) -> Self { ProbeQuery { inner: self.inner.box_clone(), backward: self.backward.clone() } } }
impl std::fmt::Debug for ProbeQuery { fn fmt(&self, f: &mut std::fmt::Formatter) -> std::fmt::Result { write!(f, "Probe({:?})", self.inner) } }
impl Query for ProbeQuery {
    fn weight(&self, es: EnableScoring<'_>) -> tantivy::Result<Box<dyn Weight>> {
        Ok(Box::new(ProbeWeight { inner: self.inner.weight(es)?, backward: self.backward.clone() }))
    }
    fn query_terms<'a>(&'a self, visitor: &mut dyn FnMut(&'a Term, bool)) { self.inner.query_terms(visitor) }
}
struct ProbeWeight { inner: Box<dyn Weight>, backward: Arc<AtomicU64> }
impl Weight for ProbeWeight {
    fn scorer(&self, reader: &SegmentReader, boost: Score) -> tantivy::Result<Box<dyn Scorer>> {
        Ok(Box::new(ProbeScorer { inner: self.inner.scorer(reader, boost)?, backward: self.backward.clone() }))
    }
    fn explain(&self, reader: &SegmentReader, doc: DocId) -> tantivy::Result<Explanation> {
        let mut sc = self.scorer(reader, 1.0)?;
        if sc.doc() > doc || sc.seek(doc) != doc {
            return Err(tantivy::TantivyError::InvalidArgument(format!("Document #({doc}) does not match")));
        }
        self.inner.explain(reader, doc)
    }
}
struct ProbeScorer { inner: Box<dyn Scorer>, backward: Arc<AtomicU64> }
impl DocSet for ProbeScorer {
    fn advance(&mut self) -> DocId { self.inner.advance() }
    fn seek(&mut self, target: DocId) -> DocId {
        if target < self.inner.doc() {
            self.backward.fetch_add(1, Ordering::SeqCst);
            return self.inner.doc();   // lenient, like the release build of the wrapped scorer
        }
        self.inner.seek(target)
    }
    fn doc(&self) -> DocId { self.inner.doc() }
    fn size_hint(&self) -> u32 { self.inner.size_hint() }
}
impl Scorer for ProbeScorer { fn score(&mut self) -> Score { self.inner.score() } }

// ------------------------------------------------------------------------------------------------
// independent evaluation on one document (the harness's own arithmetic, mirrors the Rust order of operations)

const K1: f32 = 1.2;
const B: f32 = 0.75;

struct DocCtx<'a> {
    tokens: &'a [usize],
    total_tokens: u64,
    total_docs: u64,
    idf: &'a BTreeMap<usize, f32>, // oracle for ln: term -> idf value (from the implementation, checked against f64 ln)
    table: &'a [u32],
}

fn fieldnorm_to_id(table: &[u32], len: u32) -> u8 {
    // largest id with table[id] <= len (own implementation, linear)
    let mut id = 0usize;
    for (i, v) in table.iter().enumerate() { if *v <= len { id = i } else { break } }
    id as u8
}

fn tf_of(tokens: &[usize], t: usize) -> u32 { tokens.iter().filter(|x| **x == t).count() as u32 }
fn phrase_count(tokens: &[usize], p: &[usize]) -> u32 {
    if p.is_empty() || tokens.len() < p.len() { return 0; }
    (0..=tokens.len() - p.len()).filter(|i| &tokens[*i..*i + p.len()] == p).count() as u32
}

impl<'a> DocCtx<'a> {
    fn avg(&self) -> f32 { self.total_tokens as f32 / self.total_docs as f32 }
    fn norm(&self) -> f32 {
        let id = fieldnorm_to_id(self.table, self.tokens.len() as u32);
        K1 * (1.0 - B + B * self.table[id as usize] as f32 / self.avg())
    }
    fn leaf(&self, q: &Q) -> Option<(Vec<usize>, u32)> {
        match q {
            Q::Term(t) => { let f = tf_of(self.tokens, *t); if f > 0 { Some((vec![*t], f)) } else { None } }
            Q::Phrase(ts) => { let c = phrase_count(self.tokens, ts); if c > 0 { Some((ts.clone(), c)) } else { None } }
            _ => None,
        }
    }
    fn idf_total(&self, ts: &[usize]) -> Option<f32> {
        if ts.len() == 1 { return self.idf.get(&ts[0]).cloned(); }
        let mut s: f32 = 0.0;
        for t in ts { s += *self.idf.get(t)?; }
        Some(s)
    }
    fn leaf_score(&self, ts: &[usize], freq: u32, boost: f32) -> Option<f32> {
        let mut w = self.idf_total(ts)? * (1.0 + K1);
        if boost != 1.0 { w *= boost; }
        let f = freq as f32;
        Some(w * (f / (f + self.norm())))
    }
    /// Weight::scorer(reader, boost); seek(doc); score()   (None = not on the doc; Err = oracle miss)
    fn score(&self, q: &Q, boost: f32) -> Result<Option<f32>, String> {
        Ok(match q {
            Q::Term(_) | Q::Phrase(_) => match self.leaf(q) {
                None => None,
                Some((ts, f)) => Some(self.leaf_score(&ts, f, boost).ok_or("idf oracle miss")?),
            },
            Q::Boost(q, b) => self.score(q, boost * *b)?,
            Q::Const(q, s) => self.score(q, boost)?.map(|_| boost * *s),
            Q::Bool(cs) => {
                let rs: Vec<(Occ, Option<f32>)> = cs.iter().map(|(o, c)| Ok((o.clone(), self.score(c, boost)?))).collect::<Result<_, String>>()?;
                bool_score(&rs, default_msm(cs), |xs| xs.iter().fold(0.0f32, |a, x| a + *x))
            }
            Q::DisMax(qs, tie) => {
                let rs: Vec<(Occ, Option<f32>)> = qs.iter().map(|c| Ok((Occ::Should, self.score(c, boost)?))).collect::<Result<_, String>>()?;
                bool_score(&rs, 1, |xs| dismax(xs, *tie))
            }
        })
    }
    fn is_hit(&self, q: &Q) -> bool { matches!(self.score(q, 1.0), Ok(Some(_))) }
    /// mirror of term_hit in BM25Float.v
    fn term_hit(&self, q: &Q) -> bool {
        match q {
            Q::Term(_) => self.leaf(q).is_some(),
            Q::Phrase(_) | Q::Const(..) => false,
            Q::Boost(q, _) => self.term_hit(q),
            Q::Bool(cs) => cs.iter().filter(|(o, c)| *o != Occ::MustNot && self.is_hit(c)).count() == 1
                && cs.iter().all(|(o, c)| *o == Occ::MustNot || !self.is_hit(c) || self.term_hit(c)),
            Q::DisMax(qs, _) => qs.iter().filter(|c| self.is_hit(c)).count() == 1 && qs.iter().all(|c| !self.is_hit(c) || self.term_hit(c)),
        }
    }
    /// mirror of known_f40 in BM25Float.v
    fn known_f40(&self, q: &Q, topdocs: f32) -> bool {
        if let Q::DisMax(qs, _) = q {
            let hits: Vec<f32> = qs.iter().filter_map(|c| self.score(c, 1.0).ok().flatten()).collect();
            hits.len() >= 2 && qs.iter().all(|c| !self.is_hit(c) || self.term_hit(c))
                && ulps(hits.iter().fold(0.0f32, |a, x| a + *x), topdocs) <= qs.len() as i64
        } else { false }
    }
    /// Weight::explain(reader, doc).value()
    fn explain(&self, q: &Q) -> Result<Option<f32>, String> {
        Ok(match q {
            Q::Term(_) | Q::Phrase(_) | Q::Bool(_) | Q::DisMax(..) => self.score(q, 1.0)?,
            Q::Boost(q, b) => self.explain(q)?.map(|v| v * *b),
            Q::Const(inner, s) => match self.score(q, 1.0)? { None => None, Some(_) => self.explain(inner)?.map(|_| *s) },
        })
    }
    /// f64 evaluation of the formula (bottom-up, boosts multiply on the way up)
    fn formula64(&self, q: &Q) -> Option<f64> {
        match q {
            Q::Term(_) | Q::Phrase(_) => {
                let (ts, f) = self.leaf(q)?;
                let idf: f64 = ts.iter().map(|t| *self.idf.get(t).unwrap_or(&f32::NAN) as f64).sum();
                let id = fieldnorm_to_id(self.table, self.tokens.len() as u32);
                let dl = self.table[id as usize] as f64;
                let avg = self.total_tokens as f64 / self.total_docs as f64;
                let f = f as f64;
                Some(idf * 2.2 * f / (f + 1.2 * (0.25 + 0.75 * dl / avg)))
            }
            Q::Boost(q, b) => self.formula64(q).map(|x| x * *b as f64),
            Q::Const(q, s) => self.formula64(q).map(|_| *s as f64),
            Q::Bool(cs) => {
                let rs: Vec<(Occ, Option<f64>)> = cs.iter().map(|(o, c)| (o.clone(), self.formula64(c))).collect();
                bool_score(&rs, default_msm(cs), |xs| xs.iter().sum())
            }
            Q::DisMax(qs, tie) => {
                let rs: Vec<(Occ, Option<f64>)> = qs.iter().map(|c| (Occ::Should, self.formula64(c))).collect();
                bool_score(&rs, 1, |xs| { let m = xs.iter().cloned().fold(0.0f64, f64::max); let s: f64 = xs.iter().sum(); m + (s - m) * *tie as f64 })
            }
        }
    }
}

fn dismax(xs: &[f32], tie: f32) -> f32 {
    let (mut m, mut s) = (0.0f32, 0.0f32);
    for x in xs { m = f32::max(*x, m); s += *x; }
    m + (s - m) * tie
}

/// BooleanWeight::scorer at one document (mirror of bool_score in BM25.v)
fn bool_score<T: Copy>(rs: &[(Occ, Option<T>)], msm: usize, comb: impl Fn(&[T]) -> T) -> Option<T> {
    if rs.is_empty() { return None; }
    if rs.len() == 1 { return if rs[0].0 == Occ::MustNot { None } else { rs[0].1 }; }
    if rs.iter().any(|(o, r)| *o == Occ::Must && r.is_none()) { return None; }
    if rs.iter().any(|(o, r)| *o == Occ::MustNot && r.is_some()) { return None; }
    let k = rs.iter().filter(|(o, r)| *o == Occ::Should && r.is_some()).count();
    let has_must = rs.iter().any(|(o, _)| *o == Occ::Must);
    if msm <= k && (has_must || k > 0) {
        let inc: Vec<T> = rs.iter().filter(|(o, _)| *o != Occ::MustNot).filter_map(|(_, r)| *r).collect();
        Some(comb(&inc))
    } else { None }
}

fn ulps(a: f32, b: f32) -> i64 { (a.to_bits() as i64 - b.to_bits() as i64).abs() }

// ------------------------------------------------------------------------------------------------
// Gallina printers

fn z(bits: u32) -> String { format!("{}%Z", bits) }
fn fq_term(q: &Q, ctx: &DocCtx) -> Option<String> {
    Some(match q {
        Q::Term(_) | Q::Phrase(_) => {
            let ts: Vec<usize> = match q { Q::Term(t) => vec![*t], Q::Phrase(ts) => ts.clone(), _ => unreachable!() };
            let mut idfs = vec![];
            for t in &ts { idfs.push(z(ctx.idf.get(t)?.to_bits())); }
            let hit = match ctx.leaf(q) {
                Some((_, f)) => format!("(Some (fieldnorm_to_id {}, {}))", ctx.tokens.len(), f),
                None => "None".to_string(),
            };
            format!("(FLeaf [{}] {})", idfs.join(";"), hit)
        }
        Q::Boost(q, b) => format!("(FBoost {} {})", fq_term(q, ctx)?, z(b.to_bits())),
        Q::Const(q, s) => format!("(FConst {} {})", fq_term(q, ctx)?, z(s.to_bits())),
        Q::Bool(cs) => {
            let mut parts = vec![];
            for (o, c) in cs { parts.push(format!("({}, {})", match o { Occ::Must => "Must", Occ::Should => "Should", Occ::MustNot => "MustNot" }, fq_term(c, ctx)?)); }
            format!("(FBool {}%nat [{}])", default_msm(cs), parts.join(";"))
        }
        Q::DisMax(qs, tie) => {
            let mut parts = vec![];
            for c in qs { parts.push(fq_term(c, ctx)?); }
            format!("(FDisMax [{}] {})", parts.join(";"), z(tie.to_bits()))
        }
    })
}

// ------------------------------------------------------------------------------------------------
// scoring custom collector (goes through Weight::for_each, never through for_each_pruning)

struct AllScores;
struct AllScoresSeg { ord: SegmentOrdinal, v: Vec<(DocAddress, Score)> }
impl Collector for AllScores {
    type Fruit = Vec<(DocAddress, Score)>;
    type Child = AllScoresSeg;
    fn for_segment(&self, ord: SegmentOrdinal, _r: &SegmentReader) -> tantivy::Result<AllScoresSeg> { Ok(AllScoresSeg { ord, v: vec![] }) }
    fn requires_scoring(&self) -> bool { true }
    fn merge_fruits(&self, fruits: Vec<Vec<(DocAddress, Score)>>) -> tantivy::Result<Self::Fruit> { Ok(fruits.into_iter().flatten().collect()) }
}
impl SegmentCollector for AllScoresSeg {
    type Fruit = Vec<(DocAddress, Score)>;
    fn collect(&mut self, doc: DocId, score: Score) { self.v.push((DocAddress::new(self.ord, doc), score)); }
    fn harvest(self) -> Self::Fruit { self.v }
}

// ------------------------------------------------------------------------------------------------
// corpora

struct Corpus { docs: Vec<Vec<usize>>, n_terms: usize }

fn gen_len(rng: &mut Rng, table: &[u32], max_len: u32) -> u32 {
    match rng.below(10) {
        0 => rng.range(0, 3) as u32,
        1..=5 => {
            // around a quantisation boundary
            let hi = table.iter().position(|v| *v > max_len).unwrap_or(table.len());
            let id = rng.below(hi as u64) as usize;
            let base = table[id];
            let v = match rng.below(4) { 0 => base.saturating_sub(1), 1 => base, 2 => base + 1, _ => base + (table.get(id + 1).map(|n| n - base).unwrap_or(2)) / 2 };
            v.min(max_len)
        }
        _ => rng.range(1, 60) as u32,
    }
}

fn gen_corpus(rng: &mut Rng, table: &[u32], n_docs: usize, max_len: u32) -> Corpus {
    let n_terms = rng.range(3, 8) as usize;
    let mut docs = vec![];
    for _ in 0..n_docs {
        let len = gen_len(rng, table, max_len) as usize;
        let mode = rng.below(6);
        let hot = rng.below(n_terms as u64) as usize;
        let mut d = Vec::with_capacity(len);
        for _ in 0..len {
            let t = match mode {
                0 => hot,                                             // the whole field is one term (tf = length)
                1 => if rng.chance(2, 3) { hot } else { rng.below(n_terms as u64) as usize },
                2 => rng.below(2) as usize,                           // dense phrases over w0 w1
                _ => { let r = rng.below((n_terms * n_terms) as u64) as usize; (r as f64).sqrt() as usize % n_terms } // skewed
            };
            d.push(t);
        }
        docs.push(d);
    }
    Corpus { docs, n_terms }
}

struct Built { index: Index, field: Field, searcher: Searcher, seg_docs: Vec<Vec<(usize, bool)>> /* per segment ord: (doc index in corpus, alive) */ }

fn build_index(c: &Corpus, cuts: &[usize], deleted: &[bool]) -> Result<Built, String> {
    let mut sb = Schema::builder();
    let field = sb.add_text_field("f", TEXT);
    let idf = sb.add_u64_field("id", FAST | INDEXED | STORED);
    let index = Index::create_in_ram(sb.build());
    let mut w: IndexWriter = index.writer_with_num_threads(1, 50_000_000).map_err(|e| e.to_string())?;
    w.set_merge_policy(Box::new(NoMergePolicy));
    let mut start = 0;
    for cut in cuts.iter().cloned().chain(std::iter::once(c.docs.len())) {
        if cut <= start { continue; }
        for i in start..cut {
            let text: String = c.docs[i].iter().map(|t| term_text(*t)).collect::<Vec<_>>().join(" ");
            let mut d = TantivyDocument::new();
            d.add_text(field, &text);
            d.add_u64(idf, i as u64);
            w.add_document(d).map_err(|e| e.to_string())?;
        }
        w.commit().map_err(|e| e.to_string())?;
        start = cut;
    }
    if deleted.iter().any(|d| *d) {
        for (i, del) in deleted.iter().enumerate() { if *del { w.delete_term(Term::from_field_u64(idf, i as u64)); } }
        w.commit().map_err(|e| e.to_string())?;
    }
    w.wait_merging_threads().map_err(|e| e.to_string())?;
    let searcher = index.reader().map_err(|e| e.to_string())?.searcher();
    let mut seg_docs = vec![];
    for sr in searcher.segment_readers() {
        let col = sr.fast_fields().u64("id").map_err(|e| e.to_string())?;
        seg_docs.push((0..sr.max_doc()).map(|d| (col.first(d).unwrap_or(u64::MAX) as usize, !sr.is_deleted(d))).collect());
    }
    Ok(Built { index, field, searcher, seg_docs })
}

// ------------------------------------------------------------------------------------------------
// queries

fn gen_boost(rng: &mut Rng) -> f32 {
    *rng.pick(&[1.0f32, 2.0, 0.5, 3.7, 0.1, 1.5, 7.25, 0.3333, 100.0, 1.0e-3])
}
fn gen_leaf(rng: &mut Rng, n_terms: usize) -> Q {
    if rng.chance(1, 4) {
        let k = rng.range(2, 3) as usize;
        if rng.chance(1, 2) { Q::Phrase((0..k).map(|i| i % 2).collect()) } else { Q::Phrase((0..k).map(|_| rng.below(n_terms as u64) as usize).collect()) }
    } else { Q::Term(rng.below(n_terms as u64) as usize) }
}
fn gen_query(rng: &mut Rng, n_terms: usize, depth: usize) -> Q {
    let r = if depth == 0 { rng.below(3) } else { rng.below(10) };
    match r {
        0 | 1 => gen_leaf(rng, n_terms),
        2 => Q::Boost(Box::new(gen_leaf(rng, n_terms)), gen_boost(rng)),
        3 => Q::Boost(Box::new(gen_query(rng, n_terms, depth - 1)), gen_boost(rng)),
        4 => Q::Const(Box::new(gen_query(rng, n_terms, depth - 1)), *rng.pick(&[0.42f32, 1.0, 3.0, 0.05])),
        5 | 6 | 7 => {
            let n = rng.range(1, 4) as usize;
            let mut cs = vec![];
            for _ in 0..n {
                let o = match rng.below(7) { 0 | 1 | 2 => Occ::Should, 3 | 4 => Occ::Must, 5 => Occ::Should, _ => Occ::MustNot };
                cs.push((o, gen_query(rng, n_terms, depth - 1)));
            }
            Q::Bool(cs)
        }
        _ => {
            let n = rng.range(1, 3) as usize;
            Q::DisMax((0..n).map(|_| gen_query(rng, n_terms, depth - 1)).collect(), *rng.pick(&[0.0f32, 0.25, 0.5, 0.7, 1.0]))
        }
    }
}

// ------------------------------------------------------------------------------------------------
// explanation trees

fn jf(v: &Value) -> f32 { v.get("value").and_then(|x| x.as_f64()).map(|x| x as f32).unwrap_or(f32::NAN) }
fn jd(v: &Value) -> &str { v.get("description").and_then(|x| x.as_str()).unwrap_or("") }
fn jdetails(v: &Value) -> Vec<&Value> { v.get("details").and_then(|x| x.as_array()).map(|a| a.iter().collect()).unwrap_or_default() }

/// Walks the explanation JSON along the query tree; returns a list of broken node laws.
fn check_expl(q: &Q, e: &Value, ctx: &DocCtx, df: &BTreeMap<usize, u64>, bad: &mut Vec<String>) {
    let v = jf(e);
    let ds = jdetails(e);
    match q {
        Q::Term(_) | Q::Phrase(_) => {
            let (ts, freq) = match ctx.leaf(q) { Some(x) => x, None => { bad.push("explanation for a non-matching leaf".into()); return; } };
            let node = if let Q::Phrase(_) = q {
                if jd(e) != "Phrase Scorer" || ds.len() != 1 { bad.push(format!("phrase node shape: {}", jd(e))); return; }
                if jf(ds[0]).to_bits() != v.to_bits() { bad.push("phrase node value != its detail".into()); }
                ds[0]
            } else { e };
            let nd = jdetails(node);
            if !jd(node).starts_with("TermQuery, product of") || nd.len() != 3 { bad.push(format!("term node shape: {} / {}", jd(node), nd.len())); return; }
            let (k1p1, idf, tfn) = (jf(nd[0]), jf(nd[1]), jf(nd[2]));
            if k1p1.to_bits() != (K1 + 1.0).to_bits() { bad.push("(K1+1) node".into()); }
            if ((idf * k1p1) * tfn).to_bits() != jf(node).to_bits() { bad.push(format!("term node value {} != idf*(K1+1)*tf = {}", jf(node), (idf * k1p1) * tfn)); }
            // idf node
            if ts.len() == 1 {
                let idd = jdetails(nd[1]);
                if idd.len() != 2 { bad.push("idf node shape".into()); } else {
                    let n = *df.get(&ts[0]).unwrap_or(&0);
                    if jf(idd[0]).to_bits() != (n as f32).to_bits() { bad.push(format!("idf.n = {} but corpus doc_freq = {}", jf(idd[0]), n)); }
                    if jf(idd[1]).to_bits() != (ctx.total_docs as f32).to_bits() { bad.push(format!("idf.N = {} but corpus N = {}", jf(idd[1]), ctx.total_docs)); }
                }
            }
            match ctx.idf_total(&ts) { Some(x) if x.to_bits() == idf.to_bits() => {}, other => bad.push(format!("idf node {} vs oracle {:?}", idf, other)) }
            // tf node
            let td = jdetails(nd[2]);
            if td.len() != 5 { bad.push("tf node shape".into()); return; }
            let (f, k1, b, dl, avg) = (jf(td[0]), jf(td[1]), jf(td[2]), jf(td[3]), jf(td[4]));
            let id = fieldnorm_to_id(ctx.table, ctx.tokens.len() as u32);
            if f.to_bits() != (freq as f32).to_bits() { bad.push(format!("freq {} vs corpus {}", f, freq)); }
            if k1.to_bits() != K1.to_bits() || b.to_bits() != B.to_bits() { bad.push("k1/b consts".into()); }
            if dl.to_bits() != (ctx.table[id as usize] as f32).to_bits() { bad.push(format!("dl {} vs quantised corpus length {}", dl, ctx.table[id as usize])); }
            if avg.to_bits() != ctx.avg().to_bits() { bad.push(format!("avgdl {} vs corpus {}", avg, ctx.avg())); }
            let want = f / (f + k1 * (1.0 - b + b * dl / avg));
            if want.to_bits() != tfn.to_bits() { bad.push(format!("tf node {} != freq/(freq+k1*(1-b+b*dl/avgdl)) = {}", tfn, want)); }
        }
        Q::Boost(inner, b) => {
            if !jd(e).starts_with("Boost x") || ds.len() != 1 { bad.push(format!("boost node shape: {}", jd(e))); return; }
            if (jf(ds[0]) * *b).to_bits() != v.to_bits() { bad.push(format!("boost node {} != child {} * {}", v, jf(ds[0]), b)); }
            check_expl(inner, ds[0], ctx, df, bad);
        }
        Q::Const(inner, s) => {
            if jd(e) != "Const" || ds.len() != 1 { bad.push(format!("const node shape: {}", jd(e))); return; }
            if v.to_bits() != s.to_bits() { bad.push("const node value".into()); }
            check_expl(inner, ds[0], ctx, df, bad);
        }
        Q::Bool(cs) => {
            if !jd(e).starts_with("BooleanClause") { bad.push(format!("bool node shape: {}", jd(e))); return; }
            let inc: Vec<&Q> = cs.iter().filter(|(o, c)| *o != Occ::MustNot && matches!(ctx.score(c, 1.0), Ok(Some(_)))).map(|(_, c)| c).collect();
            if inc.len() != ds.len() { bad.push(format!("bool node has {} details, {} include clauses match", ds.len(), inc.len())); return; }
            let sum = ds.iter().fold(0.0f32, |a, d| a + jf(d));
            if ulps(sum, v) > 2 * q.n_nodes() as i64 { bad.push(format!("bool node {} != sum of details {}", v, sum)); }
            for (c, d) in inc.iter().zip(ds.iter()) { check_expl(c, d, ctx, df, bad); }
        }
        Q::DisMax(qs, tie) => {
            if !jd(e).starts_with("BooleanClause") { bad.push(format!("dismax node shape: {}", jd(e))); return; }
            let inc: Vec<&Q> = qs.iter().filter(|c| matches!(ctx.score(c, 1.0), Ok(Some(_)))).collect();
            if inc.len() != ds.len() { bad.push(format!("dismax node has {} details, {} disjuncts match", ds.len(), inc.len())); return; }
            let xs: Vec<f32> = ds.iter().map(|d| jf(d)).collect();
            let want = if xs.len() == 1 { xs[0] } else { dismax(&xs, *tie) };
            if ulps(want, v) > 2 * q.n_nodes() as i64 { bad.push(format!("dismax node {} != max + tie*(sum-max) of details = {}", v, want)); }
            for (c, d) in inc.iter().zip(ds.iter()) { check_expl(c, d, ctx, df, bad); }
        }
    }
}

fn find_idf(e: &Value) -> Option<f32> {
    if jd(e).starts_with("idf, computed as log") { return Some(jf(e)); }
    for d in jdetails(e) { if let Some(x) = find_idf(d) { return Some(x); } }
    None
}


// ------------------------------------------------------------------------------------------------
// (C) several text fields with very different length distributions; conjunctions of Must term clauses
//     across fields (TopDocs -> block_wand_intersection; for_each / explain -> Intersection)

struct MfBuilt { fields: Vec<Field>, searcher: Searcher, seg_docs: Vec<Vec<(usize, bool)>> }

fn build_index_mf(docs: &[Vec<Vec<usize>>], nf: usize, cuts: &[usize], deleted: &[bool]) -> Result<MfBuilt, String> {
    let mut sb = Schema::builder();
    let fields: Vec<Field> = (0..nf).map(|f| sb.add_text_field(&format!("f{}", f), TEXT)).collect();
    let idf = sb.add_u64_field("id", FAST | INDEXED | STORED);
    let index = Index::create_in_ram(sb.build());
    let mut w: IndexWriter = index.writer_with_num_threads(1, 50_000_000).map_err(|e| e.to_string())?;
    w.set_merge_policy(Box::new(NoMergePolicy));
    let mut start = 0;
    for cut in cuts.iter().cloned().chain(std::iter::once(docs.len())) {
        if cut <= start { continue; }
        for i in start..cut {
            let mut d = TantivyDocument::new();
            for f in 0..nf { d.add_text(fields[f], &docs[i][f].iter().map(|t| term_text(*t)).collect::<Vec<_>>().join(" ")); }
            d.add_u64(idf, i as u64);
            w.add_document(d).map_err(|e| e.to_string())?;
        }
        w.commit().map_err(|e| e.to_string())?;
        start = cut;
    }
    if deleted.iter().any(|d| *d) {
        for (i, del) in deleted.iter().enumerate() { if *del { w.delete_term(Term::from_field_u64(idf, i as u64)); } }
        w.commit().map_err(|e| e.to_string())?;
    }
    w.wait_merging_threads().map_err(|e| e.to_string())?;
    let searcher = index.reader().map_err(|e| e.to_string())?.searcher();
    let mut seg_docs = vec![];
    for sr in searcher.segment_readers() {
        let col = sr.fast_fields().u64("id").map_err(|e| e.to_string())?;
        seg_docs.push((0..sr.max_doc()).map(|d| (col.first(d).unwrap_or(u64::MAX) as usize, !sr.is_deleted(d))).collect());
    }
    Ok(MfBuilt { fields, searcher, seg_docs })
}

fn multi_field(rng: &mut Rng, out: &mut CaseOut, thorough: bool, table: &[u32], seed: u64) {
    let n_corpora = if thorough { 50 } else { 9 };
    let mut coq_budget: i64 = if thorough { 500 } else { 110 };
    let profiles: [(u64, u64); 3] = [(1, 8), (10, 900), (3, 70)];   // title-like, body-like, tag-like lengths
    for ci in 0..n_corpora {
        let nf = rng.range(2, 3) as usize;
        let n_docs = match ci % 3 { 0 => rng.range(8, 60), 1 => rng.range(150, 400), _ => rng.range(400, 700) } as usize;
        let n_terms = rng.range(3, 6) as usize;
        let docs: Vec<Vec<Vec<usize>>> = (0..n_docs).map(|_| (0..nf).map(|f| {
            let (lo, hi) = profiles[f];
            let len = if rng.chance(1, 3) { let id = rng.range(0, 110) as usize; (table[id] as u64 + rng.range(0, 1)).clamp(lo, hi) } else { rng.range(lo, hi) } as usize;
            // term t of field f has its own frequency profile: rare in one field, common in another
            (0..len).map(|_| { let r = rng.below((n_terms * n_terms) as u64) as usize; let t = (r as f64).sqrt() as usize % n_terms; (t + f) % n_terms }).collect()
        }).collect()).collect();
        let n_seg = rng.range(1, 3).min(n_docs as u64) as usize;
        let mut cuts: Vec<usize> = (0..n_seg - 1).map(|_| rng.range(1, n_docs as u64 - 1) as usize).collect();
        cuts.sort(); cuts.dedup();
        let with_deletes = ci % 4 == 1;
        let mut deleted = vec![false; n_docs];
        if with_deletes {
            for i in 0..n_docs { deleted[i] = rng.chance(1, 5); }
            let mut start = 0;
            for cut in cuts.iter().cloned().chain(std::iter::once(n_docs)) { if cut > start { if (start..cut).all(|i| deleted[i]) { deleted[start] = false; } start = cut; } }
        }
        let b = match guarded(|| build_index_mf(&docs, nf, &cuts, &deleted)) {
            Ok(Ok(b)) => b,
            other => { out.spec_checked(false, json!({"what": "multi-field index build failed", "err": format!("{:?}", other.err().map(|_| ()))})); continue; }
        };
        out.count("mf_corpora", 1);
        let searcher = &b.searcher;
        let phys: Vec<usize> = b.seg_docs.iter().flatten().map(|(i, _)| *i).collect();
        let total_docs = phys.len() as u64;
        out.spec_checked(searcher.total_num_docs().ok() == Some(total_docs), json!({"what": "multi-field: total_num_docs != physical documents"}));
        // per-field statistics
        let mut tokens = vec![0u64; nf];
        let mut df: BTreeMap<(usize, usize), u64> = BTreeMap::new();
        let mut idf: BTreeMap<(usize, usize), f32> = BTreeMap::new();
        let addr_of: BTreeMap<usize, DocAddress> = b.seg_docs.iter().enumerate().flat_map(|(o, seg)| seg.iter().enumerate().map(move |(d, (i, _))| (*i, DocAddress::new(o as u32, d as u32)))).collect();
        for f in 0..nf {
            tokens[f] = phys.iter().map(|i| docs[*i][f].len() as u64).sum();
            let impl_t = Bm25StatisticsProvider::total_num_tokens(searcher, b.fields[f]).unwrap_or(u64::MAX);
            out.spec_checked(impl_t == tokens[f], json!({"what": "multi-field: total_num_tokens(field) != sum of that field's lengths", "field": f, "impl": impl_t, "corpus": tokens[f]}));
            for t in 0..n_terms {
                let n = phys.iter().filter(|i| docs[**i][f].contains(&t)).count() as u64;
                let term = Term::from_field_text(b.fields[f], &term_text(t));
                out.spec_checked(searcher.doc_freq(&term).ok() == Some(n), json!({"what": "multi-field: doc_freq(field, term) != corpus", "field": f, "term": t, "corpus": n}));
                df.insert((f, t), n);
                if let Some(i) = phys.iter().find(|i| docs[**i][f].contains(&t)) {
                    let tq = TermQuery::new(term, IndexRecordOption::WithFreqs);
                    if let Ok(Ok(e)) = guarded(|| tq.explain(searcher, addr_of[i])) {
                        let ej: Value = serde_json::from_str(&e.to_pretty_json()).unwrap();
                        if let Some(v) = find_idf(&ej) {
                            let x = ((total_docs - n) as f32 + 0.5) / (n as f32 + 0.5);
                            let want = ((1.0f32 + x) as f64).ln() as f32;
                            out.spec_checked(ulps(v, want) <= 1, json!({"what": "multi-field: idf differs from ln(1 + (N-n+0.5)/(n+0.5)) by more than 1 ulp", "field": f, "term": t, "impl": v, "f64": want}));
                            idf.insert((f, t), v);
                        }
                    }
                }
            }
        }
        // queries: conjunctions of Must term clauses, mostly on different fields, in random order
        let n_queries = if thorough { 10 } else { 8 };
        for qi in 0..n_queries {
            let k = rng.range(2, 3).min(if qi % 4 == 3 { 3 } else { nf as u64 + 1 }) as usize;
            let mut fs: Vec<usize> = (0..nf).collect();
            rng.shuffle(&mut fs);
            let clauses: Vec<(usize, usize)> = (0..k).map(|j| (fs[j % nf], rng.below(n_terms as u64) as usize)).collect();
            if clauses.iter().any(|c| !idf.contains_key(c)) { continue; }
            let with_should = qi % 5 == 4;
            let should: Option<(usize, usize)> = if with_should { Some((rng.below(nf as u64) as usize, rng.below(n_terms as u64) as usize)) } else { None };
            if let Some(c) = should { if !idf.contains_key(&c) { continue; } }
            let mk = |c: &(usize, usize)| -> Box<dyn Query> { Box::new(TermQuery::new(Term::from_field_text(b.fields[c.0], &term_text(c.1)), IndexRecordOption::WithFreqs)) };
            let mut sub: Vec<(Occur, Box<dyn Query>)> = clauses.iter().map(|c| (Occur::Must, mk(c))).collect();
            if let Some(c) = &should { sub.push((Occur::Should, mk(c))); }
            let tq = BooleanQuery::new(sub);
            let show = format!("bool[{}{}]", clauses.iter().map(|(f, t)| format!("+f{}:{}", f, term_text(*t))).collect::<Vec<_>>().join(" "), should.map(|(f, t)| format!(" f{}:{}", f, term_text(t))).unwrap_or_default());
            let ks = [n_docs + 5, 1, 3, 10];
            let r = guarded(|| -> tantivy::Result<_> {
                let mut tops = vec![];
                for k in ks { tops.push(searcher.search(&tq, &TopDocs::with_limit(k).order_by_score())?); }
                Ok((tops, searcher.search(&tq, &AllScores)?))
            });
            let (tops, all) = match r { Ok(Ok(x)) => x, other => { out.spec_checked(false, json!({"what": "multi-field search failed or panicked", "query": show, "err": format!("{:?}", other.err())})); continue; } };
            out.count("mf_queries", 1);
            if clauses.iter().map(|c| c.0).collect::<std::collections::BTreeSet<_>>().len() >= 2 { out.count("mf_queries_across_fields", 1); }
            // is the first clause NOT the rarest term (the situation where the intersection reorders its scorers)?
            if clauses.iter().skip(1).any(|c| df[c] < df[&clauses[0]]) { out.count("mf_queries_first_clause_not_rarest", 1); }
            let all_map: BTreeMap<(u32, u32), f32> = all.iter().map(|(a, s)| ((a.segment_ord, a.doc_id), *s)).collect();
            let top_maps: Vec<BTreeMap<(u32, u32), f32>> = tops.iter().map(|t| t.iter().map(|(s, a)| ((a.segment_ord, a.doc_id), *s)).collect()).collect();
            let n_leaves = clauses.len() + should.iter().count();
            let tol = 2 * (n_leaves as i64 + 1);
            let mut canon: Vec<(usize, usize, usize, bool)> = b.seg_docs.iter().enumerate().flat_map(|(o, seg)| seg.iter().enumerate().map(move |(d, (i, alive))| (*i, o, d, *alive))).collect();
            canon.sort();
            let mut n_match = 0;
            for (i, o, d, alive) in canon {
                if !alive { continue; }
                let key = (o as u32, d as u32);
                // independent evaluation, clause by clause, each with ITS field's length, average and statistics
                let clause_score = |c: &(usize, usize)| -> Option<(f32, u32, usize)> {
                    let toks = &docs[i][c.0];
                    let tf = tf_of(toks, c.1);
                    if tf == 0 { return None; }
                    let avg = tokens[c.0] as f32 / total_docs as f32;
                    let dl = table[fieldnorm_to_id(table, toks.len() as u32) as usize];
                    let norm = K1 * (1.0 - B + B * dl as f32 / avg);
                    let f = tf as f32;
                    Some(((idf[c] * (1.0 + K1)) * (f / (f + norm)), tf, toks.len()))
                };
                let musts: Vec<Option<(f32, u32, usize)>> = clauses.iter().map(|c| clause_score(c)).collect();
                let desc = json!({"query": show, "doc": i, "addr": [o, d], "field_lens": docs[i].iter().map(|t| t.len()).collect::<Vec<_>>(), "N": total_docs, "T": tokens, "segments": b.seg_docs.len(), "deletes": with_deletes, "seed": seed, "mf_corpus": ci});
                if musts.iter().any(|m| m.is_none()) {
                    out.spec_checked(!all_map.contains_key(&key) && top_maps.iter().all(|m| !m.contains_key(&key)), json!({"what": "multi-field: a non-matching document was scored", "case": desc}));
                    continue;
                }
                n_match += 1;
                out.count("mf_matching_docs", 1);
                let mut parts: Vec<((usize, usize), f32, u32, usize)> = clauses.iter().zip(musts.iter()).map(|(c, m)| { let m = m.unwrap(); (*c, m.0, m.1, m.2) }).collect();
                if let Some(c) = &should { if let Some(m) = clause_score(c) { parts.push((*c, m.0, m.1, m.2)); } }
                let want = parts.iter().fold(0.0f32, |a, p| a + p.1);
                let want64: f64 = parts.iter().map(|p| {
                    let (c, tf, len) = (p.0, p.2 as f64, p.3);
                    let dl = table[fieldnorm_to_id(table, len as u32) as usize] as f64;
                    idf[&c] as f64 * 2.2 * tf / (tf + 1.2 * (0.25 + 0.75 * dl / (tokens[c.0] as f64 / total_docs as f64)))
                }).sum();
                let Some(&s_all) = all_map.get(&key) else { out.spec_checked(false, json!({"what": "multi-field: matching document missing from the scoring collector", "case": desc})); continue; };
                out.spec_checked(ulps(want, s_all) <= tol, json!({"what": "multi-field: score differs from the sum of the clauses' BM25 scores, each over its own field", "impl": s_all, "want": want, "case": desc}));
                out.spec_checked(((s_all as f64) - want64).abs() <= 1e-5 * want64.abs() * (1.0 + n_leaves as f64), json!({"what": "multi-field: score differs from the exact formula", "impl": s_all, "formula": want64, "case": desc}));
                // every K of TopDocs against the scoring collector
                for (ki, m) in top_maps.iter().enumerate() {
                    match m.get(&key) {
                        Some(&s_top) => {
                            out.spec_checked(ulps(s_top, s_all) <= tol, json!({"what": "multi-field: TopDocs and the scoring collector differ by more than the rounding of the sum", "k": ks[ki], "topdocs": s_top, "collector": s_all, "want": want, "case": desc}));
                            out.count("mf_topdocs_scores_compared", 1);
                        }
                        None if ki == 0 => out.spec_checked(false, json!({"what": "multi-field: matching document missing from TopDocs(K >= number of documents)", "case": desc})),
                        None => {}
                    }
                }
                // explain: value, one detail per matching clause, each detail the clause's own score with its field's dl / avgdl
                let addr = DocAddress::new(o as u32, d as u32);
                let (e_val, ej) = match guarded(|| tq.explain(searcher, addr)) {
                    Ok(Ok(e)) => (e.value(), serde_json::from_str::<Value>(&e.to_pretty_json()).unwrap_or(Value::Null)),
                    other => { out.spec_checked(false, json!({"what": "multi-field: explain failed on a matching document", "err": format!("{:?}", other.map(|r| r.map(|_| ()))), "case": desc})); continue; }
                };
                out.spec_checked(ulps(e_val, s_all) <= tol, json!({"what": "multi-field: explain value differs from the score", "explain": e_val, "score": s_all, "case": desc}));
                let ds = jdetails(&ej);
                let mut bad: Vec<String> = vec![];
                if ds.len() != parts.len() { bad.push(format!("{} details for {} matching clauses", ds.len(), parts.len())); } else {
                    for (p, dnode) in parts.iter().zip(ds.iter()) {
                        if jf(dnode).to_bits() != p.1.to_bits() { bad.push(format!("clause f{}:{} explained as {} but its BM25 score over its own field is {}", p.0 .0, term_text(p.0 .1), jf(dnode), p.1)); }
                        let nd = jdetails(dnode);
                        if nd.len() == 3 {
                            let td = jdetails(nd[2]);
                            if td.len() == 5 {
                                let dl = table[fieldnorm_to_id(table, p.3 as u32) as usize] as f32;
                                if jf(td[0]).to_bits() != (p.2 as f32).to_bits() { bad.push("freq".into()); }
                                if jf(td[3]).to_bits() != dl.to_bits() { bad.push(format!("dl {} vs the field's quantised length {}", jf(td[3]), dl)); }
                                if jf(td[4]).to_bits() != (tokens[p.0 .0] as f32 / total_docs as f32).to_bits() { bad.push(format!("avgdl {} vs the field's average", jf(td[4]))); }
                            } else { bad.push("tf node shape".into()); }
                        } else { bad.push("term node shape".into()); }
                    }
                    let sum = ds.iter().fold(0.0f32, |a, x| a + jf(x));
                    if ulps(sum, e_val) > tol { bad.push(format!("bool node {} != sum of details {}", e_val, sum)); }
                }
                out.spec_checked(bad.is_empty(), json!({"what": "multi-field: explanation does not show each clause over its own field's statistics", "broken": bad, "case": desc}));
                // Coq: each clause against the Flocq model with its field's (sum of tokens, N, length); the sums within n ulps
                if coq_budget > 0 && ds.len() == parts.len() && rng.chance(1, if n_docs > 100 { 25 } else { 3 }) {
                    coq_budget -= 1;
                    let mut conj: Vec<String> = vec![];
                    for (p, dnode) in parts.iter().zip(ds.iter()) {
                        conj.push(format!("score_bits_agree {} {} (FLeaf [{}] (Some (fieldnorm_to_id {}, {}))) (Some {})", tokens[p.0 .0], total_docs, z(idf[&p.0].to_bits()), p.3, p.2, z(jf(dnode).to_bits())));
                    }
                    let sum_term = format!("(to_bits (fsum [{}]))", ds.iter().map(|x| format!("of_bits {}", z(jf(x).to_bits()))).collect::<Vec<_>>().join(";"));
                    conj.push(format!("within_ulps {} {} {}", tol, sum_term, z(s_all.to_bits())));
                    conj.push(format!("within_ulps {} {} {}", tol, sum_term, z(e_val.to_bits())));
                    for m in top_maps.iter() { if let Some(s_top) = m.get(&key) { conj.push(format!("within_ulps {} {} {}", tol, sum_term, z(s_top.to_bits()))); } }
                    out.coq_case("tie", conj.join(" && "), json!({"what": "multi-field conjunction: every clause vs Flocq over its own field; collector, explain and every TopDocs K within the rounding of the sum", "score": s_all, "case": desc}), b.seg_docs.len() >= 2 || nf >= 2);
                    let p = &parts[0];
                    out.coq_case("spec", format!("formula_close {} {} {} {} {} {} {}", total_docs, tokens[p.0 .0], z(idf[&p.0].to_bits()), p.3, p.2, z(1.0f32.to_bits()), z(jf(ds[0]).to_bits())),
                                 json!({"what": "multi-field: first clause vs the exact-rational formula over its own field", "case": desc}), true);
                }
            }
            out.spec_checked(all.len() == n_match, json!({"what": "multi-field: the scoring collector saw a different number of documents than match", "collector": all.len(), "matching": n_match, "query": show}));
            if n_match > 0 { out.count("mf_queries_with_matches", 1); }
        }
    }
}

// ------------------------------------------------------------------------------------------------

fn main() {
    let args = Args::parse();
    tvh::quiet_panics();
    let mut rng = Rng::new(args.seed);
    let thorough = args.thorough();
    let mut out = CaseOut::new(&args.out, HEADER, 60);
    let table: Vec<u32> = (0..=255u8).map(FieldNormReader::id_to_fieldnorm).collect();

    // ---------------- (A) Bm25Weight driven directly over all 256 field-norm ids ----------------
    let n_w = if thorough { 60 } else { 12 };
    let mut coq_a = if thorough { 700 } else { 170 };
    for wi in 0..n_w {
        let total_docs: u64 = match wi % 4 { 0 => rng.range(1, 50), 1 => rng.range(50, 100_000), 2 => rng.range(1 << 24, 1 << 26), _ => rng.range(1, 5000) };
        let n: u64 = match wi % 3 { 0 => rng.range(0, total_docs.min(5)), 1 => total_docs - rng.range(0, total_docs.min(3)), _ => rng.range(0, total_docs) };
        let total_tokens: u64 = match wi % 5 { 0 => total_docs, 1 => total_docs * rng.range(1, 3000) + rng.range(0, 100), 2 => rng.range(1, total_docs.max(2)), _ => total_docs * rng.range(1, 40) + rng.range(0, 10) };
        let boost = if wi % 2 == 0 { 1.0 } else { gen_boost(&mut rng) };
        let avg = total_tokens as f32 / total_docs as f32;
        let w0 = match guarded(|| Bm25Weight::for_one_term(n, total_docs, avg)) { Ok(w) => w, Err(m) => { out.spec_checked(false, json!({"what": "Bm25Weight::for_one_term panicked", "msg": m, "n": n, "N": total_docs})); continue; } };
        let w = w0.boost_by(boost);
        // idf oracle from the explanation + independent check against f64 ln
        let ej: Value = serde_json::from_str(&w0.explain(0, 1).to_pretty_json()).unwrap();
        let idf = find_idf(&ej).unwrap_or(f32::NAN);
        let x = ((total_docs - n) as f32 + 0.5) / (n as f32 + 0.5);
        let idf64 = ((1.0f32 + x) as f64).ln() as f32;
        out.spec_checked(ulps(idf, idf64) <= 1, json!({"what": "idf differs from ln(1 + (N-n+0.5)/(n+0.5)) by more than 1 ulp", "n": n, "N": total_docs, "impl": idf, "f64": idf64}));
        let max_score = w.max_score();
        for id in 0..=255u8 {
            let dl = table[id as usize];
            let mut tfs = vec![1u32, 2, 3, 10, 1000, dl, dl.saturating_add(1), 2_013_265_944, u32::MAX];
            tfs.push(rng.range(1, 5000) as u32);
            for tf in tfs {
                let s = w.score(id, tf);
                // independent evaluation, same order of operations
                let mut wt = idf * (1.0 + K1);
                if boost != 1.0 { wt *= boost; }
                let norm = K1 * (1.0 - B + B * dl as f32 / avg);
                let f = tf as f32;
                let mine = wt * (f / (f + norm));
                let ok = mine.to_bits() == s.to_bits() || (mine.is_nan() && s.is_nan());
                out.spec_checked(ok, json!({"what": "Bm25Weight::score differs from the formula evaluated in f32", "n": n, "N": total_docs, "T": total_tokens, "id": id, "tf": tf, "boost": boost, "impl": s, "want": mine}));
                // what max_score dominates (C12_max_score_bounds_tf_le_decoded_len), up to rounding
                if tf <= dl && tf > 0 {
                    out.spec_checked(s <= max_score * (1.0 + 4.0 * f32::EPSILON), json!({"what": "score(id, tf <= decoded length) exceeds max_score", "id": id, "tf": tf, "score": s, "max_score": max_score}));
                    out.count("max_score_bound_checked", 1);
                }
                out.count("weight_api_scores", 1);
                if coq_a > 0 && (tf == dl || rng.chance(1, 40)) && s.is_finite() && tf > 0 && rng.chance(1, 3) {
                    coq_a -= 1;
                    let term = format!("score_bits_agree {} {} (FBoost (FLeaf [{}] (Some ({}, {}))) {}) (Some {})", total_tokens, total_docs, z(idf.to_bits()), id, tf, z(boost.to_bits()), z(s.to_bits()));
                    out.coq_case("tie", term, json!({"what": "Bm25Weight::score", "n": n, "N": total_docs, "T": total_tokens, "fieldnorm_id": id, "tf": tf, "boost": boost, "score": s}), true);
                }
            }
        }
        out.spec_checked(max_score.to_bits() == w.score(255, 2_013_265_944).to_bits(), json!({"what": "max_score != score(255, 2013265944)"}));
    }
    // F6 characterisation replayed on the implementation: the witness of C12_max_score_is_not_upper_bound_refuted
    {
        let avg = 2497.0f32 / 999.0;
        let w = Bm25Weight::for_one_term(2, 999, avg);
        let id = fieldnorm_to_id(&table, 1000);
        let (s, m) = (w.score(id, 1000), w.max_score());
        out.count(if s > m { "f6_witness_score_exceeds_max_score" } else { "f6_witness_no_longer_exceeds" }, 1);
        let ej: Value = serde_json::from_str(&w.explain(0, 1).to_pretty_json()).unwrap();
        let idf = find_idf(&ej).unwrap_or(f32::NAN);
        out.coq_case("tie", format!("score_bits_agree 2497 999 (FLeaf [{}] (Some (fieldnorm_to_id 1000, 1000))) (Some {}) && score_bits_agree 2497 999 (FLeaf [{}] (Some (BM25_MAX_SCORE_FIELDNORM_ID, BM25_MAX_SCORE_TF))) (Some {})", z(idf.to_bits()), z(s.to_bits()), z(idf.to_bits()), z(m.to_bits())),
                     json!({"what": "F6 witness: score of a 1000-token single-term document vs max_score", "score": s, "max_score": m}), true);
    }

    // ---------------- (B) end to end ----------------
    let n_corpora = if thorough { 240 } else { 40 };
    let n_queries = if thorough { 14 } else { 9 };
    let mut coq_b: i64 = if thorough { 2200 } else { 520 };
    let mut coq_stats: i64 = if thorough { 200 } else { 50 };
    let mut coq_f42: i64 = if thorough { 80 } else { 25 };
    let mut coq_huge: i64 = if thorough { 300 } else { 90 };
    let (mut coq_f40, mut coq_f41): (i64, i64) = if thorough { (150, 150) } else { (40, 40) };
    for ci in 0..n_corpora {
        let big = ci % 8 == 7;
        // one segment of ~9000 small documents: matches spread over every 4096-doc window of the union scorers
        let huge = ci == 2 || (thorough && ci % 40 == 22);
        let n_docs: usize = if huge { 9000 + rng.range(0, 600) as usize } else if big { rng.range(200, 700) as usize } else { (match ci % 4 { 0 => rng.range(1, 6), 1 => rng.range(5, 25), _ => rng.range(10, 60) }) as usize };
        let max_len = if big { 40 } else if thorough && ci % 16 == 3 { 140_000 } else if ci % 5 == 2 { 9000 } else { 700 };
        let corpus = if huge {
            let mut hr = rng.fork();
            Corpus { n_terms: 4, docs: (0..n_docs).map(|_| { let l = hr.range(1, 5) as usize; (0..l).map(|_| hr.below(4) as usize).collect() }).collect() }
        } else { gen_corpus(&mut rng, &table, n_docs, max_len) };
        let n_seg = if huge { rng.range(1, 2) as usize } else { rng.range(1, 6).min(n_docs as u64) as usize };
        let mut cuts: Vec<usize> = (0..n_seg - 1).map(|_| rng.range(1, if huge { 300 } else { n_docs as u64 - 1 }).max(1) as usize).collect();
        cuts.sort(); cuts.dedup();
        let with_deletes = ci % 3 == 1 && n_docs >= 2 && !huge;
        if huge { out.count("huge_segment_corpora", 1); }
        let probing = !huge && n_docs <= 80 && ci % 3 == 0;
        let mut deleted = vec![false; n_docs];
        if with_deletes {
            for i in 0..n_docs { deleted[i] = rng.chance(1, 4); }
            // keep one alive document in every segment (a fully deleted segment is dropped at commit)
            let mut start = 0;
            for cut in cuts.iter().cloned().chain(std::iter::once(n_docs)) { if cut > start { if (start..cut).all(|i| deleted[i]) { deleted[start] = false; } start = cut; } }
        }
        let built = match guarded(|| build_index(&corpus, &cuts, &deleted)) {
            Ok(Ok(b)) => b,
            other => { out.spec_checked(false, json!({"what": "index build failed", "err": format!("{:?}", other.err())})); continue; }
        };
        let (searcher, field) = (&built.searcher, built.field);
        out.count("corpora", 1);
        out.count(&format!("segments_{}", searcher.segment_readers().len()), 1);
        if with_deletes { out.count("corpora_with_deletes", 1); }
        // histogram of quantisation buckets reached
        for d in &corpus.docs { out.count(&format!("fieldnorm_bucket_{:03}", fieldnorm_to_id(&table, d.len() as u32) / 16 * 16), 1); }

        // ---- statistics: corpus-derived (physical docs incl. deleted) vs the implementation
        let phys: Vec<usize> = built.seg_docs.iter().flatten().map(|(i, _)| *i).collect();
        let total_docs = phys.len() as u64;
        let total_tokens: u64 = phys.iter().map(|i| corpus.docs[*i].len() as u64).sum();
        let impl_n_docs = searcher.total_num_docs().unwrap_or(u64::MAX);
        let impl_tokens = Bm25StatisticsProvider::total_num_tokens(searcher, field).unwrap_or(u64::MAX);
        out.spec_checked(impl_n_docs == total_docs, json!({"what": "total_num_docs != number of physical documents", "impl": impl_n_docs, "corpus": total_docs}));
        out.spec_checked(impl_tokens == total_tokens, json!({"what": "total_num_tokens != sum of field lengths", "impl": impl_tokens, "corpus": total_tokens}));
        let mut df: BTreeMap<usize, u64> = BTreeMap::new();
        for t in 0..corpus.n_terms {
            let n = phys.iter().filter(|i| corpus.docs[**i].contains(&t)).count() as u64;
            let impl_n = searcher.doc_freq(&Term::from_field_text(field, &term_text(t))).unwrap_or(u64::MAX);
            out.spec_checked(impl_n == n, json!({"what": "doc_freq != number of physical documents containing the term", "term": t, "impl": impl_n, "corpus": n}));
            df.insert(t, n);
            // Coq spec: stats_of on the shipped corpus / aggregation of the per-segment triples
            if coq_stats > 0 && t == 0 {
                coq_stats -= 1;
                if total_tokens <= 600 {
                    let mut canon_segs = built.seg_docs.clone(); canon_segs.sort();
                    let sr = tvh::coqfmt::list(&canon_segs, |seg| tvh::coqfmt::list(seg, |(i, alive)| format!("({}, {})", tvh::coqfmt::ns(&corpus.docs[*i]), alive)));
                    out.coq_case("spec", format!("stats_check {} 0 {} {} {}", sr, impl_n_docs, impl_n, impl_tokens),
                                 json!({"what": "searcher statistics vs stats_of(corpus)", "segments": built.seg_docs.len(), "docs": total_docs, "deletes": with_deletes}), built.seg_docs.len() >= 2);
                } else {
                    let term = Term::from_field_text(field, &term_text(0));
                    let triples: Vec<(u64, u64, u64)> = searcher.segment_readers().iter().map(|sr| {
                        let inv = sr.inverted_index(field).unwrap();
                        (sr.max_doc() as u64, inv.doc_freq(&term).unwrap_or(0) as u64, inv.total_num_tokens())
                    }).collect();
                    // each per-segment triple against the corpus
                    for (seg, tr) in built.seg_docs.iter().zip(triples.iter()) {
                        let want = (seg.len() as u64, seg.iter().filter(|(i, _)| corpus.docs[*i].contains(&0)).count() as u64, seg.iter().map(|(i, _)| corpus.docs[*i].len() as u64).sum::<u64>());
                        out.spec_checked(want == *tr, json!({"what": "per-segment (max_doc, doc_freq, total_num_tokens) differ from the corpus", "impl": format!("{:?}", tr), "corpus": format!("{:?}", want)}));
                    }
                    let mut sorted_triples = triples.clone(); sorted_triples.sort();
                    out.coq_case("spec", format!("agg_check {} {} {} {}", tvh::coqfmt::list(&sorted_triples, |(a, b, c)| format!("({}, {}, {})", a, b, c)), impl_n_docs, impl_n, impl_tokens),
                                 json!({"what": "searcher statistics vs sum of the per-segment statistics", "segments": triples.len()}), triples.len() >= 2);
                }
            }
        }

        // ---- idf oracle per term (from the implementation's explanation), checked against f64 ln
        let mut idf: BTreeMap<usize, f32> = BTreeMap::new();
        let addr_of: BTreeMap<usize, DocAddress> = built.seg_docs.iter().enumerate().flat_map(|(o, seg)| seg.iter().enumerate().map(move |(d, (i, _))| (*i, DocAddress::new(o as u32, d as u32)))).collect();
        for t in 0..corpus.n_terms {
            if let Some(i) = phys.iter().find(|i| corpus.docs[**i].contains(&t)) {
                let q = Q::Term(t).build(field);
                if let Ok(Ok(e)) = guarded(|| q.explain(searcher, addr_of[i])) {
                    let ej: Value = serde_json::from_str(&e.to_pretty_json()).unwrap();
                    if let Some(v) = find_idf(&ej) {
                        let n = df[&t];
                        let x = ((total_docs - n) as f32 + 0.5) / (n as f32 + 0.5);
                        let want = ((1.0f32 + x) as f64).ln() as f32;
                        out.spec_checked(ulps(v, want) <= 1, json!({"what": "idf differs from ln(1 + (N-n+0.5)/(n+0.5)) over the searcher's statistics by more than 1 ulp", "term": t, "n": n, "N": total_docs, "impl": v, "f64": want}));
                        idf.insert(t, v);
                    }
                }
            }
        }
        // oracle contract: idf is non-increasing in the document frequency
        let mut by_n: Vec<(u64, f32)> = idf.iter().map(|(t, v)| (df[t], *v)).collect();
        by_n.sort_by(|a, b| a.0.cmp(&b.0));
        out.spec_checked(by_n.windows(2).all(|w| w[0].1 >= w[1].1), json!({"what": "idf oracle not monotone in doc_freq", "table": format!("{:?}", by_n)}));

        // ---- queries
        let mut queries: Vec<Q> = vec![Q::Term(0), Q::Phrase(vec![0, 1]), Q::Boost(Box::new(Q::Term(rng.below(corpus.n_terms as u64) as usize)), 3.7),
                                      Q::DisMax(vec![Q::Term(0), Q::Term(1)], 0.25)];
        if huge {
            let t = |i: usize| Q::Term(i);
            queries = vec![
                Q::DisMax(vec![t(0), t(1)], 0.25),
                Q::DisMax(vec![Q::Boost(Box::new(t(0)), 2.0), t(1), t(2)], 0.5),
                Q::Boost(Box::new(Q::DisMax(vec![t(0), t(1)], 0.7)), 1.0),
                Q::Bool(vec![(Occ::Must, t(3)), (Occ::Should, Q::DisMax(vec![t(1), t(2)], 0.25))]),
                Q::DisMax(vec![Q::Phrase(vec![0, 1]), t(2), Q::Const(Box::new(t(3)), 0.42)], 0.5),
                Q::Bool(vec![(Occ::Should, t(0)), (Occ::Should, t(1)), (Occ::Should, t(2))]),
            ];
        }
        while queries.len() < n_queries { queries.push(gen_query(&mut rng, corpus.n_terms, 2)); }
        // directed: conjunctions in which a COMPOSITE clause (required/optional, union, dis-max, const, nested
        // conjunction) is ANDed with a strictly rarer clause, in both orders: Intersection drives its cheapest clause
        // with seek()/advance() and moves every other clause with seek_danger(), so the composite scorers are scored
        // after seek_danger on every document but the first
        {
            let mut by_df: Vec<usize> = idf.keys().cloned().collect();
            by_df.sort_by_key(|t| (df[t], *t));
            if by_df.len() >= 3 {
                let (rare, common, mid) = (by_df[0], by_df[by_df.len() - 1], by_df[by_df.len() / 2]);
                let other = by_df[1];
                let composite = |kind: u64, a: usize, b: usize| -> Q {
                    match kind {
                        0 => Q::Bool(vec![(Occ::Must, Q::Term(a)), (Occ::Should, Q::Term(b))]),
                        1 => Q::Bool(vec![(Occ::Should, Q::Term(a)), (Occ::Should, Q::Term(b))]),
                        2 => Q::DisMax(vec![Q::Term(a), Q::Term(b)], 0.5),
                        3 => Q::Bool(vec![(Occ::Must, Q::Term(a)), (Occ::Should, Q::Boost(Box::new(Q::Term(b)), 2.0)), (Occ::Should, Q::Term(other))]),
                        4 => Q::Boost(Box::new(Q::Bool(vec![(Occ::Must, Q::Term(a)), (Occ::Should, Q::Term(b))])), 1.5),
                        5 => Q::Bool(vec![(Occ::Must, Q::Term(a)), (Occ::Should, Q::Phrase(vec![a, b]))]),
                        _ => Q::Bool(vec![(Occ::Must, Q::Term(a)), (Occ::Should, Q::Const(Box::new(Q::Term(b)), 0.42))]),
                    }
                };
                let n_directed = if huge { 2 } else { 4 };
                for j in 0..n_directed {
                    let kind = if j == 0 { 0 } else { rng.below(7) };
                    let comp = composite(kind, common, mid);
                    let lead = if rng.chance(1, 4) { Q::Boost(Box::new(Q::Term(rare)), 2.0) } else { Q::Term(rare) };
                    let mut cs = if rng.chance(1, 2) { vec![(Occ::Must, comp), (Occ::Must, lead)] } else { vec![(Occ::Must, lead), (Occ::Must, comp)] };
                    if rng.chance(1, 4) { cs.push((Occ::Must, composite(rng.below(7), mid, common))); }
                    if rng.chance(1, 5) { cs.push((Occ::Should, Q::Term(other))); }
                    queries.push(Q::Bool(cs));
                    out.count("directed_composite_conjunctions", 1);
                }
            }
        }
        for q in &queries {
            let mut ts = vec![]; q.terms(&mut ts);
            if ts.iter().any(|t| !idf.contains_key(t)) { out.count("queries_skipped_term_absent", 1); continue; }
            let tq = q.build(field);
            let probe_ctr = Arc::new(AtomicU64::new(0));
            let tqp = if probing { Some(q.build_p(field, Some(&probe_ctr))) } else { None };
            let mut firsts_cache: BTreeMap<usize, Vec<u32>> = BTreeMap::new();
            // on the huge segment a top-level dis-max goes through TopDocs with a small K only (its TopDocs path is F40:
            // thousands of identical known cases add nothing); every document is still checked through the
            // scoring collector (for_each -> BufferedUnionScorer) and explain
            let full_top = !(huge && matches!(q, Q::DisMax(..)));
            let k_all = if full_top { n_docs + 5 } else { 10 };
            let k_small = rng.range(1, 4) as usize;
            let r = guarded(|| -> tantivy::Result<_> {
                let top_all = searcher.search(&*tq, &TopDocs::with_limit(k_all).order_by_score())?;
                let top_small = searcher.search(&*tq, &TopDocs::with_limit(k_small).order_by_score())?;
                let all = searcher.search(&*tq, &AllScores)?;
                Ok((top_all, top_small, all))
            });
            let (top_all, top_small, all) = match r {
                Ok(Ok(x)) => x,
                other => { out.spec_checked(false, json!({"what": "search failed or panicked", "query": q.show(), "err": format!("{:?}", other.err())})); continue; }
            };
            out.count("queries", 1);
            out.count(&format!("query_top_{}", q.kind()), 1);
            let single = q.n_leaves() == 1;
            let tol = 2 * q.n_nodes() as i64;
            let f40_shape = matches!(q, Q::DisMax(qs, _) if qs.len() >= 2);
            let all_map: BTreeMap<(u32, u32), f32> = all.iter().map(|(a, s)| ((a.segment_ord, a.doc_id), *s)).collect();
            let top_map: BTreeMap<(u32, u32), f32> = top_all.iter().map(|(s, a)| ((a.segment_ord, a.doc_id), *s)).collect();
            // the set of matching alive documents, by the harness's own evaluation
            let mut n_match = 0;
            let mut canon: Vec<(usize, usize, usize, bool)> = built.seg_docs.iter().enumerate().flat_map(|(o, seg)| seg.iter().enumerate().map(move |(d, (i, alive))| (*i, o, d, *alive))).collect();
            canon.sort();
            {
                for (i, o, d, alive) in canon.iter().map(|(i, o, d, a)| (i, *o, *d, a)) {
                    if !*alive { continue; }
                    let ctx = DocCtx { tokens: &corpus.docs[*i], total_tokens, total_docs, idf: &idf, table: &table };
                    let key = (o as u32, d as u32);
                    let mine = match ctx.score(q, 1.0) { Ok(x) => x, Err(_) => continue };
                    let desc = json!({"query": q.show(), "doc": i, "addr": [o, d], "len": corpus.docs[*i].len(), "N": total_docs, "T": total_tokens, "segments": built.seg_docs.len(), "deletes": with_deletes, "seed": args.seed, "corpus": ci});
                    let addr = DocAddress::new(o as u32, d as u32);
                    let expl = guarded(|| tq.explain(searcher, addr));
                    // DocSet-contract probe: the same query with every term leaf wrapped; explain must never seek backwards
                    if let Some(tqp) = &tqp {
                        let before = probe_ctr.load(Ordering::SeqCst);
                        let pe = guarded(|| tqp.explain(searcher, addr));
                        let viol = probe_ctr.load(Ordering::SeqCst) - before;
                        // the wrapped query is the same query with other scorer types (no TermScorer specialisations): for a single
                        // scoring clause its explain value is bit-identical; for several the additions of the combiners /
                        // intersections may be done in another order, so the usual rounding-of-the-sum rule applies
                        let same = match (&expl, &pe) {
                            (Ok(Ok(a)), Ok(Ok(b))) => if single { a.value().to_bits() == b.value().to_bits() } else { ulps(a.value(), b.value()) <= tol },
                            (Ok(Err(_)), Ok(Err(_))) => true,
                            _ => false,
                        };
                        out.spec_checked(same, json!({"what": "explain of the probe-wrapped query differs from explain of the query", "plain": format!("{:?}", expl.as_ref().map(|r| r.as_ref().map(|e| e.value()).map_err(|e| e.to_string()))), "probed": format!("{:?}", pe.as_ref().map(|r| r.as_ref().map(|e| e.value()).map_err(|e| e.to_string()))), "case": desc}));
                        out.count("probe_explains", 1);
                        if viol > 0 {
                            let firsts = firsts_cache.entry(o).or_insert_with(|| {
                                let mut nodes = vec![]; q.unguarded_nodes(&mut nodes);
                                nodes.iter().map(|n| built.seg_docs[o].iter().position(|(i2, _)| {
                                    DocCtx { tokens: &corpus.docs[*i2], total_tokens, total_docs, idf: &idf, table: &table }.is_hit(n)
                                }).map(|p| p as u32).unwrap_or(2147483647)).collect()
                            }).clone();
                            out.count("f42_explain_backward_seek", 1);
                            let d42 = json!({"what": "explain() calls seek(target) with target < scorer.doc() on a fresh scorer (DocSet contract; a panic in debug builds)", "known": "F42", "backward_seeks": viol, "doc_id": d, "first_match_of_unguarded_nodes": firsts, "matching": mine.is_some(), "case": desc});
                            if coq_f42 > 0 {
                                coq_f42 -= 1;
                                out.coq_case("known:F42", format!("known_f42 {} {}", d, tvh::coqfmt::ns(&firsts)), d42, true);
                            } else if firsts.iter().any(|f| (d as u32) < *f) {
                                out.spec_checked(false, d42);   // bulk: same classifier, decided on the Rust side
                            } else {
                                out.spec_checked(false, json!({"what": "explain() seeks backwards (outside the class of F42)", "backward_seeks": viol, "case": desc}));
                            }
                        } else { out.spec_checked(true, Value::Null); }
                    }
                    let Some(want) = mine else {
                        // not matching: no collector reports it, explain refuses
                        out.spec_checked(!all_map.contains_key(&key) && !top_map.contains_key(&key), json!({"what": "a non-matching document was scored", "case": desc}));
                        if rng.chance(1, 8) { out.spec_checked(matches!(expl, Ok(Err(_))), json!({"what": "explain succeeded on a non-matching document", "case": desc})); }
                        continue;
                    };
                    n_match += 1;
                    out.count("matching_docs", 1);
                    let Some(&s_all) = all_map.get(&key) else { out.spec_checked(false, json!({"what": "matching document missing from the scoring collector", "case": desc})); continue; };
                    // (1) collectors / K
                    let mut f40_hit = false;
                    if let Some(&s_top) = top_map.get(&key) {
                        let ok = if single { s_top.to_bits() == s_all.to_bits() } else { ulps(s_top, s_all) <= tol };
                        if !ok && f40_shape {
                            f40_hit = true;
                            out.count("f40_topdocs_sum_instead_of_dismax", 1);
                            let d40 = json!({"what": "TopDocs score of a DisjunctionMaxQuery is not max+tie*(sum-max)", "known": "F40", "topdocs": s_top, "scoring_collector": s_all, "case": desc});
                            let term = if coq_f40 > 0 { fq_term(q, &ctx) } else { None };
                            match term {
                                Some(t) => { coq_f40 -= 1; out.coq_case("known:F40", format!("known_f40 {} {} {} {}", total_tokens, total_docs, t, z(s_top.to_bits())), d40, true); }
                                None if ctx.known_f40(q, s_top) => out.spec_checked(false, d40),   // bulk: same classifier, decided on the Rust side
                                None => out.spec_checked(false, json!({"what": "TopDocs and scoring collector disagree (outside the class of F40)", "topdocs": s_top, "collector": s_all, "case": desc})),
                            }
                        } else {
                            out.spec_checked(ok, json!({"what": if single { "TopDocs and the scoring collector are not bit-identical on a single scoring clause" } else { "TopDocs and the scoring collector differ by more than the rounding of the sum" }, "topdocs": s_top, "collector": s_all, "case": desc}));
                        }
                    } else if full_top {
                        out.spec_checked(false, json!({"what": "matching document missing from TopDocs(K >= number of documents)", "case": desc}));
                    }
                    if let (Some((s_small, _)), Some(&s_top)) = (top_small.iter().find(|(_, a)| (a.segment_ord, a.doc_id) == key), top_map.get(&key)) {
                        let ok = if single { s_small.to_bits() == s_top.to_bits() } else { ulps(*s_small, s_top) <= tol };
                        out.spec_checked(ok, json!({"what": "the score depends on K", "k_small": k_small, "small": s_small, "all": s_top, "case": desc}));
                        out.count("two_k_compared", 1);
                    }
                    // (3) independent f32 evaluation + f64 formula
                    let ok = if single { want.to_bits() == s_all.to_bits() } else { ulps(want, s_all) <= tol };
                    out.spec_checked(ok, json!({"what": "score differs from the independent f32 evaluation of BM25 over the searcher's statistics", "impl": s_all, "want": want, "case": desc}));
                    if let Some(f64v) = ctx.formula64(q) {
                        out.spec_checked(((s_all as f64) - f64v).abs() <= 1e-5 * f64v.abs().max(1e-30) * (1.0 + q.n_nodes() as f64), json!({"what": "score differs from the exact formula", "impl": s_all, "formula": f64v, "case": desc}));
                    }
                    // (2) explain
                    let (e_val, e_json) = match expl {
                        Ok(Ok(e)) => (e.value(), serde_json::from_str::<Value>(&e.to_pretty_json()).unwrap_or(Value::Null)),
                        other => { out.spec_checked(false, json!({"what": "explain failed on a matching document", "err": format!("{:?}", other.map(|r| r.map(|_| ()))), "case": desc})); continue; }
                    };
                    let mut f41_hit = false;
                    if single {
                        if e_val.to_bits() != s_all.to_bits() {
                            if q.has_boost() {
                                f41_hit = true;
                                out.count("f41_boost_explain_rounding", 1);
                                let d41 = json!({"what": "explain value and score differ in bits on a single boosted clause", "known": "F41", "score": s_all, "explain": e_val, "case": desc});
                                let mirror = want.to_bits() == s_all.to_bits() && ctx.explain(q).ok().flatten().map(|x| x.to_bits()) == Some(e_val.to_bits());
                                let term = if coq_f41 > 0 { fq_term(q, &ctx) } else { None };
                                match term {
                                    Some(t) => { coq_f41 -= 1; out.coq_case("known:F41", format!("known_f41 {} {} {} {} {}", total_tokens, total_docs, t, z(s_all.to_bits()), z(e_val.to_bits())), d41, true); }
                                    None if mirror => out.spec_checked(false, d41),   // bulk: same classifier, decided on the Rust side
                                    None => out.spec_checked(false, json!({"what": "explain != score on a single boosted clause (outside the class of F41)", "score": s_all, "explain": e_val, "case": desc})),
                                }
                            } else {
                                out.spec_checked(false, json!({"what": "explain value is not bit-identical to the score on a single scoring clause", "score": s_all, "explain": e_val, "case": desc}));
                            }
                        } else { out.spec_checked(true, Value::Null); }
                    } else {
                        out.spec_checked(ulps(e_val, s_all) <= tol, json!({"what": "explain value differs from the score by more than the rounding of the sum", "score": s_all, "explain": e_val, "case": desc}));
                    }
                    let mut bad = vec![];
                    check_expl(q, &e_json, &ctx, &df, &mut bad);
                    out.spec_checked(bad.is_empty(), json!({"what": "explanation tree is not internally consistent / does not show the searcher's statistics", "broken": bad, "case": desc}));
                    let mine_e = ctx.explain(q).ok().flatten();
                    out.spec_checked(mine_e.map(|x| if single { x.to_bits() == e_val.to_bits() } else { ulps(x, e_val) <= tol }).unwrap_or(false), json!({"what": "explain value differs from the independent f32 evaluation of the explain arithmetic", "impl": e_val, "want": format!("{:?}", mine_e), "case": desc}));
                    // ---- Coq cases (sample)
                    let take = !f40_hit && !f41_hit && if huge { coq_huge > 0 && rng.chance(1, 600) } else { coq_b > 0 && (rng.chance(1, 3) || (single && rng.chance(1, 2))) };
                    if take {
                        if let Some(t) = fq_term(q, &ctx) {
                            if huge { coq_huge -= 1; out.count("huge_segment_coq_cases", 1); if *i >= 4200 { out.count("huge_segment_coq_cases_beyond_first_window", 1); } } else { coq_b -= 1; }
                            let nontrivial = built.seg_docs.len() >= 2;
                            if single {
                                out.coq_case("tie", format!("score_bits_agree {} {} {} (Some {}) && explain_bits_agree {} {} {} (Some {})", total_tokens, total_docs, t, z(s_all.to_bits()), total_tokens, total_docs, t, z(e_val.to_bits())),
                                             json!({"what": "single clause: Flocq score and explain value vs implementation bits", "score": s_all, "explain": e_val, "case": desc}), nontrivial);
                            } else {
                                out.coq_case("tie", format!("score_bits_near {} {} {} {} {} && explain_bits_near {} {} {} {} {}", total_tokens, total_docs, tol, t, z(s_all.to_bits()), total_tokens, total_docs, tol, t, z(e_val.to_bits())),
                                             json!({"what": "several clauses: Flocq score and explain value within the rounding of the sum", "tol_ulps": tol, "score": s_all, "explain": e_val, "case": desc}), nontrivial);
                            }
                            // spec in exact rationals for (boosted) leaves
                            let leaf = match q { Q::Term(_) | Q::Phrase(_) => Some((q, 1.0f32)), Q::Boost(inner, b) if matches!(**inner, Q::Term(_) | Q::Phrase(_)) => Some((&**inner, *b)), _ => None };
                            if let Some((lq, b)) = leaf {
                                if let Some((ts, f)) = ctx.leaf(lq) {
                                    if let Some(idf_v) = ctx.idf_total(&ts) {
                                        out.coq_case("spec", format!("formula_close {} {} {} {} {} {} {}", total_docs, total_tokens, z(idf_v.to_bits()), corpus.docs[*i].len(), f, z(b.to_bits()), z(s_all.to_bits())),
                                                     json!({"what": "score vs boost*idf*(1+K1)*tf/(tf+K1*(1-B+B*dl/avgdl)) in exact rationals", "score": s_all, "case": desc}), nontrivial);
                                    }
                                }
                            }
                        }
                    }
                }
            }
            out.spec_checked(all.len() == n_match, json!({"what": "the scoring collector saw a different number of documents than match", "collector": all.len(), "matching": n_match, "query": q.show()}));
            if n_match > 0 { out.count("queries_with_matches", 1); }
            if !single { out.count("queries_multi_clause", 1); }
        }

        // ---- segmentation independence (no deletes): same documents, another split, same scores
        if !with_deletes && n_docs >= 2 && ci % 2 == 0 {
            let n_seg2 = rng.range(1, 6).min(n_docs as u64) as usize;
            let mut cuts2: Vec<usize> = (0..n_seg2 - 1).map(|_| rng.range(1, n_docs as u64 - 1).max(1) as usize).collect();
            cuts2.sort(); cuts2.dedup();
            if cuts2 == cuts { cuts2 = if cuts.is_empty() { vec![n_docs / 2] } else { vec![] }; cuts2.retain(|c| *c > 0 && *c < n_docs); }
            if let Ok(Ok(b2)) = guarded(|| build_index(&corpus, &cuts2, &vec![false; n_docs])) {
                out.count("resegmented_corpora", 1);
                for q in queries.iter() {
                    let tq = q.build(field);
                    let (r1, r2) = (guarded(|| searcher.search(&*tq, &AllScores)), guarded(|| b2.searcher.search(&*q.build(b2.field), &AllScores)));
                    if let (Ok(Ok(r1)), Ok(Ok(r2))) = (r1, r2) {
                        let m1: BTreeMap<usize, f32> = r1.iter().map(|(a, s)| (built.seg_docs[a.segment_ord as usize][a.doc_id as usize].0, *s)).collect();
                        let m2: BTreeMap<usize, f32> = r2.iter().map(|(a, s)| (b2.seg_docs[a.segment_ord as usize][a.doc_id as usize].0, *s)).collect();
                        let single = q.n_leaves() == 1;
                        let tol = 2 * q.n_nodes() as i64;
                        let same = m1.len() == m2.len() && m1.iter().all(|(k, v)| m2.get(k).map(|w| if single { w.to_bits() == v.to_bits() } else { ulps(*w, *v) <= tol }).unwrap_or(false));
                        out.spec_checked(same, json!({"what": "scores depend on the segmentation (no deletes)", "query": q.show(), "cuts_a": format!("{:?}", cuts), "cuts_b": format!("{:?}", cuts2), "corpus": ci, "seed": args.seed}));
                        out.count("resegmented_queries", 1);
                    }
                }
            }
        }
        let _ = &built.index;
    }
    // ---------------- (C) several fields, conjunctions across fields ----------------
    multi_field(&mut rng, &mut out, thorough, &table, args.seed);

    out.finish(json!({"tier": args.tier}));
}
