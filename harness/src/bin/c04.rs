//! C04 correspondence: translation validation of merges.
//! For every merge the harness provokes, a canonical logical dump of each source SegmentReader and of
//! the merged SegmentReader is taken through the public API (alive docs, store, field norms, every
//! fast-field column, and for every indexed field the full term stream with doc / tf / positions).
//!   spec cases: Coq evaluates the specification (live documents of the sources in source order,
//!               per-term postings renumbered) on the source dumps and compares with the output dump;
//!   tie cases : the mechanism model (merge_model: IndexMerger::write) applied to the source dumps
//!               equals the output dump.
//! Schedules (deletes / commits / rollbacks / delete_all issued while a merge runs) are compared on
//! the published content (ids through the unique fast field, plus full logical dumps).
use std::collections::{BTreeMap, BTreeSet};
use std::sync::{Arc, Condvar, Mutex};
use std::time::Duration;

use serde_json::json;
use tantivy::index::SegmentId;
use tantivy::merge_policy::NoMergePolicy;
use tantivy::schema::{
    Field, IndexRecordOption, NumericOptions, Schema, TextFieldIndexing, TextOptions, FAST, INDEXED, STORED, STRING, TEXT,
};
use tantivy::postings::Postings;
use tantivy::{DocSet, Document, Index, IndexSettings, IndexWriter, SegmentReader, TantivyDocument, Term};
use tantivy_columnar::DynamicColumn;
use tvh::coqfmt as cf;
use tvh::out::CaseOut;
use tvh::rng::Rng;
use tvh::vdir::{OpKind, VerifDirectory};
use tvh::{guarded, Args};

const HEADER: &str = "From TV Require Import Base.Prelude Indexing.Merge Indexing.MergeSched Generated.Constants.";

// ------------------------------------------------------------------------------------------ dumps
type Value = Vec<u64>; // numeric: [0, u64-mapped]; str: 1 :: bytes; bytes: 2 :: bytes; ip: [3, hi, lo]
type PostingEntry = (u32, u32, Vec<u32>);

#[derive(Clone, Debug, PartialEq, Eq)]
struct Dump {
    alive: Vec<bool>,
    blocks: u64,
    store: Vec<Vec<u8>>,
    norms: Vec<(u32, Vec<u8>)>,
    fast: BTreeMap<(u32, u8), Vec<Vec<Value>>>,
    inv: Vec<(u32, Vec<(Vec<u8>, Vec<PostingEntry>)>)>,
}

fn dump_reader(reader: &SegmentReader, schema: &Schema, blocksize: usize) -> Result<Dump, String> {
    let e = |x: String| x;
    let max_doc = reader.max_doc();
    let alive: Vec<bool> = (0..max_doc).map(|d| !reader.is_deleted(d)).collect();
    // store: random access for every doc id (deleted documents are still physically there)
    let store_reader = reader.get_store_reader(4).map_err(|x| e(format!("store: {x}")))?;
    let mut store = vec![];
    let mut total_bytes = 0usize;
    for d in 0..max_doc {
        let doc: TantivyDocument = store_reader.get(d).map_err(|x| e(format!("store get {d}: {x}")))?;
        let js = doc.to_json(schema);
        total_bytes += js.len();
        store.push(js.into_bytes());
    }
    // secondary check of the dump itself: the sequential alive iterator agrees with random access
    let seq: Vec<Vec<u8>> = store_reader
        .iter::<TantivyDocument>(reader.alive_bitset())
        .map(|r| r.map(|d| d.to_json(schema).into_bytes()).map_err(|x| format!("store iter: {x}")))
        .collect::<Result<_, _>>()?;
    let sel: Vec<Vec<u8>> = store.iter().zip(alive.iter()).filter(|(_, a)| **a).map(|(d, _)| d.clone()).collect();
    if seq != sel {
        return Err("store iterator over alive docs differs from random access".into());
    }
    // block checkpoints are not reachable through the public API: estimate from sizes (the model's
    // output does not depend on it -- theorem C04_stacking_irrelevant -- it only records which path
    // of write_storable_fields we expect to have exercised)
    let blocks = if max_doc == 0 { 0 } else { (1 + total_bytes / blocksize.max(1)).min(max_doc as usize) as u64 };
    let mut norms = vec![];
    let mut inv = vec![];
    let mut fast: BTreeMap<(u32, u8), Vec<Vec<Value>>> = BTreeMap::new();
    for (field, entry) in schema.fields() {
        if entry.is_indexed() && entry.has_fieldnorms() {
            let fr = reader.get_fieldnorms_reader(field).map_err(|x| format!("fieldnorm: {x}"))?;
            norms.push((field.field_id(), (0..max_doc).map(|d| fr.fieldnorm_id(d)).collect()));
        }
        if entry.is_indexed() {
            let ii = reader.inverted_index(field).map_err(|x| format!("inverted index: {x}"))?;
            let mut stream = ii.terms().stream().map_err(|x| format!("term stream: {x}"))?;
            let mut dict = vec![];
            while stream.advance() {
                let key = stream.key().to_vec();
                let ti = stream.value().clone();
                let mut p = ii
                    .read_postings_from_terminfo(&ti, IndexRecordOption::WithFreqsAndPositions)
                    .map_err(|x| format!("postings: {x}"))?;
                let mut pl = vec![];
                let mut pos = vec![];
                let mut doc = p.doc();
                while doc != tantivy::TERMINATED {
                    let tf = p.term_freq();
                    p.positions(&mut pos);
                    pl.push((doc, tf, pos.clone()));
                    doc = p.advance();
                }
                dict.push((key, pl));
            }
            inv.push((field.field_id(), dict));
        }
        if entry.is_fast() {
            let handles = reader.fast_fields().dynamic_column_handles(entry.name()).map_err(|x| format!("fast: {x}"))?;
            for h in handles {
                let ty = h.column_type() as u8;
                let col = h.open().map_err(|x| format!("fast open: {x}"))?;
                let mut rows: Vec<Vec<Value>> = vec![];
                for d in 0..max_doc {
                    let vals: Vec<Value> = match &col {
                        DynamicColumn::Bool(c) => c.values_for_doc(d).map(|v| vec![0, v as u64]).collect(),
                        DynamicColumn::I64(c) => c.values_for_doc(d).map(|v| vec![0, (v as u64) ^ (1u64 << 63)]).collect(),
                        DynamicColumn::U64(c) => c.values_for_doc(d).map(|v| vec![0, v]).collect(),
                        DynamicColumn::F64(c) => c.values_for_doc(d).map(|v| vec![0, v.to_bits()]).collect(),
                        DynamicColumn::DateTime(c) => c.values_for_doc(d).map(|v| vec![0, (v.into_timestamp_nanos() as u64) ^ (1u64 << 63)]).collect(),
                        DynamicColumn::IpAddr(c) => c.values_for_doc(d).map(|v| { let b = u128::from(v); vec![3, (b >> 64) as u64, b as u64] }).collect(),
                        DynamicColumn::Str(c) => {
                            let mut out = vec![];
                            for ord in c.term_ords(d) {
                                let mut s = String::new();
                                c.ord_to_str(ord, &mut s).map_err(|x| format!("ord_to_str: {x}"))?;
                                let mut v: Value = vec![1];
                                v.extend(s.bytes().map(|b| b as u64));
                                out.push(v);
                            }
                            out
                        }
                        DynamicColumn::Bytes(c) => {
                            let mut out = vec![];
                            for ord in c.term_ords(d) {
                                let mut s = vec![];
                                c.ord_to_bytes(ord, &mut s).map_err(|x| format!("ord_to_bytes: {x}"))?;
                                let mut v: Value = vec![2];
                                v.extend(s.iter().map(|b| *b as u64));
                                out.push(v);
                            }
                            out
                        }
                    };
                    rows.push(vals);
                }
                fast.insert((field.field_id(), ty), rows);
            }
        }
    }
    Ok(Dump { alive, blocks, store, norms, fast, inv })
}

/// keys of the fast columns of a case: union over all dumps; a column absent from a segment has no
/// value for any document
fn fast_keys(dumps: &[&Dump]) -> Vec<(u32, u8)> {
    let mut s = BTreeSet::new();
    for d in dumps { for k in d.fast.keys() { s.insert(*k); } }
    s.into_iter().collect()
}
fn fast_key_id(k: &(u32, u8)) -> u64 { k.0 as u64 * 16 + k.1 as u64 }

fn coq_seg(d: &Dump, keys: &[(u32, u8)]) -> String {
    let alive = cf::list(&d.alive, |b| cf::boolean(*b));
    let store = cf::list(&d.store, |b| cf::bytes(b));
    let norms = cf::list(&d.norms, |(f, v)| format!("({}, {})", f, cf::bytes(v)));
    let empty: Vec<Vec<Value>> = vec![vec![]; d.alive.len()];
    let fast = cf::list(keys, |k| {
        let rows = d.fast.get(k).unwrap_or(&empty);
        format!("({}, {})", fast_key_id(k), cf::list(rows, |vals| cf::list(vals, |v| cf::ns(v))))
    });
    let inv = cf::list(&d.inv, |(f, dict)| {
        format!("({}, {})", f, cf::list(dict, |(t, pl)| {
            format!("({}, {})", cf::bytes(t), cf::list(pl, |(doc, tf, pos)| format!("({}%nat, ({}, {}))", doc, tf, cf::ns(pos))))
        }))
    });
    format!("(mkSeg {} {} {} {} {} {})", alive, d.blocks, store, norms, fast, inv)
}
fn coq_schema(d: &Dump, keys: &[(u32, u8)]) -> String {
    format!("(mkSchema {} {} {})",
            cf::list(&d.norms, |(f, _)| format!("{}", f)),
            cf::list(keys, |k| format!("{}", fast_key_id(k))),
            cf::list(&d.inv, |(f, _)| format!("{}", f)))
}

/// Independent Rust recomputation of the expected merged dump (secondary check only; the deciding
/// comparison is the Coq one): live documents of the sources in the given order of addresses.
fn expected_from_order(srcs: &[Dump], order: &[(usize, u32)]) -> Dump {
    let n = order.len();
    let mut new_of: Vec<BTreeMap<u32, u32>> = vec![BTreeMap::new(); srcs.len()];
    for (new, (s, d)) in order.iter().enumerate() { new_of[*s].insert(*d, new as u32); }
    let first = &srcs[0];
    let store = order.iter().map(|(s, d)| srcs[*s].store[*d as usize].clone()).collect();
    let norms = first.norms.iter().enumerate().map(|(i, (f, _))| (*f, order.iter().map(|(s, d)| srcs[*s].norms[i].1[*d as usize]).collect())).collect();
    let mut fast = BTreeMap::new();
    let refs: Vec<&Dump> = srcs.iter().collect();
    for k in fast_keys(&refs) {
        let rows: Vec<Vec<Value>> = order.iter().map(|(s, d)| srcs[*s].fast.get(&k).map(|r| r[*d as usize].clone()).unwrap_or_default()).collect();
        if rows.iter().any(|r| !r.is_empty()) { fast.insert(k, rows); }
    }
    let mut inv = vec![];
    for (i, (f, _)) in first.inv.iter().enumerate() {
        let mut terms: BTreeMap<Vec<u8>, Vec<PostingEntry>> = BTreeMap::new();
        for (s, src) in srcs.iter().enumerate() {
            for (t, pl) in &src.inv[i].1 {
                for (doc, tf, pos) in pl {
                    if let Some(new) = new_of[s].get(doc) {
                        terms.entry(t.clone()).or_default().push((*new, *tf, pos.clone()));
                    }
                }
            }
        }
        let mut dict: Vec<(Vec<u8>, Vec<PostingEntry>)> = terms.into_iter().collect();
        for (_, pl) in dict.iter_mut() { pl.sort_by_key(|p| p.0); }
        inv.push((*f, dict));
    }
    Dump { alive: vec![true; n], blocks: 0, store, norms, fast, inv }
}
fn stacked_order(srcs: &[Dump]) -> Vec<(usize, u32)> {
    let mut o = vec![];
    for (s, d) in srcs.iter().enumerate() { for (i, a) in d.alive.iter().enumerate() { if *a { o.push((s, i as u32)); } } }
    o
}
fn same_content(a: &Dump, b: &Dump) -> bool {
    let drop_empty = |m: &BTreeMap<(u32, u8), Vec<Vec<Value>>>| -> BTreeMap<(u32, u8), Vec<Vec<Value>>> {
        m.iter().filter(|(_, r)| r.iter().any(|x| !x.is_empty())).map(|(k, v)| (*k, v.clone())).collect()
    };
    a.alive == b.alive && a.store == b.store && a.norms == b.norms && a.inv == b.inv && drop_empty(&a.fast) == drop_empty(&b.fast)
}

// ------------------------------------------------------------------------------------------ index
struct Fields { id: Field, tag: Field, body: Field, title: Field, val: Field, multi: Field, cat: Field }

fn make_schema() -> (Schema, Fields) {
    let mut sb = Schema::builder();
    let id = sb.add_u64_field("id", FAST | INDEXED | STORED);
    let tag = sb.add_text_field("tag", STRING | STORED);
    let body = sb.add_text_field("body", TEXT | STORED);
    // indexed with frequencies but without positions, not stored
    let title_opts = TextOptions::default().set_indexing_options(TextFieldIndexing::default().set_tokenizer("default").set_index_option(IndexRecordOption::WithFreqs));
    let title = sb.add_text_field("title", title_opts);
    let val = sb.add_i64_field("val", NumericOptions::default().set_fast());
    let multi = sb.add_u64_field("multi", NumericOptions::default().set_fast().set_stored());
    let cat = sb.add_text_field("cat", STRING | FAST);
    (sb.build(), Fields { id, tag, body, title, val, multi, cat })
}

fn gen_doc(rng: &mut Rng, f: &Fields, id: u64, vocab: u64) -> TantivyDocument {
    let mut d = TantivyDocument::default();
    d.add_u64(f.id, id);
    d.add_text(f.tag, format!("t{}", rng.below(4)));
    let nw = match rng.below(8) { 0 => 0, 1 => 1, _ => rng.range(1, 6) };
    let words: Vec<String> = (0..nw).map(|_| format!("w{}", rng.below(vocab))).collect();
    d.add_text(f.body, words.join(" "));
    if rng.chance(1, 3) { d.add_text(f.body, format!("x{}", rng.below(3))); } // second value of the same field (position gap)
    if rng.chance(2, 3) { d.add_text(f.title, format!("h{} h{}", rng.below(3), rng.below(3))); }
    if rng.chance(3, 4) { d.add_i64(f.val, rng.range(0, 20) as i64 - 10); }
    for _ in 0..rng.below(3) { d.add_u64(f.multi, rng.below(5)); }
    if rng.chance(1, 2) { d.add_text(f.cat, format!("c{}", rng.below(3))); }
    d
}

fn open_reader(index: &Index, meta: &tantivy::SegmentMeta) -> Result<SegmentReader, String> {
    SegmentReader::open(&index.segment(meta.clone())).map_err(|e| format!("open segment: {e}"))
}

/// content published by the last commit: per id, the stored json (ids via the unique fast field)
fn published(index: &Index, f: &Fields) -> Result<BTreeMap<u64, Vec<u8>>, String> {
    let reader = index.reader().map_err(|e| format!("{e}"))?;
    reader.reload().map_err(|e| format!("{e}"))?;
    let searcher = reader.searcher();
    let schema = index.schema();
    let mut m = BTreeMap::new();
    for sr in searcher.segment_readers() {
        let col = sr.fast_fields().u64("id").map_err(|e| format!("{e}"))?;
        let store = sr.get_store_reader(2).map_err(|e| format!("{e}"))?;
        for d in sr.doc_ids_alive() {
            let idv = col.first(d).ok_or("doc without id")?;
            let doc: TantivyDocument = store.get(d).map_err(|e| format!("{e}"))?;
            if m.insert(idv, doc.to_json(&schema).into_bytes()).is_some() { return Err(format!("id {idv} published twice")); }
        }
    }
    let _ = f;
    Ok(m)
}


// ------------------------------------------------------------------------------------------ schedules
/// Gate on the storage operations of the merge threads: the k-th Create/Write/Flush/Terminate/OpenRead
/// issued by a thread named `merge_thread_*` blocks until released by the main thread.
struct GateSt {
    armed: Option<usize>, count: usize, blocked: bool, released: bool,
    /// second gate: park the `segment_updater` thread in its next AtomicWrite of meta.json
    park_updater: bool, updater_blocked: bool, updater_released: bool,
    /// activity of the merge threads (to detect that a merge has reached end_merge and went quiet)
    merge_ops: usize, merge_terminates: usize, last_merge_op: std::time::Instant,
}
impl Default for GateSt {
    fn default() -> Self {
        GateSt { armed: None, count: 0, blocked: false, released: false, park_updater: false, updater_blocked: false, updater_released: false,
                 merge_ops: 0, merge_terminates: 0, last_merge_op: std::time::Instant::now() }
    }
}
#[derive(Default)]
struct Gate { st: Mutex<GateSt>, cv: Condvar }
impl Gate {
    fn arm(&self, k: usize) { let mut g = self.st.lock().unwrap(); g.armed = Some(k); g.count = 0; g.blocked = false; g.released = false; }
    fn wait_blocked(&self, ms: u64) -> bool {
        let g = self.st.lock().unwrap();
        let (g, _) = self.cv.wait_timeout_while(g, Duration::from_millis(ms), |g| !g.blocked).unwrap();
        g.blocked
    }
    fn release(&self) { let mut g = self.st.lock().unwrap(); g.released = true; g.armed = None; self.cv.notify_all(); }
    fn arm_updater(&self) { let mut g = self.st.lock().unwrap(); g.park_updater = true; g.updater_blocked = false; g.updater_released = false; }
    fn wait_updater_blocked(&self, ms: u64) -> bool {
        let g = self.st.lock().unwrap();
        let (g, _) = self.cv.wait_timeout_while(g, Duration::from_millis(ms), |g| !g.updater_blocked).unwrap();
        g.updater_blocked
    }
    fn release_updater(&self) { let mut g = self.st.lock().unwrap(); g.updater_released = true; g.park_updater = false; self.cv.notify_all(); }
    fn reset_activity(&self) { let mut g = self.st.lock().unwrap(); g.merge_ops = 0; g.merge_terminates = 0; g.last_merge_op = std::time::Instant::now(); }
    /// wait until the merge threads have terminated at least `min_term` files and then issued no storage
    /// operation for `quiet_ms` (the merge has written its segment and waits in end_merge), at most `cap_ms`
    fn wait_merge_quiet(&self, min_term: usize, quiet_ms: u64, cap_ms: u64) -> bool {
        let t0 = std::time::Instant::now();
        loop {
            {
                let g = self.st.lock().unwrap();
                if g.merge_terminates >= min_term && g.last_merge_op.elapsed() >= Duration::from_millis(quiet_ms) { return true; }
            }
            if t0.elapsed() >= Duration::from_millis(cap_ms) { return false; }
            std::thread::sleep(Duration::from_millis(5));
        }
    }
    fn install(self: &Arc<Self>, vd: &VerifDirectory) {
        let gate = self.clone();
        vd.set_hook(Some(Arc::new(move |_d: &VerifDirectory, _seq: usize, kind: &OpKind, path: &str| {
            let name = std::thread::current().name().map(|n| n.to_string()).unwrap_or_default();
            if name == "segment_updater" {
                if *kind == OpKind::AtomicWrite && path == "meta.json" {
                    let mut g = gate.st.lock().unwrap();
                    if g.park_updater && !g.updater_released {
                        g.updater_blocked = true;
                        gate.cv.notify_all();
                        while !g.updater_released { g = gate.cv.wait(g).unwrap(); }
                    }
                }
                return;
            }
            if !name.starts_with("merge_thread") { return; }
            {
                let mut g = gate.st.lock().unwrap();
                g.merge_ops += 1; g.last_merge_op = std::time::Instant::now();
                if *kind == OpKind::Terminate { g.merge_terminates += 1; }
            }
            if !matches!(kind, OpKind::Create | OpKind::Write | OpKind::Flush | OpKind::Terminate | OpKind::OpenRead) { return; }
            let mut g = gate.st.lock().unwrap();
            g.count += 1;
            if let Some(k) = g.armed {
                if g.count >= k && !g.released {
                    g.blocked = true;
                    gate.cv.notify_all();
                    while !g.released { g = gate.cv.wait(g).unwrap(); }
                }
            }
        })));
    }
}

/// A merge policy scripted by the harness: when armed, the first list of >= `want` segments none of which is
/// committed is merged as ONE candidate, segments in creation order (older first); fires once.
#[derive(Default)]
struct ScriptSt { armed: bool, want: usize, committed: Vec<SegmentId>, known_order: Vec<SegmentId>, fired: Option<Vec<SegmentId>>,
                  /// true: fire on the list of COMMITTED segments (every segment is in `committed` or was created by a merge since), false: on uncommitted ones
                  on_committed: bool, exclude: Vec<SegmentId> }
#[derive(Clone, Default)]
struct ScriptedPolicy(Arc<Mutex<ScriptSt>>);
impl std::fmt::Debug for ScriptedPolicy { fn fmt(&self, f: &mut std::fmt::Formatter<'_>) -> std::fmt::Result { write!(f, "ScriptedPolicy") } }
impl tantivy::merge_policy::MergePolicy for ScriptedPolicy {
    fn compute_merge_candidates(&self, segments: &[tantivy::SegmentMeta]) -> Vec<tantivy::merge_policy::MergeCandidate> {
        let mut g = self.0.lock().unwrap();
        if !g.armed || segments.len() < g.want.max(2) { return vec![]; }
        if g.on_committed {
            if segments.iter().any(|m| g.exclude.contains(&m.id())) || !segments.iter().any(|m| g.committed.contains(&m.id())) { return vec![]; }
        } else if segments.iter().any(|m| g.committed.contains(&m.id())) { return vec![]; }
        let mut ids: Vec<SegmentId> = g.known_order.iter().filter(|i| segments.iter().any(|m| m.id() == **i)).cloned().collect();
        for m in segments { if !ids.contains(&m.id()) { ids.push(m.id()); } }   // the segment just added: newest, last
        g.armed = false;
        g.fired = Some(ids.clone());
        vec![tantivy::merge_policy::MergeCandidate(ids)]
    }
}

/// sequential specification of the writer calls (ids with their tag)
#[derive(Clone, Default)]
struct Replay { working: BTreeMap<u64, u64>, committed: BTreeMap<u64, u64> }
impl Replay {
    fn add(&mut self, id: u64, tag: u64) { self.working.insert(id, tag); }
    fn del_tag(&mut self, t: u64) { self.working.retain(|_, v| *v != t); }
    fn del_id(&mut self, i: u64) { self.working.remove(&i); }
    fn commit(&mut self) { self.committed = self.working.clone(); }
    fn rollback(&mut self) { self.working = self.committed.clone(); }
    fn delete_all(&mut self) { self.working.clear(); }
}

struct Sched<'a> {
    index: Index, w: IndexWriter, f: Fields, rp: Replay, next: u64, seen: BTreeMap<u64, Vec<u8>>,
    trace: Vec<String>, rng: &'a mut Rng, problems: Vec<String>, checks: u64,
    /// the history as operations of the Coq state machine (MergeSched.v); segments are numbered in creation order
    ops: Vec<String>, seg_no: BTreeMap<String, u64>, seg_counter: u64, pending: u64, coq_ok: bool,
}
impl<'a> Sched<'a> {
    fn add(&mut self, n: usize) -> Result<(), String> {
        for _ in 0..n { let tag = self.rng.below(4); self.add_tagged(tag)?; }
        Ok(())
    }
    fn add_tagged(&mut self, tag: u64) -> Result<(), String> {
        {
            let mut d = gen_doc(self.rng, &self.f, self.next, 6);
            // replace the random tag by the recorded one
            let mut d2 = TantivyDocument::default();
            for fv in d.field_values() { if fv.0 != self.f.tag { d2.add_field_value(fv.0, fv.1); } }
            d2.add_text(self.f.tag, format!("t{tag}"));
            d = d2;
            self.w.add_document(d).map_err(|e| format!("{e}"))?;
            self.rp.add(self.next, tag);
            self.ops.push(format!("Add {} {}", self.next, tag)); self.pending += 1;
            self.trace.push(format!("add {} t{}", self.next, tag));
            self.next += 1;
        }
        Ok(())
    }
    fn del_tag(&mut self, t: u64) { self.w.delete_term(Term::from_field_text(self.f.tag, &format!("t{t}"))); self.rp.del_tag(t); self.ops.push(format!("Del (ByTag {t})")); self.trace.push(format!("delete tag t{t}")); }
    fn del_id(&mut self, i: u64) { self.w.delete_term(Term::from_field_u64(self.f.id, i)); self.rp.del_id(i); self.ops.push(format!("Del (ById {i})")); self.trace.push(format!("delete id {i}")); }
    fn commit(&mut self) -> Result<(), String> { self.w.commit().map_err(|e| format!("commit: {e}"))?; self.rp.commit(); self.ops.push("Commit".into()); self.new_segment(); self.trace.push("commit".into()); self.check("after commit") }
    /// number the segment a finalisation created (model: one new segment iff documents were pending)
    fn new_segment(&mut self) {
        if self.pending == 0 { return; }
        self.pending = 0;
        let n = self.seg_counter; self.seg_counter += 1;
        let fresh: Vec<String> = self.segment_uuids().into_iter().filter(|u| !self.seg_no.contains_key(u)).collect();
        if fresh.len() == 1 { self.seg_no.insert(fresh[0].clone(), n); }
    }
    fn start_merge(&mut self, ids: &[SegmentId]) -> Result<tantivy::FutureResult<Option<tantivy::SegmentMeta>>, String> {
        let mut nos = vec![];
        for i in ids { match self.seg_no.get(&i.uuid_string()) { Some(n) => nos.push(*n), None => { self.coq_ok = false; } } }
        self.ops.push(format!("StartMerge {}", cf::ns(&nos)));
        self.seg_counter += 1;
        Ok(self.w.merge(ids))
    }
    fn end_merge(&mut self) { self.ops.push("EndMerge 0%nat".into()); }
    fn rollback(&mut self) -> Result<(), String> { self.w.rollback().map_err(|e| format!("rollback: {e}"))?; self.rp.rollback(); self.ops.push("Rollback".into()); self.pending = 0; self.w.set_merge_policy(Box::new(NoMergePolicy)); self.trace.push("rollback".into()); self.check("after rollback") }
    fn finalize_uncommitted(&mut self) -> Result<(), String> { let _p = self.w.prepare_commit().map_err(|e| format!("prepare_commit: {e}"))?; self.ops.push("Finalize".into()); self.new_segment(); self.trace.push("prepare_commit (dropped)".into()); Ok(()) }
    /// published content == committed state of the sequential specification
    fn check(&mut self, at: &str) -> Result<(), String> {
        self.checks += 1;
        let p = published(&self.index, &self.f)?;
        let got: Vec<u64> = p.keys().cloned().collect();
        self.ops.push(format!("Observe {}", cf::ns(&got)));
        let exp: Vec<u64> = self.rp.committed.keys().cloned().collect();
        if got != exp {
            let missing: Vec<u64> = exp.iter().filter(|i| !got.contains(i)).cloned().collect();
            let extra: Vec<u64> = got.iter().filter(|i| !exp.contains(i)).cloned().collect();
            self.problems.push(format!("{at}: published ids differ from the sequential specification: missing {missing:?} extra {extra:?}"));
        }
        for (i, b) in p {
            match self.seen.get(&i) { None => { self.seen.insert(i, b); } Some(o) => if *o != b { self.problems.push(format!("{at}: stored document of id {i} changed")); } }
        }
        Ok(())
    }
    fn segment_uuids(&self) -> Vec<String> {
        let mut v: Vec<String> = self.index.directory().list_managed_files().iter().filter_map(|p| p.to_string_lossy().strip_suffix(".store").map(|s| s.to_string())).collect();
        v.sort(); v
    }
}

struct SchedOut { ok: bool, desc: serde_json::Value, gated: bool, kind: &'static str, ops: Option<String> }

fn run_schedule(rng: &mut Rng, kind: usize, k_gate: usize) -> Result<SchedOut, String> {
    let (schema, f) = make_schema();
    let vd = VerifDirectory::new();
    vd.inner.lock().unwrap().record_data = false;
    let gate = Arc::new(Gate::default());
    gate.install(&vd);
    let index = Index::create(vd.clone(), schema.clone(), IndexSettings::default()).map_err(|e| format!("{e}"))?;
    let w: IndexWriter = index.writer_with_num_threads(1, 15_000_000).map_err(|e| format!("{e}"))?;
    w.set_merge_policy(Box::new(NoMergePolicy));
    let mut r2 = rng.fork();
    let mut s = Sched { index: index.clone(), w, f, rp: Replay::default(), next: 0, seen: BTreeMap::new(), trace: vec![], rng: &mut r2, problems: vec![], checks: 0,
                          ops: vec![], seg_no: BTreeMap::new(), seg_counter: 0, pending: 0, coq_ok: true };
    let nseg = s.rng.range(2, 4) as usize;
    for _ in 0..nseg { let n = s.rng.range(2, 7) as usize; s.add(n)?; if s.rng.chance(1, 3) { let t = s.rng.below(4); s.del_tag(t); } s.commit()?; }
    let names = ["delete+commit during merge", "rollback during merge", "delete_all+commit during merge", "adds+commit during merge",
                 "two merges + delete+commit", "gc during merge", "merge of uncommitted segments, commit during merge", "explicit merge of uncommitted segments around a delete",
                 "control: two uncommitted segments around a delete, no merge",
                 "rollback, delete as first operation, merge of committed segments, searcher before any commit",
                 "double gate: commit of a delete parked in its meta.json write while the merge reaches end_merge",
                 "policy merge of uncommitted segments with a delete and re-adds between them",
                 "policy merge of committed segments while deletes are pending; searcher before any commit, then rollback or commit",
                 "uncommitted segments merged (explicitly or by policy), then a merge of committed segments saves meta.json without a commit",
                 "storage fault on the merged segment's .store during an explicit merge"];
    let kname = names[kind];
    let committed: Vec<SegmentId> = index.searchable_segment_ids().map_err(|e| format!("{e}"))?;
    let mut gated = false;
    match kind {
        0 | 3 | 5 => {
            gate.arm(k_gate);
            let fut = s.start_merge(&committed)?;
            s.trace.push(format!("start merge of {} committed segments (gate at op {k_gate})", committed.len()));
            gated = gate.wait_blocked(1500);
            if kind == 0 { let t = s.rng.below(4); s.del_tag(t); if s.next > 0 { let i = s.rng.below(s.next); s.del_id(i); } s.commit()?; }
            if kind == 3 { s.add(3)?; let t = s.rng.below(4); s.del_tag(t); s.commit()?; }
            if kind == 5 { let _ = s.w.garbage_collect_files().wait(); s.trace.push("gc".into()); s.check("after gc")?; let t = s.rng.below(4); s.del_tag(t); s.commit()?; }
            gate.release();
            let r = fut.wait(); s.end_merge();
            s.trace.push(format!("merge ended: {}", match &r { Ok(Some(_)) => "segment".to_string(), Ok(None) => "no segment".to_string(), Err(e) => format!("error {e}") }));
            s.check("after end_merge")?;
            s.commit()?;
        }
        1 => {
            s.add(2)?; let t = s.rng.below(4); s.del_tag(t);
            gate.arm(k_gate);
            let fut = s.start_merge(&committed)?;
            s.trace.push(format!("start merge (gate at op {k_gate})"));
            gated = gate.wait_blocked(1500);
            s.rollback()?;
            gate.release();
            let r = fut.wait(); s.end_merge();
            s.trace.push(format!("merge ended: {}", match &r { Ok(_) => "ok".to_string(), Err(e) => format!("discarded ({e})") }));
            s.check("after discarded merge")?;
            s.add(2)?; s.commit()?;
        }
        2 => {
            s.coq_ok = false;   // delete_all_documents is not part of the Coq state machine (C02, F2)
            gate.arm(k_gate);
            let fut = s.start_merge(&committed)?;
            s.trace.push(format!("start merge (gate at op {k_gate})"));
            gated = gate.wait_blocked(1500);
            s.w.delete_all_documents().map_err(|e| format!("{e}"))?; s.rp.delete_all(); s.trace.push("delete_all".into());
            s.commit()?;
            gate.release();
            let r = fut.wait();
            s.trace.push(format!("merge ended: {}", match &r { Ok(_) => "ok".to_string(), Err(e) => format!("discarded ({e})") }));
            s.check("after discarded merge")?;
            s.commit()?;
        }
        9 => {
            // after a rollback the stamper restarts at the committed opstamp: the first operation of the new
            // writer carries exactly that opstamp; a merge of committed segments (target = committed opstamp)
            // must not apply it, and end_merge must not publish it
            s.add(2)?;
            s.rollback()?;
            let t = s.rng.below(4); s.del_tag(t);
            if s.rng.chance(1, 2) { let t2 = s.rng.below(4); s.del_tag(t2); }
            gate.arm(k_gate);
            let fut = s.start_merge(&committed)?;
            s.trace.push(format!("start merge of {} committed segments (gate at op {k_gate})", committed.len()));
            gated = gate.wait_blocked(1500);
            s.check("while merging, before any commit")?;
            gate.release();
            let r = fut.wait(); s.end_merge();
            s.trace.push(format!("merge ended: {}", match &r { Ok(Some(_)) => "segment".to_string(), Ok(None) => "no segment".to_string(), Err(e) => format!("error {e}") }));
            s.check("after end_merge, before any commit")?;
            s.commit()?;
        }
        10 => {
            // the merge thread is parked early; a delete is committed asynchronously and the segment_updater thread is parked
            // inside that commit's atomic_write(meta.json); the merge is released and runs into end_merge (its task queues
            // behind the commit); only then the commit is released.  The reconciliation must see the NEW committed opstamp.
            gate.reset_activity();
            gate.arm(1);
            let fut = s.start_merge(&committed)?;
            s.trace.push(format!("start merge of {} committed segments (parked at its first storage operation)", committed.len()));
            gated = gate.wait_blocked(1500);
            let t = s.rng.below(4); s.del_tag(t);
            if s.next > 0 { let i = s.rng.below(s.next); s.del_id(i); }
            gate.arm_updater();
            let fut_commit = { let prepared = s.w.prepare_commit().map_err(|e| format!("prepare_commit: {e}"))?; prepared.commit_future() };
            let parked = gate.wait_updater_blocked(3000);
            s.trace.push(format!("commit issued; segment_updater parked in atomic_write(meta.json): {parked}"));
            gate.release();
            let quiet = gate.wait_merge_quiet(1, 80, 4000);
            s.trace.push(format!("merge released; reached end_merge and went quiet: {quiet}"));
            gate.release_updater();
            fut_commit.wait().map_err(|e| format!("commit: {e}"))?;
            s.rp.commit(); s.ops.push("Commit".into()); s.new_segment(); s.trace.push("commit completed".into());
            let r = fut.wait(); s.end_merge();
            s.trace.push(format!("merge ended: {}", match &r { Ok(Some(_)) => "segment".to_string(), Ok(None) => "no segment".to_string(), Err(e) => format!("error {e}") }));
            gated = gated && parked && quiet;
            s.check("after commit and end_merge")?;
            s.commit()?;
        }
        11 => {
            // >= 2 uncommitted segments of one transaction, deletes issued between them, matching documents re-added after
            // the delete, merged BY POLICY (fresh target opstamp), older segment first; then commit
            let policy = ScriptedPolicy::default();
            s.w.set_merge_policy(Box::new(policy.clone()));
            let nsegs = s.rng.range(2, 3) as usize;
            let mut created: Vec<SegmentId> = vec![];
            let mut nos: Vec<u64> = vec![];
            gate.reset_activity();
            for j in 0..nsegs {
                let before: BTreeSet<String> = s.segment_uuids().into_iter().collect();
                if j > 0 {
                    // delete a tag, then re-add documents carrying that very tag in the next segment
                    let t = s.rng.below(4); s.del_tag(t);
                    s.add_tagged(t)?; let n = s.rng.range(1, 3) as usize; s.add(n)?; s.add_tagged(t)?;
                } else { let n = s.rng.range(2, 4) as usize; s.add(n)?; let t = s.rng.below(4); s.add_tagged(t)?; }
                if j + 1 == nsegs {
                    let mut g = policy.0.lock().unwrap();
                    g.armed = true; g.want = nsegs; g.committed = committed.clone(); g.known_order = created.clone();
                }
                let no = s.seg_counter;
                s.finalize_uncommitted()?;
                let after: BTreeSet<String> = s.segment_uuids().into_iter().collect();
                let fresh: Vec<&String> = after.difference(&before).collect();
                if j + 1 < nsegs {
                    if fresh.len() != 1 { return Err(format!("skip: expected one new segment, got {}", fresh.len())); }
                    created.push(SegmentId::from_uuid_string(fresh[0]).map_err(|e| format!("{e}"))?);
                }
                nos.push(no);
            }
            let fired = policy.0.lock().unwrap().fired.clone();
            match fired {
                Some(ids) if ids.len() == nsegs && ids[..nsegs - 1] == created[..] => {
                    s.ops.push(format!("StartPolicyMerge {}", cf::ns(&nos))); s.seg_counter += 1;
                    s.trace.push(format!("policy merge of the {nsegs} uncommitted segments started (older first)"));
                }
                other => return Err(format!("skip: scripted policy did not fire as expected ({:?})", other.map(|v| v.len()))),
            }
            // let the merge finish (end_merge) before the commit so that the model's operation order is the real one
            let quiet = gate.wait_merge_quiet(1, 80, 4000);
            std::thread::sleep(Duration::from_millis(30));
            s.end_merge();
            s.trace.push(format!("merge went quiet (ended): {quiet}"));
            gated = quiet;
            if s.rng.chance(1, 2) { let t = s.rng.below(4); s.del_tag(t); }
            s.commit()?;
            s.w.set_merge_policy(Box::new(NoMergePolicy));
            s.add(2)?; s.commit()?;
        }
        12 => {
            // deletes are issued but NOT committed; the segment updater then consults the merge policy (a segment is added,
            // or another merge ends) and the policy merges the committed segments: target = LAST COMMIT's opstamp, so the
            // pending deletes must not be applied / published; a rollback must still find the documents
            if committed.len() < 2 { return Err("skip: need two committed segments".into()); }
            let policy = ScriptedPolicy::default();
            s.w.set_merge_policy(Box::new(policy.clone()));
            let t = s.rng.below(4); s.del_tag(t);
            if s.next > 0 { let i = s.rng.below(s.next); s.del_id(i); }
            if s.rng.chance(1, 2) { let t2 = s.rng.below(4); s.del_tag(t2); }
            let by_merge_end = s.rng.chance(1, 2);
            let mut nos: Vec<u64> = vec![];
            if by_merge_end {
                // trigger: an explicit merge of ONE committed segment ends
                for i in &committed[1..] { match s.seg_no.get(&i.uuid_string()) { Some(n) => nos.push(*n), None => s.coq_ok = false } }
                nos.push(s.seg_counter);           // the segment the explicit merge creates
                { let mut g = policy.0.lock().unwrap(); g.armed = true; g.on_committed = true; g.want = committed.len(); g.committed = committed.clone(); g.known_order = committed[1..].to_vec(); }
                let fut = s.start_merge(&committed[..1])?;
                let r = fut.wait(); s.end_merge();
                s.trace.push(format!("explicit merge of one committed segment ended ({}); the policy is consulted", if r.is_ok() { "ok" } else { "error" }));
            } else {
                // trigger: a new (uncommitted) segment is added
                for i in &committed { match s.seg_no.get(&i.uuid_string()) { Some(n) => nos.push(*n), None => s.coq_ok = false } }
                s.add(2)?;
                { let mut g = policy.0.lock().unwrap(); g.armed = true; g.on_committed = true; g.want = committed.len(); g.committed = committed.clone(); g.known_order = committed.clone(); }
                s.finalize_uncommitted()?;
                s.trace.push("a segment was added; the policy is consulted".into());
            }
            let fired = policy.0.lock().unwrap().fired.clone();
            match fired {
                Some(ids) if ids.len() == committed.len() => {
                    s.ops.push(format!("StartPolicyMerge {}", cf::ns(&nos))); s.seg_counter += 1;
                    s.trace.push(format!("policy merge of the {} committed segments started with deletes pending", ids.len()));
                }
                other => return Err(format!("skip: scripted policy did not fire on the committed segments ({:?})", other.map(|v| v.len()))),
            }
            // the merge is published by end_merge (save_metas): wait until meta.json lists a single segment
            let t0 = std::time::Instant::now();
            let mut done = false;
            while t0.elapsed() < Duration::from_millis(4000) {
                if index.searchable_segment_ids().map(|v| v.len() <= 1).unwrap_or(false) { done = true; break; }
                std::thread::sleep(Duration::from_millis(5));
            }
            std::thread::sleep(Duration::from_millis(20));
            s.end_merge();
            gated = done;
            s.trace.push(format!("policy merge published: {done}"));
            s.check("after the policy merge of committed segments, before any commit")?;
            if s.rng.chance(1, 2) { s.rollback()?; s.add(2)?; s.commit()?; } else { s.commit()?; }
            s.w.set_merge_policy(Box::new(NoMergePolicy));
        }
        13 => {
            // two uncommitted segments are merged before any commit; then something else than a commit saves meta.json (the end
            // of a merge of committed segments): the never-committed documents must not be published, a rollback must forget them
            if committed.len() < 2 { return Err("skip: need two committed segments".into()); }
            let use_policy = s.rng.chance(1, 2);
            let policy = ScriptedPolicy::default();
            if use_policy { s.w.set_merge_policy(Box::new(policy.clone())); }
            gate.reset_activity();
            let before: BTreeSet<String> = s.segment_uuids().into_iter().collect();
            let no_a = s.seg_counter;
            let n = s.rng.range(2, 3) as usize; s.add(n)?; s.finalize_uncommitted()?;
            let after_a: BTreeSet<String> = s.segment_uuids().into_iter().collect();
            let a: Vec<&String> = after_a.difference(&before).collect();
            if a.len() != 1 { return Err("skip: uncommitted segment not found".into()); }
            let ida = SegmentId::from_uuid_string(a[0]).map_err(|e| format!("{e}"))?;
            if use_policy {
                // policy merges use a fresh target: a delete and re-adds between the segments are fine
                let t = s.rng.below(4); s.del_tag(t); s.add_tagged(t)?; s.add(1)?;
                let mut g = policy.0.lock().unwrap();
                g.armed = true; g.want = 2; g.committed = committed.clone(); g.known_order = vec![ida];
            } else { let n = s.rng.range(2, 3) as usize; s.add(n)?; }
            let no_b = s.seg_counter;
            s.finalize_uncommitted()?;
            if use_policy {
                let fired = policy.0.lock().unwrap().fired.clone();
                match fired {
                    Some(ids) if ids.len() == 2 && ids[0] == ida => { s.ops.push(format!("StartPolicyMerge {}", cf::ns(&[no_a, no_b]))); s.seg_counter += 1; }
                    other => return Err(format!("skip: scripted policy did not fire ({:?})", other.map(|v| v.len()))),
                }
                let quiet = gate.wait_merge_quiet(1, 80, 4000);
                std::thread::sleep(Duration::from_millis(30));
                s.end_merge();
                s.trace.push(format!("policy merge of the two uncommitted segments ended: {quiet}"));
                s.w.set_merge_policy(Box::new(NoMergePolicy));
            } else {
                let after_b: BTreeSet<String> = s.segment_uuids().into_iter().collect();
                let b: Vec<&String> = after_b.difference(&after_a).collect();
                if b.len() != 1 { return Err("skip: uncommitted segment not found".into()); }
                let idb = SegmentId::from_uuid_string(b[0]).map_err(|e| format!("{e}"))?;
                let fut = s.start_merge(&[ida, idb])?;
                let r = fut.wait(); s.end_merge();
                s.trace.push(format!("explicit merge of the two uncommitted segments ended ({})", if r.is_ok() { "ok" } else { "error" }));
            }
            s.check("after the merge of uncommitted segments")?;
            let fut = s.start_merge(&committed)?;
            let r = fut.wait(); s.end_merge();
            s.trace.push(format!("merge of the {} committed segments ended ({}): meta.json saved without a commit", committed.len(), if r.is_ok() { "ok" } else { "error" }));
            gated = true;
            s.check("after a merge of committed segments saved meta.json, before any commit")?;
            if s.rng.chance(1, 2) { s.rollback()?; s.add(1)?; s.commit()?; } else { s.commit()?; }
        }
        14 => {
            // an I/O error on the merged segment's doc store: either the merge reports an error and the index still holds
            // every document, or it reports success and the merged index is complete and readable (also when reopened)
            if committed.len() < 2 { return Err("skip: need two committed segments".into()); }
            if s.rng.chance(1, 3) { let t = s.rng.below(4); s.del_tag(t); }     // possibly with a pending delete
            let fk = [OpKind::Write, OpKind::Flush, OpKind::Terminate][s.rng.below(3) as usize].clone();
            vd.set_fault_once(fk.clone(), ".store");
            let fut = s.start_merge(&committed)?;
            let r = fut.wait();
            let fired = vd.faults_fired() > 0;
            vd.set_fault(None, false, vec![]);
            match &r {
                Ok(_) => s.end_merge(),
                Err(_) => s.ops.push("AbortMerge 0%nat".into()),
            }
            s.trace.push(format!("explicit merge with a {} fault on *.store (fired: {fired}): {}", fk.name(), match &r { Ok(Some(_)) => "reported success".to_string(), Ok(None) => "no segment".to_string(), Err(e) => format!("reported error {}", e.to_string().chars().take(80).collect::<String>()) }));
            gated = fired;
            if let Err(e) = s.check("after a merge that hit a storage fault on its doc store") {
                // keep the history in the report instead of a bare error
                s.problems.push(format!("index unreadable after a merge that hit a doc-store fault ({}): {e}", if r.is_ok() { "merge reported success" } else { "merge reported an error" }));
                let problems = s.problems.clone();
                let desc = json!({"schedule": kname, "gate_op": k_gate, "gated": gated, "trace": s.trace, "problems": problems, "checks": s.checks});
                return Ok(SchedOut { ok: false, desc, gated, kind: kname, ops: None });
            }
            // what is on storage must be a complete, readable index
            match Index::open(vd.clone()).map_err(|e| format!("{e}")).and_then(|ix| published(&ix, &s.f)) {
                Ok(p) => { let got: Vec<u64> = p.keys().cloned().collect(); let exp: Vec<u64> = s.rp.committed.keys().cloned().collect();
                           if got != exp { s.problems.push(format!("reopened index after the faulty merge differs from the last commit: got {got:?} expected {exp:?}")); } }
                Err(e) => s.problems.push(format!("index unreadable after a merge that hit a doc-store fault ({}): {e}", if r.is_ok() { "merge reported success" } else { "merge reported an error" })),
            }
            s.commit()?;
        }
        4 => {
            if committed.len() < 2 { return Err("skip: need two segments".into()); }
            let (a, b) = committed.split_at(committed.len() / 2);
            gate.arm(k_gate);
            let fut1 = s.start_merge(a)?;
            gated = gate.wait_blocked(1500);
            let t = s.rng.below(4); s.del_tag(t); s.commit()?;
            let fut2 = s.start_merge(b)?;     // second merge thread blocks on the gate as well
            s.trace.push("two merges started".into());
            let t = s.rng.below(4); s.del_tag(t); s.commit()?;
            gate.release();
            let _ = fut1.wait(); s.end_merge(); let _ = fut2.wait(); s.end_merge();
            s.check("after both merges ended")?;
            s.commit()?;
        }
        6 | 7 | 8 => {
            // two uncommitted segments with a delete between them
            let before: BTreeSet<String> = s.segment_uuids().into_iter().collect();
            s.add(3)?; s.finalize_uncommitted()?;
            let after_a: BTreeSet<String> = s.segment_uuids().into_iter().collect();
            let t = s.rng.below(4); s.del_tag(t);
            s.add(3)?; s.finalize_uncommitted()?;
            let after_b: BTreeSet<String> = s.segment_uuids().into_iter().collect();
            let a: Vec<&String> = after_a.difference(&before).collect();
            let b: Vec<&String> = after_b.difference(&after_a).collect();
            if a.len() != 1 || b.len() != 1 { return Err(format!("skip: expected one new segment each, got {} and {}", a.len(), b.len())); }
            let ida = SegmentId::from_uuid_string(a[0]).map_err(|e| format!("{e}"))?;
            let idb = SegmentId::from_uuid_string(b[0]).map_err(|e| format!("{e}"))?;
            let ids = if kind == 7 && s.rng.chance(1, 2) { vec![idb, ida] } else { vec![ida, idb] };
            if kind == 8 { s.commit()?; let t = s.rng.below(4); s.del_tag(t); s.commit()?; }
            if kind == 6 { gate.arm(k_gate); }
            let fut = s.start_merge(&if kind == 8 { index.searchable_segment_ids().map_err(|e| format!("{e}"))?.into_iter().filter(|i| s.seg_no.contains_key(&i.uuid_string())).collect::<Vec<_>>() } else { ids.clone() })?;
            s.trace.push(format!("start explicit merge of the two uncommitted segments ({})", if ids[0] == ida { "older first" } else { "newer first" }));
            if kind == 6 {
                gated = gate.wait_blocked(1500);
                let t = s.rng.below(4); s.del_tag(t); s.commit()?;
                gate.release();
            }
            let r = fut.wait(); s.end_merge();
            s.trace.push(format!("merge ended: {}", match &r { Ok(Some(_)) => "segment".to_string(), Ok(None) => "no segment".to_string(), Err(e) => format!("error {e}") }));
            s.commit()?;
        }
        _ => unreachable!(),
    }
    let problems = s.problems.clone();
    let desc = json!({"schedule": kname, "gate_op": k_gate, "gated": gated, "trace": s.trace, "problems": problems, "checks": s.checks});
    let ops = if s.coq_ok { Some(format!("[{}]", s.ops.join("; "))) } else { None };
    let w = s.w;
    let _ = w.wait_merging_threads();
    Ok(SchedOut { ok: problems.is_empty(), desc, gated, kind: kname, ops })
}

/// corpus: the minimal F0401 histories of findings/C04-explicit-merge-of-uncommitted-segments.md,
/// replayed on the implementation (witness theorem C04_explicit_uncommitted_merge_refuted)
fn run_corpus(rng: &mut Rng, newer_first: bool) -> Result<SchedOut, String> {
    let (schema, f) = make_schema();
    let vd = VerifDirectory::new();
    vd.inner.lock().unwrap().record_data = false;
    let index = Index::create(vd.clone(), schema.clone(), IndexSettings::default()).map_err(|e| format!("{e}"))?;
    let w: IndexWriter = index.writer_with_num_threads(1, 15_000_000).map_err(|e| format!("{e}"))?;
    w.set_merge_policy(Box::new(NoMergePolicy));
    let mut r2 = rng.fork();
    let mut s = Sched { index: index.clone(), w, f, rp: Replay::default(), next: 0, seen: BTreeMap::new(), trace: vec![], rng: &mut r2, problems: vec![], checks: 0,
                          ops: vec![], seg_no: BTreeMap::new(), seg_counter: 0, pending: 0, coq_ok: true };
    s.add_tagged(0)?; s.commit()?;
    let before: BTreeSet<String> = s.segment_uuids().into_iter().collect();
    s.add_tagged(if newer_first { 2 } else { 1 })?; s.finalize_uncommitted()?;
    let after_a: BTreeSet<String> = s.segment_uuids().into_iter().collect();
    s.del_tag(2);
    s.add_tagged(if newer_first { 1 } else { 2 })?; s.finalize_uncommitted()?;
    let after_b: BTreeSet<String> = s.segment_uuids().into_iter().collect();
    let a: Vec<&String> = after_a.difference(&before).collect();
    let b: Vec<&String> = after_b.difference(&after_a).collect();
    if a.len() != 1 || b.len() != 1 { return Err("corpus: segments not found".into()); }
    let ida = SegmentId::from_uuid_string(a[0]).map_err(|e| format!("{e}"))?;
    let idb = SegmentId::from_uuid_string(b[0]).map_err(|e| format!("{e}"))?;
    let ids = if newer_first { vec![idb, ida] } else { vec![ida, idb] };
    let fut = s.start_merge(&ids)?;
    let _ = fut.wait(); s.end_merge();
    s.trace.push(format!("explicit merge of the two uncommitted segments ({})", if newer_first { "newer first" } else { "older first" }));
    s.commit()?;
    let problems = s.problems.clone();
    let desc = json!({"schedule": "corpus F0401", "trace": s.trace, "problems": problems});
    let ops = if s.coq_ok { Some(format!("[{}]", s.ops.join("; "))) } else { None };
    let w = s.w; let _ = w.wait_merging_threads();
    Ok(SchedOut { ok: problems.is_empty(), desc, gated: false, kind: "corpus F0401", ops })
}

struct MergeObs { srcs: Vec<Dump>, out: Option<Dump>, desc: serde_json::Value, sorted: bool }

/// emit the Coq cases and the Rust-side secondary check for one observed merge
fn emit_merge(out: &mut CaseOut, obs: &MergeObs, to_coq: bool) {
    let mut all: Vec<&Dump> = obs.srcs.iter().collect();
    if let Some(o) = &obs.out { all.push(o); }
    let keys = fast_keys(&all);
    let nsrc = obs.srcs.len();
    let live: usize = obs.srcs.iter().map(|d| d.alive.iter().filter(|a| **a).count()).sum();
    let deleted: usize = obs.srcs.iter().map(|d| d.alive.iter().filter(|a| !**a).count()).sum();
    // a term of an indexed field occurring in live documents of >= 2 sources
    let mut spanning = false;
    'outer: for (i, (_, dict)) in obs.srcs[0].inv.iter().enumerate() {
        for (t, _) in dict {
            let mut n = 0;
            for s in &obs.srcs {
                if let Some((_, pl)) = s.inv[i].1.iter().find(|(k, _)| k == t) {
                    if pl.iter().any(|p| s.alive[p.0 as usize]) { n += 1; }
                }
            }
            if n >= 2 { spanning = true; break 'outer; }
        }
    }
    let nontrivial = nsrc >= 2 && deleted >= 1 && spanning;
    if obs.sorted {
        emit_sorted(out, obs, &keys, nontrivial, to_coq, live);
        return;
    }
    // secondary (Rust) check
    let exp = expected_from_order(&obs.srcs, &stacked_order(&obs.srcs));
    let ok = match &obs.out { None => live == 0, Some(o) => live > 0 && same_content(&exp, o) };
    out.spec_checked(ok, json!({"what": "merged segment differs from the live documents of its sources (Rust recomputation)", "case": obs.desc}));
    out.count("merges", 1);
    out.count(&format!("merges_with_{}_sources", nsrc), 1);
    if deleted > 0 { out.count("merges_with_deletes", 1); }
    if obs.desc["kind"].as_str().map(|k| k.contains("uncommitted")).unwrap_or(false) { out.count("merges_of_uncommitted_segments", 1); }
    if obs.out.is_none() { out.count("merges_with_empty_result", 1); }
    if obs.srcs.iter().any(|d| !d.alive.is_empty() && d.alive.iter().all(|a| !*a)) { out.count("merges_with_all_deleted_source", 1); }
    if obs.srcs.iter().any(|d| d.blocks >= 6 && d.alive.iter().all(|a| *a)) { out.count("merges_with_store_stacking_expected", 1); }
    if !to_coq { return; }
    let sch = coq_schema(&obs.srcs[0], &keys);
    let srcs = cf::list(&obs.srcs, |d| coq_seg(d, &keys));
    let o = match &obs.out { None => "None".to_string(), Some(o) => format!("(Some {})", coq_seg(o, &keys)) };
    let mut desc = obs.desc.clone();
    desc["sources"] = json!(nsrc); desc["live"] = json!(live); desc["deleted"] = json!(deleted);
    out.coq_case("tie", format!("forallb (wf_segb {sch}) {srcs}"), json!({"what": "source dumps are well-formed", "case": desc}), false);
    out.coq_case("spec", format!("spec_merge_check {sch} {srcs} {o}"), json!({"what": "spec: merged = live docs of sources", "case": desc}), nontrivial);
    out.coq_case("tie", format!("tie_merge {sch} {srcs} {o}"), json!({"what": "tie: merge_model = merged segment", "case": desc}), nontrivial);
}

/// merges of a sorted index: the mapping is recovered from the unique id column of the output
fn emit_sorted(out: &mut CaseOut, obs: &MergeObs, keys: &[(u32, u8)], nontrivial: bool, to_coq: bool, live: usize) {
    out.count("merges_of_sorted_index", 1);
    let o = match &obs.out { Some(o) => o, None => { out.spec_checked(live == 0, json!({"what": "sorted merge produced no segment although documents are alive", "case": obs.desc})); return; } };
    let idkey = (0u32, 1u8); // field `id`, ColumnType::U64
    let mut where_is: BTreeMap<u64, (usize, u32)> = BTreeMap::new();
    for (s, d) in obs.srcs.iter().enumerate() {
        if let Some(rows) = d.fast.get(&idkey) { for (i, r) in rows.iter().enumerate() { if let Some(v) = r.first() { where_is.insert(v[1], (s, i as u32)); } } }
    }
    let mut order: Vec<(usize, u32)> = vec![];
    let mut ok = true;
    match o.fast.get(&idkey) {
        Some(rows) => for r in rows { match r.first().and_then(|v| where_is.get(&v[1])) { Some(a) => order.push(*a), None => ok = false } },
        None => ok = false,
    }
    out.spec_checked(ok, json!({"what": "a document of the merged segment carries an id that no source document has", "case": obs.desc}));
    if !ok { return; }
    let shuffled = order != stacked_order(&obs.srcs);
    if shuffled { out.count("merges_with_shuffled_mapping", 1); }
    // the sort order itself belongs to C17; here: the key column of the output is sorted (secondary, Rust side)
    let exp = expected_from_order(&obs.srcs, &order);
    let live_addrs: BTreeSet<(usize, u32)> = stacked_order(&obs.srcs).into_iter().collect();
    let got_addrs: BTreeSet<(usize, u32)> = order.iter().cloned().collect();
    out.spec_checked(live_addrs == got_addrs && order.len() == live_addrs.len() && same_content(&exp, o),
                     json!({"what": "sorted merge: merged segment differs from the live documents of its sources under the recovered mapping (Rust recomputation)", "case": obs.desc}));
    if !to_coq { return; }
    let sch = coq_schema(&obs.srcs[0], keys);
    let srcs = cf::list(&obs.srcs, |d| coq_seg(d, keys));
    let ord = cf::list(&order, |(s, d)| format!("({}%nat, {}%nat)", s, d));
    let oo = coq_seg(o, keys);
    let mut desc = obs.desc.clone();
    desc["sources"] = json!(obs.srcs.len()); desc["live"] = json!(live); desc["shuffled"] = json!(shuffled);
    out.coq_case("tie", format!("forallb (wf_segb {sch}) {srcs}"), json!({"what": "source dumps are well-formed", "case": desc}), false);
    out.coq_case("spec", format!("spec_shuffled_check {sch} {srcs} {ord} {oo}"), json!({"what": "spec: every merged document is the live source document the mapping names; mapping is an interleaving", "case": desc}), nontrivial && shuffled);
    out.coq_case("tie", format!("tie_shuffled {sch} {srcs} {ord} {oo}"), json!({"what": "tie: IndexMerger::write under the shuffled mapping = merged segment", "case": desc}), nontrivial && shuffled);
}

struct Cfg { nseg: usize, docs: Vec<usize>, blocksize: usize, del_mode: u64, vocab: u64, uncommitted: bool, sort: Option<bool> }

fn run_merge_case(rng: &mut Rng, cfg: &Cfg, case_no: usize) -> Result<MergeObs, String> {
    let (schema, f) = make_schema();
    let settings = IndexSettings { docstore_blocksize: cfg.blocksize,
        sort_by_field: cfg.sort.map(|asc| tantivy::IndexSortByField { field: "val".to_string(), order: if asc { tantivy::Order::Asc } else { tantivy::Order::Desc } }),
        ..IndexSettings::default() };
    let index = Index::builder().schema(schema.clone()).settings(settings).create_in_ram().map_err(|e| format!("{e}"))?;
    let mut w: IndexWriter = index.writer_with_num_threads(1, 15_000_000).map_err(|e| format!("{e}"))?;
    w.set_merge_policy(Box::new(NoMergePolicy));
    let mut next = 0u64;
    let mut ids_per_seg: Vec<Vec<u64>> = vec![];
    let mut known_before: BTreeSet<String> = BTreeSet::new();
    let mut seg_ids: Vec<SegmentId> = vec![];
    let mut max_docs: Vec<u32> = vec![];
    for s in 0..cfg.nseg {
        let mut ids = vec![];
        for _ in 0..cfg.docs[s] { w.add_document(gen_doc(rng, &f, next, cfg.vocab)).map_err(|e| format!("{e}"))?; ids.push(next); next += 1; }
        if cfg.uncommitted {
            // finalize the segment without committing: a prepared commit that is not (yet) committed
            let _prepared = w.prepare_commit().map_err(|e| format!("{e}"))?;
        } else {
            w.commit().map_err(|e| format!("{e}"))?;
        }
        // the segment that appeared: through the directory listing (uuid of the new .store file)
        let mut new_ids = vec![];
        for p in index.directory().list_managed_files() {
            let name = p.to_string_lossy().to_string();
            if let Some(stem) = name.strip_suffix(".store") {
                if known_before.insert(stem.to_string()) { new_ids.push(stem.to_string()); }
            }
        }
        if new_ids.len() != 1 { return Err(format!("expected exactly one new segment, got {:?}", new_ids)); }
        seg_ids.push(SegmentId::from_uuid_string(&new_ids[0]).map_err(|e| format!("{e}"))?);
        max_docs.push(cfg.docs[s] as u32);
        ids_per_seg.push(ids);
    }
    // deletes
    let mut del_terms: Vec<Term> = vec![];
    match cfg.del_mode {
        0 => {}
        1 => { for _ in 0..rng.range(1, 4) { del_terms.push(Term::from_field_u64(f.id, rng.below(next.max(1)))); } }
        2 => { del_terms.push(Term::from_field_text(f.tag, &format!("t{}", rng.below(4)))); }
        3 => { let s = rng.below(cfg.nseg as u64) as usize; for i in &ids_per_seg[s] { del_terms.push(Term::from_field_u64(f.id, *i)); } }
        _ => { for t in 0..4 { del_terms.push(Term::from_field_text(f.tag, &format!("t{t}"))); } }
    }
    let _ = case_no;
    if !cfg.uncommitted {
        for t in &del_terms { w.delete_term(t.clone()); }
        if !del_terms.is_empty() { w.commit().map_err(|e| format!("{e}"))?; }
    }
    // sources as the merger will open them
    let mut order: Vec<usize> = (0..cfg.nseg).collect();
    if rng.chance(1, 2) { rng.shuffle(&mut order); }
    let take = if rng.chance(2, 3) { cfg.nseg } else { rng.range(1, cfg.nseg as u64) as usize };
    order.truncate(take);
    let metas: Vec<tantivy::SegmentMeta> = if cfg.uncommitted {
        order.iter().map(|i| index.new_segment_meta(seg_ids[*i], max_docs[*i])).collect()
    } else {
        let committed = index.searchable_segment_metas().map_err(|e| format!("{e}"))?;
        // segments whose documents are all deleted are dropped from the index at commit
        order.retain(|i| committed.iter().any(|m| m.id() == seg_ids[*i]));
        order.iter().map(|i| committed.iter().find(|m| m.id() == seg_ids[*i]).unwrap().clone()).collect()
    };
    if metas.is_empty() { return Err("skip: no segment left to merge".into()); }
    let mut srcs = vec![];
    for m in &metas { srcs.push(dump_reader(&open_reader(&index, m)?, &schema, cfg.blocksize)?); }
    let before = if cfg.uncommitted { None } else { Some(published(&index, &f)?) };
    let ids: Vec<SegmentId> = metas.iter().map(|m| m.id()).collect();
    let merged = w.merge(&ids).wait().map_err(|e| format!("merge failed: {e}"))?;
    let out = match &merged { None => None, Some(meta) => Some(dump_reader(&open_reader(&index, meta)?, &schema, cfg.blocksize)?) };
    if let Some(b) = before {
        let after = published(&index, &f)?;
        if b != after { return Err("published content changed by a merge of committed segments".into()); }
    }
    w.wait_merging_threads().map_err(|e| format!("{e}"))?;
    Ok(MergeObs { srcs, out, desc: json!({"kind": if cfg.uncommitted { "explicit merge of uncommitted segments" } else { "explicit merge of committed segments" },
        "docs_per_segment": cfg.docs, "blocksize": cfg.blocksize, "delete_mode": cfg.del_mode, "merge_order": order, "sort": cfg.sort}), sorted: cfg.sort.is_some() })
}

fn main() {
    let args = Args::parse();
    tvh::quiet_panics();
    let mut rng = Rng::new(args.seed);
    let thorough = args.thorough();
    let mut out = CaseOut::new(&args.out, HEADER, 12);

    let n_cases = if thorough { 900 } else { 100 };
    let coq_every = if thorough { 3 } else { 1 };
    for case_no in 0..n_cases {
        let nseg = match case_no % 7 { 0 => 1, 1 => 2, 2 => 3, 3 => 4, 4 => 5, 5 => 6, _ => rng.range(2, 6) as usize };
        let budget = if thorough { 60 } else { 36 };
        let docs: Vec<usize> = (0..nseg).map(|_| match rng.below(6) { 0 => 1, 1 => 2, _ => rng.range(1, (budget / nseg).max(2) as u64) as usize }).collect();
        let blocksize = match rng.below(3) { 0 => 16_384, 1 => 40, _ => 200 };
        let sort = match case_no % 4 { 3 => Some(rng.chance(1, 2)), _ => None };
        let uncommitted = sort.is_none() && case_no % 5 == 4;
        // mode 4 (everything deleted) leaves no committed segment to merge: keep it rare
        let del_mode = if uncommitted { 0 } else { [0u64, 1, 1, 2, 2, 2, 3, 3, 3, 4][rng.below(10) as usize] };
        let cfg = Cfg { nseg, docs, blocksize, del_mode, vocab: rng.range(3, 12), uncommitted, sort };
        let mut r2 = rng.fork();
        match guarded(|| run_merge_case(&mut r2, &cfg, case_no)) {
            Ok(Ok(obs)) => emit_merge(&mut out, &obs, case_no % coq_every == 0),
            Ok(Err(e)) if e.starts_with("skip:") => out.count("skipped", 1),
            Ok(Err(e)) => out.spec_checked(false, json!({"what": e, "docs_per_segment": cfg.docs, "delete_mode": cfg.del_mode, "blocksize": cfg.blocksize, "case_no": case_no})),
            Err(p) => out.spec_checked(false, json!({"what": format!("panic: {p}"), "docs_per_segment": cfg.docs, "delete_mode": cfg.del_mode, "case_no": case_no})),
        }
    }

    // ---------------- schedules: operations issued while a merge is running ----------------
    let n_sched = if thorough { 750 } else { 120 };
    for i in 0..n_sched + 2 {
        let kind = i % 15;
        let k_gate = [1usize, 2, 3, 5, 8, 13, 21, 34, 55][(i / 15) % 9];
        let res = if i >= n_sched { guarded(|| run_corpus(&mut rng, i == n_sched)) } else { guarded(|| run_schedule(&mut rng, kind, k_gate)) };
        match res {
            Ok(Ok(o)) => {
                out.count("schedules", 1);
                out.count(&format!("schedule: {}", o.kind), 1);
                if o.gated { out.count("schedules_gated_inside_merge", 1); }
                match &o.ops {
                    None => out.spec_checked(o.ok, json!({"what": "published content differs from the sequential specification around a merge", "case": o.desc})),
                    Some(ops) => {
                        // tie: the state machine (with the merge mechanism) publishes what the implementation published
                        out.coq_case("tie", format!("sched_tie {ops}"), json!({"what": "tie: writer/merge state machine = published ids", "case": o.desc}), o.gated);
                        if o.ok {
                            out.coq_case("spec", format!("sched_spec {ops}"), json!({"what": "spec: published ids = sequential replay (merge transparent)", "case": o.desc}), o.gated);
                        } else {
                            out.count("schedules_violating_spec", 1);
                            out.coq_case("known:F0401", format!("f0401_class {ops}"), json!({"what": "published content differs from the sequential replay around a merge", "case": o.desc}), true);
                        }
                    }
                }
            }
            Ok(Err(e)) if e.starts_with("skip:") => out.count("skipped_schedules", 1),
            Ok(Err(e)) => out.spec_checked(false, json!({"what": e, "schedule_kind": kind, "gate": k_gate})),
            Err(p) => out.spec_checked(false, json!({"what": format!("panic: {p}"), "schedule_kind": kind, "gate": k_gate})),
        }
    }
    out.finish(json!({"tier": args.tier, "seed": args.seed}));
}
