//! scratch probes for C15 (not part of the check)
use std::ops::Bound;
use tantivy_common::OwnedBytes;
use tantivy_sstable::{Dictionary, MonotonicU64SSTable, VoidSSTable};
use tvh::guarded;

fn main() {
    tvh::quiet_panics();
    // F11
    let r = guarded(|| {
        let mut b = Dictionary::<VoidSSTable>::builder(Vec::new()).unwrap();
        b.insert(b"", &()).unwrap();
        b.insert(b"", &()).unwrap();
        b.insert(b"a", &()).unwrap();
        let bytes = b.finish().unwrap();
        let d = Dictionary::<VoidSSTable>::from_bytes(OwnedBytes::new(bytes)).unwrap();
        let mut s = d.stream().unwrap();
        let mut ks = vec![];
        while s.advance() { ks.push(s.key().to_vec()); }
        (d.num_terms(), ks, d.term_ord(b"").unwrap(), d.term_ord(b"a").unwrap())
    });
    println!("F11 dup empty: {:?}", r);
    for bl in [0usize, 1, 2] {
        let r = guarded(|| {
            let mut b = Dictionary::<VoidSSTable>::builder(Vec::new()).unwrap();
            b.set_block_len(bl);
            b.insert(b"", &()).unwrap();
            b.insert(b"", &()).unwrap();
            b.insert(b"", &()).unwrap();
            b.insert(b"a", &()).unwrap();
            let bytes = b.finish().unwrap();
            Dictionary::<VoidSSTable>::from_bytes(OwnedBytes::new(bytes)).unwrap().num_terms()
        });
        println!("F11 block_len={} : {:?}", bl, r);
    }
    let r = guarded(|| {
        let mut b = Dictionary::<VoidSSTable>::builder(Vec::new()).unwrap();
        b.insert(b"a", &()).unwrap();
        b.insert(b"a", &()).unwrap();
    });
    println!("dup a: {:?}", r);
    let r = guarded(|| {
        let mut b = Dictionary::<VoidSSTable>::builder(Vec::new()).unwrap();
        b.set_block_len(0);
        b.insert(b"b", &()).unwrap();
        b.insert(b"a", &()).unwrap();
    });
    println!("b then a across block: {:?}", r);
    // inverted range over several blocks
    let mut b = Dictionary::<MonotonicU64SSTable>::builder(Vec::new()).unwrap();
    b.set_block_len(4);
    for i in 0..40u64 { b.insert(format!("k{:03}", i).as_bytes(), &i).unwrap(); }
    let bytes = b.finish().unwrap();
    let d = Dictionary::<MonotonicU64SSTable>::from_bytes(OwnedBytes::new(bytes)).unwrap();
    let r = guarded(|| { let mut s = d.range().ge(b"k030").lt(b"k005").into_stream().unwrap(); let mut n = 0; while s.advance() { n += 1; } n });
    println!("inverted ge k030 lt k005: {:?}", r);
    let r = guarded(|| { let mut s = d.range().ge(b"k030").le(b"k030").into_stream().unwrap(); let mut n = 0; while s.advance() { n += 1; } n });
    println!("ge k030 le k030: {:?}", r);
    let r = guarded(|| { let mut s = d.range().gt(b"k030").lt(b"k030").into_stream().unwrap(); let mut n = 0; while s.advance() { n += 1; } n });
    println!("gt k030 lt k030: {:?}", r);
    let r = guarded(|| { let mut s = d.range().ge(b"k030").limit(0).into_stream().unwrap(); let mut n = 0; while s.advance() { n += 1; } n });
    println!("ge k030 limit 0: {:?}", r);
    let r = guarded(|| { let mut s = d.range().limit(3).into_stream().unwrap(); let mut n = 0; while s.advance() { n += 1; } n });
    println!("limit 3: {:?}", r);
    println!("ord_or_next zz: {:?}", d.term_ord_or_next(b"zz"));
    println!("ord_to_term 40: {:?}", guarded(|| { let mut v = vec![]; d.ord_to_term(40, &mut v).map(|b| (b, v)) }));
    println!("ord_to_term 1000: {:?}", guarded(|| { let mut v = vec![]; d.ord_to_term(1000, &mut v).map(|b| (b, v)) }));
    println!("term_bounds_to_ord: {:?}", d.term_bounds_to_ord(Bound::Included(b"k0035".to_vec()), Bound::Excluded(b"zz".to_vec())));
    let e = Dictionary::<MonotonicU64SSTable>::empty();
    println!("empty: n={} ord_or_next={:?} get={:?} ord_to_term={:?}", e.num_terms(), e.term_ord_or_next(b"a"), e.get(b""), guarded(|| { let mut v = vec![]; e.ord_to_term(0, &mut v) }));
}
