//! C20 correspondence: CRC model vs crc32fast; FooterProxy layout under short writes;
//! damage sweeps (bit flips, truncation, extension, version field) on generated indexes.
use std::io::Write;
use std::path::Path;

use serde_json::json;
use tantivy::directory::error::OpenReadError;
use tantivy::directory::{ManagedDirectory, TerminatingWrite};
use tantivy::schema::{Schema, FAST, INDEXED, STORED, STRING, TEXT};
use tantivy::{doc, Directory, Index, IndexSettings};
use tvh::coqfmt as cf;
use tvh::out::CaseOut;
use tvh::rng::Rng;
use tvh::vdir::{OpKind, VerifDirectory};
use tvh::{guarded, Args};

const HEADER: &str = "From TV Require Import Base.Prelude Codec.CRC Codec.Footer Generated.Constants.";

fn evs_term(evs: &[(Vec<u8>, usize)]) -> String {
    cf::list(evs, |(b, k)| format!("({}, {})", cf::bytes(b), cf::nat(*k)))
}

/// outcome code shared with Footer.v: 0 intact / 1 mismatch / 2 error / 3 incompatible / 4 panic
fn validate_outcome(md: &ManagedDirectory, path: &Path) -> u8 {
    match guarded(|| md.validate_checksum(path)) {
        Err(_) => 4,
        Ok(Ok(true)) => 0,
        Ok(Ok(false)) => 1,
        Ok(Err(OpenReadError::IncompatibleIndex(_))) => 3,
        Ok(Err(_)) => 2,
    }
}
fn open_outcome(md: &ManagedDirectory, path: &Path, expect: &[u8]) -> u8 {
    match guarded(|| md.open_read(path).map(|fs| fs.read_bytes().map(|b| b.as_slice().to_vec()))) {
        Err(_) => 4,
        Ok(Ok(Ok(b))) => if b == expect { 0 } else { 1 },
        Ok(Ok(Err(_))) => 2,
        Ok(Err(OpenReadError::IncompatibleIndex(_))) => 3,
        Ok(Err(_)) => 2,
    }
}

fn split_footer(file: &[u8]) -> Option<(usize, usize)> {
    // (body_len, payload_len) of a well-formed file, computed by the harness for damage construction only
    if file.len() < 8 { return None; }
    let n = file.len();
    let flen = u32::from_le_bytes(file[n - 8..n - 4].try_into().unwrap()) as usize;
    if n < flen + 8 { return None; }
    Some((n - 8 - flen, flen))
}

fn with_version(file: &[u8], new_fmt: u64) -> Option<Vec<u8>> {
    let (body_len, flen) = split_footer(file)?;
    let payload = std::str::from_utf8(&file[body_len..body_len + flen]).ok()?;
    let key = "\"index_format_version\":";
    let i = payload.find(key)? + key.len();
    let j = i + payload[i..].find(|c: char| !c.is_ascii_digit())?;
    let newp = format!("{}{}{}", &payload[..i], new_fmt, &payload[j..]);
    let mut out = file[..body_len].to_vec();
    out.extend_from_slice(newp.as_bytes());
    out.extend_from_slice(&(newp.len() as u32).to_le_bytes());
    out.extend_from_slice(&file[file.len() - 4..]);
    Some(out)
}

fn main() {
    let args = Args::parse();
    tvh::quiet_panics();
    let mut rng = Rng::new(args.seed);
    let thorough = args.thorough();
    let mut out = CaseOut::new(&args.out, HEADER, 120);

    // ---------------- (i) CRC model vs crc32fast ----------------
    let n_crc = if thorough { 1500 } else { 300 };
    for i in 0..n_crc {
        let len = match i % 6 { 0 => (i / 6) % 70, 1 => rng.range(0, 16) as usize, 2 => rng.range(60, 70) as usize, _ => rng.range(0, 700) as usize };
        let data: Vec<u8> = match i % 5 { 0 => vec![0u8; len], 1 => vec![0xFFu8; len], _ => rng.bytes(len) };
        let mut h = crc32fast::Hasher::new();
        h.update(&data);
        let c = h.finalize();
        out.coq_case("tie", format!("N.eqb (crc32 {}) {}", cf::bytes(&data), c), json!({"what": "crc32", "len": len, "hex": cf::hex(&data[..len.min(64)])}), len >= 5);
        out.count("crc_cases", 1);
        // incremental hashing over random chunking
        if i % 3 == 0 && len > 0 {
            let mut chunks: Vec<Vec<u8>> = vec![];
            let mut rest = &data[..];
            let mut h = crc32fast::Hasher::new();
            while !rest.is_empty() {
                let k = 1 + rng.below(rest.len() as u64) as usize;
                chunks.push(rest[..k].to_vec());
                h.update(&rest[..k]);
                rest = &rest[k..];
            }
            let c2 = h.finalize();
            out.coq_case("tie", format!("N.eqb (hasher_finalize (fold_left hasher_update {} hasher_new)) {}", cf::list(&chunks, |c| cf::bytes(c)), c2),
                         json!({"what": "crc32-incremental", "chunks": chunks.len(), "len": len}), chunks.len() >= 2);
        }
    }

    // ---------------- (ii) FooterProxy under short writes ----------------
    let n_proxy = if thorough { 600 } else { 150 };
    for i in 0..n_proxy {
        let vd = VerifDirectory::new();
        vd.set_short_writes(if i % 4 == 0 { None } else { Some(rng.fork()) });
        let md = ManagedDirectory::wrap(Box::new(vd.clone())).expect("wrap");
        let path = Path::new("seg.test");
        let total = match i % 5 { 0 => 0, 1 => rng.range(1, 9) as usize, _ => rng.range(1, 900) as usize };
        let data = rng.bytes(total);
        let r = guarded(|| -> std::io::Result<()> {
            let mut w = md.open_write(path).map_err(|e| std::io::Error::new(std::io::ErrorKind::Other, format!("{e:?}")))?;
            let mut rest = &data[..];
            while !rest.is_empty() {
                let k = 1 + rng.below(rest.len() as u64) as usize;
                w.write_all(&rest[..k])?;
                if rng.chance(1, 4) { w.flush()?; }
                rest = &rest[k..];
            }
            w.terminate()
        });
        let ok = matches!(r, Ok(Ok(())));
        out.spec_checked(ok, json!({"what": "proxy write failed", "result": format!("{:?}", r)}));
        if !ok { continue; }
        // write events that reached the inner writer through FooterProxy::write: those up to the point
        // where the caller's data is fully accepted (the later ones are append_footer's own writes)
        let mut evs: Vec<(Vec<u8>, usize)> = vec![];
        let mut acc = 0usize;
        for e in vd.log().iter().filter(|e| e.kind == OpKind::Write && e.path == "seg.test") {
            if acc >= total { break; }
            acc += e.accepted;
            evs.push((e.data.clone(), e.accepted));
        }
        let raw = vd.raw("seg.test").unwrap();
        let desc = json!({"what": "proxy", "data_len": total, "writes": evs.len(), "short": evs.iter().filter(|(b, k)| *k < b.len()).count(), "file_len": raw.len()});
        // tie: the file is exactly the model's bytes (layout is part of this property)
        out.coq_case("tie", format!("list_eqb N.eqb (run_file lib_version {}) {}", evs_term(&evs), cf::bytes(&raw)), desc.clone(), evs.len() >= 2);
        // spec: what the caller wrote is what the underlying writer accepted, and is what open_read returns
        out.coq_case("spec", format!("list_eqb N.eqb (accepted {}) {}", evs_term(&evs), cf::bytes(&data)), desc.clone(), evs.len() >= 2);
        out.spec_checked(open_outcome(&md, path, &data) == 0, json!({"what": "open_read != written", "case": desc}));
        out.spec_checked(validate_outcome(&md, path) == 0, json!({"what": "intact file reported", "case": desc}));
        out.count("proxy_cases", 1);
        out.count("proxy_short_writes", evs.iter().filter(|(b, k)| *k < b.len()).count() as u64);
    }

    // ---------------- (iii) damage sweeps on generated indexes ----------------
    let n_idx = if thorough { 12 } else { 3 };
    let mut coq_damage_budget: i64 = if thorough { 600 } else { 160 };
    for ix in 0..n_idx {
        let vd = VerifDirectory::new();
        let mut sb = Schema::builder();
        let id = sb.add_u64_field("id", FAST | INDEXED | STORED);
        let tag = sb.add_text_field("tag", STRING | STORED);
        let body = sb.add_text_field("body", TEXT | STORED);
        let schema = sb.build();
        let index = Index::create(vd.clone(), schema, IndexSettings::default()).expect("create");
        {
            let mut w = index.writer_with_num_threads::<tantivy::TantivyDocument>(1, 20_000_000).expect("writer");
            let nseg = 1 + (ix % 3);
            let mut next = 0u64;
            for _ in 0..nseg {
                let nd = rng.range(1, if thorough { 60 } else { 25 });
                for _ in 0..nd {
                    let words: Vec<String> = (0..rng.range(1, 12)).map(|_| format!("w{}", rng.below(30))).collect();
                    w.add_document(doc!(id => next, tag => format!("t{}", rng.below(5)), body => words.join(" "))).unwrap();
                    next += 1;
                }
                if rng.chance(1, 2) && next > 2 {
                    w.delete_term(tantivy::Term::from_field_text(tag, &format!("t{}", rng.below(5))));
                }
                w.commit().expect("commit");
            }
            w.wait_merging_threads().ok();
        }
        let md = index.directory().clone();
        let intact = guarded(|| index.validate_checksum());
        let intact_ok = matches!(&intact, Ok(Ok(s)) if s.is_empty());
        out.spec_checked(intact_ok, json!({"what": "intact index reported damaged", "result": format!("{:?}", intact)}));
        let mut files: Vec<String> = index.searchable_segment_metas().unwrap().iter().flat_map(|m| m.list_files()).map(|p| p.to_string_lossy().to_string()).filter(|p| vd.raw(p).is_some()).collect();
        files.sort();
        files.dedup();
        out.count("index_files", files.len() as u64);
        for f in &files {
            let orig = vd.raw(f).unwrap();
            let p = Path::new(f);
            let (body_len, _flen) = match split_footer(&orig) { Some(x) => x, None => { out.spec_checked(false, json!({"what": "file without footer", "file": f})); continue; } };
            let small = orig.len() <= 1200;
            // -- bit flips in the body: exhaustive for small bodies, sampled otherwise
            let positions: Vec<usize> = if body_len * 8 <= 32768 { (0..body_len * 8).collect() } else {
                let mut v: Vec<usize> = (0..512.min(body_len * 8)).collect();
                v.extend((body_len * 8).saturating_sub(512)..body_len * 8);
                for _ in 0..2000 { v.push(rng.below(body_len as u64 * 8) as usize); }
                v
            };
            for (j, bit) in positions.iter().enumerate() {
                let mut d = orig.clone();
                d[bit / 8] ^= 1 << (bit % 8);
                vd.set_raw(f, d.clone());
                let o = validate_outcome(&md, p);
                out.spec_checked(o == 1 || o == 2 || o == 3, json!({"what": "bit flip not detected", "file": f, "bit": bit, "outcome": o, "file_hex": cf::hex(&orig[..orig.len().min(4096)])}));
                out.count("bit_flips", 1);
                if small && coq_damage_budget > 0 && j % 97 == (ix as usize) % 97 {
                    coq_damage_budget -= 1;
                    out.coq_case("tie", format!("N.eqb (outcome_validate (run_validate {})) {}", cf::bytes(&d), o), json!({"what": "bitflip", "file": f, "bit": bit, "impl": o, "len": d.len()}), true);
                }
                // Index-level walk on a few: exactly this file is reported
                if j == positions.len() / 2 {
                    let r = guarded(|| index.validate_checksum());
                    let ok = match &r { Ok(Ok(s)) => s.len() == 1 && s.iter().next().unwrap().to_string_lossy() == *f, Ok(Err(_)) => true, Err(_) => false };
                    out.spec_checked(ok, json!({"what": "Index::validate_checksum does not report exactly the damaged file", "file": f, "result": format!("{:?}", r)}));
                }
            }
            // -- byte substitutions
            for _ in 0..(if body_len > 0 { 64 } else { 0 }) {
                let i = rng.below(body_len as u64) as usize;
                let mut d = orig.clone();
                let nv = loop { let v = rng.next_u64() as u8; if v != d[i] { break v; } };
                d[i] = nv;
                vd.set_raw(f, d);
                let o = validate_outcome(&md, p);
                out.spec_checked(o == 1 || o == 2 || o == 3, json!({"what": "byte substitution not detected", "file": f, "pos": i, "outcome": o}));
                out.count("byte_substitutions", 1);
            }
            // -- small random multi-byte damage within 4 consecutive bytes (a burst <= 32 bits)
            for _ in 0..(if body_len >= 4 { 64 } else { 0 }) {
                let i = rng.below(body_len as u64 - 3) as usize;
                let mut d = orig.clone();
                let mut changed = false;
                for k in 0..4 { let x = rng.next_u64() as u8; if x != 0 { changed = true; } d[i + k] ^= x; }
                if !changed { continue; }
                vd.set_raw(f, d);
                let o = validate_outcome(&md, p);
                out.spec_checked(o == 1 || o == 2 || o == 3, json!({"what": "4-byte burst not detected", "file": f, "pos": i, "outcome": o}));
                out.count("bursts", 1);
            }
            // -- every truncation length
            let trunc: Vec<usize> = if orig.len() <= 3000 { (0..orig.len()).collect() } else {
                let mut v: Vec<usize> = (0..64).collect(); v.extend(orig.len() - 200..orig.len());
                for _ in 0..400 { v.push(rng.below(orig.len() as u64) as usize); } v
            };
            for k in trunc {
                let d = orig[..k].to_vec();
                vd.set_raw(f, d.clone());
                let o = validate_outcome(&md, p);
                out.count("truncations", 1);
                if o == 4 {
                    out.spec_checked(false, json!({"what": "truncated file makes validate_checksum panic", "file": f, "len": k, "orig_len": orig.len(), "hex": cf::hex(&d[..d.len().min(64)])}));
                } else if o == 0 {
                    // undetected: inherent class F8 iff the model, too, accepts the damaged bytes as intact
                    out.coq_case("known:F8", format!("N.eqb (outcome_validate (run_validate {})) 0", cf::bytes(&d)), json!({"what": "truncation undetected", "file": f, "len": k}), true);
                }
                // the index-level walk must agree with the per-file verdict: a truncation the file check detects (also the
                // shortest ones, 0..11 bytes: shorter than the footer trailer) is reported -- by listing the file or by an error
                if o != 0 && (k < 12 || k % 101 == 0) {
                    let r = guarded(|| index.validate_checksum());
                    let ok = match &r { Ok(Ok(s)) => s.iter().any(|x| x.to_string_lossy() == *f), Ok(Err(_)) => true, Err(_) => false };
                    out.spec_checked(ok, json!({"what": "Index::validate_checksum reports a truncated committed file as healthy (or panics)", "file": f, "len": k, "orig_len": orig.len(), "per_file_outcome": o, "result": format!("{:?}", r)}));
                    out.count("index_level_truncations", 1);
                }
                let oo = open_outcome(&md, p, &orig[..body_len]);
                if oo == 4 { out.spec_checked(false, json!({"what": "truncated file makes open_read panic", "file": f, "len": k, "orig_len": orig.len(), "hex": cf::hex(&d[..d.len().min(64)])})); }
                if small && coq_damage_budget > 0 && (k < 12 || k % 53 == 0) {
                    coq_damage_budget -= 1;
                    out.coq_case("tie", format!("N.eqb (outcome_validate (run_validate {})) {}", cf::bytes(&d), o), json!({"what": "truncation", "file": f, "len": k, "impl": o}), true);
                }
            }
            // -- extensions: bytes appended after the footer, and bytes inserted at the end of the body
            for k in 1..=16usize {
                let extra = rng.bytes(k);
                let mut d = orig.clone(); d.extend_from_slice(&extra);
                vd.set_raw(f, d.clone());
                let o = validate_outcome(&md, p);
                out.count("extensions", 1);
                if o == 4 { out.spec_checked(false, json!({"what": "extended file makes validate_checksum panic", "file": f, "extra": k})); }
                else if o == 0 { out.coq_case("known:F8", format!("N.eqb (outcome_validate (run_validate {})) 0", cf::bytes(&d)), json!({"what": "extension undetected", "file": f, "extra": cf::hex(&extra)}), true); }
                let mut d2 = orig[..body_len].to_vec(); d2.extend_from_slice(&extra); d2.extend_from_slice(&orig[body_len..]);
                vd.set_raw(f, d2.clone());
                let o2 = validate_outcome(&md, p);
                out.spec_checked(o2 != 4, json!({"what": "body-extended file makes validate_checksum panic", "file": f}));
                if o2 == 0 { out.coq_case("known:F8", format!("N.eqb (outcome_validate (run_validate {})) 0", cf::bytes(&d2)), json!({"what": "body extension undetected", "file": f, "extra": cf::hex(&extra)}), true); }
                if small && coq_damage_budget > 0 && k % 5 == 1 {
                    coq_damage_budget -= 1;
                    out.coq_case("tie", format!("N.eqb (outcome_validate (run_validate {})) {}", cf::bytes(&d2), o2), json!({"what": "body-extension", "file": f, "impl": o2}), true);
                }
            }
            // -- version field sweep
            let cur = tantivy::INDEX_FORMAT_VERSION as u64;
            let oldest = tantivy::INDEX_FORMAT_OLDEST_SUPPORTED_VERSION as u64;
            for v in [0u64, oldest.saturating_sub(1), oldest, (oldest + cur) / 2, cur, cur + 1, u32::MAX as u64] {
                if let Some(d) = with_version(&orig, v) {
                    vd.set_raw(f, d.clone());
                    let o = open_outcome(&md, p, &orig[..body_len]);
                    let supported = v >= oldest && v <= cur;
                    out.spec_checked(if supported { o == 0 } else { o == 3 }, json!({"what": "version gate", "file": f, "version": v, "outcome": o}));
                    out.count("version_cases", 1);
                    if small && coq_damage_budget > 0 {
                        coq_damage_budget -= 1;
                        out.coq_case("tie", format!("N.eqb (outcome_open (run_open_read {}) {}) {}", cf::bytes(&d), cf::bytes(&orig[..body_len]), o), json!({"what": "version", "file": f, "version": v, "impl": o}), true);
                    }
                } else {
                    out.spec_checked(false, json!({"what": "footer payload not in the expected JSON shape", "file": f}));
                }
            }
            vd.set_raw(f, orig);
        }
    }

    // ---------------- corpus: F8 witness (inherent) ----------------
    {
        let vd = VerifDirectory::new();
        let md = ManagedDirectory::wrap(Box::new(vd.clone())).unwrap();
        let inner = vec![1u8, 2, 3];
        let mut w = md.open_write(Path::new("inner")).unwrap();
        w.write_all(&inner).unwrap(); w.terminate().unwrap();
        let mut body = vd.raw("inner").unwrap();
        let cut = body.len();
        body.extend_from_slice(&[9, 9]);
        let mut w = md.open_write(Path::new("outer")).unwrap();
        w.write_all(&body).unwrap(); w.terminate().unwrap();
        let full = vd.raw("outer").unwrap();
        vd.set_raw("outer", full[..cut].to_vec());
        let o = validate_outcome(&md, Path::new("outer"));
        if o == 0 {
            out.coq_case("known:F8", format!("N.eqb (outcome_validate (run_validate {})) 0", cf::bytes(&full[..cut])), json!({"what": "truncation undetected (corpus witness: body embeds a footer)", "len": cut}), true);
        }
    }

    out.finish(json!({"tier": args.tier, "seed": args.seed}));
}
