//! one-off replay of a C10 history (json file with {"history": [...], "threads": n, "merge_policy": p, "sorted": b}); prints the probes
use std::collections::BTreeSet;
use tantivy::Index;
use tvh::e1::{self, Cfg, Op};
use tvh::vdir::VerifDirectory;
fn main() {
    let path = std::env::args().nth(1).expect("json file");
    let n: usize = std::env::args().nth(2).and_then(|x| x.parse().ok()).unwrap_or(20);
    let v: serde_json::Value = serde_json::from_slice(&std::fs::read(path).unwrap()).unwrap();
    let ops: Vec<Op> = v["history"].as_array().unwrap().iter().map(|o| {
        if let Some(s) = o.as_str() { match s { "commit" => Op::Commit, "rollback" => Op::Rollback, "merge" => Op::MergeAll, "reopen" => Op::Reopen, "gc" => Op::Gc, "wait_merges" => Op::WaitMerges, "prepare_commit_then_abort" => Op::PrepareAbort, x => panic!("op {x}") } }
        else if let Some(a) = o.get("add") { Op::Add { id: a.as_u64().unwrap(), tag: o["tag"].as_u64().unwrap() as u8, nwords: o["w"].as_u64().unwrap() as u8 } }
        else if let Some(d) = o.get("del") { Op::DelTerm(d.as_u64().unwrap() as u8) }
        else if let Some(p) = o.get("set_policy") { Op::SetPolicy(p.as_u64().unwrap() as u8) }
        else { panic!("op {o}") }
    }).collect();
    let cfg = Cfg { threads: v["threads"].as_u64().unwrap() as usize, merge_policy: v["merge_policy"].as_u64().unwrap() as u8, stop_on_error: false, replay_failed_commit: false };
    let sorted = v["sorted"].as_bool().unwrap_or(false);
    for it in 0..n {
        let vd = VerifDirectory::new();
        let (schema, _f) = e1::schema();
        let settings = if sorted { tantivy::IndexSettings { sort_by_field: Some(tantivy::IndexSortByField { field: "id".to_string(), order: tantivy::Order::Asc }), ..Default::default() } } else { Default::default() };
        let index = Index::create(vd.clone(), schema, settings).unwrap();
        let res = e1::run_history_on(&vd, Some(index), &ops, &cfg, false);
        for (i, (pf, _pm, pl)) in &res.probes {
            let orphans: BTreeSet<&String> = pf.iter().filter(|f| !pl.contains(f)).collect();
            if !orphans.is_empty() {
                println!("run {it}: probe after op {i}: orphans {orphans:?}");
                let seg = orphans.iter().next().unwrap().split('.').next().unwrap().to_string();
                for e in vd.log().iter().filter(|e| e.path.starts_with(&seg) || e.kind == tvh::vdir::OpKind::Marker) { println!("   {} {} {:?} {} {}", e.seq, e.thread, e.kind, e.path, e.result); }
                return;
            }
        }
    }
    println!("no orphan in {n} runs");
}
