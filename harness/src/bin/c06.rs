//! C06 correspondence: (a) the public TopNComputer vs the Gallina model and vs the topk spec;
//! (b) end-to-end TopDocs (score / fast fields / tweak_score, offsets, paging, 1..4 segments,
//! deletes, single- and multi-threaded executor) vs the same searcher's exhaustive (doc, key) list
//! from a non-pruning custom collector; (c) corpus witnesses of the known findings F3, F6, F15.
use std::collections::{BTreeMap, HashMap, HashSet};

use serde_json::{json, Value};
use tantivy::collector::sort_key::ComparatorEnum;
use tantivy::collector::{Collector, Count, MultiCollector, SegmentCollector, TopDocs, TopNComputer};
use tantivy::fieldnorm::FieldNormReader;
use tantivy::query::{AllQuery, BooleanQuery, Occur, Query, TermQuery};
use tantivy::schema::{Field, IndexRecordOption, Schema, FAST, INDEXED, STRING, TEXT};
use tantivy::{DateTime, DocAddress, DocId, DocSet, Index, IndexWriter, Order, Score, Searcher, SegmentReader, TantivyDocument, Term, TERMINATED};
use tvh::coqfmt as cf;
use tvh::out::CaseOut;
use tvh::rng::Rng;
use tvh::{guarded, Args};

const HEADER: &str = "From TV Require Import Base.Prelude Generated.Constants Rank.TopN Rank.Paging Rank.Wand Rank.WandNoFreq.";

// ------------------------------------------------------------------ Gallina printers
fn ckey(k: &Option<i128>) -> String {
    match k { Some(v) => format!("Some {}", cf::z(*v)), None => "None".into() }
}
fn celt(k: &Option<i128>, a: u64) -> String { format!("({}, {})", ckey(k), a) }
fn celts(v: &[(Option<i128>, u64)]) -> String { cf::list(v, |(k, a)| celt(k, *a)) }
fn addr(a: DocAddress) -> u64 { ((a.segment_ord as u64) << 32) | a.doc_id as u64 }
fn cmp_name(c: ComparatorEnum) -> &'static str {
    match c { ComparatorEnum::Natural => "Natural", ComparatorEnum::Reverse => "Reverse", ComparatorEnum::ReverseNoneLower => "ReverseNoneLower", ComparatorEnum::NaturalNoneHigher => "NaturalNoneHigher" }
}
/// order-preserving integer image of a non-NaN float (sign-magnitude -> two's complement order)
fn f32_ord(x: f32) -> i128 { let b = x.to_bits(); if b >> 31 == 1 { -((b & 0x7fff_ffff) as i128) } else { b as i128 } }
fn f64_ord(x: f64) -> i128 { let b = x.to_bits(); if b >> 63 == 1 { -((b & 0x7fff_ffff_ffff_ffff) as i128) } else { b as i128 } }

/// reference order on (key, addr) under a comparator kind (harness-side copy, used only for bulk Rust-side checks)
fn key_cmp(c: ComparatorEnum, a: &Option<i128>, b: &Option<i128>) -> std::cmp::Ordering {
    use std::cmp::Ordering::*;
    match c {
        ComparatorEnum::Natural => a.cmp(b),
        ComparatorEnum::Reverse => b.cmp(a),
        ComparatorEnum::ReverseNoneLower => match (a, b) { (None, None) => Equal, (None, Some(_)) => Less, (Some(_), None) => Greater, (Some(x), Some(y)) => y.cmp(x) },
        ComparatorEnum::NaturalNoneHigher => match (a, b) { (None, None) => Equal, (None, Some(_)) => Greater, (Some(_), None) => Less, (Some(x), Some(y)) => x.cmp(y) },
    }
}
fn sort_spec(c: ComparatorEnum, v: &mut Vec<(Option<i128>, u64)>) {
    v.sort_by(|x, y| key_cmp(c, &y.0, &x.0).then(x.1.cmp(&y.1)));
}
fn slice(v: &[(Option<i128>, u64)], k: usize, o: usize) -> Vec<(Option<i128>, u64)> {
    v.iter().skip(o).take(k).cloned().collect()
}

// ------------------------------------------------------------------ exhaustive oracle collectors
/// every matching (score, address), scoring enabled, no pruning (for_each path)
struct AllScores;
struct AllScoresSeg(u32, Vec<(Score, DocAddress)>);
impl Collector for AllScores {
    type Fruit = Vec<(Score, DocAddress)>;
    type Child = AllScoresSeg;
    fn for_segment(&self, ord: u32, _r: &SegmentReader) -> tantivy::Result<AllScoresSeg> { Ok(AllScoresSeg(ord, vec![])) }
    fn requires_scoring(&self) -> bool { true }
    fn merge_fruits(&self, f: Vec<Vec<(Score, DocAddress)>>) -> tantivy::Result<Self::Fruit> { Ok(f.into_iter().flatten().collect()) }
}
impl SegmentCollector for AllScoresSeg {
    type Fruit = Vec<(Score, DocAddress)>;
    fn collect(&mut self, doc: DocId, score: Score) { self.1.push((score, DocAddress::new(self.0, doc))); }
    fn harvest(self) -> Self::Fruit { self.1 }
}

// ------------------------------------------------------------------ (a) TopNComputer
fn part_topn(rng: &mut Rng, out: &mut CaseOut, thorough: bool) {
    let n_cases = if thorough { 2400 } else { 420 };
    let comps = [ComparatorEnum::Natural, ComparatorEnum::Reverse, ComparatorEnum::ReverseNoneLower, ComparatorEnum::NaturalNoneHigher];
    for i in 0..n_cases {
        let c = comps[i % 4];
        let base_n = match (i / 4) % 7 { 0 => 0, 1 => 1, 2 => 2, 3 => 3, 4 => rng.range(4, 9), 5 => rng.range(10, 20), _ => rng.range(1, 6) } as usize;
        let cap = 2 * base_n.max(1);
        // lengths around the capacity crossings
        let len = match rng.below(10) { 0 => 0, 1 => 1, 2 => cap - 1, 3 => cap, 4 => cap + 1, 5 => 2 * cap + 1, 6 => 3 * cap, 7 => base_n, 8 => base_n + 1, _ => rng.range(0, 70) as usize };
        // K relative to the number of elements: n-1, n, n+1
        let n = match rng.below(8) { 0 => len.saturating_sub(1), 1 => len, 2 => len + 1, _ => base_n };
        let alphabet = match rng.below(4) { 0 => 1, 1 => 2, 2 => 4, _ => 1000 };
        let none_share = match rng.below(3) { 0 => 0, 1 => 3, _ => 8 };
        let mut doc = 0u64;
        let mut xs: Vec<(Option<i128>, u64)> = vec![];
        for _ in 0..len {
            doc += match rng.below(4) { 0 => 1, 1 => 1, 2 => rng.range(1, 5), _ => rng.range(1, 1 << 33) };
            let k = if rng.below(10) < none_share { None } else { Some(rng.below(alphabet) as i128 - (alphabet as i128) / 2) };
            xs.push((k, doc));
        }
        let r = guarded(|| {
            let mut t: TopNComputer<Option<i64>, u64, ComparatorEnum> = TopNComputer::new_with_comparator(n, c);
            let mut thrs: Vec<Option<Option<i64>>> = vec![];
            for (k, d) in &xs { t.push(k.map(|v| v as i64), *d); thrs.push(t.threshold.clone()); }
            let thr = t.threshold.clone();
            let v: Vec<(Option<i128>, u64)> = t.into_sorted_vec().into_iter().map(|cd| (cd.sort_key.map(|v| v as i128), cd.doc)).collect();
            (v, thr, thrs)
        });
        let desc = json!({"what": "topn", "cmp": cmp_name(c), "n": n, "len": len, "alphabet": alphabet, "xs": xs.iter().map(|(k, d)| json!([k.map(|v| v as i64), d])).collect::<Vec<_>>()});
        let (v, thr, thrs) = match r { Ok(x) => x, Err(e) => { out.spec_checked(false, json!({"what": "TopNComputer panicked", "panic": e, "case": desc})); continue; } };
        let truncated = len > cap;
        let nontrivial = truncated || (len > n && n > 0);
        let thr_s = cf::option(&thr, |k| format!("({})", ckey(&k.map(|v| v as i128))));
        out.coq_case("tie", format!("c_run_eqb (c_run {} {} {}) {} {}", cmp_name(c), cf::nat(n), celts(&xs), celts(&v), thr_s), desc.clone(), nontrivial);
        out.coq_case("spec", format!("list_eqb celt_eqb (c_topk {} {} 0%nat {}) {}", cmp_name(c), cf::nat(n), celts(&xs), celts(&v)), desc.clone(), nontrivial);
        if i % 3 == 0 {
            let ts = cf::list(&thrs, |t| cf::option(t, |k| format!("({})", ckey(&k.map(|v| v as i128)))));
            out.coq_case("tie", format!("list_eqb opt_ckey_eqb (c_thresholds {} (c_new {}) {}) {}", cmp_name(c), cf::nat(n), celts(&xs), ts), desc.clone(), nontrivial);
        }
        // into_vec: same elements in some order
        if i % 5 == 0 {
            let r2 = guarded(|| {
                let mut t: TopNComputer<Option<i64>, u64, ComparatorEnum> = TopNComputer::new_with_comparator(n, c);
                for (k, d) in &xs { t.push(k.map(|v| v as i64), *d); }
                let mut v: Vec<(Option<i128>, u64)> = t.into_vec().into_iter().map(|cd| (cd.sort_key.map(|v| v as i128), cd.doc)).collect();
                sort_spec(c, &mut v);
                v
            });
            match r2 {
                Ok(v2) => { out.coq_case("spec", format!("list_eqb celt_eqb (c_topk {} {} 0%nat {}) {}", cmp_name(c), cf::nat(n), celts(&xs), celts(&v2)), desc.clone(), nontrivial); }
                Err(e) => out.spec_checked(false, json!({"what": "into_vec panicked", "panic": e, "case": desc})),
            }
        }
        out.count("topn_cases", 1);
        if truncated { out.count("topn_with_truncation", 1); }
        if n == 0 { out.count("topn_k0", 1); }
        if alphabet <= 2 { out.count("topn_massive_ties", 1); }
    }
    // f32 keys under NaturalComparator (the score path's key type), through the order-preserving image
    for i in 0..(if thorough { 300 } else { 60 }) {
        let n = [0usize, 1, 2, 3, 5, 8][i % 6];
        let len = rng.range(0, 50) as usize;
        let vals = [0.5f32, 1.0, 1.5, 2.25, 9.8330, 9.7306, 1e-3];
        let mut xs: Vec<(f32, u64)> = vec![];
        let mut doc = 0u64;
        for _ in 0..len { doc += rng.range(1, 3); xs.push((if rng.chance(1, 2) { *rng.pick(&vals) } else { (rng.below(1000) as f32) / 7.0 }, doc)); }
        let r = guarded(|| {
            let mut t: TopNComputer<f32, u64, tantivy::collector::sort_key::NaturalComparator> = TopNComputer::new_with_comparator(n, tantivy::collector::sort_key::NaturalComparator);
            for (k, d) in &xs { t.push(*k, *d); }
            t.into_sorted_vec().into_iter().map(|cd| (Some(f32_ord(cd.sort_key)), cd.doc)).collect::<Vec<_>>()
        });
        let xs_m: Vec<(Option<i128>, u64)> = xs.iter().map(|(k, d)| (Some(f32_ord(*k)), *d)).collect();
        let desc = json!({"what": "topn-f32", "n": n, "xs": xs.iter().map(|(k, d)| json!([k, d])).collect::<Vec<_>>()});
        match r {
            Ok(v) => { out.coq_case("spec", format!("list_eqb celt_eqb (c_topk Natural {} 0%nat {}) {}", cf::nat(n), celts(&xs_m), celts(&v)), desc, len > n); }
            Err(e) => out.spec_checked(false, json!({"what": "TopNComputer<f32> panicked", "panic": e, "case": desc})),
        }
    }
    // the threshold-decrease witness of C06_threshold_monotone_refuted, replayed on the implementation
    {
        let xs = [(10i64, 0u64), (6, 1), (8, 2), (7, 3), (9, 4)];
        let mut t: TopNComputer<Option<i64>, u64, ComparatorEnum> = TopNComputer::new_with_comparator(1, ComparatorEnum::Natural);
        let mut thrs = vec![];
        for (k, d) in xs { t.push(Some(k), d); thrs.push(t.threshold.clone()); }
        let ts = cf::list(&thrs, |t| cf::option(t, |k| format!("({})", ckey(&k.map(|v| v as i128)))));
        out.coq_case("tie", format!("list_eqb opt_ckey_eqb (c_thresholds Natural (c_new 1%nat) thr_witness_xs) {}", ts), json!({"what": "threshold decreases (witness)", "thresholds": format!("{:?}", thrs)}), true);
        out.count("threshold_decreased_on_impl", (thrs[3] == Some(Some(8)) && thrs[4] == Some(Some(7))) as u64);
    }
}

// ------------------------------------------------------------------ (b) end-to-end
#[derive(Clone)]
struct DocVals { fu: Option<u64>, fi: Option<i64>, ff: Option<f64>, fd: Option<i64>, fs: Option<String> }

struct Corpus {
    index: Index,
    body: Field,
    tag: Field,
    vals: HashMap<u64, DocVals>,
    nseg_target: usize,
}

const WORDS: [(&str, u64); 7] = [("a", 70), ("b", 40), ("c", 18), ("d", 6), ("e", 2), ("f", 55), ("g", 30)];

fn build_corpus(rng: &mut Rng, nseg: usize, docs_per_seg: &[usize], profile: &[u64], with_deletes: bool) -> Corpus {
    let mut sb = Schema::builder();
    let id = sb.add_u64_field("id", FAST | INDEXED);
    let body = sb.add_text_field("body", TEXT);
    let tag = sb.add_text_field("tag", STRING);
    let fu = sb.add_u64_field("fu", FAST);
    let fi = sb.add_i64_field("fi", FAST);
    let ff = sb.add_f64_field("ff", FAST);
    let fd = sb.add_date_field("fd", FAST);
    let fs = sb.add_text_field("fs", STRING | FAST);
    let index = Index::create_in_ram(sb.build());
    let mut vals = HashMap::new();
    {
        let mut w: IndexWriter = index.writer_with_num_threads(1, 60_000_000).expect("writer");
        w.set_merge_policy(Box::new(tantivy::merge_policy::NoMergePolicy));
        let mut next = 0u64;
        for s in 0..nseg {
            let avg = profile[s % profile.len()];
            for _ in 0..docs_per_seg[s] {
                let mut d = TantivyDocument::default();
                d.add_u64(id, next);
                d.add_text(tag, &format!("t{}", rng.below(6)));
                // body: words by frequency, repeated a few times, padded with filler to the segment's length profile
                let mut toks: Vec<&str> = vec![];
                for (wd, pct) in WORDS.iter() {
                    if rng.below(100) < *pct { let m = if rng.chance(1, 6) { 9 } else { 3 }; for _ in 0..(1 + rng.below(m)) { toks.push(wd); } }
                }
                let target = 1 + rng.below(2 * avg) as usize;
                while toks.len() < target { toks.push("z"); }
                d.add_text(body, &toks.join(" "));
                let small = rng.chance(1, 2);
                let v = DocVals {
                    fu: if rng.chance(1, 5) { None } else { Some(if small { rng.below(4) } else { rng.next_u64() >> rng.below(64) }) },
                    fi: if rng.chance(1, 5) { None } else { Some(if small { rng.below(5) as i64 - 2 } else { rng.next_u64() as i64 >> rng.below(60) }) },
                    ff: if rng.chance(1, 5) { None } else { Some(if small { (rng.below(5) as f64 - 2.0) * 0.5 + 0.25 } else { (rng.next_u64() as i64 as f64) / 1024.0 + 0.5 }) },
                    fd: if rng.chance(1, 5) { None } else { Some(if small { rng.below(4) as i64 * 1_000_000_000 } else { (rng.next_u64() >> 34) as i64 * 1_000_000_000 /* the date fast field keeps second precision (default DateOptions) */ }) },
                    fs: if rng.chance(1, 5) { None } else { Some(if small { format!("s{}", rng.below(4)) } else { format!("k{:x}", rng.next_u64() >> 40) }) },
                };
                if let Some(x) = v.fu { d.add_u64(fu, x); }
                if let Some(x) = v.fi { d.add_i64(fi, x); }
                if let Some(x) = v.ff { d.add_f64(ff, x); }
                if let Some(x) = v.fd { d.add_date(fd, DateTime::from_timestamp_nanos(x)); }
                if let Some(x) = &v.fs { d.add_text(fs, x); }
                vals.insert(next, v);
                w.add_document(d).unwrap();
                next += 1;
            }
            if with_deletes && rng.chance(2, 3) { w.delete_term(Term::from_field_text(tag, &format!("t{}", rng.below(6)))); }
            w.commit().expect("commit");
        }
        w.wait_merging_threads().ok();
    }
    Corpus { index, body, tag, vals, nseg_target: nseg }
}

fn term_q(c: &Corpus, w: &str) -> Box<dyn Query> {
    Box::new(TermQuery::new(Term::from_field_text(c.body, w), IndexRecordOption::WithFreqs))
}
fn gen_query(rng: &mut Rng, c: &Corpus, kind: u64) -> (Box<dyn Query>, String, bool) {
    let mut ws: Vec<&str> = WORDS.iter().map(|x| x.0).collect();
    rng.shuffle(&mut ws);
    match kind {
        0 => (term_q(c, ws[0]), format!("term:{}", ws[0]), true),
        1 => { let n = rng.range(2, 5) as usize; (Box::new(BooleanQuery::new(ws[..n].iter().map(|w| (Occur::Should, term_q(c, w))).collect())), format!("union:{}", ws[..n].join("|")), false) }
        2 => { let n = rng.range(2, 4) as usize; (Box::new(BooleanQuery::new(ws[..n].iter().map(|w| (Occur::Must, term_q(c, w))).collect())), format!("inter:{}", ws[..n].join("&")), false) }
        3 => {
            // generic tree: Must(x) Should(y) Should(union) MustNot(z)
            let inner: Box<dyn Query> = Box::new(BooleanQuery::new(vec![(Occur::Should, term_q(c, ws[2])), (Occur::Should, term_q(c, ws[3]))]));
            let mut cl: Vec<(Occur, Box<dyn Query>)> = vec![(Occur::Should, term_q(c, ws[0])), (Occur::Should, inner)];
            if rng.chance(1, 2) { cl.push((Occur::Must, term_q(c, ws[1]))); }
            if rng.chance(1, 2) { cl.push((Occur::MustNot, term_q(c, ws[4]))); }
            (Box::new(BooleanQuery::new(cl)), format!("tree:{}", ws[..5].join(",")), false)
        }
        _ => (Box::new(AllQuery), "all".into(), true),
    }
}

fn k_choices(rng: &mut Rng, n: usize) -> (usize, usize) {
    let k = match rng.below(8) { 0 => 1, 1 => 2, 2 => n.saturating_sub(1).max(1), 3 => n.max(1), 4 => n + 1, 5 => rng.range(1, 12) as usize, 6 => rng.range(9, 40) as usize, _ => rng.range(1, 1 + n as u64 / 2 + 1) as usize };
    let o = match rng.below(6) { 0 | 1 => 0, 2 => 1, 3 => n + 3, 4 => rng.below(n as u64 + 1) as usize, _ => rng.range(0, 10) as usize };
    (k, o)
}

/// ids of the documents at the given addresses (via the `id` fast field)
fn ids_of(searcher: &Searcher) -> Vec<tantivy::columnar::Column<u64>> {
    searcher.segment_readers().iter().map(|sr| sr.fast_fields().u64("id").unwrap()).collect()
}

fn seg_stats(searcher: &Searcher, field: Field) -> Vec<(u64, u64)> {
    searcher.segment_readers().iter().map(|sr| (sr.inverted_index(field).unwrap().total_num_tokens(), sr.max_doc() as u64)).collect()
}

/// (tf, decoded field length) of all postings of the query's terms (for the F6 classifier)
fn postings_tf_len(searcher: &Searcher, field: Field, words: &[String]) -> Vec<(u64, u64)> {
    let mut v = vec![];
    for sr in searcher.segment_readers() {
        let inv = sr.inverted_index(field).unwrap();
        let fnr = sr.get_fieldnorms_reader(field).unwrap();
        for w in words {
            if let Some(mut p) = inv.read_postings(&Term::from_field_text(field, w), IndexRecordOption::WithFreqs).unwrap() {
                use tantivy::postings::Postings;
                let mut d = p.doc();
                while d != TERMINATED {
                    let len = FieldNormReader::id_to_fieldnorm(fnr.fieldnorm_id(d)) as u64;
                    let tf = p.term_freq() as u64;
                    if tf > len || v.len() < 40 { v.push((tf, len)); }
                    d = p.advance();
                }
            }
        }
    }
    v
}

fn words_of(qdesc: &str) -> Vec<String> {
    qdesc.split(|c: char| !c.is_ascii_lowercase()).filter(|s| s.len() == 1).map(|s| s.to_string()).collect()
}

/// Compare a by-score page with the exhaustive list.  Returns Ok(()) or Err((why, strictly_better_missed)).
fn check_score_page(exh: &[(Score, DocAddress)], got: &[(Score, DocAddress)], k: usize, o: usize, exact: bool) -> Result<(), (String, bool)> {
    let n = exh.len();
    let want_len = k.min(n.saturating_sub(o));
    if got.len() != want_len { return Err((format!("page length {} != {}", got.len(), want_len), false)); }
    let by_addr: HashMap<DocAddress, Score> = exh.iter().map(|(s, a)| (*a, *s)).collect();
    let mut seen = HashSet::new();
    for (s, a) in got {
        let Some(e) = by_addr.get(a) else { return Err((format!("returned {:?} does not match the query", a), false)); };
        if !seen.insert(*a) { return Err((format!("{:?} returned twice", a), false)); }
        let tol = if exact { 0.0 } else { 1e-5 * e.abs().max(s.abs()) };
        if (s - e).abs() > tol { return Err((format!("key of {:?} is {} but its true score is {}", a, s, e), false)); }
    }
    for w in got.windows(2) {
        let ok = w[0].0 > w[1].0 || (w[0].0 == w[1].0 && w[0].1 < w[1].1);
        if !ok { return Err((format!("page not ordered at {:?} / {:?}", w[0], w[1]), false)); }
    }
    let mut sorted: Vec<(Score, DocAddress)> = exh.to_vec();
    sorted.sort_by(|x, y| y.0.partial_cmp(&x.0).unwrap().then(x.1.cmp(&y.1)));
    if exact {
        let spec: Vec<(Score, DocAddress)> = sorted.iter().skip(o).take(k).cloned().collect();
        if got != &spec[..] {
            // a strictly better document left out?
            let worst = got.last().map(|x| x.0).unwrap_or(f32::INFINITY);
            let gotset: HashSet<DocAddress> = got.iter().map(|x| x.1).collect();
            let upto = (o + k).min(n);
            let missed = sorted[..upto].iter().any(|(s, a)| !gotset.contains(a) && *s > worst) && o == 0;
            let keys_equal = got.iter().zip(spec.iter()).all(|(g, s)| g.0 == s.0);
            return Err((format!("page differs from the exact slice (keys equal: {})", keys_equal), missed || !keys_equal));
        }
        return Ok(());
    }
    // tolerance: position p = o + i of a returned doc must be compatible with its true score up to rounding
    for (i, (_s, a)) in got.iter().enumerate() {
        let e = by_addr[a];
        let tol = 1e-5 * e.abs();
        let p = o + i;
        let lo = exh.iter().filter(|(s, _)| *s > e + tol).count();
        let hi = exh.iter().filter(|(s, b)| b != a && *s >= e - tol).count();
        if p < lo || p > hi { return Err((format!("{:?} (score {}) returned at rank {} but {} docs are strictly better and {} can precede it", a, e, p, lo, hi), p < lo)); }
    }
    // nobody strictly better (beyond rounding) than the worst returned doc is left out of pages starting at 0
    if o == 0 && got.len() == k && k > 0 {
        let worst = by_addr[&got[got.len() - 1].1];
        let gotset: HashSet<DocAddress> = got.iter().map(|x| x.1).collect();
        for (s, a) in exh { if !gotset.contains(a) && *s > worst + 1e-5 * s.abs() + 1e-5 * worst.abs() { return Err((format!("{:?} with score {} is left out while {} is returned", a, s, worst), true)); } }
    }
    Ok(())
}

fn exh_as_celts(exh: &[(Score, DocAddress)]) -> Vec<Vec<(Option<i128>, u64)>> {
    let mut m: BTreeMap<u32, Vec<(Option<i128>, u64)>> = BTreeMap::new();
    for (s, a) in exh { m.entry(a.segment_ord).or_default().push((Some(f32_ord(*s)), addr(*a))); }
    m.into_values().map(|mut v| { v.sort_by_key(|x| x.1); v }).collect()
}

/// classify a failing by-score case into the known classes (the classifier itself is evaluated by Coq)
fn report_score_failure(out: &mut CaseOut, searcher: &Searcher, c: &Corpus, qdesc: &str, exh: &[(Score, DocAddress)], got: &[(Score, DocAddress)], k: usize, o: usize, why: &str, missed_better: bool, single_clause: bool, extra: Value) {
    let desc = json!({"what": "by-score page violates the spec", "why": why, "query": qdesc, "k": k, "offset": o, "segments": searcher.segment_readers().len(),
        "got": got.iter().map(|(s, a)| json!([s, a.segment_ord, a.doc_id])).collect::<Vec<_>>(), "matches": exh.len(), "corpus": extra});
    if !missed_better && single_clause && exh.len() <= 3000 {
        // tie-break only: class F15
        let segs = exh_as_celts(exh);
        let gotc: Vec<(Option<i128>, u64)> = got.iter().map(|(s, a)| (Some(f32_ord(*s)), addr(*a))).collect();
        out.coq_case("known:F15", format!("F15_class Natural {} {} {} {}", cf::list(&segs, |s| celts(s)), cf::nat(k), cf::nat(o), celts(&gotc)), desc, true);
        out.count("score_failures_tie_only", 1);
        return;
    }
    // a strictly better document was pruned away: F6 if some posting has tf > decoded length, else F3
    let tfl = postings_tf_len(searcher, c.body, &words_of(qdesc));
    if tfl.iter().any(|(tf, len)| tf > len) {
        out.coq_case("known:F6", format!("F6_class {}", cf::list(&tfl, |(a, b)| format!("({}, {})", a, b))), desc, true);
        out.count("score_failures_F6", 1);
    } else if searcher.segment_readers().len() < 2 {
        // one segment: the segment average IS the searcher average, no known class applies
        out.count("score_failures_unclassified", 1);
        out.spec_checked(false, desc);
    } else {
        let st = seg_stats(searcher, c.body);
        out.coq_case("known:F3", format!("F3_class {}", cf::list(&st, |(a, b)| format!("({}, {})", a, b))), desc, true);
        out.count("score_failures_F3", 1);
    }
}

fn part_e2e(rng: &mut Rng, out: &mut CaseOut, thorough: bool) {
    let n_corpora = if thorough { 36 } else { 7 };
    let mut coq_budget: i64 = if thorough { 900 } else { 170 };
    for ci in 0..n_corpora {
        let nseg = 1 + ci % 4;
        let sizes: Vec<usize> = (0..nseg).map(|s| match (ci + s) % 5 { 0 => rng.range(1, 6) as usize, 1 => rng.range(120, 140) as usize, 2 => rng.range(250, 400) as usize, 3 => rng.range(20, 60) as usize, _ => rng.range(129, 300) as usize }).collect();
        // length profiles: equal averages, or strongly different ones (short vs long segments)
        let profile: Vec<u64> = match ci % 3 { 0 => vec![8], 1 => vec![6, 60], _ => vec![40, 5, 150] };
        let corpus = build_corpus(rng, nseg, &sizes, &profile, ci % 2 == 1);
        let mut index_mt = corpus.index.clone();
        index_mt.set_multithread_executor(3).expect("executor");
        let searchers = [corpus.index.reader().unwrap().searcher(), index_mt.reader().unwrap().searcher()];
        let extra = json!({"corpus": ci, "segments": nseg, "sizes": sizes, "profile": profile, "deletes": ci % 2 == 1});
        out.count("corpora", 1);
        out.count("segments_total", searchers[0].segment_readers().len() as u64);
        let n_queries = if thorough { 26 } else { 18 };
        for qi in 0..n_queries {
            let (q, qdesc, single) = gen_query(rng, &corpus, (qi % 5) as u64);
            let mt = (qi / 5) % 2;
            let searcher = &searchers[mt];
            let exh = match guarded(|| searcher.search(&*q, &AllScores)) { Ok(Ok(v)) => v, r => { out.spec_checked(false, json!({"what": "exhaustive collector failed", "query": qdesc, "r": format!("{:?}", r.err())})); continue; } };
            let n = exh.len();
            out.count(&format!("queries_{}", qdesc.split(':').next().unwrap()), 1);
            if mt == 1 { out.count("multithreaded_searches", 1); }
            // ---- by score
            for _ in 0..3 {
                let (k, o) = k_choices(rng, n);
                let got = match guarded(|| searcher.search(&*q, &TopDocs::with_limit(k).and_offset(o).order_by_score())) { Ok(Ok(v)) => v, r => { out.spec_checked(false, json!({"what": "TopDocs by score failed", "query": qdesc, "k": k, "o": o, "r": format!("{:?}", r.err())})); continue; } };
                out.count("score_pages", 1);
                match check_score_page(&exh, &got, k, o, single) {
                    Ok(()) => {
                        out.spec_checked(true, Value::Null);
                        if single && n <= 260 && coq_budget > 0 && n > 0 {
                            coq_budget -= 1;
                            let all: Vec<(Option<i128>, u64)> = exh.iter().map(|(s, a)| (Some(f32_ord(*s)), addr(*a))).collect();
                            let gotc: Vec<(Option<i128>, u64)> = got.iter().map(|(s, a)| (Some(f32_ord(*s)), addr(*a))).collect();
                            out.coq_case("spec", format!("list_eqb celt_eqb (c_topk Natural {} {} {}) {}", cf::nat(k), cf::nat(o), celts(&all), celts(&gotc)),
                                json!({"what": "by-score page", "query": qdesc, "k": k, "offset": o, "matches": n, "corpus": extra}), n > k + o || nseg >= 2);
                        }
                    }
                    Err((why, missed)) => report_score_failure(out, searcher, &corpus, &qdesc, &exh, &got, k, o, &why, missed, single, extra.clone()),
                }
            }
            // ---- by fast field / tweak_score: exact keys, exact comparison
            let ids = ids_of(searcher);
            let id_of = |a: DocAddress| ids[a.segment_ord as usize].first(a.doc_id).unwrap();
            let variant = (qi + ci) % 7;
            let order = if rng.chance(1, 2) { Order::Asc } else { Order::Desc };
            let cmp: ComparatorEnum = order.into();
            let (k, o) = k_choices(rng, n);
            let strs: Vec<String> = { let mut s: Vec<String> = corpus.vals.values().filter_map(|v| v.fs.clone()).collect(); s.sort(); s.dedup(); s };
            let key_of = |v: &DocVals, variant: usize| -> Option<i128> {
                match variant { 0 => v.fu.map(|x| x as i128), 1 => v.fi.map(|x| x as i128), 2 => v.ff.map(f64_ord), 3 => v.fd.map(|x| x as i128),
                    4 => v.fs.as_ref().map(|s| strs.binary_search(s).unwrap() as i128), _ => None }
            };
            let (got, truth, label): (Vec<(Option<i128>, u64)>, Vec<(Option<i128>, u64)>, &str) = match variant {
                0 => { let r = guarded(|| searcher.search(&*q, &TopDocs::with_limit(k).and_offset(o).order_by_fast_field::<u64>("fu", order)));
                       let Ok(Ok(r)) = r else { out.spec_checked(false, json!({"what": "order_by u64 failed", "query": qdesc})); continue; };
                       (r.into_iter().map(|(x, a)| (x.map(|x| x as i128), addr(a))).collect(), exh.iter().map(|(_, a)| (key_of(&corpus.vals[&id_of(*a)], 0), addr(*a))).collect(), "u64") }
                1 => { let r = guarded(|| searcher.search(&*q, &TopDocs::with_limit(k).and_offset(o).order_by_fast_field::<i64>("fi", order)));
                       let Ok(Ok(r)) = r else { out.spec_checked(false, json!({"what": "order_by i64 failed", "query": qdesc})); continue; };
                       (r.into_iter().map(|(x, a)| (x.map(|x| x as i128), addr(a))).collect(), exh.iter().map(|(_, a)| (key_of(&corpus.vals[&id_of(*a)], 1), addr(*a))).collect(), "i64") }
                2 => { let r = guarded(|| searcher.search(&*q, &TopDocs::with_limit(k).and_offset(o).order_by_fast_field::<f64>("ff", order)));
                       let Ok(Ok(r)) = r else { out.spec_checked(false, json!({"what": "order_by f64 failed", "query": qdesc})); continue; };
                       (r.into_iter().map(|(x, a)| (x.map(f64_ord), addr(a))).collect(), exh.iter().map(|(_, a)| (key_of(&corpus.vals[&id_of(*a)], 2), addr(*a))).collect(), "f64") }
                3 => { let r = guarded(|| searcher.search(&*q, &TopDocs::with_limit(k).and_offset(o).order_by_fast_field::<DateTime>("fd", order)));
                       let Ok(Ok(r)) = r else { out.spec_checked(false, json!({"what": "order_by date failed", "query": qdesc})); continue; };
                       (r.into_iter().map(|(x, a)| (x.map(|x| x.into_timestamp_nanos() as i128), addr(a))).collect(), exh.iter().map(|(_, a)| (key_of(&corpus.vals[&id_of(*a)], 3), addr(*a))).collect(), "date") }
                4 => { let r = guarded(|| searcher.search(&*q, &TopDocs::with_limit(k).and_offset(o).order_by_string_fast_field("fs", order)));
                       let Ok(Ok(r)) = r else { out.spec_checked(false, json!({"what": "order_by string failed", "query": qdesc})); continue; };
                       (r.into_iter().map(|(x, a)| (x.map(|s| strs.binary_search(&s).map(|i| i as i128).unwrap_or(-1)), addr(a))).collect(), exh.iter().map(|(_, a)| (key_of(&corpus.vals[&id_of(*a)], 4), addr(*a))).collect(), "string") }
                5 => { // tweak_score with an exact integer key from a fast field and the doc id
                       let r = guarded(|| searcher.search(&*q, &TopDocs::with_limit(k).and_offset(o).tweak_score(move |sr: &SegmentReader| {
                           let col = sr.fast_fields().u64("id").unwrap();
                           move |doc: DocId, _score: Score| -> u64 { let id = col.first(doc).unwrap(); (id * 2654435761) % 7 }
                       })));
                       let Ok(Ok(r)) = r else { out.spec_checked(false, json!({"what": "tweak_score failed", "query": qdesc})); continue; };
                       (r.into_iter().map(|(x, a)| (Some(x as i128), addr(a))).collect(), exh.iter().map(|(_, a)| (Some(((id_of(*a) * 2654435761) % 7) as i128), addr(*a))).collect(), "tweak-u64") }
                _ => { // tweak_score on the similarity score: key = score * boost(id), f32, same scorer as the exhaustive collector
                       let r = guarded(|| searcher.search(&*q, &TopDocs::with_limit(k).and_offset(o).tweak_score(move |sr: &SegmentReader| {
                           let col = sr.fast_fields().u64("id").unwrap();
                           move |doc: DocId, score: Score| -> f32 { let id = col.first(doc).unwrap(); score * (1.0 + (id % 3) as f32) }
                       })));
                       let Ok(Ok(r)) = r else { out.spec_checked(false, json!({"what": "tweak_score f32 failed", "query": qdesc})); continue; };
                       (r.into_iter().map(|(x, a)| (Some(f32_ord(x)), addr(a))).collect(), exh.iter().map(|(s, a)| (Some(f32_ord(*s * (1.0 + (id_of(*a) % 3) as f32))), addr(*a))).collect(), "tweak-f32") }
            };
            let cmp = if variant >= 5 { ComparatorEnum::Natural } else { cmp };
            let mut sorted = truth.clone();
            sort_spec(cmp, &mut sorted);
            let want = slice(&sorted, k, o);
            // the same collector inside a tuple collector (generic for_segment / harvest route), offsets included
            if variant <= 1 && o > 0 {
                let r: Result<tantivy::Result<(usize, Vec<(Option<i128>, u64)>)>, String> = guarded(|| Ok(if variant == 0 {
                    let (c, v) = searcher.search(&*q, &(Count, TopDocs::with_limit(k).and_offset(o).order_by_fast_field::<u64>("fu", order)))?;
                    (c, v.into_iter().map(|(x, a)| (x.map(|x| x as i128), addr(a))).collect())
                } else {
                    let (c, v) = searcher.search(&*q, &(Count, TopDocs::with_limit(k).and_offset(o).order_by_fast_field::<i64>("fi", order)))?;
                    (c, v.into_iter().map(|(x, a)| (x.map(|x| x as i128), addr(a))).collect())
                }));
                out.count("wrapped_pages", 1);
                match r {
                    Ok(Ok((c, got2))) => {
                        if c != n { out.spec_checked(false, json!({"what": "Count inside a tuple collector disagrees with the exhaustive collector", "count": c, "matches": n, "query": qdesc, "corpus": extra})); }
                        if got2 != want {
                            let segs: Vec<Vec<(Option<i128>, u64)>> = { let mut m: BTreeMap<u64, Vec<(Option<i128>, u64)>> = BTreeMap::new(); for x in &truth { m.entry(x.1 >> 32).or_default().push(x.clone()); } m.into_values().map(|mut v| { v.sort_by_key(|x| x.1); v }).collect() };
                            out.coq_case("known:F15", format!("F15_class {} {} {} {} {}", cmp_name(cmp), cf::list(&segs, |s| celts(s)), cf::nat(k), cf::nat(o), celts(&got2)),
                                json!({"what": "sorted page through (Count, TopDocs) differs from the specified page", "key": label, "order": format!("{:?}", order), "query": qdesc, "k": k, "offset": o, "matches": n, "got": format!("{:?}", got2), "want": format!("{:?}", want), "corpus": extra}), true);
                            out.count("wrapped_failures", 1);
                        } else { out.spec_checked(true, Value::Null); }
                    }
                    r => out.spec_checked(false, json!({"what": "(Count, TopDocs by fast field) failed", "r": format!("{:?}", r.err()), "query": qdesc})),
                }
            }
            let desc = json!({"what": "sorted page", "key": label, "order": format!("{:?}", order), "query": qdesc, "k": k, "offset": o, "matches": n, "mt": mt, "corpus": extra});
            out.count(&format!("pages_{}", label), 1);
            if got != want {
                // only a wrong tie-break?  (class F15, decided by Coq)
                let segs: Vec<Vec<(Option<i128>, u64)>> = { let mut m: BTreeMap<u64, Vec<(Option<i128>, u64)>> = BTreeMap::new(); for x in &truth { m.entry(x.1 >> 32).or_default().push(x.clone()); } m.into_values().map(|mut v| { v.sort_by_key(|x| x.1); v }).collect() };
                let mut d = desc.clone(); d["got"] = json!(format!("{:?}", got)); d["want"] = json!(format!("{:?}", want));
                out.coq_case("known:F15", format!("F15_class {} {} {} {} {}", cmp_name(cmp), cf::list(&segs, |s| celts(s)), cf::nat(k), cf::nat(o), celts(&got)), d, true);
                out.count("sorted_failures", 1);
            } else {
                out.spec_checked(true, Value::Null);
                if n <= 260 && n > 0 && coq_budget > 0 {
                    coq_budget -= 1;
                    out.coq_case("spec", format!("list_eqb celt_eqb (c_topk {} {} {} {}) {}", cmp_name(cmp), cf::nat(k), cf::nat(o), celts(&truth), celts(&got)), desc.clone(), n > k + o || nseg >= 2);
                }
            }
            // ---- paging: successive offsets enumerate every match exactly once (exactly comparable keys)
            if qi % 4 == 0 && variant <= 4 && n > 0 {
                let page = [1usize, 2, 3, 7, 16][rng.below(5) as usize].min(n.max(1));
                let mut all_pages: Vec<(Option<i128>, u64)> = vec![];
                let mut off = 0;
                let mut ok = true;
                while off < n + page {
                    let r = guarded(|| -> tantivy::Result<Vec<(Option<i128>, u64)>> { Ok(match variant {
                        0 => searcher.search(&*q, &TopDocs::with_limit(page).and_offset(off).order_by_fast_field::<u64>("fu", order))?.into_iter().map(|(x, a)| (x.map(|x| x as i128), addr(a))).collect(),
                        1 => searcher.search(&*q, &TopDocs::with_limit(page).and_offset(off).order_by_fast_field::<i64>("fi", order))?.into_iter().map(|(x, a)| (x.map(|x| x as i128), addr(a))).collect(),
                        2 => searcher.search(&*q, &TopDocs::with_limit(page).and_offset(off).order_by_fast_field::<f64>("ff", order))?.into_iter().map(|(x, a)| (x.map(f64_ord), addr(a))).collect(),
                        3 => searcher.search(&*q, &TopDocs::with_limit(page).and_offset(off).order_by_fast_field::<DateTime>("fd", order))?.into_iter().map(|(x, a)| (x.map(|x| x.into_timestamp_nanos() as i128), addr(a))).collect(),
                        _ => searcher.search(&*q, &TopDocs::with_limit(page).and_offset(off).order_by_string_fast_field("fs", order))?.into_iter().map(|(x, a)| (x.map(|s| strs.binary_search(&s).map(|i| i as i128).unwrap_or(-1)), addr(a))).collect(),
                    }) });
                    match r { Ok(Ok(v)) => all_pages.extend(v), _ => { ok = false; break; } }
                    off += page;
                }
                out.count("paging_sweeps", 1);
                let pdesc = json!({"what": "paging", "key": label, "page": page, "query": qdesc, "matches": n, "corpus": extra});
                if !ok { out.spec_checked(false, json!({"what": "paging search failed", "case": pdesc})); }
                else if all_pages != sorted {
                    let mut a = all_pages.clone(); a.sort_by_key(|x| x.1); let mut b = sorted.clone(); b.sort_by_key(|x| x.1);
                    let each_once = a == b;
                    let mut d = pdesc.clone(); d["every_match_exactly_once"] = json!(each_once);
                    if each_once {
                        // same set, wrong tie order somewhere: F15 class on the first differing page
                        let idx = all_pages.iter().zip(sorted.iter()).position(|(x, y)| x != y).unwrap();
                        let off = idx / page * page;
                        let segs: Vec<Vec<(Option<i128>, u64)>> = { let mut m: BTreeMap<u64, Vec<(Option<i128>, u64)>> = BTreeMap::new(); for x in &truth { m.entry(x.1 >> 32).or_default().push(x.clone()); } m.into_values().map(|mut v| { v.sort_by_key(|x| x.1); v }).collect() };
                        out.coq_case("known:F15", format!("F15_class {} {} {} {} {}", cmp_name(cmp), cf::list(&segs, |s| celts(s)), cf::nat(page), cf::nat(off), celts(&all_pages[off..(off + page).min(all_pages.len())])), d, true);
                    } else {
                        // a match is skipped or repeated across pages: consequence of F15 only if each page is tie-only wrong; report the first bad page
                        let segs: Vec<Vec<(Option<i128>, u64)>> = { let mut m: BTreeMap<u64, Vec<(Option<i128>, u64)>> = BTreeMap::new(); for x in &truth { m.entry(x.1 >> 32).or_default().push(x.clone()); } m.into_values().map(|mut v| { v.sort_by_key(|x| x.1); v }).collect() };
                        let mut off = 0; let mut pos = 0;
                        while off < n {
                            let want = slice(&sorted, page, off);
                            let gotp: Vec<(Option<i128>, u64)> = all_pages[pos..(pos + want.len()).min(all_pages.len())].to_vec();
                            if gotp != want { out.coq_case("known:F15", format!("F15_class {} {} {} {} {}", cmp_name(cmp), cf::list(&segs, |s| celts(s)), cf::nat(page), cf::nat(off), celts(&gotp)), d.clone(), true); break; }
                            pos += want.len(); off += page;
                        }
                    }
                    out.count("paging_failures", 1);
                } else {
                    out.spec_checked(true, Value::Null);
                    if n <= 200 && coq_budget > 0 {
                        coq_budget -= 1;
                        out.coq_case("spec", format!("list_eqb celt_eqb (c_sort {} {}) {}", cmp_name(cmp), celts(&truth), celts(&all_pages)), pdesc, n > page);
                    }
                }
            }
        }
        let _ = corpus.tag;
        let _ = corpus.nseg_target;
    }
}


// ------------------------------------------------------------------ (b2) deep conjunctions (block_wand_intersection with >= 3 secondaries)
/// One large segment, eight terms of skewed document frequency (25 % .. 97 %) with heavy-tailed term
/// frequencies, so that for some late documents the decisive part of the score comes from the most
/// frequent terms (the LAST secondaries of block_wand_intersection, whose block maxima enter the
/// suffix-sum pruning bound).  Every subset of 4..6 terms as a conjunction of Must term clauses,
/// K in {1,2,3,5}, against the exhaustive oracle.  Single segment and tf <= len/2 keep the known
/// classes F3 / F6 out: any strictly-better-document-missed here is reported as a violation.
const CONJ_TERMS: [(&str, u64); 8] = [("h", 25), ("i", 40), ("j", 55), ("k", 70), ("l", 80), ("m", 88), ("n", 93), ("o", 97)];

fn part_conjunctions(rng: &mut Rng, out: &mut CaseOut, thorough: bool) {
    let n_corpora = if thorough { 4 } else { 2 };
    for ci in 0..n_corpora {
        let ndocs = if thorough { 4200 } else { 2600 } + rng.below(300) as usize;
        let mut sb = Schema::builder();
        let body = sb.add_text_field("body", TEXT);
        let tag = sb.add_text_field("tag", STRING);
        let index = Index::create_in_ram(sb.build());
        {
            let mut w: IndexWriter = index.writer_with_num_threads(1, 100_000_000).expect("writer");
            w.set_merge_policy(Box::new(tantivy::merge_policy::NoMergePolicy));
            for _ in 0..ndocs {
                let mut toks: Vec<&str> = vec![];
                for (t, pct) in CONJ_TERMS.iter() {
                    if rng.below(100) < *pct {
                        let tf = match rng.below(100) { 0..=59 => 1, 60..=84 => rng.range(2, 3), 85..=94 => rng.range(4, 8), _ => rng.range(9, 14) };
                        for _ in 0..tf { toks.push(t); }
                    }
                }
                let target = (2 * toks.len() + 2).max(70 + rng.below(50) as usize);
                while toks.len() < target { toks.push("z"); }
                let mut d = TantivyDocument::default();
                d.add_text(body, &toks.join(" "));
                d.add_text(tag, &format!("t{}", rng.below(9)));
                w.add_document(d).unwrap();
            }
            if ci % 2 == 1 { w.delete_term(Term::from_field_text(tag, "t3")); }
            w.commit().expect("commit");
            w.wait_merging_threads().ok();
        }
        let corpus = Corpus { index: index.clone(), body, tag, vals: HashMap::new(), nseg_target: 1 };
        let searcher = index.reader().unwrap().searcher();
        let extra = json!({"conjunction_corpus": ci, "docs": ndocs, "segments": searcher.segment_readers().len(), "deletes": ci % 2 == 1});
        out.count("conj_corpora", 1);
        // every subset of 4..6 of the 8 terms
        for mask in 0u32..256 {
            let n_terms = mask.count_ones();
            if !(4..=6).contains(&n_terms) { continue; }
            if !thorough && (mask as usize + ci) % 2 == 1 && n_terms == 4 { continue; }
            let ws: Vec<&str> = (0..8).filter(|j| mask >> j & 1 == 1).map(|j| CONJ_TERMS[j].0).collect();
            let q = BooleanQuery::new(ws.iter().map(|w| (Occur::Must, term_q(&corpus, w))).collect());
            let qdesc = format!("and:{}", ws.join("&"));
            let exh = match guarded(|| searcher.search(&q, &AllScores)) { Ok(Ok(v)) => v, r => { out.spec_checked(false, json!({"what": "exhaustive collector failed", "query": qdesc, "r": format!("{:?}", r.err())})); continue; } };
            out.count("conj_queries", 1);
            out.count(&format!("conj_queries_{}_terms", n_terms), 1);
            out.count("conj_matches_total", exh.len() as u64);
            for k in [1usize, 2, 3, 5] {
                let o = if k == 3 && rng.chance(1, 3) { 1 } else { 0 };
                let got = match guarded(|| searcher.search(&q, &TopDocs::with_limit(k).and_offset(o).order_by_score())) { Ok(Ok(v)) => v, r => { out.spec_checked(false, json!({"what": "TopDocs by score failed", "query": qdesc, "k": k, "r": format!("{:?}", r.err())})); continue; } };
                out.count("conj_pages", 1);
                if exh.len() > k + o { out.count("conj_pages_pruning_possible", 1); }
                match check_score_page(&exh, &got, k, o, false) {
                    Ok(()) => out.spec_checked(true, Value::Null),
                    Err((why, missed)) => report_score_failure(out, &searcher, &corpus, &qdesc, &exh, &got, k, o, &why, missed, false, extra.clone()),
                }
            }
        }
    }
}


// ------------------------------------------------------------------ (b3) merge_fruits with score ties at the K boundary
/// Many tiny multi-segment indexes whose hits take few distinct scores (term frequency 1..4 in
/// documents of one length), so that ties sit on the K boundary of the merge and inside a segment's
/// fruit, which TopNHeap hands over in heap order (worst first, i.e. higher doc first among ties).
/// By construction a score occurs at most twice per segment in 3 cases out of 4: the known finding
/// F15 needs three hits of the boundary key in one segment, so there every wrong tie-break is an
/// unclassified violation with a concrete input.
fn tie_failure(out: &mut CaseOut, exh: &[(Score, DocAddress)], got: &[(Score, DocAddress)], k: usize, o: usize, why: &str, layout: Value) {
    let desc = json!({"what": "by-score page of a multi-segment term query violates the spec", "why": why, "k": k, "offset": o,
        "got": got.iter().map(|(s, a)| json!([s, a.segment_ord, a.doc_id])).collect::<Vec<_>>(),
        "exhaustive": exh.iter().map(|(s, a)| json!([s, a.segment_ord, a.doc_id])).collect::<Vec<_>>(), "segments(term freq per doc, 0 = no match)": layout});
    let mut sorted: Vec<(Score, DocAddress)> = exh.to_vec();
    sorted.sort_by(|x, y| y.0.partial_cmp(&x.0).unwrap().then(x.1.cmp(&y.1)));
    let spec: Vec<(Score, DocAddress)> = sorted.iter().skip(o).take(k).cloned().collect();
    let tie_only = got.len() == spec.len() && got.iter().zip(spec.iter()).all(|(g, s)| g.0 == s.0);
    let boundary = spec.last().map(|x| x.0);
    let mut per_seg: HashMap<u32, usize> = HashMap::new();
    if let Some(b) = boundary { for (s, a) in exh { if *s == b { *per_seg.entry(a.segment_ord).or_default() += 1; } } }
    if tie_only && per_seg.values().any(|n| *n >= 3) {
        // candidate for the known class; the classifier itself is evaluated by Coq
        let segs = exh_as_celts(exh);
        let gotc: Vec<(Option<i128>, u64)> = got.iter().map(|(s, a)| (Some(f32_ord(*s)), addr(*a))).collect();
        out.coq_case("known:F15", format!("F15_class Natural {} {} {} {}", cf::list(&segs, |s| celts(s)), cf::nat(k), cf::nat(o), celts(&gotc)), desc, true);
        out.count("merge_tie_failures_F15_candidates", 1);
    } else {
        out.count("merge_tie_failures_unclassified", 1);
        out.spec_checked(false, desc);
    }
}

fn part_merge_ties(rng: &mut Rng, out: &mut CaseOut, thorough: bool) {
    let n_cases = if thorough { 1200 } else { 260 };
    let mut coq_budget: i64 = if thorough { 400 } else { 90 };
    for ci in 0..n_cases {
        let mut layout: Vec<Vec<usize>> = vec![];
        if ci % 3 != 0 {
            // dense: 3..4 segments, each holding every one of 2..3 scores exactly twice (shuffled, plus a few
            // non-matching documents): ties straddle the K boundary of the merge for most K, and the boundary
            // key never occurs three times in one segment
            let nseg = rng.range(3, 4) as usize;
            let levels = rng.range(2, 3) as usize;
            for _ in 0..nseg {
                let mut seg: Vec<usize> = (0..2 * levels).map(|i| 1 + i / 2).collect();
                if rng.chance(1, 3) { seg.pop(); }
                for _ in 0..rng.below(4) { seg.push(0); }
                rng.shuffle(&mut seg);
                layout.push(seg);
            }
        } else {
        let nseg = rng.range(2, 4) as usize;
        let max_mult = match ci % 8 { 3 => 3, 7 => 5, _ => 2 };
        let levels = if ci % 5 == 0 { 4 } else { rng.range(2, 3) as usize };
        for _ in 0..nseg {
            let nd = if rng.chance(1, 5) { rng.range(1, 3) } else { rng.range(4, 9) } as usize;
            let mut used = [0usize; 8];
            let mut seg = vec![];
            for _ in 0..nd {
                let mut l = if rng.chance(1, 6) { 0 } else { 1 + rng.below(levels as u64) as usize };
                if l > 0 && used[l] >= max_mult { l = 0; }
                used[l] += 1;
                seg.push(l);
            }
            layout.push(seg);
        }
        }
        let segs: Vec<Vec<String>> = layout.iter().map(|seg| seg.iter().map(|l| format!("{} {}", rep("x", *l), rep("z", 8 - *l)).trim().to_string()).collect()).collect();
        let (index, t) = body_index_with_budget(&segs, 20_000_000);
        let searcher = index.reader().unwrap().searcher();
        let q = TermQuery::new(Term::from_field_text(t, "x"), IndexRecordOption::WithFreqs);
        let exh = match guarded(|| searcher.search(&q, &AllScores)) { Ok(Ok(v)) => v, _ => { out.spec_checked(false, json!({"what": "exhaustive collector failed", "layout": layout})); continue; } };
        let n = exh.len();
        out.count("merge_tie_indexes", 1);
        if n == 0 { continue; }
        // layout in the searcher's segment order, for the replay
        let lay = json!(layout);
        let all: Vec<(Option<i128>, u64)> = exh.iter().map(|(s, a)| (Some(f32_ord(*s)), addr(*a))).collect();
        for k in 1..=(n + 1).min(8) {
            for o in [0usize, 1, 2, k + 1] {
                if o > 0 && o <= 2 && (k + ci) % 3 != 0 { continue; }
                if o == k + 1 && (k + ci) % 2 != 0 { continue; }
                let got = match guarded(|| searcher.search(&q, &TopDocs::with_limit(k).and_offset(o).order_by_score())) { Ok(Ok(v)) => v, _ => { out.spec_checked(false, json!({"what": "TopDocs failed", "layout": lay, "k": k, "o": o})); continue; } };
                out.count("merge_tie_pages", 1);
                match check_score_page(&exh, &got, k, o, true) {
                    Ok(()) => {
                        out.spec_checked(true, Value::Null);
                        if coq_budget > 0 && (ci + k) % 7 == 0 {
                            coq_budget -= 1;
                            let gotc: Vec<(Option<i128>, u64)> = got.iter().map(|(s, a)| (Some(f32_ord(*s)), addr(*a))).collect();
                            out.coq_case("spec", format!("list_eqb celt_eqb (c_topk Natural {} {} {}) {}", cf::nat(k), cf::nat(o), celts(&all), celts(&gotc)),
                                json!({"what": "by-score page, tiny multi-segment index with ties", "k": k, "offset": o, "layout": lay}), n > k + o);
                        }
                    }
                    Err((why, _)) => tie_failure(out, &exh, &got, k, o, &why, lay.clone()),
                }
                // the same TopDocs inside wrapping collectors (generic for_segment / collect / harvest route)
                if o > 0 {
                    let r = guarded(|| searcher.search(&q, &(Count, TopDocs::with_limit(k).and_offset(o).order_by_score())));
                    out.count("wrapped_pages", 1);
                    match r {
                        Ok(Ok((cnt, got2))) => {
                            if cnt != n { out.spec_checked(false, json!({"what": "Count inside a tuple collector disagrees with the exhaustive collector", "count": cnt, "matches": n, "layout": lay})); }
                            match check_score_page(&exh, &got2, k, o, true) {
                                Ok(()) => out.spec_checked(true, Value::Null),
                                Err((why, _)) => tie_failure(out, &exh, &got2, k, o, &format!("(Count, TopDocs) tuple collector: {}", why), lay.clone()),
                            }
                        }
                        r => out.spec_checked(false, json!({"what": "(Count, TopDocs) failed", "r": format!("{:?}", r.err()), "layout": lay, "k": k, "o": o})),
                    }
                    let r = guarded(|| -> tantivy::Result<Vec<(Score, DocAddress)>> {
                        let mut mc = MultiCollector::new();
                        let h = mc.add_collector(TopDocs::with_limit(k).and_offset(o).order_by_score());
                        let _c = mc.add_collector(Count);
                        let mut fruits = searcher.search(&q, &mc)?;
                        Ok(h.extract(&mut fruits))
                    });
                    match r {
                        Ok(Ok(got3)) => match check_score_page(&exh, &got3, k, o, true) {
                            Ok(()) => out.spec_checked(true, Value::Null),
                            Err((why, _)) => tie_failure(out, &exh, &got3, k, o, &format!("MultiCollector: {}", why), lay.clone()),
                        },
                        r => out.spec_checked(false, json!({"what": "MultiCollector failed", "r": format!("{:?}", r.err()), "layout": lay, "k": k, "o": o})),
                    }
                }
            }
        }
        // paging: every page size, every match exactly once in order
        if ci % 3 == 0 {
            let mut sorted = exh.clone();
            sorted.sort_by(|x, y| y.0.partial_cmp(&x.0).unwrap().then(x.1.cmp(&y.1)));
            for page in 1..=n.min(4) {
                let mut paged: Vec<(Score, DocAddress)> = vec![];
                let mut off = 0;
                while off < n { if let Ok(Ok(v)) = guarded(|| searcher.search(&q, &TopDocs::with_limit(page).and_offset(off).order_by_score())) { paged.extend(v); } off += page; }
                out.count("merge_tie_paging_sweeps", 1);
                if paged != sorted {
                    // locate the first wrong page and report it like a page failure
                    let idx = paged.iter().zip(sorted.iter()).position(|(a, b)| a != b).unwrap_or(0);
                    let off = idx / page * page;
                    let gotp: Vec<(Score, DocAddress)> = paged.iter().skip(off).take(page).cloned().collect();
                    tie_failure(out, &exh, &gotp, page, off, "paging does not enumerate every match exactly once in order", lay.clone());
                } else { out.spec_checked(true, Value::Null); }
            }
        }
    }
}

// ------------------------------------------------------------------ (b4) unions of >= 3 term clauses whose posting lists end at different places
/// Single-segment corpora where every term lives in its own doc-id range (so a scorer reaches
/// TERMINATED while the others are still far from their end -- inside align_scorers when it lags
/// behind the pivot), with frequent low-impact terms and rare high-impact ones; every union of 3..5
/// Should term clauses, small K, against the exhaustive oracle.  One segment and tf <= len/2 keep
/// the known classes F3 / F6 out.
/// A by-score search under a watchdog: a pruned union whose scorers got out of order may loop forever;
/// that is an observation (spec failure), not a hang of the check.  The worker thread is abandoned on timeout.
fn search_by_score_with_deadline(searcher: &Searcher, q: &dyn Query, k: usize, secs: u64) -> Result<Vec<(Score, DocAddress)>, String> {
    let (tx, rx) = std::sync::mpsc::channel();
    let s = searcher.clone();
    let q = q.box_clone();
    std::thread::spawn(move || {
        let r = guarded(|| s.search(&*q, &TopDocs::with_limit(k).order_by_score()));
        let _ = tx.send(match r { Ok(Ok(v)) => Ok(v), Ok(Err(e)) => Err(format!("error: {e:?}")), Err(p) => Err(format!("panic: {p}")) });
    });
    match rx.recv_timeout(std::time::Duration::from_secs(secs)) { Ok(r) => r, Err(_) => Err(format!("TIMEOUT: the search did not terminate within {secs} s")) }
}

const RANGED_TERMS: [&str; 7] = ["p", "q", "r", "s", "t", "u", "v"];

fn part_ranged_unions(rng: &mut Rng, out: &mut CaseOut, thorough: bool) {
    let n_corpora = if thorough { 40 } else { 10 };
    for ci in 0..n_corpora {
        let ndocs = match ci % 3 { 0 => rng.range(60, 200), 1 => rng.range(200, 500), _ => rng.range(500, 1200) } as usize;
        // per term: (first doc, end doc, density per mille, high-tf share)
        let specs: Vec<(usize, usize, u64, u64)> = RANGED_TERMS.iter().enumerate().map(|(j, _)| {
            let lo = if rng.chance(1, 2) { 0 } else { rng.below(ndocs as u64 * 2 / 3) as usize };
            let hi = (lo + 1 + rng.below((ndocs - lo) as u64) as usize).min(ndocs);
            let dens = match (j + ci) % 4 { 0 => 900, 1 => 300, 2 => 60, _ => 15 };
            (lo, hi, dens, rng.below(30))
        }).collect();
        let mut sb = Schema::builder();
        let body = sb.add_text_field("body", TEXT);
        let tag = sb.add_text_field("tag", STRING);
        let index = Index::create_in_ram(sb.build());
        {
            let mut w: IndexWriter = index.writer_with_num_threads(1, 50_000_000).expect("writer");
            w.set_merge_policy(Box::new(tantivy::merge_policy::NoMergePolicy));
            for d in 0..ndocs {
                let mut toks: Vec<&str> = vec![];
                for (j, t) in RANGED_TERMS.iter().enumerate() {
                    let (lo, hi, dens, high) = specs[j];
                    if d >= lo && d < hi && (rng.below(1000) < dens || d == lo || d + 1 == hi) {
                        let tf = if rng.below(100) < high { rng.range(2, 4) } else { 1 };
                        for _ in 0..tf { toks.push(t); }
                    }
                }
                let target = (2 * toks.len() + 2).max(8 + rng.below(3) as usize);
                while toks.len() < target { toks.push("z"); }
                let mut doc = TantivyDocument::default();
                doc.add_text(body, &toks.join(" "));
                doc.add_text(tag, &format!("t{}", rng.below(9)));
                w.add_document(doc).unwrap();
            }
            if ci % 4 == 3 { w.delete_term(Term::from_field_text(tag, "t3")); }
            w.commit().expect("commit");
            w.wait_merging_threads().ok();
        }
        let corpus = Corpus { index: index.clone(), body, tag, vals: HashMap::new(), nseg_target: 1 };
        let searcher = index.reader().unwrap().searcher();
        let extra = json!({"ranged_corpus": ci, "docs": ndocs, "terms(first,end,density_permille,high_tf_pct)": specs.iter().map(|x| json!([x.0, x.1, x.2, x.3])).collect::<Vec<_>>(), "deletes": ci % 4 == 3});
        out.count("ranged_corpora", 1);
        for mask in 0u32..128 {
            let n_terms = mask.count_ones();
            if !(3..=5).contains(&n_terms) { continue; }
            if !thorough && n_terms == 5 && (mask as usize + ci) % 2 == 1 { continue; }
            let ws: Vec<&str> = (0..7).filter(|j| mask >> j & 1 == 1).map(|j| RANGED_TERMS[j]).collect();
            let q = BooleanQuery::new(ws.iter().map(|w| (Occur::Should, term_q(&corpus, w))).collect());
            let qdesc = format!("or:{}", ws.join("|"));
            let exh = match guarded(|| searcher.search(&q, &AllScores)) { Ok(Ok(v)) => v, r => { out.spec_checked(false, json!({"what": "exhaustive collector failed (panic?)", "query": qdesc, "r": format!("{:?}", r.err()), "corpus": extra})); continue; } };
            out.count("ranged_union_queries", 1);
            for k in [1usize, 2, 3, 5] {
                let got = match search_by_score_with_deadline(&searcher, &q, k, 20) {
                    Ok(v) => v,
                    Err(e) => {
                        out.spec_checked(false, json!({"what": "TopDocs by score over a union of term clauses failed, panicked or did not terminate", "query": qdesc, "k": k, "r": e, "corpus": extra}));
                        if e.starts_with("TIMEOUT") { out.count("ranged_union_timeouts", 1); return; }
                        continue;
                    } };
                out.count("ranged_union_pages", 1);
                match check_score_page(&exh, &got, k, 0, false) {
                    Ok(()) => out.spec_checked(true, Value::Null),
                    Err((why, missed)) => report_score_failure(out, &searcher, &corpus, &qdesc, &exh, &got, k, 0, &why, missed, false, extra.clone()),
                }
            }
        }
    }
}


// ------------------------------------------------------------------ (b5) fields indexed without term frequencies
/// Single-segment corpora with a TEXT field and a multi-valued STRING field (no term frequencies, but
/// field norms: 1..4 values per document, so scores differ).  Posting lists of a no-frequency field carry
/// no block-max metadata (every full 128-document block reports block max 0), so they must never reach the
/// block-max WAND routines.  Queries: a single STRING term, unions of STRING terms, and unions mixing TEXT
/// and STRING terms (Should only), K in {1,2,3,5}; tags with more and with fewer than 128 postings.
const TAGS: [(&str, u64); 5] = [("hot", 45), ("warm", 28), ("mild", 18), ("cold", 6), ("rare", 1)];
const NF_WORDS: [(&str, u64); 3] = [("a", 70), ("b", 35), ("c", 10)];

fn part_nofreq(rng: &mut Rng, out: &mut CaseOut, thorough: bool) {
    let n_corpora = if thorough { 12 } else { 3 };
    for ci in 0..n_corpora {
        let ndocs = match ci % 3 { 0 => rng.range(600, 900), 1 => rng.range(400, 600), _ => rng.range(100, 250) } as usize;
        let mut sb = Schema::builder();
        let body = sb.add_text_field("body", TEXT);
        let tags = sb.add_text_field("tags", STRING);
        let index = Index::create_in_ram(sb.build());
        {
            let mut w: IndexWriter = index.writer_with_num_threads(1, 50_000_000).expect("writer");
            w.set_merge_policy(Box::new(tantivy::merge_policy::NoMergePolicy));
            // the number of extra tag values (hence the field norm, hence the score of a tag term) drifts with the
            // doc id in two corpora out of three: early documents are long, the better ones come in later blocks
            let phases: Vec<u64> = if ci % 3 == 2 { vec![0] } else {
                let mut p: Vec<u64> = vec![0, 3, 6, 9];
                rng.shuffle(&mut p);
                p.truncate(rng.range(2, 4) as usize);
                let best = p.iter().position(|x| x == p.iter().min().unwrap()).unwrap();
                if best == 0 { let l = p.len() - 1; p.swap(0, l); }   // the best documents never sit in the first blocks only
                p
            };
            for di in 0..ndocs {
                let mut d = TantivyDocument::default();
                let mut toks: Vec<&str> = vec![];
                for (wd, pct) in NF_WORDS.iter() { if rng.below(100) < *pct { for _ in 0..(1 + rng.below(3)) { toks.push(wd); } } }
                let target = (2 * toks.len() + 2).max(8 + rng.below(8) as usize);
                while toks.len() < target { toks.push("z"); }
                d.add_text(body, &toks.join(" "));
                for (t, pct) in TAGS.iter() { if rng.below(100) < *pct { d.add_text(tags, t); } }
                let base = phases[di * phases.len() / ndocs];
                for i in 0..(base + rng.below(2)) { d.add_text(tags, &format!("pad{}", i)); }
                w.add_document(d).unwrap();
            }
            w.commit().expect("commit");
            w.wait_merging_threads().ok();
        }
        let searcher = index.reader().unwrap().searcher();
        let extra = json!({"nofreq_corpus": ci, "docs": ndocs});
        out.count("nofreq_corpora", 1);
        // (field, word, has term frequencies)
        let all_terms: Vec<(Field, &str, bool)> = TAGS.iter().map(|t| (tags, t.0, false)).chain(NF_WORDS.iter().map(|t| (body, t.0, true))).collect();
        let max_postings = |f: Field, wd: &str| -> u64 {
            searcher.segment_readers().iter().map(|sr| sr.inverted_index(f).unwrap().doc_freq(&Term::from_field_text(f, wd)).unwrap_or(0) as u64).max().unwrap_or(0)
        };
        let mut queries: Vec<Vec<usize>> = (0..all_terms.len()).map(|i| vec![i]).collect();
        for _ in 0..(if thorough { 60 } else { 40 }) {
            let n = rng.range(2, 4) as usize;
            let mut idx: Vec<usize> = (0..all_terms.len()).collect();
            rng.shuffle(&mut idx);
            let mut sel: Vec<usize> = idx[..n].to_vec();
            sel.sort();
            queries.push(sel);
        }
        for sel in queries {
            let single = sel.len() == 1;
            let mk = |i: usize| -> Box<dyn Query> { let (f, wd, freq) = all_terms[i]; Box::new(TermQuery::new(Term::from_field_text(f, wd), if freq { IndexRecordOption::WithFreqs } else { IndexRecordOption::Basic })) };
            let q: Box<dyn Query> = if single { mk(sel[0]) } else { Box::new(BooleanQuery::new(sel.iter().map(|i| (Occur::Should, mk(*i))).collect())) };
            let qdesc = sel.iter().map(|i| format!("{}:{}", if all_terms[*i].2 { "body" } else { "tags" }, all_terms[*i].1)).collect::<Vec<_>>().join(" OR ");
            let info: Vec<(bool, u64)> = sel.iter().map(|i| (all_terms[*i].2, max_postings(all_terms[*i].0, all_terms[*i].1))).collect();
            let exh = match guarded(|| searcher.search(&*q, &AllScores)) { Ok(Ok(v)) => v, r => { out.spec_checked(false, json!({"what": "exhaustive collector failed", "query": qdesc, "r": format!("{:?}", r.err())})); continue; } };
            out.count(if single { "nofreq_single_term_queries" } else if info.iter().all(|x| !x.0) { "nofreq_union_queries" } else if info.iter().all(|x| x.0) { "freq_union_queries" } else { "mixed_union_queries" }, 1);
            for k in [1usize, 2, 3, 5] {
                let got = match search_by_score_with_deadline(&searcher, &*q, k, 20) {
                    Ok(v) => v,
                    Err(e) => { out.spec_checked(false, json!({"what": "TopDocs by score failed, panicked or did not terminate", "query": qdesc, "k": k, "r": e, "corpus": extra})); if e.starts_with("TIMEOUT") { return; } continue; } };
                out.count("nofreq_pages", 1);
                if let Err((why, missed)) = check_score_page(&exh, &got, k, 0, single) {
                    let best = exh.iter().cloned().fold((f32::MIN, DocAddress::new(0, 0)), |m, x| if x.0 > m.0 { x } else { m });
                    let desc = json!({"what": "by-score page violates the spec (query with a term of a field indexed without frequencies)", "why": why, "strictly_better_missed": missed, "query": qdesc, "k": k,
                        "terms(has_freq, max postings in a segment)": info.iter().map(|x| json!([x.0, x.1])).collect::<Vec<_>>(),
                        "got": got.iter().map(|(s, a)| json!([s, a.segment_ord, a.doc_id])).collect::<Vec<_>>(), "true_best": json!([best.0, best.1.segment_ord, best.1.doc_id]), "matches": exh.len(), "corpus": extra});
                    // known class F61: a SINGLE term query on a no-frequency field with a full block; the classifier is evaluated by Coq
                    if single {
                        out.coq_case("known:F61", format!("F61_class {} {}", cf::boolean(single), cf::list(&info, |(f, n)| format!("({}, {})", cf::boolean(*f), n))), desc, true);
                        out.count("nofreq_single_term_failures", 1);
                    } else {
                        // unions never reach block_wand unless every scorer reads frequencies: no known class
                        out.spec_checked(false, desc);
                        out.count("nofreq_union_failures", 1);
                    }
                } else { out.spec_checked(true, Value::Null); }
            }
        }
    }
}

// ------------------------------------------------------------------ (c) corpus: witnesses of the known findings
fn body_index(segs: &[Vec<String>]) -> (Index, Field) { body_index_with_budget(segs, 200_000_000) }
fn body_index_with_budget(segs: &[Vec<String>], budget: usize) -> (Index, Field) {
    let mut sb = Schema::builder();
    let t = sb.add_text_field("body", TEXT);
    let index = Index::create_in_ram(sb.build());
    let mut w: IndexWriter = index.writer_with_num_threads(1, budget).unwrap();
    w.set_merge_policy(Box::new(tantivy::merge_policy::NoMergePolicy));
    for s in segs {
        for d in s { let mut doc = TantivyDocument::default(); doc.add_text(t, d); w.add_document(doc).unwrap(); }
        w.commit().unwrap();
    }
    w.wait_merging_threads().ok();
    (index, t)
}
fn rep(w: &str, n: usize) -> String { vec![w; n].join(" ") }
fn doc_of(tf: usize, len: usize) -> String { format!("{} {}", rep("a", tf), rep("z", len - tf)) }

fn part_witnesses(out: &mut CaseOut) {
    // ---- F6: one segment; doc0 = a x1000, 997 docs "b", last doc a x500; `a OR b`, top-1
    {
        let mut docs = vec![rep("a", 1000)];
        for _ in 0..997 { docs.push("b".to_string()); }
        docs.push(rep("a", 500));
        let (index, t) = body_index(&[docs]);
        let searcher = index.reader().unwrap().searcher();
        let q = BooleanQuery::new(vec![
            (Occur::Should, Box::new(TermQuery::new(Term::from_field_text(t, "a"), IndexRecordOption::WithFreqs)) as Box<dyn Query>),
            (Occur::Should, Box::new(TermQuery::new(Term::from_field_text(t, "b"), IndexRecordOption::WithFreqs)) as Box<dyn Query>)]);
        let exh = searcher.search(&q, &AllScores).unwrap();
        let got = searcher.search(&q, &TopDocs::with_limit(1).order_by_score()).unwrap();
        out.count("witness_F6_run", 1);
        if let Err((why, missed)) = check_score_page(&exh, &got, 1, 0, false) {
            let tfl = postings_tf_len(&searcher, t, &["a".to_string(), "b".to_string()]);
            let best = exh.iter().cloned().fold((0.0f32, DocAddress::new(0, 0)), |m, x| if x.0 > m.0 { x } else { m });
            out.coq_case("known:F6", format!("F6_class {}", cf::list(&tfl, |(a, b)| format!("({}, {})", a, b))),
                json!({"what": "F6 witness: a x1000, 997 x b, a x500; `a OR b` top-1", "why": why, "strictly_better_missed": missed, "got": format!("{:?}", got), "true_best": format!("{:?}", best)}), true);
        }
    }
    // ---- F3: segment A (short docs, avg ~100) holds term a in >= 2 full blocks; segment B has very long docs
    {
        let mut a_docs: Vec<String> = vec![];
        for i in 0..300 {
            a_docs.push(match i { 5 => doc_of(3, 10), 140 => doc_of(2, 10), 200 => doc_of(6, 400), _ => doc_of(1, 100) });
        }
        let b_docs: Vec<String> = (0..60).map(|_| rep("y", 20000)).collect();
        let (index, t) = body_index(&[a_docs, b_docs]);
        let searcher = index.reader().unwrap().searcher();
        let q = TermQuery::new(Term::from_field_text(t, "a"), IndexRecordOption::WithFreqs);
        let exh = searcher.search(&q, &AllScores).unwrap();
        let got = searcher.search(&q, &TopDocs::with_limit(1).order_by_score()).unwrap();
        out.count("witness_F3_run", 1);
        if let Err((why, missed)) = check_score_page(&exh, &got, 1, 0, true) {
            let st = seg_stats(&searcher, t);
            let best = exh.iter().cloned().fold((0.0f32, DocAddress::new(0, 0)), |m, x| if x.0 > m.0 { x } else { m });
            out.coq_case("known:F3", format!("F3_class {}", cf::list(&st, |(a, b)| format!("({}, {})", a, b))),
                json!({"what": "F3 witness: segment of short docs (block-max argmax under its own average) + segment of 20000-token docs; term query top-1", "why": why, "strictly_better_missed": missed, "got": format!("{:?}", got), "true_best": format!("{:?}", best), "segment_stats(tokens,docs)": format!("{:?}", st)}), true);
        }
    }
    // ---- F61: single term query on a field indexed without frequencies, >= 128 postings: full blocks report block max 0
    {
        let mut sb = Schema::builder();
        let tag = sb.add_text_field("tag", STRING);
        let index = Index::create_in_ram(sb.build());
        let mut w: IndexWriter = index.writer_with_num_threads(1, 20_000_000).unwrap();
        w.set_merge_policy(Box::new(tantivy::merge_policy::NoMergePolicy));
        for d in 0..600u32 {
            let mut doc = TantivyDocument::default();
            doc.add_text(tag, "x");
            if d < 200 || d >= 384 { doc.add_text(tag, "w"); doc.add_text(tag, "v"); }
            w.add_document(doc).unwrap();
        }
        w.commit().unwrap();
        let searcher = index.reader().unwrap().searcher();
        let q = TermQuery::new(Term::from_field_text(tag, "x"), IndexRecordOption::Basic);
        let exh = searcher.search(&q, &AllScores).unwrap();
        out.count("witness_F61_run", 1);
        if let Ok(got) = search_by_score_with_deadline(&searcher, &q, 1, 20) {
            if let Err((why, missed)) = check_score_page(&exh, &got, 1, 0, true) {
                let best = exh.iter().cloned().fold((0.0f32, DocAddress::new(0, 0)), |m, x| if x.0 > m.0 { x } else { m });
                out.coq_case("known:F61", "F61_class true [(false, 600)]".to_string(),
                    json!({"what": "F61 witness: 600 docs, STRING field, docs 0..199 and 384..599 carry 3 values, 200..383 one value; TermQuery(tag:x, Basic) top-1", "why": why, "strictly_better_missed": missed, "got": format!("{:?}", got), "true_best": format!("{:?}", best)}), true);
            }
        } else { out.spec_checked(false, json!({"what": "F61 witness search failed"})); }
    }
    // ---- F15: three segments; ties on the boundary key are not broken by ascending address
    {
        let segkeys: Vec<Vec<usize>> = vec![vec![0, 2, 0, 0, 1, 2, 1, 2, 0, 1, 1], vec![0, 2], vec![0, 1, 1, 1, 2, 2, 2, 2, 1, 0, 1, 0, 2]];
        let segs: Vec<Vec<String>> = segkeys.iter().enumerate().map(|(si, keys)| {
            // padding documents that do not match keep the searcher's segment order = this order (largest first)
            let mut v: Vec<String> = (0..(60 - 14 * si - keys.len())).map(|_| "y y y".to_string()).collect();
            v.extend(keys.iter().map(|c| format!("{} {}", rep("a", c + 1), rep("y", 2 - c)).trim().to_string()));
            v
        }).collect();
        let (index, t) = body_index(&segs);
        let searcher = index.reader().unwrap().searcher();
        let q = TermQuery::new(Term::from_field_text(t, "a"), IndexRecordOption::WithFreqs);
        let exh = searcher.search(&q, &AllScores).unwrap();
        out.count("witness_F15_run", 1);
        for k in [5usize] {
            let got = searcher.search(&q, &TopDocs::with_limit(k).order_by_score()).unwrap();
            if let Err((why, _)) = check_score_page(&exh, &got, k, 0, true) {
                let segc = exh_as_celts(&exh);
                let gotc: Vec<(Option<i128>, u64)> = got.iter().map(|(s, a)| (Some(f32_ord(*s)), addr(*a))).collect();
                out.coq_case("known:F15", format!("F15_class Natural {} {} 0%nat {}", cf::list(&segc, |s| celts(s)), cf::nat(k), celts(&gotc)),
                    json!({"what": "F15 witness: 3 segments, term query, TopDocs::with_limit(5): the tie at the last key is not broken by ascending address", "why": why, "got": got.iter().map(|(s, a)| json!([s, a.segment_ord, a.doc_id])).collect::<Vec<_>>()}), true);
            }
        }
    }
}

fn main() {
    let args = Args::parse();
    tvh::quiet_panics();
    let mut rng = Rng::new(args.seed);
    let thorough = args.thorough();
    let header = format!("{}\nDefinition thr_witness_xs : list celt := [(Some 10%Z, 0%N); (Some 6%Z, 1%N); (Some 8%Z, 2%N); (Some 7%Z, 3%N); (Some 9%Z, 4%N)].", HEADER);
    let mut out = CaseOut::new(&args.out, &header, 40);
    part_witnesses(&mut out);
    part_topn(&mut rng, &mut out, thorough);
    part_e2e(&mut rng, &mut out, thorough);
    part_conjunctions(&mut rng, &mut out, thorough);
    part_merge_ties(&mut rng, &mut out, thorough);
    part_ranged_unions(&mut rng, &mut out, thorough);
    part_nofreq(&mut rng, &mut out, thorough);
    out.finish(json!({"tier": args.tier, "seed": args.seed}));
}
