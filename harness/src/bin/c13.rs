//! C13 correspondence: every DocSet is one sorted sequence under any mix of advance and seek.
//!
//! Real scorers are obtained two ways: (a) direct constructions of the public combinators
//! (`Exclude::new`, `RequiredOptionalScorer::new`, `intersect_scorers`) over harness leaves, and
//! (b) through real queries (`BooleanQuery` trees over leaf queries -> `Weight::scorer`, which builds
//! BufferedUnionScorer, Disjunction, Intersection, Exclude, RequiredOptionalScorer and their nestings;
//! TermQuery / AllQuery / range / phrase over an indexed corpus).  A leaf is a sorted vector driven by
//! the *default* methods of the `DocSet` trait (what `VecDocSet` is inside the crate).
//! Each scorer is driven with generated call programs; observations go to Coq:
//!   spec: observations == spec_run (sem of the tree) program      (Spec.v / Program.v)
//!   tie : observations == run <combinator model> program           (Exclude.v, Intersect.v, Union.v, ...)
//! and the same list semantics is also evaluated on the Rust side for bulk volume (spec_checked).
use std::collections::{BTreeSet, HashMap};
use std::sync::Arc;

use serde_json::json;
use tantivy::collector::Count;
use tantivy::query::{
    intersect_scorers, AllQuery, BooleanQuery, EnableScoring, Exclude, Explanation, Occur, PhrasePrefixQuery, PhraseQuery, Query, RangeQuery, RegexPhraseQuery,
    RequiredOptionalScorer, Scorer, SumCombiner, TermQuery, Weight,
};
use tantivy::schema::{IndexRecordOption, Schema, FAST, INDEXED, TEXT};
use tantivy::{doc, DocId, DocSet, Index, IndexWriter, Score, Searcher, SegmentReader, Term, TERMINATED};
use tvh::coqfmt as cf;
use tvh::out::CaseOut;
use tvh::rng::Rng;
use tvh::{guarded, Args};

const HEADER: &str = "From TV Require Import Base.Prelude Generated.Constants DocSet.Spec DocSet.Impl DocSet.Program DocSet.Cases.";
const BUF: usize = tantivy::COLLECT_BLOCK_BUFFER_LEN;
const NUM_TINY: usize = 16;
const BLOCK_WINDOW: u32 = 1024;

// ---------------------------------------------------------------- leaf
#[derive(Clone)]
struct VecDs {
    docs: Arc<Vec<u32>>,
    cursor: usize,
    score: f32,
}
impl DocSet for VecDs {
    fn advance(&mut self) -> DocId {
        self.cursor += 1;
        if self.cursor >= self.docs.len() {
            self.cursor = self.docs.len();
            return TERMINATED;
        }
        self.docs[self.cursor]
    }
    fn doc(&self) -> DocId {
        if self.cursor == self.docs.len() { TERMINATED } else { self.docs[self.cursor] }
    }
    fn size_hint(&self) -> u32 {
        self.docs.len() as u32
    }
}
impl Scorer for VecDs {
    fn score(&mut self) -> Score {
        self.score
    }
}
#[derive(Clone, Debug)]
struct VecQuery {
    docs: Arc<Vec<u32>>,
    score: f32,
}
struct VecWeight {
    docs: Arc<Vec<u32>>,
    score: f32,
}
impl Query for VecQuery {
    fn weight(&self, _e: EnableScoring<'_>) -> tantivy::Result<Box<dyn Weight>> {
        Ok(Box::new(VecWeight { docs: self.docs.clone(), score: self.score }))
    }
}
impl Weight for VecWeight {
    fn scorer(&self, _r: &SegmentReader, boost: Score) -> tantivy::Result<Box<dyn Scorer>> {
        Ok(Box::new(VecDs { docs: self.docs.clone(), cursor: 0, score: self.score * boost }))
    }
    fn explain(&self, _r: &SegmentReader, _d: DocId) -> tantivy::Result<Explanation> {
        Ok(Explanation::new("leaf", self.score))
    }
}

// ---------------------------------------------------------------- query trees
#[derive(Clone, Debug)]
enum Shape {
    Leaf(Arc<Vec<u32>>, usize),
    Bool { musts: Vec<Shape>, shoulds: Vec<Shape>, nots: Vec<Shape>, msm: usize },
}
fn to_set(v: &[u32]) -> BTreeSet<u32> { v.iter().copied().collect() }
impl Shape {
    fn to_query(&self) -> Box<dyn Query> {
        match self {
            Shape::Leaf(d, id) => Box::new(VecQuery { docs: d.clone(), score: (1u32 << (*id as u32 % 20)) as f32 }),
            Shape::Bool { musts, shoulds, nots, msm } => {
                let mut cl: Vec<(Occur, Box<dyn Query>)> = vec![];
                for m in musts { cl.push((Occur::Must, m.to_query())); }
                for s in shoulds { cl.push((Occur::Should, s.to_query())); }
                for n in nots { cl.push((Occur::MustNot, n.to_query())); }
                Box::new(BooleanQuery::with_minimum_required_clauses(cl, *msm))
            }
        }
    }
    fn coq(&self) -> String {
        match self {
            Shape::Leaf(d, _) => format!("(QLeaf {})", cf::ns(d)),
            Shape::Bool { musts, shoulds, nots, msm } => format!(
                "(QBool {} {} {} {})",
                cf::list(musts, |s| s.coq()), cf::list(shoulds, |s| s.coq()), cf::list(nots, |s| s.coq()), cf::nat(*msm)
            ),
        }
    }
    /// set-theoretic meaning (mirror of Cases.v sem_bool), Rust side
    fn sem(&self) -> Vec<u32> {
        match self {
            Shape::Leaf(d, _) => d.to_vec(),
            Shape::Bool { musts, shoulds, nots, msm } => {
                let m: Vec<BTreeSet<u32>> = musts.iter().map(|s| to_set(&s.sem())).collect();
                let s: Vec<BTreeSet<u32>> = shoulds.iter().map(|s| to_set(&s.sem())).collect();
                let n: Vec<BTreeSet<u32>> = nots.iter().map(|s| to_set(&s.sem())).collect();
                let disj = |k: usize| -> BTreeSet<u32> {
                    let mut cnt: HashMap<u32, usize> = HashMap::new();
                    for x in &s { for d in x { *cnt.entry(*d).or_insert(0) += 1; } }
                    cnt.into_iter().filter(|(_, c)| *c >= k).map(|(d, _)| d).collect()
                };
                let inter = |xs: &[BTreeSet<u32>]| -> BTreeSet<u32> {
                    let mut it = xs.iter();
                    let mut acc = it.next().cloned().unwrap_or_default();
                    for x in it { acc = acc.intersection(x).copied().collect(); }
                    acc
                };
                let include: BTreeSet<u32> = match (m.is_empty(), *msm) {
                    (true, 0) => disj(1),
                    (true, k) => disj(k),
                    (false, 0) => inter(&m),
                    (false, k) => { let mut v = m.clone(); v.push(disj(k)); inter(&v) }
                };
                include.into_iter().filter(|d| !n.iter().any(|x| x.contains(d))).collect()
            }
        }
    }
    fn depth(&self) -> usize {
        match self {
            Shape::Leaf(..) => 0,
            Shape::Bool { musts, shoulds, nots, .. } => 1 + musts.iter().chain(shoulds).chain(nots).map(|s| s.depth()).max().unwrap_or(0),
        }
    }
}

// ---------------------------------------------------------------- calls and observations
#[derive(Clone, Debug)]
enum Call { Advance, Seek(u32), Fill, Bitset(u32), Danger(u32), Count }
impl Call {
    fn coq(&self) -> String {
        match self {
            Call::Advance => "CAdvance".into(),
            Call::Seek(t) => format!("CSeek {}", t),
            Call::Fill => "CFill".into(),
            Call::Bitset(m) => format!("CBitset {}", m),
            Call::Danger(t) => format!("CDanger {}", t),
            Call::Count => "CCount".into(),
        }
    }
}
/// Danger(None, doc) = Found (doc() afterwards); Danger(Some(b), 0) = SeekLowerBound(b) (doc() not observed)
#[derive(Clone, Debug, PartialEq)]
enum Obs { Doc(u32), Buf(Vec<u32>, u32), Mask(Vec<u64>, u32, u32), Count(u32), Danger(Option<u32>, u32), Panic(String) }
impl Obs {
    fn coq(&self) -> String {
        match self {
            Obs::Doc(d) => format!("ODoc {}", d),
            Obs::Buf(b, d) => format!("OBuf {} {}", cf::ns(b), d),
            Obs::Mask(m, r, d) => format!("OMask {} {} {}", cf::ns(m), r, d),
            Obs::Count(n) => format!("OCount {}", n),
            Obs::Danger(None, d) => format!("ODanger SdFound {}", d),
            Obs::Danger(Some(b), d) => format!("ODanger (SdLower {}) {}", b, d),
            Obs::Panic(_) => "OOutOfFuel".into(),
        }
    }
}

/// list semantics on the Rust side (mirror of Program.v spec_run)
fn spec_step(rem: &mut &[u32], c: &Call) -> Obs {
    let doc = |r: &[u32]| r.first().copied().unwrap_or(TERMINATED);
    match c {
        Call::Advance => { if !rem.is_empty() { *rem = &rem[1..]; } Obs::Doc(doc(rem)) }
        Call::Seek(t) => { while !rem.is_empty() && rem[0] < *t { *rem = &rem[1..]; } Obs::Doc(doc(rem)) }
        Call::Fill => { let k = rem.len().min(BUF); let b = rem[..k].to_vec(); *rem = &rem[k..]; Obs::Buf(b, doc(rem)) }
        Call::Bitset(m) => {
            while !rem.is_empty() && rem[0] < *m { *rem = &rem[1..]; }
            let mut mask = vec![0u64; NUM_TINY];
            while !rem.is_empty() && rem[0] < *m + BLOCK_WINDOW {
                let delta = rem[0] - *m;
                mask[(delta / 64) as usize] |= 1u64 << (delta % 64);
                *rem = &rem[1..];
            }
            Obs::Mask(mask, doc(rem), doc(rem))
        }
        Call::Count => { let n = rem.len() as u32; *rem = &rem[rem.len()..]; Obs::Count(n) }
        Call::Danger(_) => Obs::Panic("relational".into()),
    }
}

/// relational list semantics (mirror of Program.v spec_check)
fn rust_check(truth: &[u32], prog: &[Call], obs: &[Obs]) -> bool {
    if prog.len() != obs.len() { return false; }
    let mut rem = truth;
    let mut dang = false;
    for (c, o) in prog.iter().zip(obs) {
        match (c, o) {
            (Call::Danger(t), Obs::Danger(res, d)) => {
                if *t >= TERMINATED {
                    match res { Some(b) if *b >= TERMINATED => { dang = true; } _ => return false }
                } else {
                    while !rem.is_empty() && rem[0] < *t { rem = &rem[1..]; }
                    let member = rem.first() == Some(t);
                    match res {
                        None => { if !member || *d != *t { return false; } dang = false; }
                        Some(b) => { if member || !(*t < *b) || *b > rem.first().copied().unwrap_or(TERMINATED) { return false; } dang = true; }
                    }
                }
            }
            (Call::Danger(_), _) => return false,
            (c, o) => { if dang { return false; } if spec_step(&mut rem, c) != *o { return false; } }
        }
    }
    true
}

struct Driven { prog: Vec<Call>, obs: Vec<Obs>, problems: Vec<String> }

/// Generates a valid program on line (targets >= the scorer's current doc) and records what the scorer answers.
fn score_same(r: f32, s: f32, tol: f32) -> bool {
    if tol == 0.0 { r.to_bits() == s.to_bits() } else { (r - s).abs() <= tol * r.abs().max(s.abs()).max(1e-6) }
}

/// `tol` = 0: scores compared bit-exactly (single clause, or sums of powers of two); otherwise relative tolerance
/// (f32 sums whose order may legitimately differ).  `script`: calls to issue first (skipped when not valid).
#[allow(clippy::too_many_arguments)]
fn drive(sc: &mut Box<dyn Scorer>, truth: &[u32], ref_scores: Option<&HashMap<u32, f32>>, tol: f32, script: &[Call], len: usize, with_danger: bool, rng: &mut Rng) -> Driven {
    let mut dangling: Option<u32> = None;
    // the largest target passed to seek / seek_danger so far: the trait promises strictly increasing seek_danger targets
    let mut max_target: Option<u32> = None;
    let mut ended = false;
    let mut prog = vec![];
    let mut obs = vec![];
    let mut problems = vec![];
    for step in 0..len {
        let cur = if dangling.is_some() { 0 } else { match guarded(|| sc.doc()) { Ok(d) => d, Err(e) => { obs.push(Obs::Panic(e)); break; } } };
        let last = step + 1 == len;
        let r = rng.below(100);
        let target = |rng: &mut Rng, base: u32| -> u32 {
            let pos = truth.partition_point(|d| *d < base);
            let t = match rng.below(16) {
                0 => base,
                1 => base.saturating_add(1),
                2 | 3 => { let k = pos + rng.below(6) as usize; truth.get(k).copied().unwrap_or(TERMINATED) }
                4 => { let k = pos + rng.below(6) as usize; truth.get(k).copied().unwrap_or(TERMINATED).saturating_sub(1) }
                5 => { let k = pos + rng.below(6) as usize; truth.get(k).copied().map(|d| d + 1).unwrap_or(TERMINATED) }
                6 => base.saturating_add(4095),
                7 => base.saturating_add(4096),
                8 => base.saturating_add(4097),
                9 => ((base / 4096) + 1 + rng.below(3) as u32).saturating_mul(4096).saturating_sub(rng.below(2) as u32),
                10 => ((base / 128) + 1 + rng.below(4) as u32).saturating_mul(128).saturating_sub(rng.below(2) as u32),
                11 => ((base / 64) + 1).saturating_mul(64).saturating_add(rng.below(2) as u32),
                12 => ((base / 1024) + 1).saturating_mul(1024).saturating_sub(rng.below(2) as u32),
                13 => { let k = pos + rng.below(40) as usize; truth.get(k).copied().unwrap_or(TERMINATED) }
                14 => if rng.chance(1, 3) { TERMINATED - 1 } else { base.saturating_add(rng.below(9000) as u32) },
                _ => if rng.chance(1, 6) { TERMINATED } else { base.saturating_add(rng.below(300) as u32) },
            };
            t.max(base).min(TERMINATED)
        };
        let scripted = match script.get(step) { Some(Call::Seek(t)) if dangling.is_none() && *t >= cur => Some(Call::Seek(*t)), Some(Call::Advance) if dangling.is_none() => Some(Call::Advance), _ => None };
        let call = if let Some(c) = scripted { c } else if let Some(lastt) = dangling {
            // after a miss only seek_danger with a strictly larger target (or stop)
            if rng.chance(1, 5) || lastt >= TERMINATED { break; }
            Call::Danger(target(rng, lastt + 1))
        }
            else if !with_danger && last && rng.chance(1, 2) { Call::Count }
            else if with_danger && last && rng.chance(1, 3) { Call::Count }
            else if with_danger && r % 7 == 0 {
                // mostly targets >= doc; sometimes below the current document (what Exclude does)
                // (only targets above every document already passed: a target at or before a passed member is outside
                // the contract, as for seek)
                let pos = truth.partition_point(|d| *d < cur);
                let pred = if pos == 0 { None } else { Some(truth[pos - 1]) };
                let lo = pred.map(|p| p + 1).unwrap_or(0).max(max_target.map(|t| t.saturating_add(1)).unwrap_or(0));
                if rng.chance(1, 6) && lo < cur.min(TERMINATED - 1) { Call::Danger(lo + rng.below((cur.min(TERMINATED - 1) - lo) as u64) as u32) }
                else { Call::Danger(target(rng, cur)) }
            }
            else if r < 28 { Call::Advance }
            else if r < 78 { Call::Seek(target(rng, cur)) }
            else if r < 90 { Call::Fill }
            else {
                let m = match rng.below(4) { 0 => cur, 1 => (cur / 1024 + 1).saturating_mul(1024), 2 => cur.saturating_add(rng.below(70) as u32), _ => cur.saturating_add(rng.below(3000) as u32) };
                if cur != TERMINATED && (m as u64) + (BLOCK_WINDOW as u64) <= TERMINATED as u64 && m >= cur { Call::Bitset(m) } else { Call::Advance }
            };
        let o = guarded(|| match &call {
            Call::Advance => { let r = sc.advance(); (Obs::Doc(sc.doc()), r == sc.doc(), true) }
            Call::Seek(t) => { let r = sc.seek(*t); (Obs::Doc(sc.doc()), r == sc.doc(), true) }
            Call::Fill => {
                let mut buf = [0u32; BUF];
                let n = sc.fill_buffer(&mut buf);
                (Obs::Buf(buf[..n].to_vec(), sc.doc()), true, false)
            }
            Call::Bitset(m) => {
                let mut mask = [tantivy_common::TinySet::empty(); NUM_TINY];
                let r = sc.fill_bitset_block(*m, &mut mask);
                (Obs::Mask(mask.iter().map(|t| t.into_iter().fold(0u64, |a, b| a | (1u64 << b))).collect(), r, sc.doc()), true, false)
            }
            Call::Danger(t) => {
                // SeekDangerResult is not exported by the crate: read it through its Debug form
                let r = format!("{:?}", sc.seek_danger(*t));
                if r == "Found" { (Obs::Danger(None, sc.doc()), true, true) }
                else {
                    let b: u32 = r.trim_start_matches("SeekLowerBound(").trim_end_matches(')').parse().expect("SeekLowerBound(n)");
                    (Obs::Danger(Some(b), 0), true, false)
                }
            }
            Call::Count => (Obs::Count(sc.count_including_deleted()), true, false),
        });
        prog.push(call.clone());
        if let Call::Seek(t) | Call::Danger(t) = &call { max_target = Some(max_target.map_or(*t, |m| m.max(*t))); }
        match o {
            Err(e) => { obs.push(Obs::Panic(e.clone())); problems.push(format!("panic in {:?}: {}", call, e)); ended = true; break; }
            Ok((ob, ret_ok, positioning)) => {
                if !ret_ok { problems.push(format!("{:?}: returned value differs from doc() afterwards", call)); }
                if let (Call::Danger(t), Obs::Danger(res, _)) = (&call, &ob) { dangling = if res.is_some() { Some(*t) } else { None }; }
                obs.push(ob);
                if positioning {
                    if let Some(rs) = ref_scores {
                        let d = sc.doc();
                        if d != TERMINATED {
                            let s = sc.score();
                            match rs.get(&d) {
                                Some(r) if score_same(*r, s, tol) => {}
                                other => problems.push(format!("score at doc {} is {} but a fresh sequential pass gives {:?}", d, s, other)),
                            }
                        }
                    }
                }
            }
        }
        if matches!(call, Call::Count) { ended = true; break; }
    }
    // tail: from wherever the program left a valid scorer, plain advance must enumerate the rest of the list, with the
    // scores of the sequential pass (documents of later windows / blocks are reached after the program's seeks)
    if !ended && dangling.is_none() && problems.is_empty() {
        let r = guarded(|| {
            let cur = sc.doc();
            let mut pos = truth.partition_point(|d| *d < cur);
            let mut d = cur;
            let mut steps = 0usize;
            loop {
                let e = truth.get(pos).copied().unwrap_or(TERMINATED);
                if d != e { return Some(format!("tail walk after the program: doc {} but the list continues with {}", d, e)); }
                if d == TERMINATED || steps > 40_000 { return None; }
                if let Some(rs) = ref_scores {
                    let s = sc.score();
                    match rs.get(&d) {
                        Some(r) if score_same(*r, s, tol) => {}
                        other => return Some(format!("score at doc {} is {} (reached by advance after the program) but a fresh sequential pass gives {:?}", d, s, other)),
                    }
                }
                d = sc.advance();
                pos += 1;
                steps += 1;
            }
        });
        match r { Ok(None) => {} Ok(Some(p)) => problems.push(p), Err(e) => problems.push(format!("panic in tail walk: {}", e)) }
    }
    Driven { prog, obs, problems }
}

fn rust_spec(truth: &[u32], prog: &[Call]) -> Vec<Obs> {
    let mut rem = truth;
    prog.iter().map(|c| spec_step(&mut rem, c)).collect()
}

// ---------------------------------------------------------------- generators
fn gen_docs(rng: &mut Rng, max_len: usize, universe: u32) -> Vec<u32> {
    let len = match rng.below(10) { 0 => 0, 1 => 1, 2 => rng.range(2, 5) as usize, _ => rng.range(0, max_len as u64) as usize };
    let mut s = BTreeSet::new();
    let style = rng.below(5);
    let mut cur = match rng.below(4) { 0 => 0, 1 => rng.below(130) as u32, _ => rng.below(universe as u64 / 2 + 1) as u32 };
    while s.len() < len {
        s.insert(cur);
        let gap = match style {
            0 => 1 + rng.below(3) as u32,
            1 => 1 + rng.below(200) as u32,
            2 => if rng.chance(1, 12) { 4000 + rng.below(300) as u32 } else { 1 + rng.below(5) as u32 },
            3 => *rng.pick(&[1u32, 1, 2, 63, 64, 65, 127, 128, 129, 1023, 1024, 1025, 4095, 4096, 4097, 8192]),
            _ => 1 + rng.below((universe / (len as u32 + 1)).max(2) as u64 * 2) as u32,
        };
        cur = cur.saturating_add(gap);
        if cur >= TERMINATED - 1 { break; }
    }
    if rng.chance(1, 25) { s.insert(TERMINATED - 1); }
    if rng.chance(1, 25) { s.insert(TERMINATED - 2 - rng.below(5000) as u32); }
    s.into_iter().collect()
}
/// lists that share members (so that intersections / msm are not empty)
fn gen_family(rng: &mut Rng, k: usize, max_len: usize, universe: u32) -> Vec<Vec<u32>> {
    let base = gen_docs(rng, max_len * 2, universe);
    (0..k).map(|_| {
        if rng.chance(1, 5) { return gen_docs(rng, max_len, universe); }
        let keep = rng.range(20, 95);
        let mut s: BTreeSet<u32> = base.iter().copied().filter(|_| rng.below(100) < keep).collect();
        for d in gen_docs(rng, max_len / 3 + 1, universe) { s.insert(d); }
        s.into_iter().collect()
    }).collect()
}
fn gen_shape(rng: &mut Rng, depth: usize, next_id: &mut usize, max_len: usize, universe: u32, fam: &mut Vec<Vec<u32>>) -> Shape {
    if depth == 0 || rng.chance(1, 4) {
        if fam.is_empty() { *fam = gen_family(rng, 6, max_len, universe); }
        let d = fam.pop().unwrap();
        *next_id += 1;
        return Shape::Leaf(Arc::new(d), *next_id - 1);
    }
    loop {
        let nm = *rng.pick(&[0usize, 0, 1, 1, 2, 3]);
        let ns = *rng.pick(&[0usize, 0, 1, 2, 2, 3, 4]);
        let nn = *rng.pick(&[0usize, 0, 0, 1, 1, 2]);
        if nm + ns + nn < 2 || nm + ns == 0 { continue; }
        let msm = if ns == 0 { 0 } else { (*rng.pick(&[0usize, 1, 1, 2, 2, 3])).min(ns) };
        let mut mk = |n: usize, rng: &mut Rng| (0..n).map(|_| gen_shape(rng, depth - 1, next_id, max_len, universe, fam)).collect::<Vec<_>>();
        let musts = mk(nm, rng);
        let shoulds = mk(ns, rng);
        let nots = mk(nn, rng);
        return Shape::Bool { musts, shoulds, nots, msm };
    }
}

fn progs_term(p: &[Call]) -> String { cf::list(p, |c| c.coq()) }
fn obs_term(o: &[Obs]) -> String { cf::list(o, |x| x.coq()) }

/// `expected_scores`: the score each document must have by the meaning of the query (sum of the standalone scores of
/// the must clauses), when the caller knows it.  `sweep`: how many members get a `fresh scorer; seek(member)` check.
struct Ctx<'a> { out: &'a mut CaseOut, rng: Rng, coq_budget: usize, score_tol: f32, script: Vec<Call>, expected_scores: Option<HashMap<u32, f32>>, sweep: usize }

/// Drives `progs` programs on fresh scorers from `make`; `spec_list` is the Coq term of the expected list,
/// `truth` the same list computed on the Rust side; `model` (if any) the Coq function `prog -> list obs`.
#[allow(clippy::too_many_arguments)]
fn exercise(ctx: &mut Ctx, what: &str, make: &dyn Fn() -> Box<dyn Scorer>, truth: &[u32], spec_list: &str, model: Option<&str>,
            known_class: Option<(&str, String)>, scored: bool, progs: usize, coq_progs: usize, desc: serde_json::Value) {
    exercise2(ctx, what, make, truth, spec_list, model, known_class, None, scored, progs, coq_progs, desc)
}

/// `union_shape`: Coq term of the query tree when it may contain a scoring union (class of F132).
#[allow(clippy::too_many_arguments)]
fn exercise2(ctx: &mut Ctx, what: &str, make: &dyn Fn() -> Box<dyn Scorer>, truth: &[u32], spec_list: &str, model: Option<&str>,
            known_class: Option<(&str, String)>, union_shape: Option<String>, scored: bool, progs: usize, coq_progs: usize, desc: serde_json::Value) {
    // fresh sequential pass
    let walk = guarded(|| {
        let mut sc = make();
        let mut v = vec![];
        let mut scores = HashMap::new();
        let mut d = sc.doc();
        let mut guard = 0usize;
        while d != TERMINATED && guard < 5_000_000 { v.push(d); scores.insert(d, sc.score()); d = sc.advance(); guard += 1; }
        (v, scores)
    });
    let (walk, scores) = match walk {
        Ok(x) => x,
        Err(e) => { ctx.out.spec_checked(false, json!({"what": what, "panic in sequential pass": e, "case": desc})); return; }
    };
    ctx.out.count(&format!("scorers_{}", what.split(|c| c == '_' || c == ' ').next().unwrap_or(what)), 1);
    let increasing = walk.windows(2).all(|w| w[0] < w[1]);
    ctx.out.spec_checked(increasing, json!({"what": what, "why": "sequential pass not strictly increasing", "case": desc}));
    let seq_ok = walk == truth;
    let nontrivial = truth.len() >= 3;
    let fail_known = |ctx: &mut Ctx, why: serde_json::Value| {
        match &known_class {
            Some((id, term)) => { ctx.out.coq_case(&format!("known:{}", id), term.clone(), json!({"what": what, "why": why, "case": desc}), true); }
            None => ctx.out.spec_checked(false, json!({"what": what, "why": why, "case": desc})),
        }
    };
    if !seq_ok {
        fail_known(ctx, json!({"sequential pass": walk.iter().take(50).collect::<Vec<_>>(), "expected": truth.iter().take(50).collect::<Vec<_>>()}));
    } else if ctx.coq_budget > 0 && truth.len() <= 400 {
        ctx.coq_budget -= 1;
        ctx.out.coq_case("spec", format!("nl_eqb {} {}", spec_list, cf::ns(&walk)), json!({"what": what, "check": "sequential pass = set semantics", "case": desc}), nontrivial);
    }
    let ref_scores = if scored { Some(&scores) } else { None };
    // the score of the sequential pass itself, against the meaning of the query (when known)
    if let (true, true, Some(exp)) = (scored, seq_ok, &ctx.expected_scores) {
        let bad = walk.iter().find(|d| !matches!((scores.get(d), exp.get(d)), (Some(a), Some(b)) if score_same(*b, *a, 1e-5)));
        ctx.out.count("expected_score_checks", walk.len() as u64);
        if let Some(d) = bad {
            ctx.out.spec_checked(false, json!({"what": what, "why": format!("score at doc {} by plain advance is {:?} but the clauses score {:?} on their own", d, scores.get(d), exp.get(d)), "case": desc}));
        } else { ctx.out.spec_checked(true, json!(null)); }
    }
    // seek(t) on a fresh scorer lands on t for every member t (a sample of them), with the score of the sequential
    // pass, and the next advance gives the next member
    if seq_ok && !truth.is_empty() {
        let n = truth.len();
        let picks: Vec<usize> = if n <= ctx.sweep { (0..n).collect() } else { (0..ctx.sweep).map(|_| ctx.rng.below(n as u64) as usize).collect() };
        let tol = ctx.score_tol;
        let mut first_bad: Option<String> = None;
        for i in picks {
            let t = truth[i];
            let r = guarded(|| {
                let mut sc = make();
                if sc.doc() > t { return None; }
                let got = sc.seek(t);
                if got != t || sc.doc() != t { return Some(format!("fresh scorer, seek({}) lands on {} (doc() = {})", t, got, sc.doc())); }
                if let Some(rs) = ref_scores {
                    let sco = sc.score();
                    if !matches!(rs.get(&t), Some(r) if score_same(*r, sco, tol)) { return Some(format!("fresh scorer, seek({}): score {} but the sequential pass gives {:?}", t, sco, rs.get(&t))); }
                }
                let nxt = sc.advance();
                let e = truth.get(i + 1).copied().unwrap_or(TERMINATED);
                if nxt != e { return Some(format!("fresh scorer, seek({}); advance gives {} instead of {}", t, nxt, e)); }
                None
            });
            ctx.out.count("fresh_seek_checks", 1);
            match r { Ok(None) => {} Ok(Some(m)) => { first_bad.get_or_insert(m); } Err(e) => { first_bad.get_or_insert(format!("panic in fresh seek({}): {}", t, e)); } }
        }
        match first_bad {
            None => ctx.out.spec_checked(true, json!(null)),
            Some(m) => ctx.out.spec_checked(false, json!({"what": what, "why": m, "case": desc})),
        }
    }
    for p in 0..progs {
        let len = match ctx.rng.below(4) { 0 => ctx.rng.range(1, 4) as usize, _ => ctx.rng.range(4, 22) as usize };
        let mut rng = ctx.rng.fork();
        let mut sc = match guarded(|| make()) { Ok(s) => s, Err(_) => return };
        let with_danger = p % 2 == 1;
        let script = if p == 0 { ctx.script.clone() } else { vec![] };
        let d = drive(&mut sc, truth, ref_scores, ctx.score_tol, &script, len.max(script.len()), with_danger && script.is_empty(), &mut rng);
        ctx.out.count("programs", 1);
        ctx.out.count("calls", d.prog.len() as u64);
        for c in &d.prog { ctx.out.count(match c { Call::Advance => "call_advance", Call::Seek(_) => "call_seek", Call::Fill => "call_fill_buffer", Call::Bitset(_) => "call_fill_bitset", Call::Danger(_) => "call_seek_danger", Call::Count => "call_count" }, 1); }
        let has_danger = d.prog.iter().any(|c| matches!(c, Call::Danger(_)));
        let expect = if has_danger { vec![] } else { rust_spec(truth, &d.prog) };
        let ok = if has_danger { rust_check(truth, &d.prog, &d.obs) } else { expect == d.obs };
        if ok {
            ctx.out.spec_checked(true, json!(null));
        } else {
            fail_known(ctx, json!({"program": progs_term(&d.prog), "observed": obs_term(&d.obs), "expected": obs_term(&expect)}));
        }
        // every finding of this property is fixed in /repo: any problem is an ordinary violation
        let _ = &union_shape;
        for pr in &d.problems {
            if !ok && known_class.is_some() { continue; }
            ctx.out.spec_checked(false, json!({"what": what, "why": pr, "program": progs_term(&d.prog), "case": desc}));
        }
        if scored { ctx.out.count("score_checks", d.prog.iter().filter(|c| matches!(c, Call::Advance | Call::Seek(_))).count() as u64); }
        if p < coq_progs && ctx.coq_budget > 0 && truth.len() <= 400 {
            ctx.coq_budget -= 1;
            let pj = json!({"what": what, "program": progs_term(&d.prog), "case": desc});
            if ok {
                ctx.out.coq_case("spec", if has_danger { format!("spec_check {} false {} {}", spec_list, progs_term(&d.prog), obs_term(&d.obs)) } else { format!("obsl_eqb (spec_run {} {}) {}", spec_list, progs_term(&d.prog), obs_term(&d.obs)) }, pj.clone(), nontrivial && d.prog.len() >= 3);
            }
            if let Some(m) = model {
                ctx.out.coq_case("tie", format!("obsl_eqb ({} {}) {}", m, progs_term(&d.prog), obs_term(&d.obs)), pj, nontrivial && d.prog.len() >= 3);
            }
        }
    }
}

fn lists_term(ls: &[Arc<Vec<u32>>]) -> String { cf::list(ls, |l| cf::ns(l)) }

fn small_index(n: u32) -> (Index, Searcher) {
    let mut sb = Schema::builder();
    let f = sb.add_u64_field("n", INDEXED);
    let index = Index::create_in_ram(sb.build());
    let mut w: IndexWriter = index.writer_with_num_threads(1, 30_000_000).unwrap();
    for d in 0..n { w.add_document(doc!(f => d as u64)).unwrap(); }
    w.commit().unwrap();
    let s = index.reader().unwrap().searcher();
    (index, s)
}

fn weight_of(q: &dyn Query, s: &Searcher, scoring: bool) -> Box<dyn Weight> {
    if scoring { q.weight(EnableScoring::enabled_from_searcher(s)) } else { q.weight(EnableScoring::disabled_from_searcher(s)) }.unwrap()
}

fn main() {
    let args = Args::parse();
    tvh::quiet_panics();
    let thorough = args.thorough();
    let mut out = CaseOut::new(&args.out, HEADER, 60);
    let mut ctx = Ctx { out: &mut out, rng: Rng::new(args.seed), coq_budget: if thorough { 4000 } else { 750 }, score_tol: 0.0, script: vec![], expected_scores: None, sweep: 40 };
    let scale: u64 = if thorough { 8 } else { 1 };

    let (_i1, s_small) = small_index(10);
    let (_i2, s_big) = small_index(120_000);
    assert_eq!(s_small.segment_readers().len(), 1);
    assert_eq!(s_big.segment_readers().len(), 1);

    // ---------------- (0) witness of F131 (union inside union, driven by seek_danger) ----------------
    {
        let a = Arc::new(vec![1u32, 5000, 10000]);
        let x = Arc::new(vec![10000u32]);
        let y = Arc::new(vec![10001u32]);
        let z = Arc::new(vec![1u32, 19990, 19991, 19992, 19993, 19994]);
        let inner = Shape::Bool { musts: vec![], shoulds: vec![Shape::Leaf(x, 1), Shape::Leaf(y, 2)], nots: vec![], msm: 1 };
        let outer = Shape::Bool { musts: vec![], shoulds: vec![inner, Shape::Leaf(z, 3)], nots: vec![], msm: 1 };
        let shape = Shape::Bool { musts: vec![Shape::Leaf(a, 0), outer], shoulds: vec![], nots: vec![], msm: 0 };
        let q = shape.to_query();
        let w = weight_of(q.as_ref(), &s_small, false);
        let truth = shape.sem();
        let r = s_small.segment_reader(0);
        // F131 is fixed: a missed document is an ordinary violation; the two-level model follows the pinned shape
        let model = "run_inter_luu [1;5000;10000] [inr [[10000];[10001]]; inl [1;19990;19991;19992;19993;19994]] true true";
        exercise(&mut ctx, "regression_F131", &|| w.scorer(r, 1.0).unwrap(), &truth, &format!("(qsem {})", shape.coq()), Some(model),
                 None, false, 6, 6, json!({"shape": shape.coq()}));
    }

    // ---------------- (0b) directed: a union with an intersection child, driven by seek_danger (scores) ----------------
    {
        let a = Arc::new(vec![1u32, 10000, 20000]);
        let b = Arc::new(vec![1u32, 6000, 10000, 40000]);
        let c = Arc::new(vec![1u32, 6000, 15000, 40000]);
        let d = Arc::new(vec![1u32, 10000, 30000, 30001, 30002, 30003]);
        let inner = Shape::Bool { musts: vec![Shape::Leaf(b, 1), Shape::Leaf(c, 2)], shoulds: vec![], nots: vec![], msm: 0 };
        let outer = Shape::Bool { musts: vec![], shoulds: vec![inner, Shape::Leaf(d, 3)], nots: vec![], msm: 1 };
        let shape = Shape::Bool { musts: vec![Shape::Leaf(a, 0), outer], shoulds: vec![], nots: vec![], msm: 0 };
        let q = shape.to_query();
        let w = weight_of(q.as_ref(), &s_small, true);
        let truth = shape.sem();
        let r = s_small.segment_reader(0);
        exercise2(&mut ctx, "directed_union_of_intersection", &|| w.scorer(r, 1.0).unwrap(), &truth, &format!("(qsem {})", shape.coq()), None,
                 None, Some(shape.coq()), true, 12, 2, json!({"shape": shape.coq()}));
    }

    // ---------------- (1) leaf alone: the default methods of the trait ----------------
    for _ in 0..30 * scale {
        let l = Arc::new(gen_docs(&mut ctx.rng, 300, 30_000));
        let l2 = l.clone();
        let make = move || -> Box<dyn Scorer> { Box::new(VecDs { docs: l2.clone(), cursor: 0, score: 1.0 }) };
        exercise(&mut ctx, "leaf", &make, &l, &cf::ns(&l), Some(&format!("run_vec {}", cf::ns(&l))), None, true, 6, 2, json!({"len": l.len()}));
    }

    // ---------------- (2) direct constructions of the public combinators ----------------
    for i in 0..40 * scale {
        let fam = gen_family(&mut ctx.rng, 4, 250, 20_000);
        let u = Arc::new(fam[0].clone());
        let nex = 1 + (i % 3) as usize;
        let exs: Vec<Arc<Vec<u32>>> = fam[1..1 + nex].iter().map(|v| Arc::new(v.clone())).collect();
        let truth: Vec<u32> = u.iter().copied().filter(|d| !exs.iter().any(|e| e.binary_search(d).is_ok())).collect();
        let (u2, exs2) = (u.clone(), exs.clone());
        let make = move || -> Box<dyn Scorer> {
            let leaf = |d: &Arc<Vec<u32>>, s: f32| VecDs { docs: d.clone(), cursor: 0, score: s };
            if exs2.len() == 1 { Box::new(Exclude::new(leaf(&u2, 1.0), leaf(&exs2[0], 2.0))) }
            else { Box::new(Exclude::new(leaf(&u2, 1.0), exs2.iter().map(|e| leaf(e, 2.0)).collect::<Vec<_>>())) }
        };
        exercise(&mut ctx, "exclude_direct", &make, &truth, &format!("(sem_exclude {} {})", cf::ns(&u), lists_term(&exs)),
                 Some(&format!("run_exclude {} {}", cf::ns(&u), lists_term(&exs))), None, true, 6, 3, json!({"und": u.len(), "excl": exs.iter().map(|e| e.len()).collect::<Vec<_>>()}));
    }
    for _ in 0..30 * scale {
        let fam = gen_family(&mut ctx.rng, 2, 250, 20_000);
        let (a, b) = (Arc::new(fam[0].clone()), Arc::new(fam[1].clone()));
        let (a2, b2) = (a.clone(), b.clone());
        let make = move || -> Box<dyn Scorer> {
            Box::new(RequiredOptionalScorer::<_, _, SumCombiner>::new(VecDs { docs: a2.clone(), cursor: 0, score: 1.0 }, VecDs { docs: b2.clone(), cursor: 0, score: 2.0 }))
        };
        exercise(&mut ctx, "reqopt_direct", &make, &a, &cf::ns(&a), Some(&format!("run_reqopt {} {}", cf::ns(&a), cf::ns(&b))), None, true, 6, 2, json!({"req": a.len(), "opt": b.len()}));
    }
    for i in 0..60 * scale {
        let k = 2 + (i % 3) as usize;
        let fam = gen_family(&mut ctx.rng, k, 300, 20_000);
        let mut ls: Vec<Arc<Vec<u32>>> = fam.into_iter().map(Arc::new).collect();
        ls.sort_by_key(|l| l.len());
        let num_docs: u32 = if i % 2 == 0 { 10 } else { 120_000 };
        let dense = !((ls[0].len() as u32).saturating_mul(32) < num_docs);
        let truth: Vec<u32> = ls[0].iter().copied().filter(|d| ls[1..].iter().all(|e| e.binary_search(d).is_ok())).collect();
        let ls2 = ls.clone();
        let make = move || -> Box<dyn Scorer> {
            let v: Vec<Box<dyn Scorer>> = ls2.iter().enumerate().map(|(j, l)| Box::new(VecDs { docs: l.clone(), cursor: 0, score: (1u32 << j) as f32 }) as Box<dyn Scorer>).collect();
            intersect_scorers(v, num_docs)
        };
        exercise(&mut ctx, "intersection_direct", &make, &truth, &format!("(sem_inter {})", lists_term(&ls)),
                 Some(&format!("run_inter {} {}", lists_term(&ls), cf::boolean(dense))), None, true, 6, 3, json!({"lens": ls.iter().map(|l| l.len()).collect::<Vec<_>>(), "dense": dense}));
    }

    // ---------------- (3) through BooleanQuery over leaf queries: one level (models) ----------------
    let searchers = [&s_small, &s_big];
    for i in 0..70 * scale {
        let k = 2 + (i % 4) as usize;
        let fam = gen_family(&mut ctx.rng, k, 260, 26_000);
        let ls: Vec<Arc<Vec<u32>>> = fam.into_iter().map(Arc::new).collect();
        let shape = Shape::Bool { musts: vec![], shoulds: ls.iter().enumerate().map(|(j, l)| Shape::Leaf(l.clone(), j)).collect(), nots: vec![], msm: 1 };
        let scoring = i % 2 == 0;
        let s = searchers[(i / 2 % 2) as usize];
        let q = shape.to_query();
        let w = weight_of(q.as_ref(), s, scoring);
        let r = s.segment_reader(0);
        let truth = shape.sem();
        exercise2(&mut ctx, "union_bool", &|| w.scorer(r, 1.0).unwrap(), &truth, &format!("(sem_union {})", lists_term(&ls)),
                 Some(&format!("run_union {}", lists_term(&ls))), None, Some(shape.coq()), scoring, 8, 4, json!({"lens": ls.iter().map(|l| l.len()).collect::<Vec<_>>(), "scoring": scoring}));
    }
    // (3b) dense unions spanning several 4096-windows, scoring on: an in-window seek that skips buffered members of
    // the target's 64-doc bucket, then the same slots of the next windows (per-slot score combiners must be clean)
    for i in 0..12 * scale {
        let k = 2 + (i % 2) as usize;
        let n = 9_000 + ctx.rng.below(4_000) as u32;
        let start = ctx.rng.below(200) as u32;
        let ls: Vec<Arc<Vec<u32>>> = (0..k).map(|_| { let keep = ctx.rng.range(35, 95); Arc::new((start..start + n).filter(|_| ctx.rng.below(100) < keep).collect::<Vec<u32>>()) }).collect();
        let shape = Shape::Bool { musts: vec![], shoulds: ls.iter().enumerate().map(|(j, l)| Shape::Leaf(l.clone(), j)).collect(), nots: vec![], msm: 1 };
        let s = searchers[(i % 2) as usize];
        let q = shape.to_query();
        let w = weight_of(q.as_ref(), s, true);
        let r = s.segment_reader(0);
        let truth = shape.sem();
        if truth.len() < 100 { continue; }
        let j = ctx.rng.below(40) as usize;
        let t1 = truth[j + 3 + ctx.rng.below(8) as usize];
        ctx.script = vec![Call::Seek(truth[j]), Call::Seek(t1), Call::Seek(t1 + 4096 - 1 - ctx.rng.below(6) as u32), Call::Advance, Call::Seek(t1 + 8192 - ctx.rng.below(8) as u32), Call::Advance];
        exercise2(&mut ctx, "union_dense", &|| w.scorer(r, 1.0).unwrap(), &truth, "[]", None, None, None, true, 6, 0, json!({"lens": ls.iter().map(|l| l.len()).collect::<Vec<_>>(), "scoring": true}));
        ctx.script = vec![];
    }
    for i in 0..40 * scale {
        let k = 3 + (i % 3) as usize;
        let msm = 2 + (i % 2) as usize;
        if msm >= k { continue; }
        let fam = gen_family(&mut ctx.rng, k, 220, 20_000);
        let ls: Vec<Arc<Vec<u32>>> = fam.into_iter().map(Arc::new).collect();
        let shape = Shape::Bool { musts: vec![], shoulds: ls.iter().enumerate().map(|(j, l)| Shape::Leaf(l.clone(), j)).collect(), nots: vec![], msm };
        let scoring = i % 2 == 0;
        let s = searchers[(i / 2 % 2) as usize];
        let q = shape.to_query();
        let w = weight_of(q.as_ref(), s, scoring);
        let r = s.segment_reader(0);
        let truth = shape.sem();
        exercise(&mut ctx, "disjunction_bool", &|| w.scorer(r, 1.0).unwrap(), &truth, &format!("(sem_disj {} {})", cf::nat(msm), lists_term(&ls)),
                 Some(&format!("run_disj {} {}", cf::nat(msm), lists_term(&ls))), None, scoring, 6, 3, json!({"lens": ls.iter().map(|l| l.len()).collect::<Vec<_>>(), "msm": msm}));
    }

    // ---------------- (4) nested boolean trees: spec layer on the real composition ----------------
    for i in 0..220 * scale {
        let mut id = 0usize;
        let mut fam = vec![];
        let depth = 1 + (i % 3) as usize;
        let shape = gen_shape(&mut ctx.rng, depth, &mut id, 160, 24_000, &mut fam);
        if let Shape::Leaf(..) = shape { continue; }
        let scoring = i % 2 == 0;
        let s = searchers[(i / 2 % 2) as usize];
        let q = shape.to_query();
        let w = weight_of(q.as_ref(), s, scoring);
        let r = s.segment_reader(0);
        let truth = shape.sem();
        ctx.out.count(&format!("tree_depth_{}", shape.depth()), 1);
        let sdesc = if truth.len() <= 60 && id <= 6 { shape.coq() } else { format!("{} leaves, depth {}", id, shape.depth()) };
        exercise2(&mut ctx, "bool_tree", &|| w.scorer(r, 1.0).unwrap(), &truth, &format!("(qsem {})", shape.coq()), None,
                 None, Some(shape.coq()), scoring, 8, 2, json!({"shape": sdesc, "scoring": scoring}));
        // Weight::count goes through count_including_deleted of a fresh scorer
        let c = guarded(|| s.search(q.as_ref(), &Count));
        let cnt_ok = matches!(&c, Ok(Ok(n)) if *n == truth.len());
        if !cnt_ok {
            let d = json!({"what": "Count collector", "got": format!("{:?}", c), "expected": truth.len(), "shape": sdesc});
            ctx.out.spec_checked(false, d);
        } else { ctx.out.spec_checked(true, json!(null)); }
    }

    // ---------------- (5) real postings: term, boolean over terms, all, range, phrase ----------------
    {
        let mut sb = Schema::builder();
        let tf = sb.add_text_field("t", TEXT);
        let nf = sb.add_u64_field("n", INDEXED | FAST);
        let index = Index::create_in_ram(sb.build());
        let mut w: IndexWriter = index.writer_with_num_threads(1, 80_000_000).unwrap();
        let ndocs: u32 = if thorough { 40_000 } else { 14_000 };
        let words = ["a", "b", "c", "d", "e", "f", "g", "h"];
        let periods = [2u32, 3, 7, 50, 129, 1000, 4097, 9000];
        let mut postings: Vec<Vec<u32>> = vec![vec![]; words.len()];
        let mut texts: Vec<Vec<usize>> = vec![];
        let mut nums = vec![];
        let mut rng = ctx.rng.fork();
        for d in 0..ndocs {
            let mut toks = vec![];
            for (j, p) in periods.iter().enumerate() {
                if d % p == (j as u32 % p) || rng.below(*p as u64 * 3) == 0 { toks.push(j); }
            }
            rng.shuffle(&mut toks);
            for j in toks.iter().copied().collect::<BTreeSet<_>>() { postings[j].push(d); }
            let text = toks.iter().map(|j| words[*j]).collect::<Vec<_>>().join(" ");
            let n = rng.below(1000);
            nums.push(n);
            texts.push(toks);
            w.add_document(doc!(tf => text, nf => n)).unwrap();
        }
        w.commit().unwrap();
        let s = index.reader().unwrap().searcher();
        assert_eq!(s.segment_readers().len(), 1);
        let r = s.segment_reader(0);
        let tq = |j: usize| -> Box<dyn Query> { Box::new(TermQuery::new(Term::from_field_text(tf, words[j]), IndexRecordOption::WithFreqs)) };
        let real = |name: &str, q: Box<dyn Query>, truth: Vec<u32>, ctx: &mut Ctx, single_clause: bool| {
            for scoring in [false, true] {
                let w = weight_of(q.as_ref(), &s, scoring);
                let small = truth.len() <= 350;
                let empty: Vec<u32> = vec![];
                ctx.score_tol = if single_clause { 0.0 } else { 1e-5 };
                exercise(ctx, name, &|| w.scorer(r, 1.0).unwrap(), &truth, &cf::ns(if small { &truth } else { &empty }), None, None,
                         scoring, (10 * scale) as usize, if small { 1 } else { 0 }, json!({"query": name, "hits": truth.len(), "scoring": scoring}));
                ctx.score_tol = 0.0;
            }
        };
        for j in 0..words.len() { real(&format!("term_{}", words[j]), tq(j), postings[j].clone(), &mut ctx, true); }
        real("all", Box::new(AllQuery), (0..ndocs).collect(), &mut ctx, true);
        let mem = |j: usize, d: u32| postings[j].binary_search(&d).is_ok();
        let combos: Vec<(&str, Box<dyn Query>, Box<dyn Fn(u32) -> bool + '_>)> = vec![
            ("bool +a +b", Box::new(BooleanQuery::new(vec![(Occur::Must, tq(0)), (Occur::Must, tq(1))])), Box::new(|d| mem(0, d) && mem(1, d))),
            ("bool +c +d +a", Box::new(BooleanQuery::new(vec![(Occur::Must, tq(2)), (Occur::Must, tq(3)), (Occur::Must, tq(0))])), Box::new(|d| mem(2, d) && mem(3, d) && mem(0, d))),
            ("bool d e f", Box::new(BooleanQuery::new(vec![(Occur::Should, tq(3)), (Occur::Should, tq(4)), (Occur::Should, tq(5))])), Box::new(|d| mem(3, d) || mem(4, d) || mem(5, d))),
            ("bool g h", Box::new(BooleanQuery::new(vec![(Occur::Should, tq(6)), (Occur::Should, tq(7))])), Box::new(|d| mem(6, d) || mem(7, d))),
            ("bool a b", Box::new(BooleanQuery::new(vec![(Occur::Should, tq(0)), (Occur::Should, tq(1))])), Box::new(|d| mem(0, d) || mem(1, d))),
            ("bool b c d", Box::new(BooleanQuery::new(vec![(Occur::Should, tq(1)), (Occur::Should, tq(2)), (Occur::Should, tq(3))])), Box::new(|d| mem(1, d) || mem(2, d) || mem(3, d))),
            ("bool +(a b) +c", Box::new(BooleanQuery::new(vec![(Occur::Must, Box::new(BooleanQuery::new(vec![(Occur::Should, tq(0)), (Occur::Should, tq(1))]))), (Occur::Must, tq(2))])), Box::new(|d| (mem(0, d) || mem(1, d)) && mem(2, d))),
            ("bool +b -c", Box::new(BooleanQuery::new(vec![(Occur::Must, tq(1)), (Occur::MustNot, tq(2))])), Box::new(|d| mem(1, d) && !mem(2, d))),
            ("bool +c -d -e", Box::new(BooleanQuery::new(vec![(Occur::Must, tq(2)), (Occur::MustNot, tq(3)), (Occur::MustNot, tq(4))])), Box::new(|d| mem(2, d) && !mem(3, d) && !mem(4, d))),
            ("bool +c (e f)", Box::new(BooleanQuery::new(vec![(Occur::Must, tq(2)), (Occur::Should, tq(4)), (Occur::Should, tq(5))])), Box::new(|d| mem(2, d))),
            ("bool +d +(e f g)", Box::new(BooleanQuery::new(vec![(Occur::Must, tq(3)), (Occur::Must, Box::new(BooleanQuery::new(vec![(Occur::Should, tq(4)), (Occur::Should, tq(5)), (Occur::Should, tq(6))])))])), Box::new(|d| mem(3, d) && (mem(4, d) || mem(5, d) || mem(6, d)))),
            ("bool (c d e f)~2", Box::new(BooleanQuery::with_minimum_required_clauses(vec![(Occur::Should, tq(2)), (Occur::Should, tq(3)), (Occur::Should, tq(4)), (Occur::Should, tq(5))], 2)), Box::new(|d| [2, 3, 4, 5].iter().filter(|j| mem(**j, d)).count() >= 2)),
            ("bool (f g) -(d h)", Box::new(BooleanQuery::new(vec![(Occur::Should, tq(5)), (Occur::Should, tq(6)), (Occur::MustNot, Box::new(BooleanQuery::new(vec![(Occur::Should, tq(3)), (Occur::Should, tq(7))])))])), Box::new(|d| (mem(5, d) || mem(6, d)) && !(mem(3, d) || mem(7, d)))),
        ];
        for (name, q, pred) in combos {
            let truth: Vec<u32> = (0..ndocs).filter(|d| pred(*d)).collect();
            real(name, q, truth, &mut ctx, false);
        }
        for (lo, hi) in [(0u64, 3u64), (100, 600), (990, 999), (500, 500)] {
            let q = RangeQuery::new(std::ops::Bound::Included(Term::from_field_u64(nf, lo)), std::ops::Bound::Included(Term::from_field_u64(nf, hi)));
            let truth: Vec<u32> = (0..ndocs).filter(|d| nums[*d as usize] >= lo && nums[*d as usize] <= hi).collect();
            real(&format!("range {} {}", lo, hi), Box::new(q), truth, &mut ctx, true);
        }
        for ph in [vec![0usize, 1], vec![1, 0, 2], vec![2, 0]] {
            let q = PhraseQuery::new(ph.iter().map(|j| Term::from_field_text(tf, words[*j])).collect());
            let truth: Vec<u32> = (0..ndocs).filter(|d| texts[*d as usize].windows(ph.len()).any(|w| w == &ph[..])).collect();
            real(&format!("phrase {:?}", ph), Box::new(q), truth, &mut ctx, true);
        }
    }

    // ---------------- (6) phrase-prefix (2-term = SinglePrefix, 3-term = MultiPrefix) and phrase scorers over a corpus
    // where the terms sit at different positions in consecutive candidate documents ----------------
    {
        let mut sb = Schema::builder();
        let tf = sb.add_text_field("t", TEXT);
        let index = Index::create_in_ram(sb.build());
        let mut w: IndexWriter = index.writer_with_num_threads(1, 50_000_000).unwrap();
        let vocab = ["big", "wolf", "wonder", "word", "wo", "bad", "tag", "x", "y", "bigger"];
        let ndocs: u32 = if thorough { 12_000 } else { 5_000 };
        let mut rng = ctx.rng.fork();
        let mut texts: Vec<Vec<&str>> = vec![];
        for d in 0..ndocs {
            let len = 1 + rng.below(7) as usize;
            let mut toks: Vec<&str> = (0..len).map(|_| *rng.pick(&vocab)).collect();
            // plant "big wo*" / "big bad wo*" at a varying position in runs of consecutive documents
            if d % 5 < 3 && rng.chance(2, 3) {
                let pos = rng.below(toks.len() as u64) as usize;
                let suffix = *rng.pick(&["wolf", "wonder", "word", "wo", "x"]);
                let mut ins = vec!["big"]; if rng.chance(1, 3) { ins.push("bad"); } ins.push(suffix);
                for (k, t) in ins.into_iter().enumerate() { toks.insert(pos + k, t); }
            }
            // documents with 0..4 occurrences of the phrase "big wolf" (different phrase counts = different scores),
            // many of them carrying the rare term "zz" (a cheaper clause that leads an intersection)
            if rng.chance(1, 6) {
                for _ in 0..rng.below(5) { let pos = rng.below(toks.len() as u64 + 1) as usize; toks.insert(pos, "wolf"); toks.insert(pos, "big"); }
                if rng.chance(2, 3) { let pos = rng.below(toks.len() as u64 + 1) as usize; toks.insert(pos, "zz"); }
            } else if rng.chance(1, 30) { toks.push("zz"); }
            // "wombat" is a rare expansion (< 100 docs) of the regex wo.* next to the frequent wolf / wonder / word / wo:
            // documents holding both, where the phrase `wo.* tag` goes through the frequent one only, through the rare
            // one only, or through none
            if rng.chance(1, 90) {
                match rng.below(4) {
                    0 | 1 => { toks.insert(0, "wombat"); toks.insert(1, "x"); toks.push(*rng.pick(&["wolf", "word", "wo"])); toks.push("tag"); }
                    2 => { toks.push("wombat"); toks.push("tag"); }
                    _ => { toks.push("wombat"); toks.push("y"); }
                }
            }
            w.add_document(doc!(tf => toks.join(" "))).unwrap();
            texts.push(toks);
        }
        w.commit().unwrap();
        let s = index.reader().unwrap().searcher();
        assert_eq!(s.segment_readers().len(), 1);
        let r = s.segment_reader(0);
        let term = |t: &str| Term::from_field_text(tf, t);
        let pp_match = |toks: &Vec<&str>, ph: &[&str]| -> bool {
            let n = ph.len();
            toks.len() >= n && toks.windows(n).any(|w| w[..n - 1] == ph[..n - 1] && w[n - 1].starts_with(ph[n - 1]))
        };
        let ph_match = |toks: &Vec<&str>, ph: &[&str]| -> bool { toks.len() >= ph.len() && toks.windows(ph.len()).any(|w| w == ph) };
        let has = |toks: &Vec<&str>, t: &str| toks.iter().any(|x| *x == t);
        // `musts`: when the query is a conjunction of these clauses, its score is the sum of their standalone scores
        let run2 = |name: &str, q: Box<dyn Query>, truth: Vec<u32>, ctx: &mut Ctx, single: bool, musts: Option<Vec<Box<dyn Query>>>| {
            for scoring in [false, true] {
                let w = weight_of(q.as_ref(), &s, scoring);
                let small = truth.len() <= 350;
                let empty: Vec<u32> = vec![];
                ctx.score_tol = if single { 0.0 } else { 1e-5 };
                ctx.sweep = 600;
                ctx.expected_scores = match (&musts, scoring) {
                    (Some(cl), true) => {
                        let mut sum: HashMap<u32, f32> = HashMap::new();
                        for (k, c) in cl.iter().enumerate() {
                            let cw = weight_of(c.as_ref(), &s, true);
                            let mut sc = cw.scorer(r, 1.0).unwrap();
                            let mut this: HashMap<u32, f32> = HashMap::new();
                            let mut d = sc.doc();
                            while d != TERMINATED { this.insert(d, sc.score()); d = sc.advance(); }
                            if k == 0 { sum = this; } else { sum = sum.into_iter().filter_map(|(d, a)| this.get(&d).map(|b| (d, a + *b))).collect(); }
                        }
                        Some(sum)
                    }
                    _ => None,
                };
                exercise(ctx, name, &|| w.scorer(r, 1.0).unwrap(), &truth, &cf::ns(if small { &truth } else { &empty }), None, None,
                         scoring, (12 * scale) as usize, if small { 1 } else { 0 }, json!({"query": name, "hits": truth.len(), "scoring": scoring}));
                ctx.score_tol = 0.0;
                ctx.sweep = 40;
                ctx.expected_scores = None;
            }
        };
        let run = |name: &str, q: Box<dyn Query>, truth: Vec<u32>, ctx: &mut Ctx, single: bool| run2(name, q, truth, ctx, single, None);
        let pps: Vec<Vec<&str>> = vec![vec!["big", "wo"], vec!["bad", "wo"], vec!["big", "bad", "wo"], vec!["x", "big", "wo"], vec!["big", "big"]];
        for ph in &pps {
            let q = PhrasePrefixQuery::new(ph.iter().map(|t| term(t)).collect());
            let truth: Vec<u32> = (0..ndocs).filter(|d| pp_match(&texts[*d as usize], ph)).collect();
            run(&format!("phraseprefix {}", ph.join("_")), Box::new(q), truth, &mut ctx, true);
        }
        for ph in [vec!["big", "wolf"], vec!["big", "bad", "wolf"], vec!["wo", "big"]] {
            let q = PhraseQuery::new(ph.iter().map(|t| term(t)).collect());
            let truth: Vec<u32> = (0..ndocs).filter(|d| ph_match(&texts[*d as usize], &ph)).collect();
            run(&format!("phrase {}", ph.join("_")), Box::new(q), truth, &mut ctx, true);
        }
        // inside boolean queries: the phrase-prefix scorer is driven by seek / seek_danger of the intersection / exclusion
        let ppq = |ph: &[&str]| -> Box<dyn Query> { Box::new(PhrasePrefixQuery::new(ph.iter().map(|t| term(t)).collect())) };
        let tq = |t: &str| -> Box<dyn Query> { Box::new(TermQuery::new(term(t), IndexRecordOption::WithFreqs)) };
        let combos: Vec<(&str, Box<dyn Query>, Box<dyn Fn(&Vec<&str>) -> bool + '_>)> = vec![
            ("bool +pp(big wo) +tag", Box::new(BooleanQuery::new(vec![(Occur::Must, ppq(&["big", "wo"])), (Occur::Must, tq("tag"))])), Box::new(|t| pp_match(t, &["big", "wo"]) && has(t, "tag"))),
            ("bool +pp(big bad wo) +y", Box::new(BooleanQuery::new(vec![(Occur::Must, ppq(&["big", "bad", "wo"])), (Occur::Must, tq("y"))])), Box::new(|t| pp_match(t, &["big", "bad", "wo"]) && has(t, "y"))),
            ("bool +tag -pp(big wo)", Box::new(BooleanQuery::new(vec![(Occur::Must, tq("tag")), (Occur::MustNot, ppq(&["big", "wo"]))])), Box::new(|t| has(t, "tag") && !pp_match(t, &["big", "wo"]))),
            ("bool pp(big wo) pp(bad wo)", Box::new(BooleanQuery::new(vec![(Occur::Should, ppq(&["big", "wo"])), (Occur::Should, ppq(&["bad", "wo"]))])), Box::new(|t| pp_match(t, &["big", "wo"]) || pp_match(t, &["bad", "wo"]))),
            ("bool +x +(pp(big wo) bigger)", Box::new(BooleanQuery::new(vec![(Occur::Must, tq("x")), (Occur::Must, Box::new(BooleanQuery::new(vec![(Occur::Should, ppq(&["big", "wo"])), (Occur::Should, tq("bigger"))])))])), Box::new(|t| has(t, "x") && (pp_match(t, &["big", "wo"]) || has(t, "bigger")))),
        ];
        for (name, q, pred) in combos {
            let truth: Vec<u32> = (0..ndocs).filter(|d| pred(&texts[*d as usize])).collect();
            run(name, q, truth, &mut ctx, false);
        }
        // conjunctions whose score is known clause by clause: a phrase / phrase-prefix with varying phrase counts as the
        // leading clause and as a non-leading clause (then the enclosing intersection moves it with seek_danger)
        let phq = |ph: &[&str]| -> Box<dyn Query> { Box::new(PhraseQuery::new(ph.iter().map(|t| term(t)).collect())) };
        let conj: Vec<(&str, Vec<Box<dyn Query>>, Box<dyn Fn(&Vec<&str>) -> bool + '_>)> = vec![
            ("conj +zz +ph(big wolf)", vec![tq("zz"), phq(&["big", "wolf"])], Box::new(|t| has(t, "zz") && ph_match(t, &["big", "wolf"]))),
            ("conj +ph(big wolf) +wolf", vec![phq(&["big", "wolf"]), tq("wolf")], Box::new(|t| ph_match(t, &["big", "wolf"]))),
            ("conj +zz +ph(big wolf) +y", vec![tq("zz"), phq(&["big", "wolf"]), tq("y")], Box::new(|t| has(t, "zz") && has(t, "y") && ph_match(t, &["big", "wolf"]))),
            ("conj +zz +pp(big wo)", vec![tq("zz"), ppq(&["big", "wo"])], Box::new(|t| has(t, "zz") && pp_match(t, &["big", "wo"]))),
            ("conj +zz +ph(big wolf) +ph(wolf big)", vec![tq("zz"), phq(&["big", "wolf"]), phq(&["wolf", "big"])], Box::new(|t| has(t, "zz") && ph_match(t, &["big", "wolf"]) && ph_match(t, &["wolf", "big"]))),
        ];
        for (name, clauses, pred) in conj {
            let truth: Vec<u32> = (0..ndocs).filter(|d| pred(&texts[*d as usize])).collect();
            let q = BooleanQuery::new(clauses.iter().map(|c| (Occur::Must, c.box_clone())).collect());
            run2(name, Box::new(q), truth, &mut ctx, false, Some(clauses));
        }
        // regex phrases: every regex term is a SimpleUnion of a union of the rare expansions and a union of the frequent
        // ones; the phrase scorer moves it with seek only
        let rx_match = |toks: &Vec<&str>, ph: &[&str]| -> bool {
            toks.len() >= ph.len() && toks.windows(ph.len()).any(|w| w.iter().zip(ph).all(|(t, p)| if let Some(pre) = p.strip_suffix(".*") { t.starts_with(pre) } else { t == p }))
        };
        let rxq = |ph: &[&str]| -> Box<dyn Query> { Box::new(RegexPhraseQuery::new(tf, ph.iter().map(|t| t.to_string()).collect())) };
        let rxs: Vec<Vec<&str>> = vec![vec!["wo.*", "tag"], vec!["big", "wo.*"], vec!["wo.*", "wo.*"], vec!["x", "wo.*", "tag"], vec!["wom.*", "tag"]];
        for ph in &rxs {
            let truth: Vec<u32> = (0..ndocs).filter(|d| rx_match(&texts[*d as usize], ph)).collect();
            run(&format!("regexphrase {}", ph.join("_")), rxq(ph), truth, &mut ctx, true);
        }
        let rcombos: Vec<(&str, Box<dyn Query>, Box<dyn Fn(&Vec<&str>) -> bool + '_>)> = vec![
            ("bool +rx(wo.* tag) +x", Box::new(BooleanQuery::new(vec![(Occur::Must, rxq(&["wo.*", "tag"])), (Occur::Must, tq("x"))])), Box::new(|t| rx_match(t, &["wo.*", "tag"]) && has(t, "x"))),
            ("bool +wombat +rx(wo.* tag)", Box::new(BooleanQuery::new(vec![(Occur::Must, tq("wombat")), (Occur::Must, rxq(&["wo.*", "tag"]))])), Box::new(|t| has(t, "wombat") && rx_match(t, &["wo.*", "tag"]))),
            ("bool +y -rx(wo.* tag)", Box::new(BooleanQuery::new(vec![(Occur::Must, tq("y")), (Occur::MustNot, rxq(&["wo.*", "tag"]))])), Box::new(|t| has(t, "y") && !rx_match(t, &["wo.*", "tag"]))),
        ];
        for (name, q, pred) in rcombos {
            let truth: Vec<u32> = (0..ndocs).filter(|d| pred(&texts[*d as usize])).collect();
            run(name, q, truth, &mut ctx, false);
        }
    }

    out.finish(json!({"tier": args.tier, "seed": args.seed}));
}
