//! C08 (D): through tantivy: a schema with every fast type (and JSON sub-paths) ->
//! SegmentReader::fast_fields(): values_for_doc / first / min_value / max_value / num_docs /
//! get_docids_for_value_range, str / bytes ordinals + dictionary; before and after merges (with deletes).
use std::collections::{BTreeMap, BTreeSet};
use std::ops::Bound;
use std::net::Ipv6Addr;

use serde_json::json;
use tantivy::schema::{BytesOptions, DateOptions, DateTimePrecision, IpAddrOptions, JsonObjectOptions, OwnedValue, Schema, TextOptions, FAST, INDEXED};
use tantivy::{DateTime, Index, IndexWriter, TantivyDocument, Term};
use tantivy::collector::DocSetCollector;
use tantivy::query::RangeQuery;
use tantivy_columnar::{DynamicColumn, MonotonicallyMappableToU64};
use tvh::guarded;
use tvh::out::CaseOut;
use tvh::rng::Rng;

use super::c08_columnar::{check_column, f82_column, gen_near_miss, gen_rows, near_miss_vocab, observe, rows_from_vocab, Kind, NearMiss, Val};

struct FieldSpec { name: &'static str, kind: Kind, shape: u64, json_path: Option<&'static str> }

const FIELDS: [FieldSpec; 16] = [
    FieldSpec { name: "u_full", kind: Kind::U64, shape: 0, json_path: None },
    FieldSpec { name: "u_opt", kind: Kind::U64, shape: 1, json_path: None },
    FieldSpec { name: "u_multi", kind: Kind::U64, shape: 2, json_path: None },
    FieldSpec { name: "i_opt", kind: Kind::I64, shape: 1, json_path: None },
    FieldSpec { name: "i_multi", kind: Kind::I64, shape: 2, json_path: None },
    FieldSpec { name: "f_opt", kind: Kind::F64, shape: 1, json_path: None },
    FieldSpec { name: "b_multi", kind: Kind::Bool, shape: 2, json_path: None },
    FieldSpec { name: "d_nanos", kind: Kind::Date, shape: 1, json_path: None },
    FieldSpec { name: "d_secs", kind: Kind::Date, shape: 2, json_path: None },
    FieldSpec { name: "ip_multi", kind: Kind::Ip, shape: 2, json_path: None },
    FieldSpec { name: "bytes_multi", kind: Kind::Bytes, shape: 2, json_path: None },
    FieldSpec { name: "s_opt", kind: Kind::Str, shape: 1, json_path: None },
    FieldSpec { name: "attrs.num", kind: Kind::MixedInt, shape: 1, json_path: Some("num") },
    FieldSpec { name: "attrs.f", kind: Kind::F64, shape: 1, json_path: Some("f") },
    FieldSpec { name: "attrs.nested.tags", kind: Kind::Str, shape: 2, json_path: Some("nested.tags") },
    FieldSpec { name: "attrs.flag", kind: Kind::Bool, shape: 1, json_path: Some("flag") },
];

fn owned(v: &Val) -> OwnedValue {
    match v {
        Val::U(x) => OwnedValue::U64(*x), Val::I(x) => OwnedValue::I64(*x), Val::F(b) => OwnedValue::F64(f64::from_bits(*b)), Val::B(b) => OwnedValue::Bool(*b),
        Val::S(s) => OwnedValue::Str(String::from_utf8(s.clone()).unwrap()), _ => OwnedValue::Null,
    }
}

fn set_path(obj: &mut BTreeMap<String, OwnedValue>, path: &str, vals: &[Val]) {
    if vals.is_empty() { return; }
    let v = if vals.len() == 1 { owned(&vals[0]) } else { OwnedValue::Array(vals.iter().map(owned).collect()) };
    match path.split_once('.') {
        None => { obj.insert(path.to_string(), v); }
        Some((head, rest)) => {
            let mut inner = BTreeMap::new();
            set_path(&mut inner, rest, vals);
            obj.insert(head.to_string(), OwnedValue::Object(inner.into_iter().collect()));
        }
    }
}

pub fn section_tantivy(rng: &mut Rng, out: &mut CaseOut, thorough: bool) {
    let n_indexes = if thorough { 14 } else { 4 };
    for ix in 0..n_indexes {
        let r = guarded(|| one_index(&mut rng.fork(), out, ix, thorough));
        match r {
            Err(p) => out.spec_checked(false, json!({"what": "tantivy fast field run panicked", "index": ix, "panic": p})),
            Ok(Err(e)) => out.spec_checked(false, json!({"what": "tantivy fast field run failed", "index": ix, "error": e})),
            Ok(Ok(())) => {}
        }
    }
}

fn one_index(rng: &mut Rng, out: &mut CaseOut, ix: usize, thorough: bool) -> Result<(), String> {
    let mut sb = Schema::builder();
    let id_f = sb.add_u64_field("id", FAST | INDEXED);
    let mut handles = BTreeMap::new();
    for f in FIELDS.iter().filter(|f| f.json_path.is_none()) {
        let h = match (f.kind, f.name) {
            (Kind::U64, _) => sb.add_u64_field(f.name, FAST),
            (Kind::I64, _) => sb.add_i64_field(f.name, FAST),
            (Kind::F64, _) => sb.add_f64_field(f.name, FAST),
            (Kind::Bool, _) => sb.add_bool_field(f.name, FAST),
            (Kind::Date, "d_nanos") => sb.add_date_field(f.name, DateOptions::default().set_fast().set_precision(DateTimePrecision::Nanoseconds)),
            (Kind::Date, _) => sb.add_date_field(f.name, DateOptions::default().set_fast()),     // default precision: seconds (documented truncation)
            (Kind::Ip, _) => sb.add_ip_addr_field(f.name, IpAddrOptions::default().set_fast()),
            (Kind::Bytes, _) => sb.add_bytes_field(f.name, BytesOptions::default().set_fast()),
            (Kind::Str, _) => sb.add_text_field(f.name, TextOptions::default().set_fast(None)),
            _ => unreachable!(),
        };
        handles.insert(f.name, h);
    }
    let attrs = sb.add_json_field("attrs", JsonObjectOptions::default().set_fast(None));
    let schema = sb.build();
    let index = Index::create_in_ram(schema);
    let mut writer: IndexWriter = index.writer_with_num_threads(1, 20_000_000).map_err(|e| e.to_string())?;
    writer.set_merge_policy(Box::new(tantivy::merge_policy::NoMergePolicy));

    let n_commits = rng.range(2, 4) as usize;
    let near: Option<NearMiss> = if ix % 2 == 0 { out.count("tantivy_indexes_near_miss_vocabularies", 1); Some(gen_near_miss(rng)) } else { None };
    let big = thorough && ix % 5 == 2;
    let mut docs: Vec<BTreeMap<&'static str, Vec<Val>>> = vec![];
    for c in 0..n_commits {
        let nd = if big && c == 0 { rng.range(66000, 80000) as usize } else { match rng.below(4) { 0 => rng.range(1, 30) as usize, 1 => super::gen_len(rng, 512, 3).max(1), _ => rng.range(1, 2500) as usize } };
        // per field rows for this commit
        let mut per_field: Vec<Vec<Vec<Val>>> = vec![];
        for f in FIELDS.iter() {
            let shape = if rng.chance(1, 6) { rng.below(4) } else { f.shape };
            let density = *rng.pick(&[65536u64, 60000, 30000, 5200, 5000, 600]);
            // every other index: the Str / Bytes fields of the commits (= segments) get near-miss vocabularies
            // (same number of terms, same extremes, same length profile, different middle terms)
            if let (Some(nm), true) = (&near, matches!(f.kind, Kind::Str | Kind::Bytes)) {
                let bytes = f.kind == Kind::Bytes;
                let vocab = near_miss_vocab(rng, nm, bytes);
                per_field.push(rows_from_vocab(rng, &vocab, nd, f.shape, bytes));
                continue;
            }
            per_field.push(gen_rows(rng, f.kind, nd, shape, density));
        }
        for d in 0..nd {
            let id = docs.len() as u64;
            let mut doc = TantivyDocument::default();
            doc.add_u64(id_f, id);
            let mut exp = BTreeMap::new();
            let mut obj: BTreeMap<String, OwnedValue> = BTreeMap::new();
            for (fi, f) in FIELDS.iter().enumerate() {
                let vals = &per_field[fi][d];
                match f.json_path {
                    Some(p) => set_path(&mut obj, p, vals),
                    None => {
                        let h = handles[f.name];
                        for v in vals {
                            match v {
                                Val::U(x) => doc.add_u64(h, *x), Val::I(x) => doc.add_i64(h, *x), Val::F(b) => doc.add_f64(h, f64::from_bits(*b)), Val::B(b) => doc.add_bool(h, *b),
                                Val::D(n) => doc.add_date(h, DateTime::from_timestamp_nanos(*n)), Val::Ip(x) => doc.add_ip_addr(h, Ipv6Addr::from(*x)),
                                Val::S(s) => doc.add_text(h, std::str::from_utf8(s).unwrap()), Val::Y(b) => doc.add_bytes(h, b),
                            }
                        }
                    }
                }
                // expected value as the fast field must return it
                let expv: Vec<Val> = if f.name == "d_secs" { vals.iter().map(|v| if let Val::D(n) = v { Val::D(DateTime::from_timestamp_nanos(*n).truncate(DateTimePrecision::Seconds).into_timestamp_nanos()) } else { v.clone() }).collect() } else { vals.clone() };
                exp.insert(f.name, expv);
            }
            if !obj.is_empty() { doc.add_object(attrs, obj); }
            writer.add_document(doc).map_err(|e| e.to_string())?;
            docs.push(exp);
        }
        writer.commit().map_err(|e| e.to_string())?;
    }
    // some segments become LEGACY segments: their fast field file is re-encoded in the columnar format v1 (same content),
    // as if they had been written by an older version of the library
    let mut legacy_segments: BTreeSet<tantivy::index::SegmentId> = BTreeSet::new();
    {
        use std::io::Write;
        use tantivy::directory::TerminatingWrite;
        use tantivy::Directory;
        for meta in index.searchable_segment_metas().map_err(|e| e.to_string())? {
            if !rng.chance(1, 2) { continue; }
            let path = meta.relative_path(tantivy::index::SegmentComponent::FastFields);
            let dir = index.directory();
            let bytes = dir.open_read(&path).map_err(|e| e.to_string())?.read_bytes().map_err(|e| e.to_string())?.as_slice().to_vec();
            let (v1, _) = super::c08_legacy::to_legacy_v1(&bytes)?;
            dir.delete(&path).map_err(|e| e.to_string())?;
            let mut w = dir.open_write(&path).map_err(|e| e.to_string())?;
            w.write_all(&v1).map_err(|e| e.to_string())?;
            w.terminate().map_err(|e| e.to_string())?;
            legacy_segments.insert(meta.id());
            out.count("tantivy_legacy_v1_segments", 1);
        }
    }
    let reader = index.reader().map_err(|e| e.to_string())?;
    let no_known: BTreeSet<&'static str> = BTreeSet::new();
    let seg_docs = check_segments(&reader.searcher(), &docs, None, &no_known, rng, out, ix, "before-merge")?;
    // fields in the class of F82: multivalued with value-less documents in some legacy segment
    let mut f82_fields: BTreeSet<&'static str> = BTreeSet::new();
    for (sid, ids) in &seg_docs {
        if !legacy_segments.contains(sid) { continue; }
        for f in FIELDS.iter() { let rows: Vec<Vec<Val>> = ids.iter().map(|&i| docs[i][f.name].clone()).collect(); if f82_column(&rows) { f82_fields.insert(f.name); } }
    }

    // deletes, then merge everything
    let mut deleted = vec![false; docs.len()];
    let del_pct = *rng.pick(&[0u64, 0, 10, 50, 95]);
    let del_pct = if near.is_some() && ix % 4 == 0 { 0 } else { del_pct };      // a merge without deletes stacks the segments
    for id in 0..docs.len() { if rng.below(100) < del_pct { deleted[id] = true; writer.delete_term(Term::from_field_u64(id_f, id as u64)); } }
    writer.commit().map_err(|e| e.to_string())?;
    let seg_ids = index.searchable_segment_ids().map_err(|e| e.to_string())?;
    if !seg_ids.is_empty() { writer.merge(&seg_ids).wait().map_err(|e| e.to_string())?; }
    reader.reload().map_err(|e| e.to_string())?;
    let searcher = reader.searcher();
    out.spec_checked(searcher.segment_readers().len() <= 1, json!({"what": "merge left more than one segment", "index": ix}));
    // without deletes the merge stacks the segments: the fields found above are in the class of F82 (fixed; counted only)
    let known = if deleted.iter().any(|&d| d) { no_known.clone() } else { f82_fields };
    check_segments(&searcher, &docs, Some(&deleted), &known, rng, out, ix, "after-merge")?;
    out.count("tantivy_indexes", 1);
    out.count("tantivy_docs", docs.len() as u64);
    Ok(())
}

fn check_segments(searcher: &tantivy::Searcher, docs: &[BTreeMap<&'static str, Vec<Val>>], deleted: Option<&[bool]>, known_f82: &BTreeSet<&'static str>, rng: &mut Rng, out: &mut CaseOut, ix: usize, phase: &str)
    -> Result<Vec<(tantivy::index::SegmentId, Vec<usize>)>, String> {
    let mut seen = vec![false; docs.len()];
    let mut seg_docs = vec![];
    for (si, seg) in searcher.segment_readers().iter().enumerate() {
        let ff = seg.fast_fields();
        let ids_col = ff.u64("id").map_err(|e| e.to_string())?;
        let n = seg.max_doc();
        out.spec_checked(ids_col.num_docs() == n, json!({"what": "id column num_docs != max_doc", "index": ix, "phase": phase}));
        let ids: Vec<usize> = (0..n).map(|d| ids_col.first(d).map(|v| v as usize).unwrap_or(usize::MAX)).collect();
        let ids_ok = ids.iter().all(|&i| i < docs.len());
        out.spec_checked(ids_ok, json!({"what": "id fast field returned an unknown id", "index": ix, "phase": phase}));
        if !ids_ok { continue; }
        for &i in &ids { seen[i] = true; }
        seg_docs.push((seg.segment_id(), ids.clone()));
        if let Some(del) = deleted { out.spec_checked(ids.iter().all(|&i| !del[i]), json!({"what": "merged segment holds a deleted document", "index": ix})); }
        for f in FIELDS.iter() {
            let expected: Vec<Vec<Val>> = ids.iter().map(|&i| docs[i][f.name].clone()).collect();
            let has_values = expected.iter().any(|r| !r.is_empty());
            let ctx = json!({"what": "tantivy fast field", "index": ix, "phase": phase, "segment": si, "field": f.name, "max_doc": n});
            // typed accessors for schema fields, dynamic handles for JSON sub-paths
            let dc: Option<DynamicColumn> = if f.json_path.is_some() {
                let hs = ff.dynamic_column_handles(f.name).map_err(|e| e.to_string())?;
                if hs.len() > 1 { out.spec_checked(false, json!({"what": "json path has several columns", "ctx": ctx, "n": hs.len()})); continue; }
                match hs.first() { Some(h) => Some(h.open().map_err(|e| e.to_string())?), None => None }
            } else {
                match f.kind {
                    Kind::U64 => Some(DynamicColumn::U64(ff.u64(f.name).map_err(|e| e.to_string())?)),
                    Kind::I64 => Some(DynamicColumn::I64(ff.i64(f.name).map_err(|e| e.to_string())?)),
                    Kind::F64 => Some(DynamicColumn::F64(ff.f64(f.name).map_err(|e| e.to_string())?)),
                    Kind::Bool => Some(DynamicColumn::Bool(ff.bool(f.name).map_err(|e| e.to_string())?)),
                    Kind::Date => Some(DynamicColumn::DateTime(ff.date(f.name).map_err(|e| e.to_string())?)),
                    Kind::Ip => Some(DynamicColumn::IpAddr(ff.ip_addr(f.name).map_err(|e| e.to_string())?)),
                    Kind::Bytes => ff.bytes(f.name).map_err(|e| e.to_string())?.map(DynamicColumn::Bytes),
                    Kind::Str => ff.str(f.name).map_err(|e| e.to_string())?.map(DynamicColumn::Str),
                    Kind::MixedInt => None,
                }
            };
            match dc {
                None => { out.spec_checked(!has_values, json!({"what": "fast field column missing although values were added", "ctx": ctx})); }
                Some(dc) => {
                    let obs = observe(dc)?;
                    if obs.num_docs != n && !(obs.rows.iter().all(|r| r.is_empty())) { out.spec_checked(false, json!({"what": "column num_docs != max_doc", "ctx": ctx, "num_docs": obs.num_docs})); continue; }
                    if obs.num_docs != n { continue; }
                    let fail = check_column(&expected, f.kind, &obs, rng, out, &ctx);
                    let mut c2 = ctx.clone();
                    if let Some(fm) = &fail { c2["what"] = json!(format!("tantivy fast field: {}", fm)); }
                    if known_f82.contains(f.name) { out.count("stack_of_legacy_multivalued_with_empty_rows_columns", 1); c2["former_f82_class"] = json!(true); }
                    out.spec_checked(fail.is_none(), c2);     // a failure in the class of F82 (fixed in /repo) is an ordinary violation
                    out.count("tantivy_columns_checked", 1);
                }
            }
        }
    }
    // ---- RangeQuery on fast fields (user level): exactly the live documents holding a value in the range
    let seg_ids: Vec<Vec<usize>> = searcher.segment_readers().iter().map(|seg| {
        let c = seg.fast_fields().u64("id").unwrap(); (0..seg.max_doc()).map(|d| c.first(d).map(|v| v as usize).unwrap_or(usize::MAX)).collect() }).collect();
    if !seg_ids.is_empty() && seg_ids.iter().flatten().all(|&i| i < docs.len()) {
        for fname in ["u_full", "u_opt", "u_multi", "i_opt", "i_multi", "d_nanos"] {
            let field = searcher.schema().get_field(fname).map_err(|e| e.to_string())?;
            let mapped = |v: &Val| -> u64 { match v { Val::U(x) => *x, Val::I(x) => x.to_u64(), Val::D(n) => n.to_u64(), _ => 0 } };
            let term = |m: u64| -> Term { match fname.as_bytes()[0] { b'u' => Term::from_field_u64(field, m), b'i' => Term::from_field_i64(field, i64::from_u64(m)), _ => Term::from_field_date(field, DateTime::from_timestamp_nanos(i64::from_u64(m))) } };
            let alive = |i: usize| !deleted.map(|d| d[i]).unwrap_or(false);
            // min / gcd of the column of one segment (the bit-packed reader works relative to them)
            let si = rng.below(seg_ids.len() as u64) as usize;
            let seg_vals: Vec<u128> = seg_ids[si].iter().flat_map(|&i| docs[i][fname].iter().map(|v| mapped(v) as u128)).collect();
            if seg_vals.is_empty() { continue; }
            let mn = *seg_vals.iter().min().unwrap();
            let g = super::gcd_to_min(&seg_vals, mn);
            for qi in 0..6 {
                let (lo, hi): (u64, u64) = match qi {
                    0 | 1 | 4 | 5 => { let hi = super::u32_boundary_bound(rng, mn, g, u64::MAX as u128) as u64;
                               // mostly strictly above the column minimum: otherwise RangeQuery short-cuts to "all documents" when hi >= column max
                               let lo = match rng.below(6) { 0 => super::u32_boundary_bound(rng, mn, g, u64::MAX as u128) as u64, 1 => 0, 2 => mn as u64, _ => (mn as u64).saturating_add(1 + rng.below(50)) };
                               (lo.min(hi), lo.max(hi)) }
                    2 if mn > 0 => { let h = rng.below(mn as u64); (rng.below(h + 1), h) }
                    _ => { let a = seg_vals[rng.below(seg_vals.len() as u64) as usize] as u64; let b = seg_vals[rng.below(seg_vals.len() as u64) as usize] as u64; (a.min(b), a.max(b)) }
                };
                let want: BTreeSet<usize> = seg_ids.iter().flatten().copied().filter(|&i| alive(i) && docs[i][fname].iter().any(|v| { let m = mapped(v); lo <= m && m <= hi })).collect();
                if lo as u128 > mn && super::u32_wrap_sensitive(&seg_vals, g, lo as u128, hi as u128) { out.count("tantivy_range_queries_sensitive_to_u32_wrap", 1); }
                let q = RangeQuery::new(Bound::Included(term(lo)), Bound::Included(term(hi)));
                let d = json!({"what": "RangeQuery on a fast field != live documents holding a value in the range", "index": ix, "phase": phase, "field": fname, "lo_mapped": lo.to_string(), "hi_mapped": hi.to_string(),
                               "segment_col_min": mn.to_string(), "segment_col_gcd": g.to_string(), "u32_boundary": qi < 2 || qi > 3});
                match guarded(|| searcher.search(&q, &DocSetCollector)) {
                    Err(p) => { let mut d = d; d["panic"] = json!(p); out.spec_checked(false, d); }
                    Ok(Err(e)) => { let mut d = d; d["error"] = json!(e.to_string()); out.spec_checked(false, d); }
                    Ok(Ok(set)) => {
                        let got: BTreeSet<usize> = set.iter().map(|a| seg_ids[a.segment_ord as usize][a.doc_id as usize]).collect();
                        let mut d = d; if got != want { d["got_len"] = json!(got.len()); d["want_len"] = json!(want.len()); }
                        out.spec_checked(got == want, d);
                    }
                }
                out.count("tantivy_range_queries", 1);
                if qi < 2 || qi > 3 { out.count("tantivy_range_queries_u32_boundary", 1); }
            }
        }
    }
    // every live document is somewhere
    let missing = (0..docs.len()).filter(|&i| !seen[i] && !deleted.map(|d| d[i]).unwrap_or(false)).count();
    out.spec_checked(missing == 0, json!({"what": "documents missing from the segments", "index": ix, "phase": phase, "missing": missing}));
    Ok(seg_docs)
}
