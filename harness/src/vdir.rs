//! VerifDirectory: a harness-side `tantivy::Directory` over an in-memory store that
//!  * records every storage operation (global sequence number, thread, kind, path, payload, result),
//!  * can inject an I/O error at a chosen operation index (once or permanently),
//!  * can accept short writes (for C20's FooterProxy),
//!  * calls an optional hook before every operation (gating / pre-emption / forced GC),
//!  * can be snapshotted and rebuilt from a set of files (crash images).
//!
//! Visibility semantics follow RamDirectory: bytes become visible to readers at flush;
//! an open FileSlice keeps its bytes after the file is deleted.  Lock files are ordinary files
//! created through `open_write` (the default `acquire_lock` of the trait).
use std::collections::{BTreeMap, HashMap};
use std::io::{self, BufWriter, Write};
use std::path::{Path, PathBuf};
use std::sync::{Arc, Mutex};
use std::thread::ThreadId;

use tantivy::directory::error::{DeleteError, OpenReadError, OpenWriteError};
use tantivy::directory::{
    AntiCallToken, FileHandle, FileSlice, TerminatingWrite, WatchCallback, WatchCallbackList, WatchHandle, WritePtr,
};
use tantivy::Directory;

use crate::rng::Rng;

#[derive(Clone, Debug, PartialEq, Eq)]
pub enum OpKind {
    Create,
    Write,
    Flush,
    Terminate,
    AtomicWrite,
    AtomicRead,
    OpenRead,
    Delete,
    Exists,
    SyncDir,
    /// harness-inserted marker (API call boundaries); `path` holds the label
    Marker,
}

impl OpKind {
    pub fn name(&self) -> &'static str {
        match self {
            OpKind::Create => "Create", OpKind::Write => "Write", OpKind::Flush => "Flush",
            OpKind::Terminate => "Terminate", OpKind::AtomicWrite => "AtomicWrite", OpKind::AtomicRead => "AtomicRead",
            OpKind::OpenRead => "OpenRead", OpKind::Delete => "Delete", OpKind::Exists => "Exists", OpKind::SyncDir => "SyncDir", OpKind::Marker => "Marker",
        }
    }
}

#[derive(Clone, Debug)]
pub struct Event {
    pub seq: usize,
    pub tid: usize,
    /// name of the issuing thread ("merge_thread_0", "segment_updater", indexing workers, "main")
    pub thread: String,
    pub kind: OpKind,
    pub path: String,
    /// Write: bytes offered; AtomicWrite: bytes written
    pub data: Vec<u8>,
    /// Write: number of bytes accepted
    pub accepted: usize,
    /// Ok / NotFound / Exists / Io
    pub result: &'static str,
}

#[derive(Clone, Default)]
pub struct FileState {
    /// bytes visible to readers (published at flush)
    pub visible: Vec<u8>,
    /// terminate() was called (data fsynced, file complete)
    pub terminated: bool,
}

pub type Hook = Arc<dyn Fn(&VerifDirectory, usize, &OpKind, &str) + Send + Sync>;

#[derive(Default)]
pub struct Faults {
    /// fail the operation with this global index ...
    pub fail_at: Option<usize>,
    /// ... and every later one
    pub permanent: bool,
    /// only operations of these kinds count as failable (empty = all but Exists)
    pub kinds: Vec<OpKind>,
    pub fired: usize,
    /// fail, once, the next operation of this kind on a path with this suffix
    pub once: Option<(OpKind, String)>,
}

pub struct Inner {
    pub files: BTreeMap<String, FileState>,
    pub log: Vec<Event>,
    pub tids: HashMap<ThreadId, usize>,
    pub faults: Faults,
    pub short_writes: Option<Rng>,
    pub record_data: bool,
    pub watch: WatchCallbackList,
}

#[derive(Clone)]
pub struct VerifDirectory {
    pub inner: Arc<Mutex<Inner>>,
    pub hook: Arc<Mutex<Option<Hook>>>,
    /// called AFTER a delete took effect (and after the operation lock was released): lets a schedule pause a thread
    /// right after it released a lock file
    pub post_hook: Arc<Mutex<Option<Hook>>>,
    /// held from logging an operation until its effect is applied: log order = effect order
    pub op_lock: Arc<Mutex<()>>,
}

impl std::fmt::Debug for VerifDirectory {
    fn fmt(&self, f: &mut std::fmt::Formatter<'_>) -> std::fmt::Result {
        write!(f, "VerifDirectory")
    }
}

fn io_injected() -> io::Error {
    io::Error::new(io::ErrorKind::Other, "injected fault")
}

impl VerifDirectory {
    pub fn new() -> VerifDirectory {
        VerifDirectory {
            inner: Arc::new(Mutex::new(Inner {
                files: BTreeMap::new(), log: vec![], tids: HashMap::new(), faults: Faults::default(),
                short_writes: None, record_data: true, watch: WatchCallbackList::default(),
            })),
            hook: Arc::new(Mutex::new(None)),
            post_hook: Arc::new(Mutex::new(None)),
            op_lock: Arc::new(Mutex::new(())),
        }
    }

    /// A fresh directory holding exactly `files` (all complete) -- used for crash images.
    pub fn from_files(files: &BTreeMap<String, Vec<u8>>) -> VerifDirectory {
        let d = VerifDirectory::new();
        {
            let mut g = d.inner.lock().unwrap();
            for (p, b) in files {
                g.files.insert(p.clone(), FileState { visible: b.clone(), terminated: true });
            }
        }
        d
    }

    pub fn set_hook(&self, h: Option<Hook>) {
        *self.hook.lock().unwrap() = h;
    }
    pub fn set_short_writes(&self, rng: Option<Rng>) {
        self.inner.lock().unwrap().short_writes = rng;
    }
    pub fn set_fault(&self, at: Option<usize>, permanent: bool, kinds: Vec<OpKind>) {
        let mut g = self.inner.lock().unwrap();
        g.faults = Faults { fail_at: at, permanent, kinds, fired: 0, once: None };
    }
    /// Fail, once, the next operation of kind `kind` whose path ends with `suffix`.
    pub fn set_fault_once(&self, kind: OpKind, suffix: &str) {
        self.inner.lock().unwrap().faults.once = Some((kind, suffix.to_string()));
    }
    pub fn set_post_hook(&self, h: Option<Hook>) {
        *self.post_hook.lock().unwrap() = h;
    }
    pub fn faults_fired(&self) -> usize {
        self.inner.lock().unwrap().faults.fired
    }
    /// Insert a marker event (not a storage operation: never failed, never hooked).
    pub fn mark(&self, label: &str) {
        let mut g = self.inner.lock().unwrap();
        let seq = g.log.len();
        let tid_key = std::thread::current().id();
        let next = g.tids.len();
        let tid = *g.tids.entry(tid_key).or_insert(next);
        g.log.push(Event { seq, tid, thread: std::thread::current().name().unwrap_or("").to_string(), kind: OpKind::Marker, path: label.to_string(), data: vec![], accepted: 0, result: "Ok" });
    }
    pub fn log(&self) -> Vec<Event> {
        self.inner.lock().unwrap().log.clone()
    }
    pub fn log_len(&self) -> usize {
        self.inner.lock().unwrap().log.len()
    }
    pub fn files(&self) -> BTreeMap<String, Vec<u8>> {
        self.inner.lock().unwrap().files.iter().map(|(k, v)| (k.clone(), v.visible.clone())).collect()
    }
    pub fn file_names(&self) -> Vec<String> {
        self.inner.lock().unwrap().files.keys().cloned().collect()
    }
    pub fn raw(&self, path: &str) -> Option<Vec<u8>> {
        self.inner.lock().unwrap().files.get(path).map(|f| f.visible.clone())
    }
    pub fn set_raw(&self, path: &str, bytes: Vec<u8>) {
        self.inner.lock().unwrap().files.insert(path.to_string(), FileState { visible: bytes, terminated: true });
    }
    pub fn remove_raw(&self, path: &str) {
        self.inner.lock().unwrap().files.remove(path);
    }
    pub fn deep_clone(&self) -> VerifDirectory {
        let d = VerifDirectory::new();
        d.inner.lock().unwrap().files = self.inner.lock().unwrap().files.clone();
        d
    }

    /// Registers the operation: runs the hook, decides fault injection, returns (seq, fail?).
    fn pre(&self, kind: &OpKind, path: &str) -> std::sync::MutexGuard<'_, ()> {
        let hook = self.hook.lock().unwrap().clone();
        let seq_preview = self.inner.lock().unwrap().log.len();
        if let Some(h) = hook {
            h(self, seq_preview, kind, path);
        }
        self.op_lock.lock().unwrap_or_else(|e| e.into_inner())
    }
    fn begin(&self, kind: OpKind, path: &str) -> (usize, bool) {
        let mut g = self.inner.lock().unwrap();
        let seq = g.log.len();
        let tid_key = std::thread::current().id();
        let next = g.tids.len();
        let tid = *g.tids.entry(tid_key).or_insert(next);
        // The removal of a lock file is never failed: it happens in a Drop (nobody can be told), and a lock file that
        // stays behind is the documented stale-lock situation (blocking acquisitions time out with LockBusy), not an
        // I/O error of an add / commit / merge / rollback / reload.
        let lock_release = kind == OpKind::Delete && path.starts_with(".tantivy-") && path.ends_with(".lock");
        let failable = kind != OpKind::Exists && kind != OpKind::Marker && !lock_release && (g.faults.kinds.is_empty() || g.faults.kinds.contains(&kind));
        let fail = match g.faults.fail_at {
            Some(k) if failable => seq == k || (g.faults.permanent && seq > k),
            _ => false,
        };
        let fail = fail || match &g.faults.once { Some((k, suf)) if *k == kind && path.ends_with(suf.as_str()) && !lock_release => true, _ => false };
        if fail && g.faults.once.as_ref().map(|(k, suf)| *k == kind && path.ends_with(suf.as_str())).unwrap_or(false) { g.faults.once = None; }
        if fail { g.faults.fired += 1; }
        g.log.push(Event { seq, tid, thread: std::thread::current().name().unwrap_or("").to_string(), kind, path: path.to_string(), data: vec![], accepted: 0, result: if fail { "Io" } else { "Ok" } });
        (seq, fail)
    }
    fn set_result(&self, seq: usize, r: &'static str) {
        self.inner.lock().unwrap().log[seq].result = r;
    }
}

struct VWriter {
    dir: VerifDirectory,
    path: String,
    buf: Vec<u8>,
}

impl Write for VWriter {
    fn write(&mut self, buf: &[u8]) -> io::Result<usize> {
        let _op = self.dir.pre(&OpKind::Write, &self.path);
        let (seq, fail) = self.dir.begin(OpKind::Write, &self.path);
        let mut g = self.dir.inner.lock().unwrap();
        if g.record_data { g.log[seq].data = buf.to_vec(); }
        if fail {
            // a failed append may have appended any prefix: model that by appending half
            let k = buf.len() / 2;
            drop(g);
            self.buf.extend_from_slice(&buf[..k]);
            self.dir.inner.lock().unwrap().log[seq].accepted = k;
            return Err(io_injected());
        }
        let k = match g.short_writes.as_mut() {
            Some(r) if buf.len() > 1 => 1 + r.below(buf.len() as u64) as usize,
            _ => buf.len(),
        };
        g.log[seq].accepted = k;
        drop(g);
        self.buf.extend_from_slice(&buf[..k]);
        Ok(k)
    }
    fn flush(&mut self) -> io::Result<()> {
        let _op = self.dir.pre(&OpKind::Flush, &self.path);
        let (_seq, fail) = self.dir.begin(OpKind::Flush, &self.path);
        if fail { return Err(io_injected()); }
        let mut g = self.dir.inner.lock().unwrap();
        if let Some(f) = g.files.get_mut(&self.path) { f.visible = self.buf.clone(); }
        Ok(())
    }
}

impl TerminatingWrite for VWriter {
    fn terminate_ref(&mut self, _: AntiCallToken) -> io::Result<()> {
        let _op = self.dir.pre(&OpKind::Terminate, &self.path);
        let (_seq, fail) = self.dir.begin(OpKind::Terminate, &self.path);
        if fail { return Err(io_injected()); }
        let mut g = self.dir.inner.lock().unwrap();
        if let Some(f) = g.files.get_mut(&self.path) { f.visible = self.buf.clone(); f.terminated = true; }
        Ok(())
    }
}

fn p2s(p: &Path) -> String {
    p.to_string_lossy().to_string()
}

impl Directory for VerifDirectory {
    fn get_file_handle(&self, path: &Path) -> Result<Arc<dyn FileHandle>, OpenReadError> {
        let fs = self.open_read(path)?;
        Ok(Arc::new(fs))
    }

    fn open_read(&self, path: &Path) -> Result<FileSlice, OpenReadError> {
        let ps = p2s(path);
        let _op = self.pre(&OpKind::OpenRead, &ps);
        let (seq, fail) = self.begin(OpKind::OpenRead, &ps);
        if fail {
            return Err(OpenReadError::IoError { io_error: Arc::new(io_injected()), filepath: path.to_path_buf() });
        }
        let g = self.inner.lock().unwrap();
        match g.files.get(&ps) {
            Some(f) => Ok(FileSlice::from(f.visible.clone())),
            None => { drop(g); self.set_result(seq, "NotFound"); Err(OpenReadError::FileDoesNotExist(path.to_path_buf())) }
        }
    }

    fn delete(&self, path: &Path) -> Result<(), DeleteError> {
        let ps = p2s(path);
        let (seq, r) = {
            let _op = self.pre(&OpKind::Delete, &ps);
            let (seq, fail) = self.begin(OpKind::Delete, &ps);
            if fail {
                return Err(DeleteError::IoError { io_error: Arc::new(io_injected()), filepath: path.to_path_buf() });
            }
            let mut g = self.inner.lock().unwrap();
            match g.files.remove(&ps) {
                Some(_) => (seq, Ok(())),
                None => { drop(g); self.set_result(seq, "NotFound"); (seq, Err(DeleteError::FileDoesNotExist(path.to_path_buf()))) }
            }
        };
        let post = self.post_hook.lock().unwrap().clone();
        if let Some(h) = post { h(self, seq, &OpKind::Delete, &ps); }
        r
    }

    fn exists(&self, path: &Path) -> Result<bool, OpenReadError> {
        let ps = p2s(path);
        let _op = self.pre(&OpKind::Exists, &ps);
        let (_seq, _fail) = self.begin(OpKind::Exists, &ps);
        Ok(self.inner.lock().unwrap().files.contains_key(&ps))
    }

    fn open_write(&self, path: &Path) -> Result<WritePtr, OpenWriteError> {
        let ps = p2s(path);
        let _op = self.pre(&OpKind::Create, &ps);
        let (seq, fail) = self.begin(OpKind::Create, &ps);
        if fail {
            return Err(OpenWriteError::IoError { io_error: Arc::new(io_injected()), filepath: path.to_path_buf() });
        }
        let mut g = self.inner.lock().unwrap();
        if g.files.contains_key(&ps) {
            drop(g);
            self.set_result(seq, "Exists");
            return Err(OpenWriteError::FileAlreadyExists(path.to_path_buf()));
        }
        g.files.insert(ps.clone(), FileState::default());
        drop(g);
        let w = VWriter { dir: self.clone(), path: ps, buf: vec![] };
        Ok(BufWriter::new(Box::new(w)))
    }

    fn atomic_read(&self, path: &Path) -> Result<Vec<u8>, OpenReadError> {
        let ps = p2s(path);
        let _op = self.pre(&OpKind::AtomicRead, &ps);
        let (seq, fail) = self.begin(OpKind::AtomicRead, &ps);
        if fail {
            return Err(OpenReadError::IoError { io_error: Arc::new(io_injected()), filepath: path.to_path_buf() });
        }
        let g = self.inner.lock().unwrap();
        match g.files.get(&ps) {
            Some(f) => Ok(f.visible.clone()),
            None => { drop(g); self.set_result(seq, "NotFound"); Err(OpenReadError::FileDoesNotExist(path.to_path_buf())) }
        }
    }

    fn atomic_write(&self, path: &Path, data: &[u8]) -> io::Result<()> {
        let ps = p2s(path);
        let _op = self.pre(&OpKind::AtomicWrite, &ps);
        let (seq, fail) = self.begin(OpKind::AtomicWrite, &ps);
        {
            let mut g = self.inner.lock().unwrap();
            if g.record_data { g.log[seq].data = data.to_vec(); }
        }
        if fail { return Err(io_injected()); }
        let is_meta = ps == "meta.json";
        {
            let mut g = self.inner.lock().unwrap();
            g.files.insert(ps, FileState { visible: data.to_vec(), terminated: true });
        }
        if is_meta {
            let fut = self.inner.lock().unwrap().watch.broadcast();
            drop(fut);
        }
        Ok(())
    }

    fn sync_directory(&self) -> io::Result<()> {
        let _op = self.pre(&OpKind::SyncDir, "");
        let (_seq, fail) = self.begin(OpKind::SyncDir, "");
        if fail { return Err(io_injected()); }
        Ok(())
    }

    fn watch(&self, watch_callback: WatchCallback) -> tantivy::Result<WatchHandle> {
        Ok(self.inner.lock().unwrap().watch.subscribe(watch_callback))
    }
}

pub fn path_of(s: &str) -> PathBuf {
    PathBuf::from(s)
}
