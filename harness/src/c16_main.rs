// included by src/bin/c16.rs (streams and main)

#[derive(Clone, Debug, PartialEq)]
enum GOut { Ok(UserInputAst), Err, Panic(String) }

fn strict(s: &str) -> GOut {
    match guarded(|| parse_query(s)) { Ok(Ok(a)) => GOut::Ok(a), Ok(Err(_)) => GOut::Err, Err(m) => GOut::Panic(m) }
}
fn lenient(s: &str) -> Result<(UserInputAst, usize), String> {
    guarded(|| parse_query_lenient(s)).map(|(a, e)| (a, e.len()))
}
fn coq_outcome(o: &GOut) -> Option<String> {
    Some(match o { GOut::Ok(a) => format!("(Ok {})", cast(a)?), GOut::Err => "Err".into(), GOut::Panic(_) => "Panicked".into() })
}
fn show(s: &str) -> String { s.chars().take(300).collect() }

struct Ctx { out: CaseOut, tie_fuzz_budget: i64 }

fn exotic_ws(c: char) -> bool { c.is_whitespace() && !matches!(c, ' ' | '\t' | '\r' | '\n') }
/// inputs on which the lenient entry point may loop forever (F162): an `IN [` followed later by a
/// whitespace character that nom's multispace does not skip.  Those are run in a child process.
fn risky_hang(s: &str) -> bool {
    let v: Vec<char> = s.chars().collect();
    for i in 0..v.len() {
        if v[i] == 'I' && v.get(i + 1) == Some(&'N') {
            let mut j = i + 2;
            while j < v.len() && matches!(v[j], ' ' | '\t' | '\r' | '\n') { j += 1; }
            if v.get(j) == Some(&'[') && v[j..].iter().any(|c| exotic_ws(*c)) { return true; }
        }
    }
    false
}
/// run this binary as a child (memory-capped, 5 s budget); true iff it exits normally with status 0
fn run_child(args: &[String]) -> (bool, String) {
    let exe = std::env::current_exe().unwrap();
    let mut cmd = std::process::Command::new("sh");
    cmd.arg("-c").arg("ulimit -v 2000000; exec \"$0\" \"$@\"").arg(exe).args(args).stdout(std::process::Stdio::null()).stderr(std::process::Stdio::null());
    let mut ch = match cmd.spawn() { Ok(c) => c, Err(e) => return (false, format!("spawn failed: {e}")) };
    let t0 = std::time::Instant::now();
    loop {
        match ch.try_wait() {
            Ok(Some(st)) => return (st.success(), format!("{st:?}")),
            Ok(None) => {
                if t0.elapsed().as_secs() >= 40 { let _ = ch.kill(); let _ = ch.wait(); return (false, "timeout (killed after 40 s)".into()); }
                std::thread::sleep(std::time::Duration::from_millis(5));
            }
            Err(e) => return (false, format!("{e}")),
        }
    }
}
fn hex_of(s: &str) -> String { cf::hex(s.as_bytes()) }
fn unhex(h: &str) -> String { let b: Vec<u8> = (0..h.len() / 2).map(|i| u8::from_str_radix(&h[2 * i..2 * i + 2], 16).unwrap()).collect(); String::from_utf8(b).unwrap() }

impl Ctx {
    /// the grammar-level obligations on one input string; returns the strict outcome
    fn grammar_checks(&mut self, s: &str, what: &str, tie: bool) -> GOut {
        let st = strict(s);
        self.out.count("grammar_inputs", 1);
        // totality of the strict entry point
        match &st {
            GOut::Panic(m) => {
                // (F12 was fixed in the code: a panic of the strict entry point is an ordinary violation)
                self.out.count("strict_panics", 1);
                self.out.spec_checked(false, json!({"what": "strict parse_query panics", "msg": m, "query": show(s), "from": what}));
            }
            _ => self.out.spec_checked(true, json!(null)),
        }
        // totality of the lenient entry point + agreement whenever strict succeeds
        if risky_hang(s) {
            self.out.count("risky_inputs_run_in_child", 1);
            let (ok, status) = run_child(&["--child-str".into(), hex_of(s)]);
            if !ok {
                self.out.coq_case("known:F162", format!("F162_class {}", cstr(s)), json!({"what": "parse_query_lenient does not return (endless loop with unbounded memory), child process killed", "status": status, "query": show(s), "from": what}), true);
                return st;
            }
        }
        match lenient(s) {
            Err(m) => self.out.spec_checked(false, json!({"what": "lenient parse_query_lenient panics", "msg": m, "query": show(s), "from": what})),
            Ok((la, nerr)) => {
                self.out.spec_checked(true, json!(null));
                if let GOut::Ok(sa) = &st {
                    self.out.count("strict_ok", 1);
                    if *sa == la && nerr == 0 { self.out.spec_checked(true, json!(null)); } else {
                        self.out.count("lenient_disagreements", 1);
                        self.out.coq_case("known:F13", format!("F13_class {}", cstr(s)),
                            json!({"what": "lenient differs from strict although strict succeeds", "query": show(s), "strict": format!("{sa:?}"), "lenient": format!("{la:?}"), "lenient_errors": nerr, "from": what}), true);
                    }
                }
            }
        }
        if tie {
            if let Some(o) = coq_outcome(&st) {
                self.out.coq_case("tie", format!("outcome_eqb (parse_ref {}) {}", cstr(s), o), json!({"what": format!("parse_ref vs parse_query ({what})"), "query": show(s)}), s.chars().count() >= 3);
            } else { self.out.count("boost_not_renderable", 1); }
        }
        st
    }
}

fn occur_name(o: &Option<Occur>) -> &'static str { match o { None => "none", Some(Occur::Must) => "must", Some(Occur::Should) => "should", Some(Occur::MustNot) => "mustnot" } }

// ------------------------------------------------------------------ typed schema + corpus for the Count stream
struct Corpus { index: Index, coq: String, n: usize, texts: Vec<[Vec<String>; 3]> }
const STOPV: &[&str] = &["lord", "of", "the", "rings", "king", "a", "b"];
const STOP_WORDS: &[&str] = &["the", "of"];
/// words around the RemoveLongFilter limit of the `default` tokenizer (40 bytes): 39 kept, 40 and 48 removed
fn long_words() -> Vec<String> { vec!["x".repeat(40), "y".repeat(39), "z".repeat(48)] }
fn dropped(field: usize, w: &str) -> bool { if field == 2 { STOP_WORDS.contains(&w) } else { w.len() >= 40 } }
fn build_corpus(rng: &mut Rng, ndocs: usize) -> Corpus {
    let mut sb = Schema::builder();
    let title = sb.add_text_field("title", TEXT | STORED);
    let body = sb.add_text_field("body", TEXT);
    let stop_indexing = TextFieldIndexing::default().set_tokenizer("stop_en").set_index_option(IndexRecordOption::WithFreqsAndPositions);
    let stop = sb.add_text_field("stop", TextOptions::default().set_indexing_options(stop_indexing));
    let tag = sb.add_text_field("tag", STRING);
    let n = sb.add_u64_field("n", INDEXED | FAST);
    let index = Index::create_in_ram(sb.build());
    index.tokenizers().register("stop_en", TextAnalyzer::builder(SimpleTokenizer::default()).filter(LowerCaser)
        .filter(StopWordFilter::remove(STOP_WORDS.iter().map(|s| s.to_string()).collect::<Vec<_>>())).build());
    let mut w = index.writer_with_num_threads::<tantivy::TantivyDocument>(1, 20_000_000).unwrap();
    let longs = long_words();
    let mut docs = vec![];
    let mut texts: Vec<[Vec<String>; 3]> = vec![];
    for i in 0..ndocs {
        let toks = |rng: &mut Rng, lo: u64, hi: u64| -> Vec<String> { (0..rng.range(lo, hi)).map(|_| rng.pick(VOCAB).to_string()).collect() };
        let t = toks(rng, 0, 4);
        let (b, st): (Vec<String>, Vec<String>) = if i % 3 == 1 {
            // sibling of the previous document: the same words without those the analyzer removes (outer words adjacent)
            let prev = &texts[i - 1];
            (prev[1].iter().filter(|w| !dropped(1, w)).cloned().collect(), prev[2].iter().filter(|w| !dropped(2, w)).cloned().collect())
        } else {
            let mut b = toks(rng, 0, 7);
            if rng.chance(1, 3) && b.len() >= 2 { let k = rng.range(1, b.len() as u64 - 1) as usize; b.insert(k, rng.pick(&longs).clone()); if rng.chance(1, 3) { b.insert(k, rng.pick(&longs).clone()); } }
            let st: Vec<String> = if rng.chance(1, 4) { "lord of the rings".split(' ').map(|s| s.to_string()).collect() } else { (0..rng.range(0, 6)).map(|_| rng.pick(STOPV).to_string()).collect() };
            // document 0 (and its sibling, document 1) carry the regression text of F163
            (b, if i == 0 || i == 2 { "rings a of b".split(' ').map(|s| s.to_string()).collect() } else { st })
        };
        let tg = rng.pick(&["a", "foo", "bar baz", "x"]).to_string();
        let nv = match rng.below(4) { 0 => rng.below(5), 1 => rng.below(100), _ => rng.below(1000) };
        w.add_document(doc!(title => t.join(" "), body => b.join(" "), stop => st.join(" "), tag => tg.clone(), n => nv)).unwrap();
        docs.push(format!("{{| d_title := {}; d_body := {}; d_stop := {}; d_tag := {}; d_n := {} |}}", cf::list(&t, |s| cstr(s)), cf::list(&b, |s| cstr(s)), cf::list(&st, |s| cstr(s)), cstr(&tg), nv));
        texts.push([t, b, st]);
        if i % 7 == 6 { w.commit().unwrap(); }
    }
    w.commit().unwrap();
    Corpus { index, coq: format!("[{}]", docs.join(";")), n: ndocs, texts }
}

/// a quoted phrase taken from (or derived from) the text of a document of the corpus, on a field whose analyzer
/// removes words (long words on title/body, stop words on `stop`), with or without slop / prefix
/// harness-side mirror of Logical.phrase_match (used ONLY to decide whether a known-finding case is emitted;
/// the verdict itself is computed by Coq): tokens with the positions the analyzer keeps
fn analyzed(field: usize, words: &[String]) -> Vec<(usize, String)> {
    words.iter().enumerate().filter(|(_, w)| !dropped(field, w)).map(|(i, w)| (i, w.clone())).collect()
}
fn mirror_phrase_match(doc: &[(usize, String)], q: &[(usize, String)], prefix: bool) -> bool {
    if q.len() < 2 { return false; }
    doc.iter().any(|(dp, dt)| *dt == q[0].1 && q[1..].iter().enumerate().all(|(i, (p, t))| {
        let want = dp + (p - q[0].0);
        doc.iter().any(|(xp, xt)| *xp == want && if prefix && i + 2 == q.len() { xt.starts_with(t.as_str()) } else { xt == t })
    }))
}
/// directed: a prefix phrase made of the text of document 0 on the stop-word field (a removed word before the last word)
fn directed_prefix_gap(corpus: &Corpus) -> (Cq, &'static str, Option<usize>) {
    let ph: Vec<String> = "rings a of b".split(' ').map(|s| s.to_string()).collect();
    let q = analyzed(2, &ph);
    let expect = corpus.texts.iter().filter(|t| mirror_phrase_match(&analyzed(2, &t[2]), &q, true)).count();
    let leaf = Cq::Lit(Some(("stop".to_string(), String::new())), CLeaf::Phrase(true, ph.join(" "), Slop::Prefix));
    (Cq::Seq(String::new(), None, Box::new(leaf), vec![], String::new()), "directed-prefix-gap", Some(expect))
}
fn corpus_phrase(rng: &mut Rng, corpus: &Corpus) -> Option<(Cq, &'static str, Option<usize>)> {
    let longs = long_words();
    for _ in 0..40 {
        let field = *rng.pick(&[1usize, 1, 2, 2, 0]);
        let d = rng.below(corpus.n as u64) as usize;
        let words = &corpus.texts[d][field];
        if words.len() < 2 { continue; }
        let i = rng.below(words.len() as u64 - 1) as usize;
        let j = (i + rng.range(2, 5) as usize).min(words.len());
        let mut ph: Vec<String> = words[i..j].to_vec();
        let variant = rng.below(6);
        let kind = match variant {
            0..=2 => "own-text",
            3 => { ph.retain(|w| !dropped(field, w)); "removed-words-omitted" }
            4 => { let k = rng.range(1, (ph.len() as u64 - 1).max(1)) as usize; ph.insert(k, if field == 2 { rng.pick(STOP_WORDS).to_string() } else { rng.pick(&longs).clone() }); "extra-removed-word" }
            _ => { ph = (0..rng.range(2, 4)).map(|_| if field == 2 { rng.pick(STOPV).to_string() } else { rng.pick(VOCAB).to_string() }).collect(); "random" }
        };
        if ph.len() < 2 { continue; }
        let sp = match rng.below(4) { 0 | 1 => Slop::None, 2 => Slop::Slop(rng.range(1, 3).to_string()), _ => Slop::Prefix };
        if matches!(sp, Slop::Prefix) { let l = ph.last_mut().unwrap(); if dropped(field, l) { continue; } let k = rng.range(1, l.len() as u64) as usize; l.truncate(k); }
        let retained = ph.iter().filter(|w| !dropped(field, w)).count();
        if retained < 2 { continue; }
        let fname = match field { 0 => Some("title"), 1 => if rng.chance(1, 3) { None } else { Some("body") }, _ => Some("stop") };
        let leaf = Cq::Lit(fname.map(|f| (f.to_string(), String::new())), CLeaf::Phrase(true, ph.join(" "), sp));
        // expected number of documents for a prefix phrase (mirror), None when not a prefix phrase
        let expect = if matches!(leaf, Cq::Lit(_, CLeaf::Phrase(_, _, Slop::Prefix))) {
            let q = analyzed(field, &ph);
            let fields: Vec<usize> = if fname.is_none() { vec![0, 1] } else { vec![field] };
            Some(corpus.texts.iter().filter(|t| fields.iter().any(|f| mirror_phrase_match(&analyzed(*f, &t[*f]), &q, true))).count())
        } else { None };
        return Some((Cq::Seq(String::new(), None, Box::new(leaf), vec![], String::new()), kind, expect));
    }
    None
}

fn typed_leaf(g: &mut Gen) -> Cq {
    match g.rng.below(10) {
        0 => { let lo = if g.rng.chance(1, 4) { None } else { Some(g.rng.below(120).to_string()) }; let hi = if lo.is_some() && g.rng.chance(1, 4) { None } else { Some((g.rng.below(1000)).to_string()) };
               let (w1, w2, w3, w4) = (g.ws0(), g.ws1(), g.ws1(), g.ws0());
               Cq::Lit(Some(("n".into(), String::new())), CLeaf::Range(g.rng.chance(1, 2), w1, lo, w2, w3, hi, w4, g.rng.chance(1, 2))) }
        1 => { let w = g.ws0(); Cq::Lit(Some(("n".into(), String::new())), CLeaf::Cmp(g.rng.below(4) as u8, w, g.rng.below(200).to_string())) }
        2 => { let k = g.rng.range(1, 3); let mut es = vec![]; for i in 0..k { let w = if i == 0 { g.ws0() } else { g.ws1() }; es.push((w, SElem::Word(g.rng.below(6).to_string()))); }
               let w1 = g.ws1(); Cq::Lit(Some(("n".into(), String::new())), CLeaf::Set(w1, es)) }
        3 => Cq::Lit(Some(("n".into(), String::new())), CLeaf::Word(g.rng.below(6).to_string())),
        5 => { let k = g.rng.range(2, 4); let mut ph: Vec<String> = (0..k).map(|_| g.rng.pick(STOPV).to_string()).collect();
               ph[0] = g.rng.pick(&["lord", "king", "a"]).to_string(); let l = ph.len() - 1; ph[l] = g.rng.pick(&["rings", "king", "b"]).to_string();
               Cq::Lit(Some(("stop".into(), String::new())), CLeaf::Phrase(g.rng.chance(1, 2), ph.join(" "), Slop::None)) }
        4 => { let t = g.rng.pick(&["a", "foo", "bar baz", "x", "zzz"]).to_string(); Cq::Lit(Some(("tag".into(), String::new())), if t.contains(' ') { CLeaf::Phrase(true, t, Slop::None) } else { CLeaf::Word(t) }) }
        _ => g.leaf(),
    }
}
/// the same query with textually repeated members of pure AND / OR chains removed (x OR x = x, x AND x = x):
/// used as a metamorphic probe of F164 on the implementation itself
fn dedup_chains(c: &Cq) -> Cq {
    match c {
        Cq::Paren(x) => Cq::Paren(Box::new(dedup_chains(x))),
        Cq::Boost(x, i, f) => Cq::Boost(Box::new(dedup_chains(x)), i.clone(), f.clone()),
        Cq::Seq(lead, o1, x1, rest, trail) => {
            let x1d = dedup_chains(x1);
            let restd: Vec<_> = rest.iter().map(|(a, b, c2, d, x)| (a.clone(), *b, c2.clone(), *d, dedup_chains(x))).collect();
            let pure = o1.is_none() && !restd.is_empty() && restd.iter().all(|r| r.3.is_none() && r.1.is_some() && r.1 == restd[0].1);
            if !pure { return Cq::Seq(lead.clone(), *o1, Box::new(x1d), restd, trail.clone()); }
            let mut seen = vec![x1d.text()];
            let mut kept = vec![];
            for r in restd { let t = r.4.text(); if !seen.contains(&t) { seen.push(t); kept.push(r); } }
            Cq::Seq(lead.clone(), *o1, Box::new(x1d), kept, trail.clone())
        }
        other => other.clone(),
    }
}
/// directed: `(foo OR foo) tag:a` (meaningful with conjunction by default) / `a (b AND b)` (disjunction by default)
fn directed_repeated_member(conj: bool) -> Cq {
    let w = |t: &str| Cq::Lit(None, CLeaf::Word(t.to_string()));
    let grp = |a: &str, and: bool| Cq::Paren(Box::new(Cq::Seq(String::new(), None, Box::new(w(a)), vec![(" ".into(), Some(and), String::new(), None, w(a))], String::new())));
    if conj { Cq::Seq(String::new(), None, Box::new(grp("foo", false)), vec![(" ".into(), None, String::new(), None, Cq::Lit(Some(("tag".into(), String::new())), CLeaf::Word("a".into())))], String::new()) }
    else { Cq::Seq(String::new(), None, Box::new(w("a")), vec![(" ".into(), None, String::new(), None, grp("b", true))], String::new()) }
}
fn typed_atom(g: &mut Gen, depth: u32) -> Cq {
    if depth > 0 && g.rng.chance(1, 4) { return Cq::Paren(Box::new(typed_seq(g, depth - 1, false))); }
    let l = typed_leaf(g);
    if g.rng.chance(1, 8) && !matches!(l, Cq::Lit(_, CLeaf::Cmp(..))) { Cq::Boost(Box::new(l), g.digits(1), Some(g.digits(1))) } else { l }
}
/// documented shapes only: pure operator chains and pure +/- lists
fn typed_seq(g: &mut Gen, depth: u32, top: bool) -> Cq {
    let chain = g.rng.chance(1, 2);
    let n = *g.rng.pick(&[0u64, 1, 1, 2, 2, 3, 4, 5]);
    let lead = g.ws0();
    // nested queries made only of negated members have no documented meaning of their own: keep one positive member
    let o1 = if chain { None } else if top { g.occ() } else { match g.rng.below(3) { 0 => Some(Occur::Must), _ => None } };
    let x1 = typed_atom(g, depth);
    let mut rest = vec![];
    for _ in 0..n {
        let sep = g.sep();
        let op = if chain { Some(g.rng.chance(1, 2)) } else { None };
        let w = if chain { g.ws0() } else { String::new() };
        let o = if chain { None } else { g.occ() };
        rest.push((sep, op, w, o, typed_atom(g, depth)));
    }
    let trail = g.ws0();
    Cq::Seq(lead, o1, Box::new(x1), rest, trail)
}

fn main() {
    let args = Args::parse();
    tvh::quiet_panics();
    // child mode: a single very deep input (a stack overflow kills only the child)
    if let Some(pos) = args.extra.iter().position(|a| a == "--child-deep") {
        let depth: usize = args.extra[pos + 1].parse().unwrap();
        let kind: usize = args.extra[pos + 2].parse().unwrap();
        let s = deep_input(depth, kind);
        let r1 = guarded(|| parse_query(&s).is_ok());
        let r2 = guarded(|| parse_query_lenient(&s).1.len());
        println!("child-done {:?} {:?}", r1.is_ok(), r2.is_ok());
        std::process::exit(if r1.is_ok() && r2.is_ok() { 0 } else { 3 });
    }
    if let Some(pos) = args.extra.iter().position(|a| a == "--child-str") {
        let s = unhex(&args.extra[pos + 1]);
        let _ = guarded(|| parse_query(&s).is_ok());
        let r2 = guarded(|| parse_query_lenient(&s).1.len());
        std::process::exit(if r2.is_ok() { 0 } else { 3 });
    }
    let mut rng = Rng::new(args.seed);
    let thorough = args.thorough();
    let mut cx = Ctx { out: CaseOut::new(&args.out, HEADER, 170), tie_fuzz_budget: if thorough { 3000 } else { 250 } };

    // ---------------- corpus: witnesses of the known findings ----------------
    // regression cases of the fixed F12: an exists-query without a field name is a syntax error, not a panic
    for s in ["+\t*", "- *", "a + *^", "x -\n*)", "*\u{a0}", "*\u{3000}TO^   a"] {
        let st = cx.grammar_checks(s, "regression-F12", true);
        cx.out.spec_checked(st == GOut::Err, json!({"what": "exists-query without a field must be rejected with a parse error", "query": show(s), "impl": format!("{st:?}")}));
    }
    for s in [", TO /", "/ab", "f:/ab", "a /x", "n:[1 TO 5 ]", "NOT\ta"] { cx.grammar_checks(s, "corpus-F13", true); }
    for s in ["IN[\u{a0}x", "f: IN [a \u{3000}"] { cx.grammar_checks(s, "corpus-F162", true); }
    for s in ["hello\nbody:y", "a\tb:c"] { cx.grammar_checks(s, "corpus-F160", true); }

    // ---------------- (a) printed concrete queries ----------------
    let n_q = if thorough { 6000 } else { 330 };
    for i in 0..n_q {
        let mode = if i % 3 == 0 { Mode::Frag } else { Mode::Grammar };
        let depth = (i % 4) as u32;
        let c = { let mut g = Gen { rng: &mut rng, mode, loose_sep: false }; g.seq(depth) };
        let s = c.text();
        let st = cx.grammar_checks(&s, "printed", true);
        let d = json!({"what": "printed query vs documented meaning (norm_top)", "query": show(&s), "depth": c.depth(), "mode": if mode == Mode::Frag { "fragment" } else { "grammar" }});
        cx.out.count(if mode == Mode::Frag { "printed_fragment" } else { "printed_grammar" }, 1);
        cx.out.count(&format!("printed_depth_{}", c.depth().min(6)), 1);
        match coq_outcome(&st) {
            Some(o) => { cx.out.coq_case("spec", format!("wf {c} && str_eqb (print {c}) {s} && outcome_eqb (Ok (norm_top {c})) {o}", c = c.coq(), s = cstr(&s), o = o), d, c.depth() >= 2); }
            None => cx.out.count("boost_not_renderable", 1),
        }
        if let Cq::Seq(_, o1, _, rest, _) = &c { cx.out.count(&format!("first_occur_{}", occur_name(o1)), 1); cx.out.count("seq_members", 1 + rest.len() as u64); }
    }
    // the fragment of theorem C16_print_parse (phrases, + / -, AND / OR, parentheses; any whitespace layout)
    let n_pf = if thorough { 1500 } else { 120 };
    for i in 0..n_pf {
        let c = { let mut g = Gen { rng: &mut rng, mode: Mode::Phrase, loose_sep: i % 2 == 0 }; g.seq((i % 4) as u32) };
        let s = c.text();
        let st = cx.grammar_checks(&s, "phrase-fragment", true);
        cx.out.count("printed_phrase_fragment", 1);
        if let Some(o) = coq_outcome(&st) {
            cx.out.coq_case("spec", format!("pf {c} && is_seq {c} && str_eqb (print {c}) {s} && outcome_eqb (Ok (norm_top {c})) {o}", c = c.coq(), s = cstr(&s), o = o),
                json!({"what": "fragment of C16_print_parse: implementation vs norm_top", "query": show(&s), "depth": c.depth()}), c.depth() >= 2);
        }
    }
    // separators without a space character (tab / CR / LF only): same meaning expected
    let n_loose = if thorough { 1500 } else { 60 };
    for _ in 0..n_loose {
        let c = { let mut g = Gen { rng: &mut rng, mode: Mode::Frag, loose_sep: true }; g.seq(1) };
        let s = c.text();
        let st = strict(&s);
        cx.out.count("printed_loose_separators", 1);
        if let Some(o) = coq_outcome(&st) {
            let d = json!({"what": "separator made of tab/CR/LF only", "query": show(&s), "impl": format!("{:?}", st)});
            // decided in Coq: either the documented meaning, or the failure lies in class F160
            cx.out.coq_case("tie", format!("outcome_eqb (parse_ref {}) {}", cstr(&s), o), d.clone(), true);
            let ok_term = format!("outcome_eqb (Ok (norm_top {})) {}", c.coq(), o);
            cx.out.coq_case("spec", format!("{ok} || F160_class {s}", ok = ok_term, s = cstr(&s)), d.clone(), true);
            // report the finding when it occurs (classifier evaluated in Coq)
            if let GOut::Ok(a) = &st { if has_ws_field(a) { cx.out.coq_case("known:F160", format!("F160_class {}", cstr(&s)), d, true); } }
        }
    }

    // ---------------- (c) long operator chains ----------------
    let n_ch = if thorough { 600 } else { 50 };
    for i in 0..n_ch {
        let len = match i % 5 { 0 => 1 + (i / 5) % 12, 1 => rng.range(2, 5), 2 => rng.range(6, 12), _ => rng.range(2, 30) };
        let c = { let mut g = Gen { rng: &mut rng, mode: Mode::Frag, loose_sep: false }; g.seq_style(if i % 4 == 0 { 1 } else { 0 }, 1, len) };
        let s = c.text();
        let st = cx.grammar_checks(&s, "chain", true);
        cx.out.count("chains", 1);
        if let Some(o) = coq_outcome(&st) {
            cx.out.coq_case("spec", format!("wf {c} && outcome_eqb (Ok (norm_top {c})) {o}", c = c.coq(), o = o), json!({"what": "operator chain", "query": show(&s), "members": len + 1}), len >= 2);
        }
    }

    // ---------------- (b) QueryParser on a typed schema: Count vs the documented meaning ----------------
    let n_corp = if thorough { 5 } else { 2 };
    let n_tq = if thorough { 300 } else { 60 };
    for ci in 0..n_corp {
        let corpus = build_corpus(&mut rng, if thorough { 40 } else { 24 });
        let schema = corpus.index.schema();
        let defaults = vec![schema.get_field("title").unwrap(), schema.get_field("body").unwrap()];
        let searcher = corpus.index.reader().unwrap().searcher();
        // each corpus is a local definition of the shard header: keep shards of this stream self-contained
        for qi in 0..n_tq {
            let conj = qi % 2 == 1;
            let mut qp = QueryParser::for_index(&corpus.index, defaults.clone());
            if conj { qp.set_conjunction_by_default(); }
            let c = if qi < 2 { directed_repeated_member(qi == 1) } else { let mut g = Gen { rng: &mut rng, mode: Mode::Typed, loose_sep: false }; typed_seq(&mut g, (qi % 3) as u32, true) };
            let s = c.text();
            cx.out.count("typed_queries", 1);
            let dflt = if conj { "Must" } else { "Should" };
            let d = json!({"what": "QueryParser::parse_query + Count vs documented meaning", "query": show(&s), "conjunction_by_default": conj, "corpus": ci, "docs": corpus.n});
            let before = cx.out.stats.get("lenient_disagreements").and_then(|v| v.as_u64()).unwrap_or(0);
            cx.grammar_checks(&s, "typed", false);
            let grammar_lenient_agrees = cx.out.stats.get("lenient_disagreements").and_then(|v| v.as_u64()).unwrap_or(0) == before;
            let r = guarded(|| qp.parse_query(&s).map(|q| searcher.search(&q, &Count)));
            let rl = guarded(|| { let (q, errs) = qp.parse_query_lenient(&s); (searcher.search(&q, &Count), errs.len()) });
            match (&r, &rl) {
                (Err(m), _) => cx.out.spec_checked(false, json!({"what": "QueryParser::parse_query panics", "msg": m, "query": show(&s)})),
                (_, Err(m)) => cx.out.spec_checked(false, json!({"what": "QueryParser::parse_query_lenient panics", "msg": m, "query": show(&s)})),
                (Ok(Ok(Ok(cnt))), Ok((lc, nerr))) => {
                    cx.out.count("typed_ok", 1);
                    cx.out.count(if *cnt == 0 { "typed_count_zero" } else if *cnt == corpus.n { "typed_count_all" } else { "typed_count_some" }, 1);
                    // spec: the number of matching documents is the one the documented meaning prescribes
                    // (F164: a group that deduplicates to a single Should / Must child loses the default occur of its position; classified in Coq)
                    cx.out.coq_case("spec", format!("wf {c} && (match cq_count {dflt} {corpus} {c} with Some n => N.eqb n {cnt} | None => false end || F164_ast (norm {c}))", c = c.coq(), dflt = dflt, corpus = corpus.coq, cnt = cnt), d.clone(), true);
                    let c2 = dedup_chains(&c);
                    if c2.text() != s {
                        cx.out.count("typed_with_repeated_chain_member", 1);
                        let s2 = c2.text();
                        if let Ok(Ok(Ok(cnt2))) = guarded(|| qp.parse_query(&s2).map(|q| searcher.search(&q, &Count))) {
                            if cnt2 != *cnt {
                                cx.out.coq_case("known:F164", format!("F164_ast (norm {})", c.coq()),
                                    json!({"what": "x OR x / x AND x inside a group changes the result", "query": show(&s), "count": cnt, "equivalent_query": show(&s2), "equivalent_count": cnt2, "conjunction_by_default": conj}), true);
                            }
                        }
                    }
                    // tie: the same number through the model of the grammar + logical layer
                    cx.out.coq_case("tie", format!("match parse_ref {s} with Ok u => N.eqb (count_spec {dflt} {corpus} u) {cnt} | _ => false end", s = cstr(&s), dflt = dflt, corpus = corpus.coq, cnt = cnt), d.clone(), true);
                    if grammar_lenient_agrees { cx.out.spec_checked(matches!(lc, Ok(l) if *l == *cnt) && *nerr == 0, json!({"what": "QueryParser lenient differs from strict", "query": show(&s), "strict": cnt, "lenient": format!("{:?}", lc), "errors": nerr})); }
                }
                (Ok(Err(e)), _) => {
                    cx.out.count("typed_rejected", 1);
                    // the only legitimate rejection of a generated typed query: it is made of negated members only
                    cx.out.coq_case("spec", format!("match parse_ref {s} with Ok u => rejected_all_negative {dflt} u | _ => false end", s = cstr(&s), dflt = dflt), json!({"what": "QueryParser::parse_query rejects a generated query", "error": format!("{e:?}"), "query": show(&s)}), true);
                }
                (Ok(Ok(Err(e))), _) => cx.out.spec_checked(false, json!({"what": "search failed", "error": format!("{e:?}"), "query": show(&s)})),
            }
        }
        // phrases through analyzers that remove words (positions kept by the index), with and without slop / prefix
        let n_ph = if thorough { 120 } else { 45 };
        for qi in 0..n_ph {
            let Some((c, kind, mirror_expect)) = (if qi == 0 { Some(directed_prefix_gap(&corpus)) } else { corpus_phrase(&mut rng, &corpus) }) else { continue };
            let conj = qi % 2 == 1;
            let mut qp = QueryParser::for_index(&corpus.index, defaults.clone());
            if conj { qp.set_conjunction_by_default(); }
            let dflt = if conj { "Must" } else { "Should" };
            let s = c.text();
            cx.out.count("phrase_queries", 1);
            cx.out.count(&format!("phrase_{kind}"), 1);
            let d = json!({"what": "quoted phrase on a field whose analyzer removes words: Count vs positions kept", "query": show(&s), "kind": kind, "corpus": ci, "docs": corpus.n});
            match guarded(|| qp.parse_query(&s).map(|q| searcher.search(&q, &Count))) {
                Err(m) => cx.out.spec_checked(false, json!({"what": "QueryParser::parse_query panics", "msg": m, "query": show(&s)})),
                Ok(Ok(Ok(cnt))) => {
                    cx.out.count(if cnt == 0 { "phrase_count_zero" } else { "phrase_count_some" }, 1);
                    // (F163: the phrase-prefix scorer mishandles a gap right before the prefix term; classified in Coq)
                    cx.out.coq_case("spec", format!("wf {c} && (count_within {dflt} {corpus} {c} {cnt} || F163_class (norm_top {c}))", c = c.coq(), dflt = dflt, corpus = corpus.coq, cnt = cnt), d.clone(), true);
                    cx.out.coq_case("tie", format!("match parse_ref {s} with Ok u => (N.leb (count_spec_b false {dflt} {corpus} u) {cnt} && N.leb {cnt} (count_spec_b true {dflt} {corpus} u)) || F163_class u | _ => false end", s = cstr(&s), dflt = dflt, corpus = corpus.coq, cnt = cnt), d.clone(), true);
                    if let Some(e) = mirror_expect { if e != cnt {
                        cx.out.coq_case("known:F163", format!("F163_class (norm_top {c}) && negb (count_within {dflt} {corpus} {c} {cnt})", c = c.coq(), dflt = dflt, corpus = corpus.coq, cnt = cnt),
                            json!({"what": "prefix phrase with a removed word before its last word: wrong documents", "query": show(&s), "count": cnt, "expected": e}), true);
                    } }
                }
                Ok(r) => cx.out.spec_checked(false, json!({"what": "generated phrase query rejected", "result": format!("{:?}", r.map(|x| x.is_ok())), "query": show(&s)})),
            }
        }
    }

    // ---------------- (d) totality stream ----------------
    fuzz_stream(&mut cx, &mut rng, thorough);

    cx.out.finish(json!({"tier": args.tier, "seed": args.seed}));
}

/// F160 symptom: a field name that contains tab / CR / LF
fn has_ws_field(a: &UserInputAst) -> bool {
    let bad = |f: &Option<String>| f.as_ref().map(|f| f.contains(['\t', '\n', '\r'])).unwrap_or(false);
    match a {
        UserInputAst::Clause(cs) => cs.iter().any(|(_, x)| has_ws_field(x)),
        UserInputAst::Boost(x, _) => has_ws_field(x),
        UserInputAst::Leaf(l) => match &**l {
            UserInputLeaf::Literal(l) => bad(&l.field_name),
            UserInputLeaf::Range { field, .. } | UserInputLeaf::Set { field, .. } | UserInputLeaf::Regex { field, .. } => bad(field),
            UserInputLeaf::Exists { field } => field.contains(['\t', '\n', '\r']),
            UserInputLeaf::All => false,
        },
    }
}

fn deep_input(depth: usize, kind: usize) -> String {
    match kind {
        0 => format!("{}a{}", "(".repeat(depth), ")".repeat(depth)),
        1 => "(".repeat(depth),
        2 => format!("{}a{}", "(+".repeat(depth), ")".repeat(depth)),
        3 => format!("{}a", "NOT ".repeat(depth)),
        4 => format!("{}a{}", "f:(".repeat(depth), ")".repeat(depth)),
        _ => format!("{}a{}", "-(".repeat(depth), ")".repeat(depth / 2)),
    }
}

/// the same input as a Gallina term (built with `rep`, so that the term stays small)
fn deep_input_coq(depth: usize, kind: usize) -> String {
    let r = |u: &str, n: usize| format!("rep {} {}", n, cstr(u));
    match kind {
        0 => format!("({} ++ [97] ++ {})", r("(", depth), r(")", depth)),
        1 => format!("({})", r("(", depth)),
        2 => format!("({} ++ [97] ++ {})", r("(+", depth), r(")", depth)),
        3 => format!("({} ++ [97])", r("NOT ", depth)),
        4 => format!("({} ++ [97] ++ {})", r("f:(", depth), r(")", depth)),
        _ => format!("({} ++ [97] ++ {})", r("-(", depth), r(")", depth / 2)),
    }
}

fn random_string(rng: &mut Rng) -> String {
    const ALPHA: &[&str] = &["a", "b", "AND", "OR", "NOT", "IN", "TO", " ", " ", "\t", "\n", "+", "-", "*", "(", ")", "[", "]", "{", "}", "\"", "'", ":", "^", "~", "\\", "/", "<", ">", "=", ".", "1", "0", ",", "!", "`", "é", "\u{a0}", "\u{3000}", "\u{85}", "日", "\u{1F600}", "f:", "AND ", "OR "];
    let n = match rng.below(4) { 0 => rng.range(0, 4), 1 => rng.range(1, 8), _ => rng.range(1, 24) };
    match rng.below(5) {
        0 => (0..n).filter_map(|_| char::from_u32(match rng.below(4) { 0 => rng.below(128) as u32, 1 => rng.below(0x800) as u32, 2 => rng.below(0x11000) as u32, _ => 0x20 + rng.below(0x60) as u32 })).collect(),
        1 => String::from_utf8_lossy(&rng.bytes(n as usize)).to_string(),
        _ => (0..n).map(|_| *rng.pick(ALPHA)).collect(),
    }
}

fn mutate(rng: &mut Rng, s: &str) -> String {
    let mut v: Vec<char> = s.chars().collect();
    let k = rng.range(1, 3);
    for _ in 0..k {
        if v.is_empty() { v.push('('); continue; }
        let i = rng.below(v.len() as u64) as usize;
        match rng.below(7) {
            0 => { v.remove(i); }
            1 => { let c = v[i]; v.insert(i, c); }
            2 => { if i + 1 < v.len() { v.swap(i, i + 1); } }
            3 => { v.insert(i, *rng.pick(&['"', '\'', '(', ')', '[', ']', '{', '}', '/', '\\', '*', ':', '^', '~', '+', '-'])); }
            4 => { v[i] = *rng.pick(&['"', '\'', '(', ')', '[', ']', ' ', '\t', '*', ':', '\\', '/']); }
            5 => { v.truncate(i); }
            _ => { let j = rng.below(v.len() as u64) as usize; let (a, b) = (i.min(j), i.max(j)); let seg: Vec<char> = v[a..b].to_vec(); for (k, c) in seg.into_iter().enumerate() { v.insert(a + k, c); } }
        }
    }
    v.into_iter().collect()
}

fn fuzz_stream(cx: &mut Ctx, rng: &mut Rng, thorough: bool) {
    // 20 000-deep nesting in child processes with the default stack (a stack overflow aborts the child only);
    // started first, joined at the end of the stream
    let deep_children: Vec<(usize, usize, std::thread::JoinHandle<(bool, String)>)> = (0..6usize).map(|kind| {
        let depth = if kind == 3 { 12000 } else { 20000 };
        (kind, depth, std::thread::spawn(move || run_child(&["--child-deep".into(), depth.to_string(), kind.to_string()])))
    }).collect();
    // QueryParser on the typed schema (both entry points): never a panic
    let corpus = build_corpus(rng, 8);
    let schema = corpus.index.schema();
    let qp = QueryParser::for_index(&corpus.index, vec![schema.get_field("title").unwrap(), schema.get_field("body").unwrap()]);
    let mut qp_all = QueryParser::for_index(&corpus.index, vec![schema.get_field("title").unwrap(), schema.get_field("n").unwrap(), schema.get_field("tag").unwrap()]);
    qp_all.set_conjunction_by_default();
    let trace = std::env::var("C16_TRACE").ok();
    let one = |cx: &mut Ctx, s: &str, what: &str, tie: bool| {
        if let Some(t) = &trace { let _ = std::fs::write(t, s); }
        cx.grammar_checks(s, what, tie);
        if risky_hang(s) { return; }
        for (name, p) in [("default", &qp), ("conjunction", &qp_all)] {
            match guarded(|| p.parse_query(s).is_ok()) {
                Ok(_) => cx.out.spec_checked(true, json!(null)),
                Err(m) => {
                    cx.out.spec_checked(false, json!({"what": "QueryParser::parse_query panics", "parser": name, "msg": m, "query": show(s)}));
                }
            }
            match guarded(|| p.parse_query_lenient(s).1.len()) {
                Ok(_) => cx.out.spec_checked(true, json!(null)),
                Err(m) => cx.out.spec_checked(false, json!({"what": "QueryParser::parse_query_lenient panics", "parser": name, "msg": m, "query": show(s)})),
            }
        }
    };
    let n_rand = if thorough { 200_000 } else { 12_000 };
    for i in 0..n_rand {
        let s = random_string(rng);
        let tie = cx.tie_fuzz_budget > 0 && i % 9 == 0;
        if tie { cx.tie_fuzz_budget -= 1; }
        one(cx, &s, "random", tie);
        cx.out.count("fuzz_random", 1);
    }
    let n_mut = if thorough { 60_000 } else { 5_000 };
    for i in 0..n_mut {
        let c = { let mut g = Gen { rng, mode: Mode::Grammar, loose_sep: false }; g.seq((i % 3) as u32) };
        let s = mutate(rng, &c.text());
        let tie = cx.tie_fuzz_budget > 0 && i % 11 == 0;
        if tie { cx.tie_fuzz_budget -= 1; }
        one(cx, &s, "mutation", tie);
        cx.out.count("fuzz_mutations", 1);
    }
    // long inputs
    for (k, unit) in ["a ", "a AND ", "+a -b ", "\"x y\" ", "f:[1 TO 2] ", "(a) ", "a OR b AND ", "\\", "\"", "* ", "a^2 ", "IN [a b] "].iter().enumerate() {
        let reps = if thorough { 20_000 } else { 3_000 } / (1 + k % 3);
        let s = unit.repeat(reps);
        one(cx, &s, "long", false);
        cx.out.count("fuzz_long", 1);
    }
    // deep nesting: moderately deep in a big-stack thread (panics observable), very deep in a child process
    for kind in 0..6usize {
        for depth in [50usize, 400, if thorough { 3000 } else { 1500 }] {
            let s = deep_input(depth, kind);
            let h = std::thread::Builder::new().stack_size(1 << 30).spawn(move || {
                let a = guarded(|| parse_query(&s).is_ok());
                let b = guarded(|| parse_query_lenient(&s).1.len());
                (a, b)
            }).unwrap();
            let (a, b) = h.join().unwrap_or((Err("thread died".into()), Err("thread died".into())));
            cx.out.spec_checked(a.is_ok(), json!({"what": "strict panics on nested input", "kind": kind, "depth": depth, "msg": format!("{a:?}")}));
            cx.out.spec_checked(b.is_ok(), json!({"what": "lenient panics on nested input", "kind": kind, "depth": depth, "msg": format!("{b:?}")}));
            cx.out.count("fuzz_deep_thread", 1);
        }
    }
    for (kind, depth, h) in deep_children {
        let (ok, status) = h.join().unwrap_or((false, "join failed".into()));
        cx.out.count("fuzz_deep_child", 1);
        if !ok {
            cx.out.coq_case("known:F161", format!("F161_class {}", deep_input_coq(depth, kind)),
                json!({"what": "deeply nested input aborts the process (stack overflow in the recursive-descent parser)", "kind": kind, "depth": depth, "input": show(&deep_input(depth, kind)), "status": status}), true);
        } else { cx.out.spec_checked(true, json!(null)); }
    }
}
