(* C09 -- proofs about the skip index (model: SkipIndex.v).
   Part 1 (Section Generic): for ANY block codec with  deser (ser b ++ rest) = Some (b, rest)  on
   well-formed blocks, any period >= 2 and any number of checkpoints / layers:
     - the builder never panics on a contiguous checkpoint sequence,
     - seek on the finished layers returns the first checkpoint whose doc range ends after the target
       (= the unique checkpoint containing it), NotFound iff the target is beyond the last document,
     - checkpoints() yields the inserted sequence.
   Part 2: the concrete delta/VInt CheckpointBlock codec satisfies the codec hypotheses. *)
From TV Require Import Base.Prelude Generated.Constants Store.VInt Store.SkipIndex.
Local Open Scope N_scope.

Definition cp_ok (c : checkpoint) : Prop := doc_start c < doc_end c /\ byte_start c <= byte_end c.

(* contiguous, non-empty doc ranges *)
Fixpoint chain (l : list checkpoint) : Prop :=
  match l with
  | [] => True
  | c :: r => cp_ok c /\ match r with [] => True | d :: _ => follows d c = true end /\ chain r
  end.

(* the u32 / u64 fields of the on-disk format *)
Definition cp_small (c : checkpoint) : Prop :=
  doc_end c < 2 ^ 32 /\ byte_end c - byte_start c < 2 ^ 32 /\ byte_start c < 2 ^ 64.

Definition res_of (o : option checkpoint) : seek_res :=
  match o with Some c => Found c | None => NotFound end.

Definition after (t : N) (c : checkpoint) : bool := N.ltb t (doc_end c).

Lemma len_app {A} (a b : list A) : len (a ++ b) = len a + len b.
Proof. unfold len. rewrite app_length. lia. Qed.

Lemma len_nil {A} : len (@nil A) = 0.
Proof. reflexivity. Qed.

Lemma follows_spec c p : follows c p = true <-> doc_start c = doc_end p /\ byte_start c = byte_end p.
Proof. unfold follows. rewrite andb_true_iff, !N.eqb_eq. tauto. Qed.

Lemma last_opt_last {A} (l : list A) d : l <> [] -> last_opt l = Some (last l d).
Proof.
  induction l as [|x l IH]; [congruence|]. intros _.
  destruct l as [|y l]; [reflexivity|].
  change (last_opt (y :: l) = Some (last (y :: l) d)). apply IH. discriminate.
Qed.

Lemma last_opt_nil {A} (l : list A) : last_opt l = None -> l = [].
Proof.
  destruct l as [|x l]; [reflexivity|]. intros H.
  rewrite (last_opt_last (x :: l) x) in H by discriminate. discriminate.
Qed.

Lemma last_opt_snoc {A} (l : list A) x : last_opt (l ++ [x]) = Some x.
Proof.
  rewrite (last_opt_last _ x) by (destruct l; discriminate). now rewrite last_last.
Qed.

Lemma chain_app_inv a b : chain (a ++ b) -> chain a /\ chain b.
Proof.
  induction a as [|c a IH]; cbn [app]; intros H; [split; [exact I|exact H]|].
  cbn [chain] in H. destruct H as (Hc & Hn & Hr). destruct (IH Hr) as (Ha & Hb).
  split; [|exact Hb]. cbn [chain]. split; [exact Hc|]. split; [|exact Ha].
  destruct a as [|d a]; [exact I|exact Hn].
Qed.

Lemma chain_app_link a d c b : chain ((a ++ [d]) ++ c :: b) -> follows c d = true.
Proof.
  induction a as [|x a IH]; cbn [app]; intros H.
  - cbn [chain] in H. tauto.
  - cbn [chain] in H. destruct H as (_ & _ & Hr). exact (IH Hr).
Qed.

Lemma chain_snoc l c :
  chain l -> cp_ok c -> match last_opt l with Some p => follows c p = true | None => True end -> chain (l ++ [c]).
Proof.
  induction l as [|x l IH]; intros Hl Hc Hlast.
  - cbn. tauto.
  - cbn [chain] in Hl. destruct Hl as (Hx & Hn & Hr).
    cbn [app chain]. split; [exact Hx|]. destruct l as [|y l].
    + cbn [app]. split; [exact Hlast|]. cbn. tauto.
    + cbn [app]. split; [exact Hn|]. apply IH; [exact Hr|exact Hc|exact Hlast].
Qed.

Lemma chain_snoc_inv l c : chain (l ++ [c]) ->
  cp_ok c /\ match last_opt l with Some p => follows c p = true | None => True end.
Proof.
  intros H. destruct (chain_app_inv _ _ H) as (_ & Hc). cbn in Hc. split; [tauto|].
  destruct l as [|x l] using rev_ind; [exact I|].
  rewrite last_opt_snoc. apply (chain_app_link l x c []). exact H.
Qed.

(* in a chain every doc_end is bounded by the last one, and the span is non-empty *)
Lemma chain_ends_le l d c : chain l -> In c l -> doc_end c <= doc_end (last l d).
Proof.
  revert c. induction l as [|x l IH]; intros c; [contradiction|]. intros Hl Hin.
  cbn [chain] in Hl. destruct Hl as (Hx & Hn & Hr).
  destruct l as [|y l].
  - destruct Hin as [->|[]]. cbn. lia.
  - change (last (x :: y :: l) d) with (last (y :: l) d).
    destruct Hin as [<-|Hin]; [|apply IH; assumption].
    apply follows_spec in Hn. destruct Hn as (Hn & _).
    pose proof (IH y Hr (or_introl eq_refl)) as IHy.
    cbn [chain] in Hr. destruct Hr as ((Hy & _) & _). unfold cp_ok in Hx. lia.
Qed.

Lemma chain_span c l : chain (c :: l) -> doc_start c < doc_end (last (c :: l) c).
Proof.
  intros H. pose proof (chain_ends_le (c :: l) c c H (or_introl eq_refl)) as Hle.
  cbn [chain] in H. destruct H as ((Hc & _) & _). lia.
Qed.

Lemma find_app {A} (p : A -> bool) a b :
  find p (a ++ b) = match find p a with Some x => Some x | None => find p b end.
Proof. induction a as [|x a IH]; [reflexivity|]. cbn [app find]. destruct (p x); [reflexivity|exact IH]. Qed.

Lemma find_none_all {A} (p : A -> bool) l : (forall x, In x l -> p x = false) -> find p l = None.
Proof.
  induction l as [|x l IH]; [reflexivity|]. intros H. cbn [find].
  rewrite (H x (or_introl eq_refl)). apply IH. intros y Hy. apply H. now right.
Qed.

Section Generic.
  Variable ser : list checkpoint -> bytes.
  Variable deser : bytes -> option (list checkpoint * bytes).
  Variable period : N.
  Hypothesis period_ge_2 : 2 <= period.

  Definition good_block (b : list checkpoint) : Prop := b <> [] /\ chain b /\ Forall cp_small b.

  Hypothesis ser_nonempty : forall b, ser b <> [].
  Hypothesis deser_ser : forall b rest, good_block b -> deser (ser b ++ rest) = Some (b, rest).

  Notation block_push := SkipIndex.block_push.
  Notation lb_flush := (SkipIndex.lb_flush ser).
  Notation lb_insert := (SkipIndex.lb_insert ser period).
  Notation sib_insert := (SkipIndex.sib_insert ser period).
  Notation sib_insert_all := (SkipIndex.sib_insert_all ser period).
  Notation sib_finish := (SkipIndex.sib_finish ser).
  Notation layer_seek := (SkipIndex.layer_seek deser).
  Notation seek_at := (SkipIndex.seek_at deser).
  Notation seek_layers := (SkipIndex.seek_layers deser).
  Notation layer_all := (SkipIndex.layer_all deser).

  (* the pointer that flush_block emits for block b written at offset off *)
  Definition summary (off : N) (b : list checkpoint) : checkpoint :=
    match b with
    | [] => {| doc_start := 0; doc_end := 0; byte_start := off; byte_end := off |}
    | c0 :: _ => {| doc_start := doc_start c0; doc_end := doc_end (last b c0);
                    byte_start := off; byte_end := off + len (ser b) |}
    end.

  Fixpoint summaries (off : N) (blocks : list (list checkpoint)) : list checkpoint :=
    match blocks with
    | [] => []
    | b :: r => summary off b :: summaries (off + len (ser b)) r
    end.

  Definition sers (blocks : list (list checkpoint)) : bytes := concat (map ser blocks).

  Lemma sers_app a b : sers (a ++ b) = sers a ++ sers b.
  Proof. unfold sers. now rewrite map_app, concat_app. Qed.

  Lemma summaries_app off a b :
    summaries off (a ++ b) = summaries off a ++ summaries (off + len (sers a)) b.
  Proof.
    revert off; induction a as [|x a IH]; intros off.
    - cbn. now rewrite N.add_0_r.
    - cbn [app summaries]. rewrite IH. unfold sers. cbn [map concat]. rewrite len_app.
      now rewrite N.add_assoc.
  Qed.

  Lemma summaries_nil off blocks : summaries off blocks = [] -> blocks = [].
  Proof. destruct blocks; [reflexivity|discriminate]. Qed.

  (* ---------------------------------------------------------------- push *)
  Lemma push_ok block cp : chain (block ++ [cp]) -> block_push block cp = Some (block ++ [cp]).
  Proof.
    intros H. apply chain_snoc_inv in H. destruct H as (_ & H). unfold SkipIndex.block_push.
    destruct (last_opt block) as [p|] eqn:E.
    - now rewrite H.
    - apply last_opt_nil in E. now subst.
  Qed.

  Lemma flush_nonempty buffer c0 b :
    lb_flush {| lb_buffer := buffer; lb_block := c0 :: b |} =
    ({| lb_buffer := buffer ++ ser (c0 :: b); lb_block := [] |}, Some (summary (len buffer) (c0 :: b))).
  Proof. reflexivity. Qed.

  (* ---------------------------------------------------------------- chain of summaries *)
  Lemma chain_summaries blocks off :
    Forall (fun b => b <> []) blocks -> chain (concat blocks) -> chain (summaries off blocks).
  Proof.
    revert off; induction blocks as [|b r IH]; intros off Hne Hch; [exact I|].
    inversion Hne as [|? ? Hb Hr]; subst. cbn [concat] in Hch.
    destruct (chain_app_inv _ _ Hch) as (Hcb & Hcr).
    cbn [summaries chain]. split; [|split; [|apply IH; assumption]].
    - destruct b as [|c0 b']; [congruence|]. unfold cp_ok, summary. cbn [doc_start doc_end byte_start byte_end].
      split; [apply chain_span; exact Hcb|lia].
    - destruct r as [|b2 r']; [exact I|]. cbn [summaries].
      inversion Hr as [|? ? Hb2 _]; subst.
      destruct b as [|c0 b']; [congruence|]. destruct b2 as [|d0 b2']; [congruence|].
      apply follows_spec. unfold summary. cbn [doc_start doc_end byte_start byte_end]. split; [|reflexivity].
      assert (Hl : exists pre, c0 :: b' = pre ++ [last (c0 :: b') c0]).
      { exists (removelast (c0 :: b')). apply app_removelast_last. discriminate. }
      destruct Hl as (pre & Hpre).
      cbn [concat] in Hch. rewrite Hpre in Hch. rewrite <- app_assoc in Hch.
      change ((d0 :: b2') ++ concat r') with (d0 :: (b2' ++ concat r')) in Hch.
      rewrite app_assoc in Hch. apply chain_app_link in Hch. apply follows_spec in Hch. tauto.
  Qed.

  (* ---------------------------------------------------------------- builder invariant *)
  Inductive layers_inv : list checkpoint -> list layer_builder -> Prop :=
  | LI_nil : layers_inv [] []
  | LI_cons : forall F blocks lb rest,
      F <> [] -> F = concat blocks ++ lb_block lb -> Forall (fun b => b <> []) blocks ->
      lb_buffer lb = sers blocks -> len (lb_block lb) < period ->
      layers_inv (summaries 0 blocks) rest -> layers_inv F (lb :: rest).

  Lemma insert_inv ls : forall F cp,
    layers_inv F ls -> chain (F ++ [cp]) ->
    exists ls', sib_insert ls cp = Some ls' /\ layers_inv (F ++ [cp]) ls'.
  Proof.
    induction ls as [|lb rest IH]; intros F cp Hinv Hch.
    - inversion Hinv; subst. cbn [SkipIndex.sib_insert]. unfold SkipIndex.lb_insert.
      cbn [lb_block lb_new SkipIndex.block_push last_opt].
      replace (N.leb period (len [cp])) with false by (symmetry; apply N.leb_gt; unfold len; cbn; lia).
      eexists; split; [reflexivity|].
      apply (LI_cons _ [] _ []); cbn; try reflexivity; try discriminate; try constructor.
      unfold len; cbn; lia.
    - inversion Hinv as [|F' blocks lb' rest' HF HFeq Hne Hbuf Hlen Hrest]; subst F' lb' rest'.
      assert (Hch2 : chain (concat blocks ++ (lb_block lb ++ [cp]))).
      { rewrite app_assoc, <- HFeq. exact Hch. }
      destruct (chain_app_inv _ _ Hch2) as (_ & Hchb).
      cbn [SkipIndex.sib_insert]. unfold SkipIndex.lb_insert. rewrite (push_ok _ _ Hchb).
      destruct (N.leb period (len (lb_block lb ++ [cp]))) eqn:Eflush.
      + (* the block is closed: pointer to the next layer *)
        destruct (lb_block lb ++ [cp]) as [|c0 nb] eqn:Enb; [destruct (lb_block lb); discriminate|].
        cbn [lb_buffer lb_block]. rewrite flush_nonempty.
        set (ptr := summary (len (lb_buffer lb)) (c0 :: nb)).
        assert (Hsum : summaries 0 (blocks ++ [c0 :: nb]) = summaries 0 blocks ++ [ptr]).
        { rewrite summaries_app. cbn [summaries]. rewrite N.add_0_l, <- Hbuf. reflexivity. }
        assert (Hne' : Forall (fun b => b <> []) (blocks ++ [c0 :: nb])).
        { apply Forall_app. split; [exact Hne|]. constructor; [discriminate|constructor]. }
        assert (Hchs : chain (summaries 0 blocks ++ [ptr])).
        { rewrite <- Hsum. apply chain_summaries; [exact Hne'|].
          rewrite concat_app. cbn [concat]. rewrite app_nil_r. exact Hch2. }
        destruct (IH _ _ Hrest Hchs) as (rest' & Hins & Hinv').
        rewrite Hins. eexists; split; [reflexivity|].
        apply (LI_cons _ (blocks ++ [c0 :: nb])); cbn [lb_buffer lb_block].
        * destruct F; discriminate.
        * rewrite concat_app. cbn [concat]. rewrite !app_nil_r. rewrite HFeq, <- app_assoc, Enb. reflexivity.
        * exact Hne'.
        * rewrite sers_app, Hbuf. unfold sers. cbn [map concat]. now rewrite app_nil_r.
        * unfold len; cbn; lia.
        * rewrite Hsum. exact Hinv'.
      + eexists; split; [reflexivity|].
        apply (LI_cons _ blocks); cbn [lb_buffer lb_block].
        * destruct F; discriminate.
        * rewrite HFeq, app_assoc. reflexivity.
        * exact Hne.
        * exact Hbuf.
        * apply N.leb_gt in Eflush. exact Eflush.
        * exact Hrest.
  Qed.

  Lemma insert_all_inv cps : forall F ls,
    layers_inv F ls -> chain (F ++ cps) ->
    exists ls', sib_insert_all ls cps = Some ls' /\ layers_inv (F ++ cps) ls'.
  Proof.
    induction cps as [|c r IH]; intros F ls Hinv Hch.
    - rewrite app_nil_r. eexists; split; [reflexivity|exact Hinv].
    - assert (Hch1 : chain (F ++ [c])).
      { replace (F ++ c :: r) with ((F ++ [c]) ++ r) in Hch by now rewrite <- app_assoc.
        apply chain_app_inv in Hch. tauto. }
      destruct (insert_inv ls F c Hinv Hch1) as (ls1 & H1 & Hinv1).
      cbn [SkipIndex.sib_insert_all]. rewrite H1.
      replace (F ++ c :: r) with ((F ++ [c]) ++ r) in * by now rewrite <- app_assoc.
      apply IH; assumption.
  Qed.

  (* ---------------------------------------------------------------- finished layers: a tree *)
  Inductive tree_inv : list checkpoint -> list bytes -> Prop :=
  | T_top : forall F, F <> [] -> tree_inv F [ser F]
  | T_cons : forall blocks bufs,
      blocks <> [] -> Forall (fun b => b <> []) blocks ->
      tree_inv (summaries 0 blocks) bufs -> tree_inv (concat blocks) (sers blocks :: bufs).

  Definition optl (p : option checkpoint) : list checkpoint := match p with Some c => [c] | None => [] end.

  Lemma finish_inv ls : forall F ptr,
    layers_inv F ls -> ls <> [] -> chain (F ++ optl ptr) ->
    exists bufs, sib_finish ls ptr = Some bufs /\ tree_inv (F ++ optl ptr) bufs.
  Proof.
    induction ls as [|lb rest IH]; intros F ptr Hinv Hnn Hch; [congruence|].
    inversion Hinv as [|F' blocks lb' rest' HF HFeq Hne Hbuf Hlen Hrest]; subst F' lb' rest'.
    assert (Hch2 : chain (concat blocks ++ (lb_block lb ++ optl ptr))).
    { rewrite app_assoc, <- HFeq. exact Hch. }
    destruct (chain_app_inv _ _ Hch2) as (_ & Hchb).
    cbn [SkipIndex.sib_finish].
    assert (Hpush : match ptr with
                    | Some p => match block_push (lb_block lb) p with
                                | Some b => Some {| lb_buffer := lb_buffer lb; lb_block := b |}
                                | None => None
                                end
                    | None => Some lb
                    end = Some {| lb_buffer := lb_buffer lb; lb_block := lb_block lb ++ optl ptr |}).
    { destruct ptr as [p|]; cbn [optl] in *.
      - now rewrite (push_ok _ _ Hchb).
      - rewrite app_nil_r. destruct lb; reflexivity. }
    rewrite Hpush. clear Hpush.
    destruct (lb_block lb ++ optl ptr) as [|c0 nb] eqn:Enb.
    - (* nothing pending in this layer *)
      unfold SkipIndex.lb_flush. cbn [lb_block lb_buffer].
      rewrite app_nil_r in Hch2.
      assert (HF2 : F ++ optl ptr = concat blocks) by (rewrite HFeq, <- app_assoc, Enb; now rewrite app_nil_r).
      assert (Hbl : blocks <> []).
      { intros ->. cbn in HF2. destruct F; [congruence|discriminate]. }
      assert (Hrn : rest <> []).
      { intros ->. inversion Hrest as [Hs|]. symmetry in Hs. apply summaries_nil in Hs. congruence. }
      destruct (IH (summaries 0 blocks) None Hrest Hrn) as (bufs & Hfin & Htree).
      { cbn [optl]. rewrite app_nil_r. apply chain_summaries; assumption. }
      rewrite Hfin. eexists; split; [reflexivity|].
      rewrite HF2, Hbuf. cbn [optl] in Htree. rewrite app_nil_r in Htree. apply T_cons; assumption.
    - rewrite flush_nonempty. cbn [lb_buffer].
      set (ptr' := summary (len (lb_buffer lb)) (c0 :: nb)).
      assert (HF2 : F ++ optl ptr = concat (blocks ++ [c0 :: nb])).
      { rewrite concat_app. cbn [concat]. rewrite app_nil_r, HFeq, <- app_assoc, Enb. reflexivity. }
      assert (Hsum : summaries 0 (blocks ++ [c0 :: nb]) = summaries 0 blocks ++ [ptr']).
      { rewrite summaries_app. cbn [summaries]. rewrite N.add_0_l, <- Hbuf. reflexivity. }
      assert (Hne' : Forall (fun b => b <> []) (blocks ++ [c0 :: nb])).
      { apply Forall_app. split; [exact Hne|]. constructor; [discriminate|constructor]. }
      destruct rest as [|lb2 rest2].
      + (* top layer: its own pointer is dropped *)
        inversion Hrest as [Hs|]. symmetry in Hs. apply summaries_nil in Hs. subst blocks.
        cbn [SkipIndex.sib_finish]. eexists; split; [reflexivity|].
        cbn in HF2. rewrite app_nil_r in HF2. rewrite HF2.
        unfold sers in Hbuf. cbn in Hbuf. rewrite Hbuf. cbn [app].
        apply T_top. discriminate.
      + destruct (IH (summaries 0 blocks) (Some ptr') Hrest ltac:(discriminate)) as (bufs & Hfin & Htree).
        { cbn [optl]. rewrite <- Hsum. apply chain_summaries; [exact Hne'|].
          rewrite <- HF2. exact Hch. }
        rewrite Hfin. eexists; split; [reflexivity|].
        rewrite HF2. replace (lb_buffer lb ++ ser (c0 :: nb)) with (sers (blocks ++ [c0 :: nb])).
        * apply T_cons; [destruct blocks; discriminate|exact Hne'|]. rewrite Hsum. exact Htree.
        * rewrite sers_app, Hbuf. unfold sers. cbn [map concat]. now rewrite app_nil_r.
  Qed.

  (* ---------------------------------------------------------------- reading a layer *)
  Lemma sers_length_ge blocks : (length blocks <= length (sers blocks))%nat.
  Proof.
    induction blocks as [|b r IH]; [cbn; lia|]. unfold sers in *. cbn [map concat length].
    rewrite app_length. pose proof (ser_nonempty b). destruct (ser b); [congruence|]. cbn [length]. lia.
  Qed.

  Lemma layer_seek_blocks t blocks : forall fuel,
    Forall good_block blocks -> (length blocks < fuel)%nat ->
    layer_seek fuel t (sers blocks) = res_of (find (after t) (concat blocks)).
  Proof.
    induction blocks as [|b r IH]; intros fuel Hg Hf.
    - destruct fuel; [lia|]. reflexivity.
    - destruct fuel as [|f]; [lia|]. inversion Hg as [|? ? Hb Hr]; subst.
      unfold sers. cbn [map concat]. cbn [SkipIndex.layer_seek].
      destruct (ser b ++ concat (map ser r)) as [|x y] eqn:E.
      { pose proof (ser_nonempty b). destruct (ser b); [congruence|discriminate]. }
      rewrite <- E, (deser_ser b _ Hb).
      destruct b as [|c0 b']; [destruct Hb; congruence|].
      cbn [concat]. rewrite find_app. fold (after t).
      destruct (find (after t) (c0 :: b')); [reflexivity|].
      apply IH; [exact Hr|cbn [length] in Hf; lia].
  Qed.

  Lemma layer_all_blocks blocks : forall fuel,
    Forall good_block blocks -> (length blocks < fuel)%nat ->
    layer_all fuel (sers blocks) = ScanOk (concat blocks).
  Proof.
    induction blocks as [|b r IH]; intros fuel Hg Hf.
    - destruct fuel; [lia|]. reflexivity.
    - destruct fuel as [|f]; [lia|]. inversion Hg as [|? ? Hb Hr]; subst.
      unfold sers. cbn [map concat]. cbn [SkipIndex.layer_all].
      destruct (ser b ++ concat (map ser r)) as [|x y] eqn:E.
      { pose proof (ser_nonempty b). destruct (ser b); [congruence|discriminate]. }
      rewrite <- E, (deser_ser b _ Hb).
      destruct b as [|c0 b']; [destruct Hb; congruence|].
      fold (sers r). rewrite IH; [reflexivity|exact Hr|cbn [length] in Hf; lia].
  Qed.

  Lemma skipn_len_app {A} (a b : list A) : skipn (N.to_nat (len a)) (a ++ b) = b.
  Proof. unfold len. rewrite Nat2N.id. apply skipn_app_exact. Qed.

  (* descent from the layer above: the found summary points at the block that holds the answer *)
  Lemma descend t blocks : forall off pre,
    len pre = off -> Forall good_block blocks -> chain (concat blocks) ->
    match find (after t) (summaries off blocks) with
    | Some s => seek_at (pre ++ sers blocks) t (byte_start s) = res_of (find (after t) (concat blocks))
    | None => find (after t) (concat blocks) = None
    end.
  Proof.
    induction blocks as [|b r IH]; intros off pre Hoff Hg Hch; [reflexivity|].
    inversion Hg as [|? ? Hb Hr]; subst. cbn [summaries find].
    destruct Hb as (Hbne & Hbch & Hbsm). destruct b as [|c0 b']; [congruence|].
    destruct (after t (summary (len pre) (c0 :: b'))) eqn:Ea.
    - unfold summary. cbn [byte_start]. unfold SkipIndex.seek_at.
      replace (N.ltb (len (pre ++ sers ((c0 :: b') :: r))) (len pre)) with false
        by (symmetry; apply N.ltb_ge; rewrite len_app; lia).
      rewrite skipn_len_app.
      apply layer_seek_blocks; [exact Hg|].
      pose proof (sers_length_ge ((c0 :: b') :: r)). lia.
    - cbn [concat] in Hch. destruct (chain_app_inv _ _ Hch) as (_ & Hchr).
      assert (Hnone : find (after t) (c0 :: b') = None).
      { apply find_none_all. intros x Hx. unfold after in *. unfold summary in Ea. cbn [doc_end] in Ea.
        apply N.ltb_ge in Ea. apply N.ltb_ge.
        pose proof (chain_ends_le (c0 :: b') c0 x Hbch Hx). lia. }
      specialize (IH (len pre + len (ser (c0 :: b'))) (pre ++ ser (c0 :: b')) ltac:(apply len_app) Hr Hchr).
      cbn [concat]. rewrite find_app, Hnone.
      unfold sers in *. cbn [map concat]. rewrite app_assoc. exact IH.
  Qed.

  Lemma seek_layers_app A b t cur :
    seek_layers (A ++ [b]) t cur =
    match seek_layers A t cur with
    | Found c => match seek_at b t (byte_start c) with Found c' => Found c' | r => r end
    | r => r
    end.
  Proof.
    revert cur; induction A as [|a A IH]; intros cur.
    - cbn. destruct (seek_at b t (byte_start cur)); reflexivity.
    - cbn [app SkipIndex.seek_layers]. destruct (seek_at a t (byte_start cur)); try reflexivity. apply IH.
  Qed.

  (* smallness of every layer follows from the layer sizes *)
  Lemma summaries_small blocks : forall off,
    Forall (fun b => b <> []) blocks -> Forall cp_small (concat blocks) ->
    off + len (sers blocks) < 2 ^ 32 -> Forall cp_small (summaries off blocks).
  Proof.
    induction blocks as [|b r IH]; intros off Hne Hsm Hlen; [constructor|].
    inversion Hne as [|? ? Hb Hr]; subst. cbn [concat] in Hsm. apply Forall_app in Hsm. destruct Hsm as (Hsb & Hsr).
    unfold sers in Hlen. cbn [map concat] in Hlen. rewrite len_app in Hlen. fold (sers r) in Hlen.
    cbn [summaries]. constructor; [|apply IH; [exact Hr|exact Hsr|lia]].
    destruct b as [|c0 b']; [congruence|]. unfold cp_small, summary. cbn [doc_end byte_start byte_end].
    assert (Hin : In (last (c0 :: b') c0) (c0 :: b')).
    { destruct (exists_last (l := c0 :: b') ltac:(discriminate)) as (pre & x & E).
      rewrite E, last_last. apply in_or_app. right. now left. }
    rewrite Forall_forall in Hsb. destruct (Hsb _ Hin) as (H1 & _).
    assert (2 ^ 32 < 2 ^ 64) by (apply N.pow_lt_mono_r; lia).
    repeat split; lia.
  Qed.

  Lemma blocks_good blocks :
    Forall (fun b => b <> []) blocks -> chain (concat blocks) -> Forall cp_small (concat blocks) ->
    Forall good_block blocks.
  Proof.
    induction blocks as [|b r IH]; intros Hne Hch Hsm; [constructor|].
    inversion Hne; subst. cbn [concat] in *. apply Forall_app in Hsm. destruct Hsm.
    destruct (chain_app_inv _ _ Hch). constructor; [repeat split; assumption|apply IH; assumption].
  Qed.

  Lemma seek_tree F bufs : tree_inv F bufs ->
    chain F -> Forall cp_small F -> Forall (fun b => len b < 2 ^ 32) bufs ->
    forall t cur, byte_start cur = 0 ->
    seek_layers (rev bufs) t cur = res_of (find (after t) F).
  Proof.
    induction 1 as [F HF|blocks bufs Hbl Hne Htree IH]; intros Hch Hsm Hlen t cur Hcur.
    - cbn [rev app SkipIndex.seek_layers]. rewrite Hcur. unfold SkipIndex.seek_at.
      replace (N.ltb (len (ser F)) 0) with false by (symmetry; apply N.ltb_ge; lia).
      cbn [N.to_nat skipn].
      pose proof (layer_seek_blocks t [F] (S (length (ser F)))) as Hl.
      unfold sers in Hl. cbn [map concat] in Hl. rewrite !app_nil_r in Hl. rewrite Hl.
      + destruct (find (after t) F); reflexivity.
      + constructor; [repeat split; assumption|constructor].
      + pose proof (ser_nonempty F). destruct (ser F); [congruence|]. cbn [length]. lia.
    - inversion Hlen as [|? ? Hl0 Hlr]; subst.
      assert (Hgood : Forall good_block blocks) by (apply blocks_good; assumption).
      cbn [rev]. rewrite seek_layers_app.
      rewrite (IH (chain_summaries _ _ Hne Hch)
                  (summaries_small _ _ Hne Hsm ltac:(rewrite N.add_0_l; exact Hl0)) Hlr t cur Hcur).
      pose proof (descend t blocks 0 [] eq_refl Hgood Hch) as Hd. cbn [app] in Hd.
      destruct (find (after t) (summaries 0 blocks)) as [s|]; cbn [res_of].
      + rewrite Hd. destruct (find (after t) (concat blocks)); reflexivity.
      + rewrite Hd. reflexivity.
  Qed.

  Lemma all_tree F bufs : tree_inv F bufs ->
    chain F -> Forall cp_small F -> Forall (fun b => len b < 2 ^ 32) bufs ->
    match bufs with b :: _ => layer_all (S (length b)) b = ScanOk F | [] => False end.
  Proof.
    destruct 1 as [F HF|blocks bufs Hbl Hne Htree]; intros Hch Hsm Hlen.
    - pose proof (layer_all_blocks [F] (S (length (ser F)))) as Hl.
      unfold sers in Hl. cbn [map concat] in Hl. rewrite !app_nil_r in Hl. apply Hl.
      + constructor; [repeat split; assumption|constructor].
      + pose proof (ser_nonempty F). destruct (ser F); [congruence|]. cbn [length]. lia.
    - apply layer_all_blocks; [apply blocks_good; assumption|].
      pose proof (sers_length_ge blocks). lia.
  Qed.

  (* ---------------------------------------------------------------- main statements (generic codec) *)
  Theorem build_never_panics cps :
    chain cps -> cps <> [] ->
    exists ls bufs, sib_insert_all [] cps = Some ls /\ sib_finish ls None = Some bufs /\ tree_inv cps bufs.
  Proof.
    intros Hch Hne.
    destruct (insert_all_inv cps [] [] LI_nil Hch) as (ls & Hins & Hinv). cbn [app] in Hinv.
    assert (Hls : ls <> []) by (intros ->; inversion Hinv; congruence).
    destruct (finish_inv ls cps None Hinv Hls) as (bufs & Hfin & Htree).
    { cbn [optl]. now rewrite app_nil_r. }
    cbn [optl] in Htree. rewrite app_nil_r in Htree. eauto.
  Qed.

  Theorem seek_correct cps ls bufs t :
    chain cps -> cps <> [] -> Forall cp_small cps ->
    sib_insert_all [] cps = Some ls -> sib_finish ls None = Some bufs ->
    Forall (fun b => len b < 2 ^ 32) bufs ->
    SkipIndex.si_seek deser (rev bufs) t = res_of (find (after t) cps).
  Proof.
    intros Hch Hne Hsm Hins Hfin Hlen.
    destruct (build_never_panics cps Hch Hne) as (ls' & bufs' & Hins' & Hfin' & Htree).
    rewrite Hins in Hins'. injection Hins' as <-. rewrite Hfin in Hfin'. injection Hfin' as <-.
    unfold SkipIndex.si_seek. apply seek_tree; try assumption. reflexivity.
  Qed.

  Theorem checkpoints_correct cps ls bufs :
    chain cps -> cps <> [] -> Forall cp_small cps ->
    sib_insert_all [] cps = Some ls -> sib_finish ls None = Some bufs ->
    Forall (fun b => len b < 2 ^ 32) bufs ->
    SkipIndex.si_checkpoints deser (rev bufs) = ScanOk cps.
  Proof.
    intros Hch Hne Hsm Hins Hfin Hlen.
    destruct (build_never_panics cps Hch Hne) as (ls' & bufs' & Hins' & Hfin' & Htree).
    rewrite Hins in Hins'. injection Hins' as <-. rewrite Hfin in Hfin'. injection Hfin' as <-.
    pose proof (all_tree cps bufs Htree Hch Hsm Hlen) as Hall.
    unfold SkipIndex.si_checkpoints. destruct bufs as [|b0 bufs]; [contradiction|].
    cbn [rev]. rewrite last_opt_snoc. exact Hall.
  Qed.
End Generic.

(* ------------------------------------------------------------------ spec-level facts *)
(* the first checkpoint ending after d CONTAINS d when the sequence starts at document 0 *)
Lemma find_after_contains cps d c :
  chain cps -> (match cps with c0 :: _ => doc_start c0 = 0 | [] => True end) ->
  find (after d) cps = Some c -> doc_start c <= d < doc_end c.
Proof.
  intros Hch H0 Hf.
  assert (G : forall l lo, chain l -> (match l with c0 :: _ => doc_start c0 = lo | [] => True end) -> lo <= d ->
              find (after d) l = Some c -> doc_start c <= d < doc_end c).
  { induction l as [|x l IH]; intros lo Hl Hlo Hle Hfind; [discriminate|].
    cbn [find] in Hfind. cbn [chain] in Hl. destruct Hl as (Hx & Hn & Hr).
    destruct (after d x) eqn:Ea.
    - injection Hfind as <-. unfold after in Ea. apply N.ltb_lt in Ea. lia.
    - unfold after in Ea. apply N.ltb_ge in Ea.
      apply (IH (doc_end x)); try assumption.
      destruct l as [|y l]; [exact I|]. apply follows_spec in Hn. tauto. }
  apply (G cps 0); try assumption. lia.
Qed.

Lemma find_after_none cps d :
  chain cps -> cps <> [] -> (find (after d) cps = None <-> doc_end (last cps {| doc_start := 0; doc_end := 0; byte_start := 0; byte_end := 0 |}) <= d).
Proof.
  intros Hch Hne. set (dflt := {| doc_start := 0; doc_end := 0; byte_start := 0; byte_end := 0 |}). split.
  - intros Hnone.
    assert (Hin : In (last cps dflt) cps).
    { destruct (exists_last Hne) as (pre & x & E). rewrite E, last_last. apply in_or_app. right. now left. }
    pose proof (find_none _ _ Hnone _ Hin) as H. unfold after in H. apply N.ltb_ge in H. exact H.
  - intros Hle. apply find_none_all. intros x Hx. unfold after. apply N.ltb_ge.
    pose proof (chain_ends_le cps dflt x Hch Hx). lia.
Qed.

(* uniqueness: in a chain at most one checkpoint contains d *)
Lemma chain_contains_unique cps d c c' :
  chain cps -> In c cps -> In c' cps ->
  doc_start c <= d < doc_end c -> doc_start c' <= d < doc_end c' -> find (after d) cps = Some c -> c' = c.
Proof.
  intros Hch Hc Hc' Hd Hd' Hf.
  induction cps as [|x l IH]; [contradiction|].
  cbn [chain] in Hch. destruct Hch as (Hx & Hn & Hr). cbn [find] in Hf.
  destruct (after d x) eqn:Ea.
  - injection Hf as <-. destruct Hc' as [<-|Hc']; [reflexivity|].
    (* c' lies later: its start is >= doc_end x > d *)
    exfalso. clear IH Hc.
    assert (G : forall l lo, chain l -> (match l with c0 :: _ => lo <= doc_start c0 | [] => True end) ->
                In c' l -> lo <= doc_start c').
    { induction l0 as [|y l0 IH0]; intros lo Hl Hlo Hin; [contradiction|].
      cbn [chain] in Hl. destruct Hl as (Hy & Hny & Hry). destruct Hin as [<-|Hin]; [exact Hlo|].
      apply (IH0 (doc_end y)) in Hin; [|exact Hry|].
      - unfold cp_ok in Hy. lia.
      - destruct l0 as [|z l0]; [exact I|]. apply follows_spec in Hny. lia. }
    assert (doc_end x <= doc_start c').
    { apply (G l); try assumption. destruct l as [|y l]; [exact I|]. apply follows_spec in Hn. lia. }
    unfold after in Ea. apply N.ltb_lt in Ea. lia.
  - unfold after in Ea. apply N.ltb_ge in Ea.
    destruct Hc as [<-|Hc]; [lia|]. destruct Hc' as [<-|Hc']; [lia|].
    apply IH; assumption.
Qed.

(* ------------------------------------------------------------------ Part 2: the concrete block codec *)
Lemma cb_serialize_nonempty b : cb_serialize b <> [].
Proof.
  unfold cb_serialize. pose proof (vint_enc_nonempty (len b)).
  destruct (vint_enc (len b)); [congruence|discriminate].
Qed.

Lemma cb_entries_roundtrip b : forall doc off rest,
  chain b -> Forall cp_small b ->
  (match b with c :: _ => doc_start c = doc /\ byte_start c = off | [] => True end) ->
  cb_read_entries (length b) doc off (flat_map cb_entry b ++ rest) = Some (b, rest).
Proof.
  induction b as [|c b IH]; intros doc off rest Hch Hsm Hhd; [reflexivity|].
  cbn [chain] in Hch. destruct Hch as ((Hc1 & Hc2) & Hn & Hr).
  inversion Hsm as [|? ? (Hs1 & Hs2 & Hs3) Hsr]; subst.
  destruct Hhd as (Hd & Ho).
  cbn [length flat_map cb_read_entries]. unfold cb_entry at 1. rewrite <- !app_assoc.
  rewrite read_u32_vint_roundtrip by lia.
  rewrite read_u32_vint_roundtrip by lia.
  rewrite IH; [|exact Hr|exact Hsr|].
  - destruct c as [ds de bs be]. cbn [doc_start doc_end byte_start byte_end] in *. subst.
    repeat f_equal; lia.
  - destruct b as [|c' b]; [exact I|]. apply follows_spec in Hn. lia.
Qed.

Lemma cb_roundtrip b rest :
  b <> [] -> chain b -> Forall cp_small b -> len b < 2 ^ 32 ->
  cb_deserialize (cb_serialize b ++ rest) = Some (b, rest).
Proof.
  intros Hne Hch Hsm Hlen. destruct b as [|c0 b']; [congruence|].
  unfold cb_serialize, cb_deserialize. rewrite <- !app_assoc.
  destruct (vint_enc (len (c0 :: b')) ++ vint_enc (doc_start c0) ++ vint_enc (byte_start c0) ++ flat_map cb_entry (c0 :: b') ++ rest) eqn:E.
  { pose proof (vint_enc_nonempty (len (c0 :: b'))). destruct (vint_enc (len (c0 :: b'))); [congruence|discriminate]. }
  rewrite <- E. clear E.
  rewrite read_u32_vint_roundtrip by exact Hlen.
  replace (N.eqb (len (c0 :: b')) 0) with false by (symmetry; apply N.eqb_neq; unfold len; cbn; lia).
  inversion Hsm as [|? ? (Hs1 & Hs2 & Hs3) Hsr]; subst.
  pose proof Hch as Hch0. cbn [chain] in Hch. destruct Hch as ((Hc1 & Hc2) & _).
  rewrite read_u32_vint_roundtrip by lia.
  rewrite vint_roundtrip by exact Hs3.
  unfold len. rewrite Nat2N.id.
  apply cb_entries_roundtrip; [exact Hch0|exact Hsm|split; reflexivity].
Qed.

(* a chain of n checkpoints spans at least n documents: its length is a u32 when its doc ids are *)
Lemma chain_len_le l d : chain l -> l <> [] -> doc_start (hd d l) + len l <= doc_end (last l d).
Proof.
  induction l as [|x l IH]; [congruence|]. intros Hch _.
  cbn [chain] in Hch. destruct Hch as ((Hx & _) & Hn & Hr).
  destruct l as [|y l'].
  - unfold len. cbn. lia.
  - change (last (x :: y :: l') d) with (last (y :: l') d).
    specialize (IH Hr ltac:(discriminate)). cbn [hd] in *.
    apply follows_spec in Hn. destruct Hn as (Hn & _).
    unfold len in *. cbn [length] in *. lia.
Qed.

Lemma good_block_len b : b <> [] -> chain b -> Forall cp_small b -> len b < 2 ^ 32.
Proof.
  intros Hne Hch Hsm.
  set (d := {| doc_start := 0; doc_end := 0; byte_start := 0; byte_end := 0 |}).
  pose proof (chain_len_le b d Hch Hne) as Hl.
  assert (Hin : In (last b d) b).
  { destruct (exists_last Hne) as (pre & x & E). rewrite E, last_last. apply in_or_app. right. now left. }
  rewrite Forall_forall in Hsm. destruct (Hsm _ Hin) as (H1 & _). lia.
Qed.

Lemma cb_codec_ok b rest : good_block b -> cb_deserialize (cb_serialize b ++ rest) = Some (b, rest).
Proof.
  intros (Hne & Hch & Hsm). apply cb_roundtrip; try assumption. apply good_block_len; assumption.
Qed.

(* ------------------------------------------------------------------ the concrete skip index *)
Lemma period_ok : 2 <= STORE_CHECKPOINT_PERIOD.
Proof. vm_compute. discriminate. Qed.

Theorem skip_build_never_panics cps :
  chain cps -> cps <> [] ->
  exists ls bufs, sib_insert_all cb_serialize STORE_CHECKPOINT_PERIOD [] cps = Some ls /\
                  sib_finish cb_serialize ls None = Some bufs.
Proof.
  intros Hch Hne.
  destruct (build_never_panics cb_serialize cb_deserialize STORE_CHECKPOINT_PERIOD period_ok cb_serialize_nonempty cb_codec_ok cps Hch Hne) as (ls & bufs & H1 & H2 & _).
  eauto.
Qed.

Theorem skip_seek_correct cps ls bufs d :
  chain cps -> cps <> [] -> Forall cp_small cps ->
  sib_insert_all cb_serialize STORE_CHECKPOINT_PERIOD [] cps = Some ls ->
  sib_finish cb_serialize ls None = Some bufs ->
  Forall (fun b => len b < 2 ^ 32) bufs ->
  skip_seek (rev bufs) d = res_of (spec_seek cps d).
Proof.
  intros. unfold skip_seek, spec_seek.
  exact (seek_correct cb_serialize cb_deserialize STORE_CHECKPOINT_PERIOD period_ok cb_serialize_nonempty cb_codec_ok
           cps ls bufs d H H0 H1 H2 H3 H4).
Qed.

Theorem skip_checkpoints_correct cps ls bufs :
  chain cps -> cps <> [] -> Forall cp_small cps ->
  sib_insert_all cb_serialize STORE_CHECKPOINT_PERIOD [] cps = Some ls ->
  sib_finish cb_serialize ls None = Some bufs ->
  Forall (fun b => len b < 2 ^ 32) bufs ->
  skip_checkpoints (rev bufs) = ScanOk cps.
Proof.
  intros. unfold skip_checkpoints.
  exact (checkpoints_correct cb_serialize cb_deserialize STORE_CHECKPOINT_PERIOD period_ok cb_serialize_nonempty cb_codec_ok
           cps ls bufs H H0 H1 H2 H3 H4).
Qed.

(* the same statements from the builder invariant (used by the block store, whose writer carries it) *)
Theorem skip_seek_from_inv cps ls bufs d :
  chain cps -> cps <> [] -> Forall cp_small cps ->
  layers_inv cb_serialize STORE_CHECKPOINT_PERIOD cps ls ->
  sib_finish cb_serialize ls None = Some bufs ->
  Forall (fun b => len b < 2 ^ 32) bufs ->
  skip_seek (rev bufs) d = res_of (spec_seek cps d).
Proof.
  intros Hch Hne Hsm Hinv Hfin Hlen.
  assert (Hls : ls <> []) by (intros ->; inversion Hinv; congruence).
  destruct (finish_inv cb_serialize cb_deserialize STORE_CHECKPOINT_PERIOD period_ok cb_serialize_nonempty cb_codec_ok
              ls cps None Hinv Hls) as (bufs' & Hfin' & Htree).
  { cbn [optl]. now rewrite app_nil_r. }
  rewrite Hfin in Hfin'. injection Hfin' as <-. cbn [optl] in Htree. rewrite app_nil_r in Htree.
  unfold skip_seek, SkipIndex.si_seek, spec_seek.
  apply (seek_tree cb_serialize cb_deserialize STORE_CHECKPOINT_PERIOD period_ok cb_serialize_nonempty cb_codec_ok cps bufs Htree Hch Hsm Hlen).
  reflexivity.
Qed.

Theorem skip_finish_from_inv cps ls :
  chain cps -> cps <> [] -> layers_inv cb_serialize STORE_CHECKPOINT_PERIOD cps ls ->
  exists bufs, sib_finish cb_serialize ls None = Some bufs.
Proof.
  intros Hch Hne Hinv.
  assert (Hls : ls <> []) by (intros ->; inversion Hinv; congruence).
  destruct (finish_inv cb_serialize cb_deserialize STORE_CHECKPOINT_PERIOD period_ok cb_serialize_nonempty cb_codec_ok
              ls cps None Hinv Hls) as (bufs' & Hfin' & _).
  { cbn [optl]. now rewrite app_nil_r. }
  eauto.
Qed.
