(* C09 -- variable-length integers of tantivy-common (common/src/vint.rs).
   VInt::serialize_into : 7 payload bits per byte, least significant group first, the LAST byte
   carries STOP_BIT (128).  VInt::deserialize reads until a byte >= STOP_BIT.
   read_u32_vint (used by the skip index) scans at most 5 bytes and keeps 32 bits. *)
From TV Require Import Base.Prelude Generated.Constants.
Local Open Scope N_scope.

(* serialize_into: `for (i, b) in buffer.iter_mut().enumerate()` over a [u8; 10] buffer; falling out
   of the loop is `unreachable!()` -- here: fuel 0 returns [] (excluded by x < 128^fuel). *)
Fixpoint vint_enc_f (fuel : nat) (x : N) : bytes :=
  match fuel with
  | O => []
  | S f =>
      let b := x mod 128 in
      let r := x / 128 in
      if N.eqb r 0 then [b + VINT_STOP_BIT] else b :: vint_enc_f f r
  end.

Definition vint_enc (x : N) : bytes := vint_enc_f 10 x.

(* VInt::deserialize: `result |= (b % 128) << shift; if b >= STOP_BIT return` ; running out of bytes
   is an error.  Structural in the input. *)
Fixpoint vint_dec (l : bytes) : option (N * bytes) :=
  match l with
  | [] => None
  | b :: r =>
      if N.leb VINT_STOP_BIT b then Some (b mod 128, r)
      else match vint_dec r with
           | Some (v, rest) => Some (b mod 128 + 128 * v, rest)
           | None => None
           end
  end.

(* read_u32_vint: vint_len scans `.take(5)` bytes for the stop bit and panics (None) otherwise;
   the result is accumulated in a u32 (`u32::from(b & 127) << shift`), i.e. modulo 2^32. *)
Fixpoint vint_dec_f (fuel : nat) (l : bytes) : option (N * bytes) :=
  match fuel with
  | O => None
  | S f =>
      match l with
      | [] => None
      | b :: r =>
          if N.leb VINT_STOP_BIT b then Some (b mod 128, r)
          else match vint_dec_f f r with
               | Some (v, rest) => Some (b mod 128 + 128 * v, rest)
               | None => None
               end
      end
  end.

Definition read_u32_vint (l : bytes) : option (N * bytes) :=
  match vint_dec_f 5 l with
  | Some (v, rest) => Some (v mod 2 ^ 32, rest)
  | None => None
  end.

Lemma stop_bit_is_128 : VINT_STOP_BIT = 128.
Proof. vm_compute. reflexivity. Qed.

Lemma vint_roundtrip_f fuel x rest :
  fuel <> O -> x < 128 ^ N.of_nat fuel -> vint_dec (vint_enc_f fuel x ++ rest) = Some (x, rest).
Proof.
  revert x; induction fuel as [|f IH]; intros x Hf Hx; [congruence|].
  cbn [vint_enc_f].
  pose proof (N.div_mod x 128 ltac:(lia)) as Hdm.
  pose proof (N.mod_lt x 128 ltac:(lia)) as Hm.
  destruct (N.eqb_spec (x / 128) 0) as [Hz|Hz].
  - cbn [app vint_dec]. rewrite stop_bit_is_128.
    replace (N.leb 128 (x mod 128 + 128)) with true by (symmetry; apply N.leb_le; lia).
    f_equal. f_equal.
    rewrite <- N.add_mod_idemp_r by lia. rewrite N.mod_same by lia.
    rewrite N.add_0_r, N.mod_mod by lia. lia.
  - cbn [app vint_dec]. rewrite stop_bit_is_128.
    replace (N.leb 128 (x mod 128)) with false by (symmetry; apply N.leb_gt; lia).
    assert (Hq : x / 128 < 128 ^ N.of_nat f).
    { rewrite Nat2N.inj_succ, N.pow_succ_r' in Hx. apply N.div_lt_upper_bound; lia. }
    destruct f as [|f'].
    + change (128 ^ N.of_nat 0) with 1 in Hq. lia.
    + rewrite IH by (try discriminate; exact Hq).
      rewrite N.mod_mod by lia. f_equal. f_equal. lia.
Qed.

Lemma vint_roundtrip x rest : x < 2 ^ 64 -> vint_dec (vint_enc x ++ rest) = Some (x, rest).
Proof.
  intros Hx. apply vint_roundtrip_f; [discriminate|].
  change (128 ^ N.of_nat 10) with (2 ^ 70).
  assert (2 ^ 64 < 2 ^ 70) by (apply N.pow_lt_mono_r; lia). lia.
Qed.

Lemma vint_enc_f_length fuel x : (length (vint_enc_f fuel x) <= fuel)%nat.
Proof.
  revert x; induction fuel as [|f IH]; intros x; cbn [vint_enc_f]; [cbn; lia|].
  destruct (N.eqb (x / 128) 0); cbn [length]; [lia|]. specialize (IH (x / 128)). lia.
Qed.

Lemma vint_enc_length x : (length (vint_enc x) <= 10)%nat.
Proof. apply vint_enc_f_length. Qed.

Lemma vint_enc_f_nonempty fuel x : fuel <> O -> vint_enc_f fuel x <> [].
Proof.
  destruct fuel as [|f]; [congruence|]. intros _. cbn [vint_enc_f].
  destruct (N.eqb (x / 128) 0); discriminate.
Qed.

Lemma vint_enc_nonempty x : vint_enc x <> [].
Proof. apply vint_enc_f_nonempty. discriminate. Qed.

Lemma vint_dec_f_agrees fuel x rest :
  fuel <> O -> x < 128 ^ N.of_nat fuel ->
  vint_dec_f fuel (vint_enc_f fuel x ++ rest) = Some (x, rest).
Proof.
  revert x; induction fuel as [|f IH]; intros x Hf Hx; [congruence|].
  cbn [vint_enc_f].
  pose proof (N.div_mod x 128 ltac:(lia)) as Hdm.
  pose proof (N.mod_lt x 128 ltac:(lia)) as Hm.
  destruct (N.eqb_spec (x / 128) 0) as [Hz|Hz].
  - cbn [app vint_dec_f]. rewrite stop_bit_is_128.
    replace (N.leb 128 (x mod 128 + 128)) with true by (symmetry; apply N.leb_le; lia).
    f_equal. f_equal.
    rewrite <- N.add_mod_idemp_r by lia. rewrite N.mod_same by lia.
    rewrite N.add_0_r, N.mod_mod by lia. lia.
  - cbn [app vint_dec_f]. rewrite stop_bit_is_128.
    replace (N.leb 128 (x mod 128)) with false by (symmetry; apply N.leb_gt; lia).
    assert (Hq : x / 128 < 128 ^ N.of_nat f).
    { rewrite Nat2N.inj_succ, N.pow_succ_r' in Hx. apply N.div_lt_upper_bound; lia. }
    destruct f as [|f'].
    + change (128 ^ N.of_nat 0) with 1 in Hq. lia.
    + rewrite IH by (try discriminate; exact Hq).
      rewrite N.mod_mod by lia. f_equal. f_equal. lia.
Qed.

(* the encoder's output does not depend on surplus fuel *)
Lemma vint_enc_f_more fuel x :
  fuel <> O -> x < 128 ^ N.of_nat fuel -> vint_enc_f (S fuel) x = vint_enc_f fuel x.
Proof.
  revert x; induction fuel as [|f IH]; intros x Hf Hx; [congruence|].
  cbn [vint_enc_f].
  destruct (N.eqb_spec (x / 128) 0) as [Hz|Hz]; [reflexivity|].
  f_equal.
  assert (Hq : x / 128 < 128 ^ N.of_nat f).
  { rewrite Nat2N.inj_succ, N.pow_succ_r' in Hx. apply N.div_lt_upper_bound; lia. }
  destruct f as [|f'].
  - change (128 ^ N.of_nat 0) with 1 in Hq. lia.
  - change (vint_enc_f (S (S f')) (x / 128) = vint_enc_f (S f') (x / 128)).
    apply IH; [discriminate|exact Hq].
Qed.

Lemma vint_enc_f_more_k k fuel x :
  fuel <> O -> x < 128 ^ N.of_nat fuel -> vint_enc_f (k + fuel) x = vint_enc_f fuel x.
Proof.
  intros Hf Hx. induction k as [|k IH]; [reflexivity|].
  cbn [Nat.add]. rewrite vint_enc_f_more; [exact IH|lia|].
  eapply N.lt_le_trans; [exact Hx|]. apply N.pow_le_mono_r; lia.
Qed.

Lemma read_u32_vint_roundtrip x rest :
  x < 2 ^ 32 -> read_u32_vint (vint_enc x ++ rest) = Some (x, rest).
Proof.
  intros Hx. unfold read_u32_vint, vint_enc.
  assert (H35 : x < 128 ^ N.of_nat 5).
  { change (128 ^ N.of_nat 5) with (2 ^ 35).
    assert (2 ^ 32 < 2 ^ 35) by (apply N.pow_lt_mono_r; lia). lia. }
  change 10%nat with (5 + 5)%nat.
  rewrite vint_enc_f_more_k by (try discriminate; exact H35).
  rewrite vint_dec_f_agrees by (try discriminate; exact H35).
  rewrite N.mod_small by exact Hx. reflexivity.
Qed.

(* ------------------------------------------------------------------ serialize_vint_u32 (common/src/vint.rs)
   The branch (number of bytes) is chosen by the pinned thresholds START_2..START_5; in the k-byte branch
   byte j < k-1 is `((val & MASK_{j+1}) << j)` seen through to_le_bytes, i.e. (val >> 7j) & 127, and the
   last byte additionally carries STOP_BIT.  TantivyDocument (CompactDoc) uses this encoder for the
   length prefix of every str / bytes / facet value and of array / object address lists, and reads it
   back with read_u32_vint_no_advance. *)
Fixpoint vint32_bytes (nb : nat) (v : N) : bytes :=
  match nb with
  | O => []
  | S O => [v mod 128 + VINT_STOP_BIT]
  | S k => v mod 128 :: vint32_bytes k (v / 128)
  end.

Definition vint32_num_bytes (v : N) : nat :=
  if N.ltb v VINT32_START_2 then 1
  else if N.ltb v VINT32_START_3 then 2
  else if N.ltb v VINT32_START_4 then 3
  else if N.ltb v VINT32_START_5 then 4
  else 5.

Definition serialize_vint_u32 (v : N) : bytes := vint32_bytes (vint32_num_bytes v) v.

Lemma vint32_bytes_dec nb : forall fuel v rest,
  nb <> O -> (nb <= fuel)%nat -> v < 128 ^ N.of_nat nb ->
  vint_dec_f fuel (vint32_bytes nb v ++ rest) = Some (v, rest).
Proof.
  induction nb as [|k IH]; intros fuel v rest Hnb Hf Hv; [congruence|].
  destruct fuel as [|f]; [lia|].
  pose proof (N.div_mod v 128 ltac:(lia)) as Hdm.
  pose proof (N.mod_lt v 128 ltac:(lia)) as Hm.
  destruct k as [|k'].
  - change (128 ^ N.of_nat 1) with 128 in Hv.
    cbn [vint32_bytes app vint_dec_f]. rewrite stop_bit_is_128.
    replace (N.leb 128 (v mod 128 + 128)) with true by (symmetry; apply N.leb_le; lia).
    f_equal. f_equal.
    rewrite <- N.add_mod_idemp_r by lia. rewrite N.mod_same by lia.
    rewrite N.add_0_r, N.mod_mod by lia. rewrite N.mod_small in * by lia. lia.
  - change (vint32_bytes (S (S k')) v) with (v mod 128 :: vint32_bytes (S k') (v / 128)).
    cbn [app vint_dec_f]. rewrite stop_bit_is_128.
    replace (N.leb 128 (v mod 128)) with false by (symmetry; apply N.leb_gt; lia).
    rewrite IH; [|discriminate|lia|].
    + rewrite N.mod_mod by lia. f_equal. f_equal. lia.
    + rewrite Nat2N.inj_succ, N.pow_succ_r' in Hv. apply N.div_lt_upper_bound; lia.
Qed.

(* the thresholds (regenerated from the source) must keep every branch wide enough for its values:
   these four facts are re-checked by computation on every run *)
Lemma vint32_start_2_ok : VINT32_START_2 <= 128 ^ 1. Proof. vm_compute. discriminate. Qed.
Lemma vint32_start_3_ok : VINT32_START_3 <= 128 ^ 2. Proof. vm_compute. discriminate. Qed.
Lemma vint32_start_4_ok : VINT32_START_4 <= 128 ^ 3. Proof. vm_compute. discriminate. Qed.
Lemma vint32_start_5_ok : VINT32_START_5 <= 128 ^ 4. Proof. vm_compute. discriminate. Qed.

Theorem serialize_vint_u32_roundtrip v rest :
  v < 2 ^ 32 -> read_u32_vint (serialize_vint_u32 v ++ rest) = Some (v, rest).
Proof.
  intros Hv. unfold read_u32_vint, serialize_vint_u32, vint32_num_bytes.
  pose proof vint32_start_2_ok. pose proof vint32_start_3_ok. pose proof vint32_start_4_ok. pose proof vint32_start_5_ok.
  assert (H32 : 2 ^ 32 < 128 ^ 5) by (vm_compute; reflexivity).
  destruct (N.ltb_spec v VINT32_START_2); [|destruct (N.ltb_spec v VINT32_START_3); [|destruct (N.ltb_spec v VINT32_START_4); [|destruct (N.ltb_spec v VINT32_START_5)]]];
    (rewrite vint32_bytes_dec; [rewrite N.mod_small by exact Hv; reflexivity|discriminate|lia|]).
  - change (N.of_nat 1) with 1. lia.
  - change (N.of_nat 2) with 2. lia.
  - change (N.of_nat 3) with 3. lia.
  - change (N.of_nat 4) with 4. lia.
  - change (N.of_nat 5) with 5. lia.
Qed.

(* CompactDoc write_bytes_into / binary_deserialize_bytes: a length-prefixed payload is read back whole *)
Definition compact_write_bytes (data : bytes) : bytes := serialize_vint_u32 (N.of_nat (length data)) ++ data.
Definition compact_read_bytes (l : bytes) : option bytes :=
  match read_u32_vint l with
  | Some (n, rest) => if Nat.leb (N.to_nat n) (length rest) then Some (firstn (N.to_nat n) rest) else None
  | None => None
  end.

Theorem compact_bytes_roundtrip data tail :
  N.of_nat (length data) < 2 ^ 32 -> compact_read_bytes (compact_write_bytes data ++ tail) = Some data.
Proof.
  intros Hl. unfold compact_read_bytes, compact_write_bytes. rewrite <- app_assoc.
  rewrite serialize_vint_u32_roundtrip by exact Hl. rewrite Nat2N.id, app_length.
  replace (Nat.leb (length data) (length data + length tail)) with true by (symmetry; apply Nat.leb_le; lia).
  now rewrite firstn_app_exact.
Qed.
