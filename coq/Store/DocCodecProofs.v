(* C09 -- proofs about the typed binary document codec (model: DocCodec.v):
   deserialize (serialize d) = stored_part d for every well-formed document: every value type,
   arbitrarily nested arrays/objects, several values per field in order; the decoder's fuel (input
   length) is adequate; fields that are not stored never come back; a serialised document is not empty. *)
From TV Require Import Base.Prelude Generated.Constants Store.VInt Store.SkipIndex Store.SkipIndexProofs Store.DocCodec.
Local Open Scope N_scope.

(* ------------------------------------------------------------------ induction principle for nested values *)
Section ValueInd.
  Variable P : value -> Prop.
  Hypothesis HNull : P VNull.
  Hypothesis HStr : forall s, P (VStr s).
  Hypothesis HU64 : forall n, P (VU64 n).
  Hypothesis HI64 : forall n, P (VI64 n).
  Hypothesis HF64 : forall n, P (VF64 n).
  Hypothesis HBool : forall b, P (VBool b).
  Hypothesis HDate : forall n, P (VDate n).
  Hypothesis HFacet : forall s, P (VFacet s).
  Hypothesis HBytes : forall s, P (VBytes s).
  Hypothesis HIp : forall n, P (VIp n).
  Hypothesis HPreTok : forall s, P (VPreTok s).
  Hypothesis HArr : forall l, Forall P l -> P (VArr l).
  Hypothesis HObj : forall kvs, Forall (fun kv => P (snd kv)) kvs -> P (VObj kvs).

  Fixpoint value_ind' (v : value) : P v :=
    match v with
    | VNull => HNull
    | VStr s => HStr s
    | VU64 n => HU64 n
    | VI64 n => HI64 n
    | VF64 n => HF64 n
    | VBool b => HBool b
    | VDate n => HDate n
    | VFacet s => HFacet s
    | VBytes s => HBytes s
    | VIp n => HIp n
    | VPreTok s => HPreTok s
    | VArr l => HArr l ((fix go (l : list value) : Forall P l :=
                           match l with
                           | [] => Forall_nil _
                           | x :: r => Forall_cons x (value_ind' x) (go r)
                           end) l)
    | VObj kvs => HObj kvs ((fix go (l : list (bytes * value)) : Forall (fun kv => P (snd kv)) l :=
                               match l with
                               | [] => Forall_nil _
                               | kv :: r => Forall_cons kv (value_ind' (snd kv)) (go r)
                               end) kvs)
    end.
End ValueInd.

(* ------------------------------------------------------------------ well-formedness: the fields fit their machine types *)
Fixpoint wf_value (v : value) : Prop :=
  match v with
  | VNull | VBool _ => True
  | VStr s | VFacet s | VBytes s | VPreTok s => len s < 2 ^ 64
  | VU64 n | VI64 n | VF64 n | VDate n => n < 2 ^ 64
  | VIp n => n < 2 ^ 128
  | VArr l => len l < 2 ^ 64 /\ (fix all (l : list value) : Prop := match l with [] => True | x :: r => wf_value x /\ all r end) l
  | VObj kvs => 2 * len kvs < 2 ^ 64 /\
                (fix all (l : list (bytes * value)) : Prop :=
                   match l with [] => True | kv :: r => (len (fst kv) < 2 ^ 64 /\ wf_value (snd kv)) /\ all r end) kvs
  end.

Fixpoint depth (v : value) : nat :=
  match v with
  | VArr l => S (list_max (map depth l))
  | VObj kvs => S (list_max (map (fun kv => depth (snd kv)) kvs))
  | _ => 1
  end.

(* ------------------------------------------------------------------ leaf codecs *)
Lemma f64_roundtrip b : b < 2 ^ 64 -> u64_to_f64 (f64_to_u64 b) = b /\ f64_to_u64 b < 2 ^ 64.
Proof.
  intros Hb. unfold u64_to_f64, f64_to_u64.
  assert (H : 2 ^ 64 = 2 ^ 63 + 2 ^ 63) by (vm_compute; reflexivity).
  assert (0 < 2 ^ 63) by (vm_compute; reflexivity).
  destruct (N.ltb_spec b (2 ^ 63)).
  - destruct (N.leb_spec (2 ^ 63) (b + 2 ^ 63)); lia.
  - destruct (N.leb_spec (2 ^ 63) (2 ^ 64 - 1 - b)); lia.
Qed.

Lemma de_string_roundtrip s rest : len s < 2 ^ 64 -> de_string (ser_string s ++ rest) = DOk (s, rest).
Proof.
  intros Hs. unfold de_string, ser_string. rewrite <- app_assoc, vint_roundtrip by exact Hs.
  cbn [of_opt dbind]. unfold len. rewrite Nat2N.id, firstn_app_exact, skipn_app_exact. reflexivity.
Qed.

Lemma de_bytes_roundtrip s rest : len s < 2 ^ 64 -> de_bytes (ser_string s ++ rest) = DOk (s, rest).
Proof.
  intros Hs. unfold de_bytes, ser_string. rewrite <- app_assoc, vint_roundtrip by exact Hs.
  cbn [of_opt dbind].
  replace (N.leb (len s) (len (s ++ rest))) with true by (symmetry; apply N.leb_le; rewrite len_app; lia).
  unfold len. rewrite Nat2N.id, firstn_app_exact, skipn_app_exact. reflexivity.
Qed.

Lemma de_fixed_roundtrip n x rest : x < 256 ^ N.of_nat n -> de_fixed n (le_bytes n x ++ rest) = DOk (x, rest).
Proof.
  intros Hx. unfold de_fixed.
  replace (Nat.leb n (length (le_bytes n x ++ rest))) with true
    by (symmetry; apply Nat.leb_le; rewrite app_length, le_bytes_length; lia).
  pose proof (firstn_app_exact (le_bytes n x) rest) as Hf. pose proof (skipn_app_exact (le_bytes n x) rest) as Hs.
  rewrite le_bytes_length in Hf, Hs. rewrite Hf, Hs, le_value_bytes by exact Hx. reflexivity.
Qed.

Lemma pow_8 : 256 ^ N.of_nat 8 = 2 ^ 64. Proof. vm_compute. reflexivity. Qed.
Lemma pow_16 : 256 ^ N.of_nat 16 = 2 ^ 128. Proof. vm_compute. reflexivity. Qed.
Lemma pow_4 : 256 ^ N.of_nat 4 = 2 ^ 32. Proof. vm_compute. reflexivity. Qed.

(* ------------------------------------------------------------------ dispatch on the (regenerated) type codes:
   proved by computation, so colliding codes would break these lemmas *)
Lemma de_null f d : de_value (S f) (DOC_NULL_CODE :: d) = DOk (VNull, d).
Proof. reflexivity. Qed.
Lemma de_text f d : de_value (S f) (DOC_TEXT_CODE :: d) = dbind (de_string d) (fun '(s, r) => DOk (VStr s, r)).
Proof. reflexivity. Qed.
Lemma de_u64 f d : de_value (S f) (DOC_U64_CODE :: d) = dbind (de_fixed 8 d) (fun '(n, r) => DOk (VU64 n, r)).
Proof. reflexivity. Qed.
Lemma de_i64 f d : de_value (S f) (DOC_I64_CODE :: d) = dbind (de_fixed 8 d) (fun '(n, r) => DOk (VI64 n, r)).
Proof. reflexivity. Qed.
Lemma de_f64 f d : de_value (S f) (DOC_F64_CODE :: d) = dbind (de_fixed 8 d) (fun '(n, r) => DOk (VF64 (u64_to_f64 n), r)).
Proof. reflexivity. Qed.
Lemma de_bool f b r : de_value (S f) (DOC_BOOL_CODE :: b :: r) =
  if N.eqb b 0 then DOk (VBool false, r) else if N.eqb b 1 then DOk (VBool true, r) else DErr.
Proof. reflexivity. Qed.
Lemma de_date f d : de_value (S f) (DOC_DATE_CODE :: d) = dbind (de_fixed 8 d) (fun '(n, r) => DOk (VDate n, r)).
Proof. reflexivity. Qed.
Lemma de_facet f d : de_value (S f) (DOC_HIERARCHICAL_FACET_CODE :: d) = dbind (de_string d) (fun '(s, r) => DOk (VFacet s, r)).
Proof. reflexivity. Qed.
Lemma de_bytes_code f d : de_value (S f) (DOC_BYTES_CODE :: d) = dbind (de_bytes d) (fun '(s, r) => DOk (VBytes s, r)).
Proof. reflexivity. Qed.
Lemma de_ip f d : de_value (S f) (DOC_IP_CODE :: d) = dbind (de_fixed 16 d) (fun '(n, r) => DOk (VIp n, r)).
Proof. reflexivity. Qed.
Lemma de_pretok f d : de_value (S f) (DOC_EXT_CODE :: DOC_TOK_STR_EXT_CODE :: d) = dbind (de_string d) (fun '(s, r) => DOk (VPreTok s, r)).
Proof. reflexivity. Qed.
Lemma de_arr f d : de_value (S f) (DOC_ARRAY_CODE :: d) =
  dbind (of_opt (vint_dec d)) (fun '(n, d1) =>
    dbind (de_list_with (de_value f) (N.to_nat n) d1) (fun '(vs, r) => DOk (VArr vs, r))).
Proof. reflexivity. Qed.
Lemma de_obj f d : de_value (S f) (DOC_OBJECT_CODE :: d) =
  dbind (of_opt (vint_dec d)) (fun '(n, d1) =>
    dbind (de_entries_with (de_value f) (N.to_nat n) d1) (fun '(kvs, r) => DOk (VObj kvs, r))).
Proof. reflexivity. Qed.

(* ------------------------------------------------------------------ sequences *)
Lemma de_list_roundtrip dv l : forall rest,
  Forall (fun x => forall rest, dv (ser_value x ++ rest) = DOk (x, rest)) l ->
  de_list_with dv (length l) (flat_map ser_value l ++ rest) = DOk (l, rest).
Proof.
  induction l as [|x l IH]; intros rest Hall; [reflexivity|].
  inversion Hall as [|? ? Hx Hl]; subst.
  cbn [length flat_map de_list_with]. rewrite <- app_assoc, Hx. cbn [dbind].
  fold (de_list_with dv). rewrite (IH rest Hl). reflexivity.
Qed.

Definition ser_entry (kv : bytes * value) : bytes := (DOC_TEXT_CODE :: ser_string (fst kv)) ++ ser_value (snd kv).

Lemma text_code_eq : N.eqb DOC_TEXT_CODE DOC_TEXT_CODE = true.
Proof. apply N.eqb_refl. Qed.

Lemma de_entries_roundtrip dv kvs : forall rest,
  Forall (fun kv => len (fst kv) < 2 ^ 64 /\ forall rest, dv (ser_value (snd kv) ++ rest) = DOk (snd kv, rest)) kvs ->
  de_entries_with dv (length kvs + length kvs) (flat_map ser_entry kvs ++ rest) = DOk (kvs, rest).
Proof.
  induction kvs as [|[k v] kvs IH]; intros rest Hall; [reflexivity|].
  inversion Hall as [|? ? (Hk & Hv) Hl]; subst. cbn [fst snd] in *.
  cbn [length]. replace (S (length kvs) + S (length kvs))%nat with (S (S (length kvs + length kvs))) by lia.
  cbn [flat_map]. unfold ser_entry at 1. cbn [fst snd]. rewrite <- !app_assoc. cbn [app].
  cbn [de_entries_with]. rewrite text_code_eq.
  rewrite de_string_roundtrip by exact Hk. cbn [dbind].
  rewrite Hv. cbn [dbind]. fold (de_entries_with dv). rewrite (IH rest Hl). reflexivity.
Qed.

Lemma list_max_le_in (l : list nat) x : In x l -> (x <= list_max l)%nat.
Proof.
  induction l as [|y l IH]; [contradiction|]. unfold list_max in *. cbn [fold_right].
  intros [->|Hin]; [lia|]. specialize (IH Hin). lia.
Qed.

(* ------------------------------------------------------------------ values: any nesting *)
Lemma value_roundtrip v : wf_value v ->
  forall fuel rest, (depth v <= fuel)%nat -> de_value fuel (ser_value v ++ rest) = DOk (v, rest).
Proof.
  induction v as [ |s|n|n|n|b|n|s|s|n|s|l IH|kvs IH] using value_ind'; intros Hwf fuel rest Hf;
    (destruct fuel as [|f]; [cbn [depth] in Hf; lia|]); cbn [ser_value app].
  - apply de_null.
  - rewrite de_text, de_string_roundtrip by exact Hwf. reflexivity.
  - rewrite de_u64, de_fixed_roundtrip by (rewrite pow_8; exact Hwf). reflexivity.
  - rewrite de_i64, de_fixed_roundtrip by (rewrite pow_8; exact Hwf). reflexivity.
  - cbn [wf_value] in Hwf. destruct (f64_roundtrip n Hwf) as (Hr & Hlt).
    rewrite de_f64, de_fixed_roundtrip by (rewrite pow_8; exact Hlt). cbn [dbind]. now rewrite Hr.
  - rewrite de_bool. destruct b; reflexivity.
  - rewrite de_date, de_fixed_roundtrip by (rewrite pow_8; exact Hwf). reflexivity.
  - rewrite de_facet, de_string_roundtrip by exact Hwf. reflexivity.
  - rewrite de_bytes_code, de_bytes_roundtrip by exact Hwf. reflexivity.
  - rewrite de_ip, de_fixed_roundtrip by (rewrite pow_16; exact Hwf). reflexivity.
  - rewrite de_pretok, de_string_roundtrip by exact Hwf. reflexivity.
  - cbn [wf_value] in Hwf. destruct Hwf as (Hlen & Hall).
    rewrite de_arr, <- app_assoc, vint_roundtrip by exact Hlen. cbn [of_opt dbind].
    unfold len. rewrite Nat2N.id.
    rewrite de_list_roundtrip; [reflexivity|].
    cbn [depth] in Hf.
    assert (Hd : forall x, In x l -> (depth x <= f)%nat).
    { intros x Hx. pose proof (list_max_le_in (map depth l) (depth x) (in_map depth l x Hx)). lia. }
    clear Hf Hlen. induction l as [|x l IHl]; [constructor|].
    inversion IH as [|? ? Hx Hl]; subst. destruct Hall as (Hwx & Hwl).
    constructor.
    + intros rest'. apply Hx; [exact Hwx|]. apply Hd. now left.
    + apply IHl; [exact Hl|exact Hwl|]. intros y Hy. apply Hd. now right.
  - cbn [wf_value] in Hwf. destruct Hwf as (Hlen & Hall).
    rewrite de_obj, <- app_assoc, vint_roundtrip by exact Hlen. cbn [of_opt dbind].
    replace (N.to_nat (2 * len kvs)) with (length kvs + length kvs)%nat by (unfold len; lia).
    change (flat_map (fun kv => (DOC_TEXT_CODE :: ser_string (fst kv)) ++ ser_value (snd kv)) kvs) with (flat_map ser_entry kvs).
    rewrite de_entries_roundtrip; [reflexivity|].
    cbn [depth] in Hf.
    assert (Hd : forall kv, In kv kvs -> (depth (snd kv) <= f)%nat).
    { intros kv Hkv.
      pose proof (list_max_le_in (map (fun kv => depth (snd kv)) kvs) (depth (snd kv))
                    (in_map (fun kv => depth (snd kv)) kvs kv Hkv)). lia. }
    clear Hf Hlen. induction kvs as [|kv kvs IHl]; [constructor|].
    inversion IH as [|? ? Hx Hl]; subst. destruct Hall as ((Hk & Hwx) & Hwl).
    constructor.
    + split; [exact Hk|]. intros rest'. apply Hx; [exact Hwx|]. apply Hd. now left.
    + apply IHl; [exact Hl|exact Hwl|]. intros y Hy. apply Hd. now right.
Qed.

(* the nesting depth is bounded by the length of the serialisation: the size fuel is adequate *)
Lemma flat_map_length_in {A} (f : A -> bytes) l x : In x l -> (length (f x) <= length (flat_map f l))%nat.
Proof.
  induction l as [|y l IH]; [contradiction|]. intros [->|Hin]; cbn [flat_map]; rewrite app_length; [lia|].
  specialize (IH Hin). lia.
Qed.

Lemma list_max_bound (l : list nat) b : (forall x, In x l -> (x <= b)%nat) -> (list_max l <= b)%nat.
Proof.
  induction l as [|y l IH]; intros H; unfold list_max in *; cbn [fold_right]; [lia|].
  pose proof (H y (or_introl eq_refl)). specialize (IH (fun x Hx => H x (or_intror Hx))). lia.
Qed.

Lemma depth_le_length v : (depth v <= length (ser_value v))%nat.
Proof.
  induction v as [ |s|n|n|n|b|n|s|s|n|s|l IH|kvs IH] using value_ind'; cbn [depth ser_value length]; try lia.
  - rewrite app_length. apply le_n_S.
    assert (list_max (map depth l) <= length (flat_map ser_value l))%nat; [|lia].
    apply list_max_bound. intros d Hd. apply in_map_iff in Hd. destruct Hd as (x & <- & Hx).
    rewrite Forall_forall in IH. specialize (IH x Hx).
    pose proof (flat_map_length_in ser_value l x Hx). lia.
  - rewrite app_length. apply le_n_S.
    assert (list_max (map (fun kv => depth (snd kv)) kvs) <=
            length (flat_map (fun kv => (DOC_TEXT_CODE :: ser_string (fst kv)) ++ ser_value (snd kv)) kvs))%nat; [|lia].
    apply list_max_bound. intros d Hd. apply in_map_iff in Hd. destruct Hd as (x & <- & Hx).
    rewrite Forall_forall in IH. specialize (IH x Hx).
    pose proof (flat_map_length_in (fun kv => (DOC_TEXT_CODE :: ser_string (fst kv)) ++ ser_value (snd kv)) kvs x Hx) as Hl.
    cbv beta in Hl. rewrite app_length in Hl. lia.
Qed.

(* ------------------------------------------------------------------ documents *)
(* what the API can add: machine-sized fields; a top-level pre-tokenized text is always FPreTok
   (OwnedValue::PreTokStr at the top level is the same ReferenceValueLeaf::PreTokStr) *)
Definition wf_fvalue (fv : fvalue) : Prop :=
  match fv with
  | FVal (VPreTok _) => False
  | FVal v => wf_value v
  | FPreTok text _ => len text < 2 ^ 64
  end.

Definition wf_doc (d : doc) : Prop :=
  len d < 2 ^ 64 /\ Forall (fun fv => fst fv < 2 ^ 32 /\ wf_fvalue (snd fv)) d.

Lemma wf_stored_value fv : wf_fvalue fv -> wf_value (stored_value fv) /\ ser_fvalue fv = ser_value (stored_value fv).
Proof.
  destruct fv as [v|t j]; cbn [wf_fvalue stored_value ser_fvalue]; [|intros H; split; [exact H|reflexivity]].
  destruct v; intros H; try contradiction; split; try exact H; reflexivity.
Qed.

Definition ser_field (fv : N * fvalue) : bytes := le_bytes 4 (fst fv) ++ ser_fvalue (snd fv).

Lemma de_fields_roundtrip fuel fvs : forall rest,
  Forall (fun fv => fst fv < 2 ^ 32 /\ wf_fvalue (snd fv) /\ (depth (stored_value (snd fv)) <= fuel)%nat) fvs ->
  de_fields fuel (length fvs) (flat_map ser_field fvs ++ rest) =
  DOk (map (fun fv => (fst fv, stored_value (snd fv))) fvs, rest).
Proof.
  induction fvs as [|[f fv] fvs IH]; intros rest Hall; [reflexivity|].
  inversion Hall as [|? ? (Hf & Hw & Hd) Hl]; subst. cbn [fst snd] in *.
  cbn [length flat_map de_fields map fst snd]. unfold ser_field at 1. cbn [fst snd]. rewrite <- !app_assoc.
  rewrite de_fixed_roundtrip by (rewrite pow_4; exact Hf). cbn [dbind].
  destruct (wf_stored_value fv Hw) as (Hwv & ->).
  rewrite value_roundtrip by assumption. cbn [dbind].
  rewrite (IH rest Hl). reflexivity.
Qed.

Lemma filter_length_le {A} (p : A -> bool) l : (length (filter p l) <= length l)%nat.
Proof. induction l as [|x l IH]; cbn [filter length]; [lia|]. destruct (p x); cbn [length]; lia. Qed.

Theorem doc_roundtrip stored d : wf_doc d -> de_doc (ser_doc stored d) = DOk (stored_part stored d).
Proof.
  intros (Hlen & Hall). unfold de_doc, de_doc_fuel, ser_doc, stored_part.
  set (fvs := stored_fields stored d).
  assert (Hfl : len fvs < 2 ^ 64).
  { unfold fvs, stored_fields, len in *. pose proof (filter_length_le (fun fv => stored (fst fv)) d). lia. }
  rewrite vint_roundtrip by exact Hfl. cbn [of_opt dbind].
  unfold len. rewrite Nat2N.id.
  change (flat_map (fun fv => le_bytes 4 (fst fv) ++ ser_fvalue (snd fv)) fvs) with (flat_map ser_field fvs).
  rewrite <- (app_nil_r (flat_map ser_field fvs)).
  rewrite de_fields_roundtrip; [reflexivity|].
  rewrite app_nil_r.
  apply Forall_forall. intros fv Hin.
  assert (Hind : In fv d) by (unfold fvs, stored_fields in Hin; apply filter_In in Hin; tauto).
  rewrite Forall_forall in Hall. destruct (Hall fv Hind) as (Hf & Hw).
  split; [exact Hf|]. split; [exact Hw|].
  destruct (wf_stored_value (snd fv) Hw) as (_ & Hser).
  pose proof (depth_le_length (stored_value (snd fv))) as Hd. rewrite <- Hser in Hd.
  pose proof (flat_map_length_in ser_field fvs fv Hin) as Hl.
  unfold ser_field at 1 in Hl. rewrite app_length in Hl. rewrite app_length. lia.
Qed.

(* fields that are not marked stored never come back; the others keep their values in order *)
Theorem only_stored stored d f v : In (f, v) (stored_part stored d) -> stored f = true.
Proof.
  unfold stored_part, stored_fields. intros H. apply in_map_iff in H. destruct H as (fv & E & Hin).
  apply filter_In in Hin. injection E as <- _. tauto.
Qed.

Theorem values_per_field_in_order stored d f : stored f = true ->
  filter (fun x => N.eqb (fst x) f) (stored_part stored d) =
  map (fun fv => (fst fv, stored_value (snd fv))) (filter (fun fv => N.eqb (fst fv) f) d).
Proof.
  intros Hs. unfold stored_part, stored_fields.
  induction d as [|[g fv] d IH]; [reflexivity|]. cbn [filter fst].
  destruct (N.eqb_spec g f) as [->|Hne].
  - rewrite Hs. cbn [map filter fst]. rewrite N.eqb_refl. cbn [map]. now rewrite IH.
  - destruct (stored g); [|exact IH]. cbn [map filter fst].
    replace (N.eqb g f) with false by (symmetry; now apply N.eqb_neq). exact IH.
Qed.

(* a serialised document is never empty: the block store's "empty block" test never drops a document *)
Theorem ser_doc_nonempty stored d : ser_doc stored d <> [].
Proof.
  unfold ser_doc. pose proof (vint_enc_nonempty (len (stored_fields stored d))).
  destruct (vint_enc (len (stored_fields stored d))); [congruence|discriminate].
Qed.
