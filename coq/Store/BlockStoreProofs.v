(* C09 -- proofs about the block store (model: BlockStore.v).
   1. block offset table: block_read_doc (seal_docs ds) i = nth i ds  (incl. the last document, whose end
      is the `unwrap_or(index_start)` branch);
   2. StoreWriter: for every block size and every list of non-empty serialised documents the writer never
      panics, the closed blocks partition the documents in order, each closed block holds >= 1 document,
      the registered checkpoints form a contiguous chain starting at document 0 / byte 0 and the data
      area is the concatenation of the compressed sealed blocks;
   3. the block cache (any replacement policy) is transparent. *)
From TV Require Import Base.Prelude Generated.Constants Store.VInt Store.SkipIndex Store.SkipIndexProofs Store.BlockStore.
Local Open Scope N_scope.

(* ------------------------------------------------------------------ 1. the offset table of a block *)
Fixpoint offsets (acc : N) (ds : list bytes) : list N :=
  match ds with
  | [] => []
  | d :: r => acc :: offsets (acc + len d) r
  end.

Definition seal_docs (ds : list bytes) : bytes := seal_block (concat ds) (offsets 0 ds).

Lemma offsets_length acc ds : length (offsets acc ds) = length ds.
Proof. revert acc; induction ds as [|d r IH]; intros acc; cbn [offsets length]; [reflexivity|now rewrite IH]. Qed.

Lemma offsets_snoc acc ds d : offsets acc (ds ++ [d]) = offsets acc ds ++ [acc + len (concat ds)].
Proof.
  revert acc; induction ds as [|x r IH]; intros acc; cbn [app offsets concat].
  - now rewrite len_nil, N.add_0_r.
  - rewrite IH, len_app. now rewrite N.add_assoc.
Qed.

Lemma flat4_length (l : list N) : length (flat_map (le_bytes 4) l) = (4 * length l)%nat.
Proof. induction l as [|x l IH]; [reflexivity|]. cbn [flat_map]. rewrite app_length, le_bytes_length, IH. cbn [length]. lia. Qed.

Lemma skipn_flat4 k : forall l, skipn (4 * k) (flat_map (le_bytes 4) l) = flat_map (le_bytes 4) (skipn k l).
Proof.
  induction k as [|k IH]; intros l; [reflexivity|].
  destruct l as [|x l]; [now rewrite !skipn_nil|].
  cbn [flat_map]. replace (4 * S k)%nat with (length (le_bytes 4 x) + 4 * k)%nat by (rewrite le_bytes_length; lia).
  rewrite skipn_app, skipn_all2 by lia.
  replace (length (le_bytes 4 x) + 4 * k - length (le_bytes 4 x))%nat with (4 * k)%nat by lia.
  cbn [app skipn]. apply IH.
Qed.

Lemma read_u32_flat4 (l : list N) (k : nat) :
  (forall x, In x l -> x < 2 ^ 32) ->
  read_u32_at (flat_map (le_bytes 4) l) (N.of_nat k * 4) = if Nat.ltb k (length l) then Some (nth k l 0) else None.
Proof.
  intros Hsm. unfold read_u32_at.
  replace (N.to_nat (N.of_nat k * 4)) with (4 * k)%nat by lia.
  rewrite skipn_flat4.
  destruct (Nat.ltb_spec k (length l)) as [Hlt|Hge].
  - destruct (skipn k l) as [|x r] eqn:E.
    { apply (f_equal (@length N)) in E. rewrite skipn_length in E. cbn in E. lia. }
    assert (Hx : nth k l 0 = x).
    { rewrite <- (firstn_skipn k l) at 1. rewrite app_nth2; rewrite firstn_length_le by lia; [|lia].
      rewrite Nat.sub_diag, E. reflexivity. }
    cbn [flat_map]. rewrite app_length, le_bytes_length. cbn [Nat.leb].
    pose proof (firstn_app_exact (le_bytes 4 x) (flat_map (le_bytes 4) r)) as Hf. rewrite le_bytes_length in Hf.
    rewrite Hf, le_value_bytes; [now rewrite Hx|].
    change (256 ^ N.of_nat 4) with (2 ^ 32). apply Hsm. rewrite <- Hx. apply nth_In. exact Hlt.
  - rewrite skipn_all2 by lia. reflexivity.
Qed.

Lemma read_u32_mid (a b : bytes) x : x < 2 ^ 32 -> read_u32_at (a ++ le_bytes 4 x ++ b) (len a) = Some x.
Proof.
  intros Hx. unfold read_u32_at. rewrite skipn_len_app.
  rewrite app_length, le_bytes_length. cbn [Nat.leb].
  pose proof (firstn_app_exact (le_bytes 4 x) b) as Hf. rewrite le_bytes_length in Hf.
  rewrite Hf, le_value_bytes; [reflexivity|exact Hx].
Qed.

Lemma slice_mid (a m b : bytes) : slice (a ++ m ++ b) (len a) (len a + len m) = m.
Proof.
  unfold slice. rewrite skipn_len_app.
  replace (N.to_nat (len a + len m - len a)) with (length m) by (unfold len; lia).
  apply firstn_app_exact.
Qed.

Lemma nth_offsets ds : forall acc k, (k < length ds)%nat ->
  nth k (offsets acc ds) 0 = acc + len (concat (firstn k ds)).
Proof.
  induction ds as [|d r IH]; intros acc k Hk; [cbn in Hk; lia|].
  destruct k as [|k]; cbn [offsets nth firstn concat].
  - now rewrite len_nil, N.add_0_r.
  - rewrite IH by (cbn [length] in Hk; lia). rewrite len_app. lia.
Qed.

Lemma offsets_bound ds acc x : In x (offsets acc ds) -> x <= acc + len (concat ds).
Proof.
  revert acc; induction ds as [|d r IH]; intros acc Hin; [contradiction|].
  cbn [offsets concat] in *. rewrite len_app. destruct Hin as [<-|Hin]; [lia|]. specialize (IH _ Hin). lia.
Qed.

Lemma split_nth (ds : list bytes) k : (k < length ds)%nat ->
  concat ds = concat (firstn k ds) ++ nth k ds [] ++ concat (skipn (S k) ds).
Proof.
  revert k; induction ds as [|d r IH]; intros k Hk; [cbn in Hk; lia|].
  destruct k as [|k]; cbn [firstn skipn concat nth app]; [reflexivity|].
  rewrite <- app_assoc. f_equal. apply IH. cbn [length] in Hk. lia.
Qed.

(* reader.rs block_read_index on a block sealed by the writer *)
Theorem block_read_sealed ds k :
  len (seal_docs ds) < 2 ^ 32 -> (k < length ds)%nat ->
  block_read_doc (seal_docs ds) (N.of_nat k) = Some (nth k ds []).
Proof.
  intros Hsz Hk. unfold seal_docs, seal_block in *.
  set (B := concat ds) in *. set (offs := offsets 0 ds) in *.
  set (I := flat_map (le_bytes 4) offs) in *. set (C := le_bytes 4 (len offs)) in *.
  assert (HlenI : len I = 4 * len ds).
  { unfold I, len. rewrite flat4_length. unfold offs. rewrite offsets_length. lia. }
  assert (HlenC : len C = 4) by (unfold C, len; now rewrite le_bytes_length).
  assert (Hlo : len offs = len ds) by (unfold offs, len; now rewrite offsets_length).
  assert (Hn : len (B ++ I ++ C) = len B + 4 * len ds + 4) by (rewrite !len_app; lia).
  rewrite Hn in Hsz.
  unfold block_read_doc. rewrite Hn.
  replace (N.ltb (len B + 4 * len ds + 4) 4) with false by (symmetry; apply N.ltb_ge; lia).
  replace (len B + 4 * len ds + 4 - 4) with (len (B ++ I)) by (rewrite len_app; lia).
  replace (B ++ I ++ C) with ((B ++ I) ++ C ++ []) at 1 by (now rewrite app_nil_r, app_assoc).
  unfold C at 1. rewrite read_u32_mid by lia. rewrite Hlo.
  assert (Hkl : N.of_nat k < len ds) by (unfold len; lia).
  replace (N.ltb (len ds) (N.of_nat k)) with false by (symmetry; apply N.ltb_ge; lia).
  replace (N.ltb (len B + 4 * len ds + 4) ((len ds + 1) * 4)) with false by (symmetry; apply N.ltb_ge; lia).
  replace (len B + 4 * len ds + 4 - (len ds + 1) * 4) with (len B) by lia.
  replace (len B + len ds * 4) with (len B + len I) by lia.
  rewrite slice_mid.
  assert (Hoffs_small : forall x, In x offs -> x < 2 ^ 32).
  { intros x Hx. pose proof (offsets_bound ds 0 x Hx). fold B in H. lia. }
  assert (Hlen_offs : length offs = length ds) by (unfold offs; apply offsets_length).
  assert (Hr1 : read_u32_at I (N.of_nat k * 4) = Some (nth k offs 0)).
  { unfold I. rewrite (read_u32_flat4 offs k Hoffs_small), Hlen_offs.
    replace (Nat.ltb k (length ds)) with true by (symmetry; apply Nat.ltb_lt; lia). reflexivity. }
  assert (Hr2 : read_u32_at I ((N.of_nat k + 1) * 4) = if Nat.ltb (S k) (length ds) then Some (nth (S k) offs 0) else None).
  { replace ((N.of_nat k + 1) * 4) with (N.of_nat (S k) * 4) by lia.
    unfold I. rewrite (read_u32_flat4 offs (S k) Hoffs_small), Hlen_offs. reflexivity. }
  rewrite Hr1, Hr2.
  assert (Hstart : nth k offs 0 = len (concat (firstn k ds))).
  { unfold offs. rewrite nth_offsets by exact Hk. lia. }
  assert (Hsplit := split_nth ds k Hk). fold B in Hsplit.
  assert (Hend : (match (if Nat.ltb (S k) (length ds) then Some (nth (S k) offs 0) else None) with
                  | Some e => e | None => len B mod 2 ^ 32 end) = len (concat (firstn k ds)) + len (nth k ds [])).
  { destruct (Nat.ltb_spec (S k) (length ds)) as [Hlt|Hge].
    - unfold offs. rewrite nth_offsets by exact Hlt.
      replace (firstn (S k) ds) with (firstn k ds ++ [nth k ds []]).
      + rewrite concat_app, len_app. cbn [concat]. rewrite app_nil_r. lia.
      + clear -Hk. revert k Hk; induction ds as [|d r IH]; intros k Hk; [cbn in Hk; lia|].
        destruct k as [|k]; [reflexivity|]. cbn [firstn nth app]. f_equal. apply IH. cbn [length] in Hk. lia.
    - rewrite N.mod_small by lia. rewrite Hsplit, !len_app.
      assert (skipn (S k) ds = []) by (apply skipn_all2; lia). rewrite H. cbn [concat]. rewrite len_nil. lia. }
  rewrite Hend, Hstart.
  assert (Hle : len (concat (firstn k ds)) + len (nth k ds []) <= len B).
  { rewrite Hsplit, !len_app. lia. }
  replace (N.leb (len (concat (firstn k ds))) (len (concat (firstn k ds)) + len (nth k ds []))) with true
    by (symmetry; apply N.leb_le; lia).
  replace (N.leb (len (concat (firstn k ds)) + len (nth k ds [])) (len B + 4 * len ds + 4)) with true
    by (symmetry; apply N.leb_le; lia).
  cbn [andb]. f_equal.
  replace (B ++ I ++ C) with (concat (firstn k ds) ++ nth k ds [] ++ (concat (skipn (S k) ds) ++ I ++ C))
    by (rewrite Hsplit, <- !app_assoc; reflexivity).
  apply slice_mid.
Qed.

(* ------------------------------------------------------------------ 2. the writer *)
Section Writer.
  Variable compress : bytes -> bytes.
  Variable block_size : N.

  Notation bc_register := BlockStore.bc_register.
  Notation sw_flush := (BlockStore.sw_flush compress).
  Notation sw_store := (BlockStore.sw_store compress block_size).
  Notation sw_store_all := (BlockStore.sw_store_all compress block_size).

  (* checkpoints / data area of a list of closed blocks (each a list of documents) *)
  Fixpoint cps_of (doc off : N) (blocks : list (list bytes)) : list checkpoint :=
    match blocks with
    | [] => []
    | b :: r =>
        let c := compress (seal_docs b) in
        {| doc_start := doc; doc_end := doc + len b; byte_start := off; byte_end := off + len c |}
          :: cps_of (doc + len b) (off + len c) r
    end.

  Definition data_of (blocks : list (list bytes)) : bytes :=
    concat (map (fun b => compress (seal_docs b)) blocks).

  Definition ndocs_of (blocks : list (list bytes)) : N := len (concat blocks).

  Lemma cps_of_snoc blocks b : forall doc off,
    cps_of doc off (blocks ++ [b]) =
    cps_of doc off blocks ++
    [{| doc_start := doc + ndocs_of blocks; doc_end := doc + ndocs_of blocks + len b;
        byte_start := off + len (data_of blocks);
        byte_end := off + len (data_of blocks) + len (compress (seal_docs b)) |}].
  Proof.
    induction blocks as [|x r IH]; intros doc off.
    - cbn. unfold ndocs_of, data_of. cbn. now rewrite !N.add_0_r.
    - cbn [app cps_of]. rewrite IH. unfold ndocs_of, data_of. cbn [concat map]. rewrite !len_app.
      f_equal. f_equal. f_equal. f_equal; lia.
  Qed.

  Lemma cps_of_last blocks : forall doc off,
    match last_opt (cps_of doc off blocks) with
    | Some p => doc_end p = doc + ndocs_of blocks /\ byte_end p = off + len (data_of blocks)
    | None => blocks = []
    end.
  Proof.
    intros doc off. destruct blocks as [|x r] using rev_ind; [reflexivity|].
    rewrite cps_of_snoc, last_opt_snoc. cbn [doc_end byte_end].
    unfold ndocs_of, data_of. rewrite concat_app, map_app, concat_app, !len_app. cbn [concat map].
    rewrite !app_nil_r. split; lia.
  Qed.

  Lemma cps_of_chain blocks : forall doc off,
    Forall (fun b => b <> []) blocks -> chain (cps_of doc off blocks).
  Proof.
    induction blocks as [|b r IH]; intros doc off Hne; [exact I|].
    inversion Hne as [|? ? Hb Hr]; subst. cbn [cps_of chain]. split; [|split; [|apply IH; exact Hr]].
    - unfold cp_ok. cbn [doc_start doc_end byte_start byte_end].
      assert (0 < len b) by (destruct b; [congruence|unfold len; cbn; lia]). lia.
    - destruct r as [|b2 r]; [exact I|]. cbn [cps_of]. apply follows_spec. cbn. split; reflexivity.
  Qed.

  (* writer invariant *)
  Definition winv (docs : list bytes) (st : sw_state) : Prop :=
    exists blocks pending,
      docs = concat blocks ++ pending /\
      Forall (fun b => b <> []) blocks /\
      sw_block st = concat pending /\ sw_pos st = offsets 0 pending /\ sw_ndocs st = len pending /\
      bc_cps (sw_bc st) = cps_of 0 0 blocks /\
      bc_out (sw_bc st) = data_of blocks /\
      bc_first_doc (sw_bc st) = ndocs_of blocks /\
      layers_inv cb_serialize STORE_CHECKPOINT_PERIOD (bc_cps (sw_bc st)) (bc_layers (sw_bc st)).

  Lemma concat_nonempty (l : list bytes) : Forall (fun d => d <> []) l -> l <> [] -> concat l <> [].
  Proof.
    destruct l as [|d r]; [congruence|]. intros H _. inversion H; subst. cbn [concat].
    destruct d; [congruence|discriminate].
  Qed.

  (* closing the pending block *)
  Lemma flush_inv docs st :
    Forall (fun d => d <> []) docs -> winv docs st ->
    exists st', sw_flush st = Some st' /\ winv docs st' /\ sw_block st' = [].
  Proof.
    intros Hdocs (blocks & pending & Hd & Hne & Hblk & Hpos & Hnd & Hcps & Hout & Hfirst & Hlay).
    unfold BlockStore.sw_flush. rewrite Hblk.
    destruct pending as [|p0 ps].
    - (* nothing pending *)
      cbn [concat]. exists st. split; [reflexivity|]. split; [|now rewrite Hblk].
      exists blocks, []. rewrite Hblk. repeat split; assumption.
    - set (pending := p0 :: ps) in *.
      assert (Hpne : pending <> []) by discriminate.
      assert (Hpall : Forall (fun d => d <> []) pending) by (rewrite Hd in Hdocs; apply Forall_app in Hdocs; tauto).
      pose proof (concat_nonempty pending Hpall Hpne) as Hcne.
      destruct (concat pending) as [|x y] eqn:Ec; [congruence|]. rewrite <- Ec.
      unfold BlockStore.bc_compress_block.
      replace (N.eqb (sw_ndocs st) 0) with false
        by (symmetry; apply N.eqb_neq; rewrite Hnd; destruct pending; [congruence|unfold len; cbn; lia]).
      rewrite Hpos. fold (seal_docs pending).
      set (cp := {| doc_start := bc_first_doc (sw_bc st); doc_end := bc_first_doc (sw_bc st) + sw_ndocs st;
                    byte_start := len (bc_out (sw_bc st));
                    byte_end := len (bc_out (sw_bc st)) + len (compress (seal_docs pending)) |}).
      assert (Hcp : cps_of 0 0 (blocks ++ [pending]) = bc_cps (sw_bc st) ++ [cp]).
      { rewrite cps_of_snoc, Hcps. unfold cp. rewrite Hfirst, Hout, Hnd, !N.add_0_l. reflexivity. }
      assert (Hne' : Forall (fun b => b <> []) (blocks ++ [pending])).
      { apply Forall_app. split; [exact Hne|]. constructor; [exact Hpne|constructor]. }
      assert (Hch : chain (bc_cps (sw_bc st) ++ [cp])) by (rewrite <- Hcp; apply cps_of_chain; exact Hne').
      destruct (insert_inv cb_serialize cb_deserialize STORE_CHECKPOINT_PERIOD period_ok cb_serialize_nonempty cb_codec_ok (bc_layers (sw_bc st)) _ cp Hlay Hch)
        as (ls' & Hins & Hlay').
      unfold BlockStore.bc_register. rewrite Hins.
      eexists; split; [reflexivity|]. split; [|reflexivity].
      exists (blocks ++ [pending]), []. cbn [sw_block sw_pos sw_ndocs sw_bc bc_cps bc_out bc_first_doc bc_layers].
      repeat split.
      + rewrite concat_app. cbn [concat]. now rewrite !app_nil_r.
      + exact Hne'.
      + symmetry. exact Hcp.
      + unfold data_of. rewrite map_app, concat_app. cbn [map concat]. rewrite app_nil_r. fold (data_of blocks). now rewrite Hout.
      + unfold cp. cbn [doc_end]. unfold ndocs_of. rewrite concat_app, len_app. cbn [concat]. rewrite app_nil_r.
        fold (ndocs_of blocks). rewrite Hfirst, Hnd. reflexivity.
      + exact Hlay'.
  Qed.

  Lemma store_inv docs st d :
    Forall (fun d => d <> []) (docs ++ [d]) -> winv docs st ->
    exists st', sw_store st d = Some st' /\ winv (docs ++ [d]) st'.
  Proof.
    intros Hdocs Hinv. destruct Hinv as (blocks & pending & Hd & Hne & Hblk & Hpos & Hnd & Hrest).
    set (st1 := {| sw_block := sw_block st ++ d; sw_pos := sw_pos st ++ [len (sw_block st)];
                   sw_ndocs := sw_ndocs st + 1; sw_bc := sw_bc st |}).
    assert (Hinv1 : winv (docs ++ [d]) st1).
    { exists blocks, (pending ++ [d]). unfold st1. cbn [sw_block sw_pos sw_ndocs sw_bc].
      split; [now rewrite Hd, app_assoc|]. split; [exact Hne|].
      split; [rewrite Hblk, concat_app; cbn [concat]; now rewrite app_nil_r|].
      split; [rewrite Hpos, Hblk, offsets_snoc; now rewrite N.add_0_l|].
      split; [rewrite Hnd, len_app; unfold len; cbn; lia|exact Hrest]. }
    unfold BlockStore.sw_store, BlockStore.sw_check_flush. fold st1.
    destruct (N.ltb block_size (len (sw_block st1) + len (sw_pos st1) * STORE_INDEX_ENTRY_COST)).
    - destruct (flush_inv (docs ++ [d]) st1 Hdocs Hinv1) as (st' & Hf & Hinv' & _). eauto.
    - eauto.
  Qed.

  Lemma store_all_inv ds : forall docs st,
    Forall (fun d => d <> []) (docs ++ ds) -> winv docs st ->
    exists st', sw_store_all st ds = Some st' /\ winv (docs ++ ds) st'.
  Proof.
    induction ds as [|d r IH]; intros docs st Hne Hinv.
    - rewrite app_nil_r. eexists; split; [reflexivity|exact Hinv].
    - replace (docs ++ d :: r) with ((docs ++ [d]) ++ r) in * by now rewrite <- app_assoc.
      assert (Hne1 : Forall (fun d => d <> []) (docs ++ [d])) by (apply Forall_app in Hne; tauto).
      destruct (store_inv docs st d Hne1 Hinv) as (st1 & Hs & Hinv1).
      cbn [BlockStore.sw_store_all]. rewrite Hs. apply IH; assumption.
  Qed.

  Lemma winv_new : winv [] sw_new.
  Proof.
    exists [], []. cbn. repeat split; try reflexivity; constructor.
  Qed.

  (* StoreWriter::store_bytes* ; close's flush: for EVERY block size and document list *)
  Theorem writer_blocks docs :
    Forall (fun d => d <> []) docs ->
    exists st st' blocks,
      sw_store_all sw_new docs = Some st /\ sw_flush st = Some st' /\
      docs = concat blocks /\ Forall (fun b => b <> []) blocks /\
      bc_cps (sw_bc st') = cps_of 0 0 blocks /\ chain (bc_cps (sw_bc st')) /\
      bc_out (sw_bc st') = data_of blocks /\
      layers_inv cb_serialize STORE_CHECKPOINT_PERIOD (bc_cps (sw_bc st')) (bc_layers (sw_bc st')).
  Proof.
    intros Hne.
    destruct (store_all_inv docs [] sw_new Hne winv_new) as (st & Hs & Hinv). cbn [app] in Hinv.
    destruct (flush_inv docs st Hne Hinv) as (st' & Hf & (blocks & pending & Hd & Hbne & Hblk & _ & _ & Hcps & Hout & _ & Hlay) & Hempty).
    exists st, st', blocks. repeat split; try assumption.
    - assert (pending = []).
      { destruct pending as [|p ps]; [reflexivity|]. exfalso.
        assert (Hp : Forall (fun d => d <> []) (p :: ps)) by (rewrite Hd in Hne; apply Forall_app in Hne; tauto).
        apply (concat_nonempty (p :: ps) Hp ltac:(discriminate)). rewrite <- Hblk. exact Hempty. }
      subst pending. now rewrite app_nil_r in Hd.
    - rewrite Hcps. apply cps_of_chain. exact Hbne.
  Qed.
End Writer.

(* ------------------------------------------------------------------ 3. the block cache *)
Section Cache.
  Variable decompress : bytes -> option bytes.

  Definition cache_ok (cache : N -> option bytes) (r : store_reader) (cps : list checkpoint) : Prop :=
    forall cp b, In cp cps -> cache (byte_start cp) = Some b -> read_block decompress r cp = Some b.

  (* a hit equals a miss: with ANY cache content that was filled from this reader, get is unchanged *)
  Theorem cache_transparent cache r cps d :
    skip_seek (sr_layers r) d = res_of (spec_seek cps d) -> cache_ok cache r cps ->
    store_get_cached decompress cache r d = store_get decompress r d.
  Proof.
    intros Hseek Hok. unfold store_get_cached, store_get. rewrite Hseek.
    destruct (spec_seek cps d) as [cp|] eqn:E; [|reflexivity]. cbn [res_of].
    unfold read_block_cached. destruct (cache (byte_start cp)) as [b|] eqn:Ec; [|reflexivity].
    unfold spec_seek in E. apply find_some in E. destruct E as (Hin & _).
    now rewrite (Hok cp b Hin Ec).
  Qed.

  (* inserting the block that was just read keeps the cache sound as long as block start offsets are
     distinct (compressed blocks are non-empty); evicting anything keeps it sound *)
  Theorem cache_put_ok cache r cps cp b :
    cache_ok cache r cps -> read_block decompress r cp = Some b ->
    (forall cp', In cp' cps -> byte_start cp' = byte_start cp -> cp' = cp) ->
    cache_ok (fun k => if N.eqb k (byte_start cp) then Some b else cache k) r cps.
  Proof.
    intros Hok Hrd Hinj cp' b' Hin Hc.
    destruct (N.eqb_spec (byte_start cp') (byte_start cp)) as [E|E].
    - injection Hc as <-. rewrite (Hinj cp' Hin E). exact Hrd.
    - apply Hok; assumption.
  Qed.

  Theorem cache_evict_ok cache cache' r cps :
    cache_ok cache r cps -> (forall k b, cache' k = Some b -> cache k = Some b) -> cache_ok cache' r cps.
  Proof. intros Hok Hsub cp b Hin Hc. apply Hok; [exact Hin|apply Hsub; exact Hc]. Qed.
End Cache.

(* ------------------------------------------------------------------ 4. get = nth, for every block size / codec *)
Section Get.
  Variable compress : bytes -> bytes.
  Variable decompress : bytes -> option bytes.
  Hypothesis codec_ok : forall x, decompress (compress x) = Some x.

  Notation cps_of := (cps_of compress).
  Notation data_of := (data_of compress).

  Lemma get_blocks blocks : forall doc off pre i,
    len pre = off -> Forall (fun b => len (seal_docs b) < 2 ^ 32) blocks ->
    doc <= i < doc + ndocs_of blocks ->
    exists cp, find (after i) (cps_of doc off blocks) = Some cp /\ doc_start cp <= i /\
      byte_start cp <= byte_end cp /\ byte_end cp <= len (pre ++ data_of blocks) /\
      match decompress (slice (pre ++ data_of blocks) (byte_start cp) (byte_end cp)) with
      | Some blk => block_read_doc blk (i - doc_start cp) = Some (nth (N.to_nat (i - doc)) (concat blocks) [])
      | None => False
      end.
  Proof.
    induction blocks as [|b r IH]; intros doc off pre i Hpre Hsz Hi.
    - unfold ndocs_of in Hi. cbn in Hi. lia.
    - inversion Hsz as [|? ? Hb Hr]; subst.
      unfold ndocs_of in Hi. cbn [concat] in Hi. rewrite len_app in Hi.
      cbn [BlockStoreProofs.cps_of find]. unfold after at 1. cbn [doc_end].
      unfold BlockStoreProofs.data_of. cbn [map concat]. fold (data_of r).
      set (c := compress (seal_docs b)).
      destruct (N.ltb_spec i (doc + len b)) as [Hlt|Hge].
      + eexists; split; [reflexivity|]. cbn [doc_start byte_start byte_end].
        split; [lia|]. split; [lia|]. split; [rewrite !len_app; lia|].
        rewrite slice_mid. unfold c. rewrite codec_ok.
        assert (Hk : (N.to_nat (i - doc) < length b)%nat) by (unfold len in Hlt; lia).
        replace (i - doc) with (N.of_nat (N.to_nat (i - doc))) at 1 by lia.
        rewrite (block_read_sealed b _ Hb Hk). now rewrite app_nth1 by exact Hk.
      + destruct (IH (doc + len b) (len pre + len c) (pre ++ c) i ltac:(apply len_app) Hr
                     ltac:(fold (ndocs_of r) in Hi; lia)) as (cp & Hf & H1 & H2 & H3 & H4).
        exists cp. rewrite <- app_assoc in H3, H4. repeat split; try assumption.
        destruct (decompress (slice (pre ++ c ++ data_of r) (byte_start cp) (byte_end cp))); [|exact H4].
        rewrite H4. f_equal. rewrite app_nth2 by (unfold len in Hge; lia). f_equal. unfold len. lia.
  Qed.

  Lemma cps_of_small blocks : forall doc off,
    doc + ndocs_of blocks < 2 ^ 32 -> off + len (data_of blocks) < 2 ^ 32 -> Forall cp_small (cps_of doc off blocks).
  Proof.
    induction blocks as [|b r IH]; intros doc off Hd Ho; [constructor|].
    unfold ndocs_of in Hd. cbn [concat] in Hd. rewrite len_app in Hd. fold (ndocs_of r) in Hd.
    unfold BlockStoreProofs.data_of in Ho. cbn [map concat] in Ho. rewrite len_app in Ho. fold (data_of r) in Ho.
    cbn [BlockStoreProofs.cps_of]. constructor; [|apply IH; lia].
    unfold cp_small. cbn [doc_end byte_start byte_end].
    assert (2 ^ 32 < 2 ^ 64) by (apply N.pow_lt_mono_r; lia). repeat split; lia.
  Qed.

  Lemma block_sizes (blocks : list (list bytes)) b :
    In b blocks -> len (concat b) <= len (concat (concat blocks)) /\ len b <= len (concat blocks).
  Proof.
    induction blocks as [|x r IH]; [contradiction|]. cbn [concat]. rewrite concat_app, !len_app.
    intros [->|Hin]; [lia|]. specialize (IH Hin). lia.
  Qed.

  Lemma seal_docs_len b : len (seal_docs b) = len (concat b) + 4 * len b + 4.
  Proof.
    unfold seal_docs, seal_block. rewrite !len_app. unfold len at 2 3.
    rewrite flat4_length, le_bytes_length, offsets_length. unfold len. lia.
  Qed.

  (* StoreReader::get_document_bytes on what StoreWriter wrote: exactly the i-th document,
     for every block size, every document list (non-empty documents, incl. documents larger than a block)
     and every codec with decompress (compress x) = Some x *)
  Theorem store_get_correct block_size docs st st' bufs i :
    Forall (fun d => d <> []) docs ->
    sw_store_all compress block_size sw_new docs = Some st -> sw_flush compress st = Some st' ->
    sib_finish cb_serialize (bc_layers (sw_bc st')) None = Some bufs ->
    len (concat docs) + 4 * len docs + 4 < 2 ^ 32 ->
    len (bc_out (sw_bc st')) < 2 ^ 32 -> Forall (fun b => len b < 2 ^ 32) bufs ->
    (i < length docs)%nat ->
    forall version cid,
    store_get decompress {| sr_data := bc_out (sw_bc st'); sr_layers := rev bufs; sr_version := version; sr_comp_id := cid |}
              (N.of_nat i) = Some (nth i docs []).
  Proof.
    intros Hne Hs Hf Hfin Hsz Hout Hbufs Hi version cid.
    destruct (writer_blocks compress block_size docs Hne) as (st0 & st0' & blocks & Hs0 & Hf0 & Hd & Hbne & Hcps & Hch & Hdata & Hlay).
    rewrite Hs in Hs0. injection Hs0 as <-. rewrite Hf in Hf0. injection Hf0 as <-.
    assert (Hblocks_ne : blocks <> []).
    { intros ->. cbn in Hd. subst docs. cbn in Hi. lia. }
    assert (Hcne : bc_cps (sw_bc st') <> []).
    { rewrite Hcps. destruct blocks; [congruence|discriminate]. }
    assert (Hnd : ndocs_of blocks = len docs) by (unfold ndocs_of; now rewrite Hd).
    assert (Hsm : Forall cp_small (bc_cps (sw_bc st'))).
    { rewrite Hcps. apply cps_of_small; rewrite ?N.add_0_l; [rewrite Hnd; lia|rewrite <- Hdata; exact Hout]. }
    unfold store_get. cbn [sr_layers sr_data].
    rewrite (skip_seek_from_inv _ _ _ (N.of_nat i) Hch Hcne Hsm Hlay Hfin Hbufs).
    assert (Hblk_sz : Forall (fun b => len (seal_docs b) < 2 ^ 32) blocks).
    { apply Forall_forall. intros b Hb. rewrite seal_docs_len.
      destruct (block_sizes blocks b Hb) as (H1 & H2).
      assert (H1' : len (concat b) <= len (concat docs)) by (rewrite Hd; exact H1).
      assert (H2' : len b <= len docs) by (rewrite Hd; exact H2). lia. }
    destruct (get_blocks blocks 0 0 [] (N.of_nat i) eq_refl Hblk_sz ltac:(rewrite Hnd; unfold len; lia))
      as (cp & Hfind & H1 & H2 & H3 & H4).
    cbn [app] in H3, H4.
    change (spec_seek (bc_cps (sw_bc st')) (N.of_nat i)) with (find (after (N.of_nat i)) (bc_cps (sw_bc st'))).
    rewrite Hcps, Hfind. cbn [res_of].
    unfold read_block. cbn [sr_data]. rewrite Hdata.
    replace (N.leb (byte_start cp) (byte_end cp) && N.leb (byte_end cp) (len (data_of blocks))) with true
      by (symmetry; apply andb_true_iff; split; apply N.leb_le; assumption).
    destruct (decompress (slice (data_of blocks) (byte_start cp) (byte_end cp))); [|contradiction].
    replace (N.ltb (N.of_nat i) (doc_start cp)) with false by (symmetry; apply N.ltb_ge; exact H1).
    rewrite H4, N.sub_0_r, Nat2N.id, Hd. reflexivity.
  Qed.
End Get.
