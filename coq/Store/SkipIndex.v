(* C09 -- the skip index of the document store: src/store/index/{mod,block,skip_index_builder,skip_index}.rs.
   Model: checkpoints (doc range, byte range); CheckpointBlock (delta-encoded VInts); LayerBuilder /
   SkipIndexBuilder (a block is closed every CHECKPOINT_PERIOD entries and its summary pushed one layer
   up); serialize_into; SkipIndex::open; LayerCursor; SkipIndex::seek (layer descent); checkpoints().
   The layer logic is generic in the block codec (Section variables ser/deser); the concrete
   delta/VInt codec is proved to satisfy the Section hypotheses in SkipIndexProofs.v. *)
From TV Require Import Base.Prelude Generated.Constants Store.VInt.
Local Open Scope N_scope.

Record checkpoint := { doc_start : N; doc_end : N; byte_start : N; byte_end : N }.

Definition cp_eqb (a b : checkpoint) : bool :=
  N.eqb (doc_start a) (doc_start b) && N.eqb (doc_end a) (doc_end b) &&
  N.eqb (byte_start a) (byte_start b) && N.eqb (byte_end a) (byte_end b).

Definition len {A} (l : list A) : N := N.of_nat (length l).

(* Checkpoint::follows *)
Definition follows (c p : checkpoint) : bool :=
  N.eqb (doc_start c) (doc_end p) && N.eqb (byte_start c) (byte_end p).

Fixpoint last_opt {A} (l : list A) : option A :=
  match l with
  | [] => None
  | [x] => Some x
  | _ :: r => last_opt r
  end.

(* ------------------------------------------------------------------ CheckpointBlock codec (block.rs) *)
Definition cb_entry (c : checkpoint) : bytes :=
  vint_enc (doc_end c - doc_start c) ++ vint_enc (byte_end c - byte_start c).

(* CheckpointBlock::serialize *)
Definition cb_serialize (cps : list checkpoint) : bytes :=
  vint_enc (len cps) ++
  match cps with
  | [] => []
  | c0 :: _ => vint_enc (doc_start c0) ++ vint_enc (byte_start c0) ++ flat_map cb_entry cps
  end.

Fixpoint cb_read_entries (n : nat) (doc off : N) (data : bytes) : option (list checkpoint * bytes) :=
  match n with
  | O => Some ([], data)
  | S n' =>
      match read_u32_vint data with
      | None => None
      | Some (num_docs, d1) =>
          match read_u32_vint d1 with
          | None => None
          | Some (nbytes, d2) =>
              match cb_read_entries n' (doc + num_docs) (off + nbytes) d2 with
              | None => None
              | Some (cps, rest) =>
                  Some ({| doc_start := doc; doc_end := doc + num_docs;
                           byte_start := off; byte_end := off + nbytes |} :: cps, rest)
              end
          end
      end
  end.

(* CheckpointBlock::deserialize; None = io error (empty input / VInt eof) or the panic of read_u32_vint
   on a malformed vint -- never distinguished: behaviour on damaged data is not part of C09. *)
Definition cb_deserialize (data : bytes) : option (list checkpoint * bytes) :=
  match data with
  | [] => None
  | _ =>
      match read_u32_vint data with
      | None => None
      | Some (n, d1) =>
          if N.eqb n 0 then Some ([], d1)
          else match read_u32_vint d1 with
               | None => None
               | Some (doc, d2) =>
                   match vint_dec d2 with
                   | None => None
                   | Some (off, d3) => cb_read_entries (N.to_nat n) doc off d3
                   end
               end
      end
  end.

(* ------------------------------------------------------------------ builder (skip_index_builder.rs) *)
Record layer_builder := { lb_buffer : bytes; lb_block : list checkpoint }.
Definition lb_new : layer_builder := {| lb_buffer := []; lb_block := [] |}.

Inductive seek_res := Found (c : checkpoint) | NotFound | Malformed | OutOfFuel.
Inductive scan_res := ScanOk (l : list checkpoint) | ScanPanic | ScanOutOfFuel.

Section Layers.
  Variable ser : list checkpoint -> bytes.
  Variable deser : bytes -> option (list checkpoint * bytes).
  Variable period : N.

  (* CheckpointBlock::push: `assert!(checkpoint.follows(prev_checkpoint))` -- None = the assert fires *)
  Definition block_push (block : list checkpoint) (cp : checkpoint) : option (list checkpoint) :=
    match last_opt block with
    | Some p => if follows cp p then Some (block ++ [cp]) else None
    | None => Some [cp]
    end.

  (* LayerBuilder::flush_block (doc_interval = first.start .. last.end) *)
  Definition lb_flush (lb : layer_builder) : layer_builder * option checkpoint :=
    match lb_block lb with
    | [] => (lb, None)
    | c0 :: _ =>
        let s := ser (lb_block lb) in
        ({| lb_buffer := lb_buffer lb ++ s; lb_block := [] |},
         Some {| doc_start := doc_start c0; doc_end := doc_end (last (lb_block lb) c0);
                 byte_start := len (lb_buffer lb); byte_end := len (lb_buffer lb) + len s |})
    end.

  (* LayerBuilder::insert *)
  Definition lb_insert (lb : layer_builder) (cp : checkpoint) : option (layer_builder * option checkpoint) :=
    match block_push (lb_block lb) cp with
    | None => None
    | Some b =>
        let lb' := {| lb_buffer := lb_buffer lb; lb_block := b |} in
        if N.leb period (len b) then Some (lb_flush lb') else Some (lb', None)
    end.

  (* SkipIndexBuilder::insert: `for layer_id in 0..` with get_layer creating the next layer on demand.
     A freshly created layer that emits a pointer at once (only possible when period <= 1) would make
     the Rust loop create layers forever: None. *)
  Fixpoint sib_insert (ls : list layer_builder) (cp : checkpoint) : option (list layer_builder) :=
    match ls with
    | [] =>
        match lb_insert lb_new cp with
        | Some (lb, None) => Some [lb]
        | _ => None
        end
    | lb :: rest =>
        match lb_insert lb cp with
        | None => None
        | Some (lb', None) => Some (lb' :: rest)
        | Some (lb', Some p) =>
            match sib_insert rest p with
            | Some rest' => Some (lb' :: rest')
            | None => None
            end
        end
    end.

  Fixpoint sib_insert_all (ls : list layer_builder) (cps : list checkpoint) : option (list layer_builder) :=
    match cps with
    | [] => Some ls
    | c :: r => match sib_insert ls c with Some ls' => sib_insert_all ls' r | None => None end
    end.

  (* serialize_into, first loop: push the pointer of the layer below, flush; buffers bottom-up *)
  Fixpoint sib_finish (ls : list layer_builder) (ptr : option checkpoint) : option (list bytes) :=
    match ls with
    | [] => Some []
    | lb :: rest =>
        let lb1 := match ptr with
                   | Some p => match block_push (lb_block lb) p with
                               | Some b => Some {| lb_buffer := lb_buffer lb; lb_block := b |}
                               | None => None
                               end
                   | None => Some lb
                   end in
        match lb1 with
        | None => None
        | Some lb1 =>
            let (lb2, ptr') := lb_flush lb1 in
            match sib_finish rest ptr' with
            | Some bufs => Some (lb_buffer lb2 :: bufs)
            | None => None
            end
        end
    end.

  (* serialize_into, second part: layers top-first, Vec<VInt> of cumulative end offsets, buffers *)
  Fixpoint cumulative (acc : N) (bufs : list bytes) : list N :=
    match bufs with
    | [] => []
    | b :: r => (acc + len b) :: cumulative (acc + len b) r
    end.

  Definition si_layout (bufs_bottom_up : list bytes) : bytes :=
    let layers := rev bufs_bottom_up in
    vint_enc (len layers) ++ flat_map vint_enc (cumulative 0 layers) ++ concat layers.

  Definition si_build (cps : list checkpoint) : option bytes :=
    match sib_insert_all [] cps with
    | None => None
    | Some ls => match sib_finish ls None with
                 | Some bufs => Some (si_layout bufs)
                 | None => None
                 end
    end.

  (* ---------------------------------------------------------------- reader (skip_index.rs) *)
  Fixpoint read_vints (n : nat) (data : bytes) : option (list N * bytes) :=
    match n with
    | O => Some ([], data)
    | S n' => match vint_dec data with
              | None => None
              | Some (v, d1) => match read_vints n' d1 with
                                | Some (vs, rest) => Some (v :: vs, rest)
                                | None => None
                                end
              end
    end.

  (* data.slice(start..end) panics when out of range: None *)
  Fixpoint slice_layers (start : N) (offsets : list N) (body : bytes) : option (list bytes) :=
    match offsets with
    | [] => Some []
    | e :: r =>
        if N.leb start e && N.leb e (len body) then
          match slice_layers e r body with
          | Some ls => Some (firstn (N.to_nat (e - start)) (skipn (N.to_nat start) body) :: ls)
          | None => None
          end
        else None
    end.

  (* SkipIndex::open: layers, top layer first *)
  Definition si_open (data : bytes) : option (list bytes) :=
    match vint_dec data with
    | None => None
    | Some (n, d1) =>
        match read_vints (N.to_nat n) d1 with
        | None => None
        | Some (offsets, body) => slice_layers 0 offsets body
        end
    end.

  (* LayerCursor + `.find(|c| c.doc_range.end > target)`: blocks are deserialised one after the other
     until a checkpoint matches or the layer is exhausted.  An empty block makes `self.block.get(0)`
     panic (Malformed).  fuel: every block consumes at least one byte. *)
  Fixpoint layer_seek (fuel : nat) (target : N) (data : bytes) : seek_res :=
    match fuel with
    | O => OutOfFuel
    | S f =>
        match data with
        | [] => NotFound
        | _ =>
            match deser data with
            | None => Malformed
            | Some ([], _) => Malformed
            | Some (cps, rest) =>
                match find (fun c => N.ltb target (doc_end c)) cps with
                | Some c => Found c
                | None => layer_seek f target rest
                end
            end
        end
    end.

  (* Layer::seek_start_at_offset (`&data[start_offset..]` panics beyond the end) *)
  Definition seek_at (data : bytes) (target offset : N) : seek_res :=
    if N.ltb (len data) offset then Malformed
    else let d := skipn (N.to_nat offset) data in layer_seek (S (length d)) target d.

  Fixpoint seek_layers (layers : list bytes) (target : N) (cur : checkpoint) : seek_res :=
    match layers with
    | [] => Found cur
    | l :: rest =>
        match seek_at l target (byte_start cur) with
        | Found c => seek_layers rest target c
        | r => r
        end
    end.

  (* SkipIndex::seek: note the start value 0..1 / 0..first_layer_len, returned as is when there is no layer *)
  Definition si_seek (layers : list bytes) (target : N) : seek_res :=
    seek_layers layers target
      {| doc_start := 0; doc_end := 1; byte_start := 0;
         byte_end := match layers with [] => 0 | l :: _ => len l end |}.

  (* SkipIndex::checkpoints: cursor over the last (bottom) layer *)
  Fixpoint layer_all (fuel : nat) (data : bytes) : scan_res :=
    match fuel with
    | O => ScanOutOfFuel
    | S f =>
        match data with
        | [] => ScanOk []
        | _ =>
            match deser data with
            | None => ScanOk []             (* `.ok()?` ends the iteration *)
            | Some ([], _) => ScanPanic
            | Some (cps, rest) =>
                match layer_all f rest with
                | ScanOk l => ScanOk (cps ++ l)
                | r => r
                end
            end
        end
    end.

  Definition si_checkpoints (layers : list bytes) : scan_res :=
    match last_opt layers with
    | None => ScanOk []
    | Some l => layer_all (S (length l)) l
    end.
End Layers.

(* ------------------------------------------------------------------ the concrete skip index *)
Definition skip_build (cps : list checkpoint) : option bytes :=
  si_build cb_serialize STORE_CHECKPOINT_PERIOD cps.
Definition skip_seek (layers : list bytes) (d : N) : seek_res := si_seek cb_deserialize layers d.
Definition skip_checkpoints (layers : list bytes) : scan_res := si_checkpoints cb_deserialize layers.

(* seek on the serialised index; None = the index could not be built/opened *)
Definition skip_lookup (cps : list checkpoint) (d : N) : option seek_res :=
  match skip_build cps with
  | None => None
  | Some data => match si_open data with
                 | None => None
                 | Some layers => Some (skip_seek layers d)
                 end
  end.

(* specification: the first checkpoint whose doc range ends after d *)
Definition spec_seek (cps : list checkpoint) (d : N) : option checkpoint :=
  find (fun c => N.ltb d (doc_end c)) cps.

Definition seek_res_eqb (r : seek_res) (o : option checkpoint) : bool :=
  match r, o with
  | Found c, Some c' => cp_eqb c c'
  | NotFound, None => true
  | _, _ => false
  end.
