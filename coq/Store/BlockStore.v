(* C09 -- the block store: src/store/writer.rs (StoreWriter), src/store/store_compressor.rs
   (BlockCompressorImpl: compress, write, register checkpoint, stack, close), src/store/footer.rs,
   src/store/reader.rs (StoreReader::open / get_document_bytes / read_block with the block cache /
   iter_raw / block_read_index) and the store part of IndexMerger::write_storable_fields.
   Compression is a Section variable with the contract decompress (compress x) = Some x. *)
From TV Require Import Base.Prelude Generated.Constants Store.VInt Store.SkipIndex.
Local Open Scope N_scope.

Definition slice (l : bytes) (a b : N) : bytes := firstn (N.to_nat (b - a)) (skipn (N.to_nat a) l).

(* u32::deserialize(&mut &block[pos..]) : Err when fewer than 4 bytes remain *)
Definition read_u32_at (l : bytes) (pos : N) : option N :=
  let r := skipn (N.to_nat pos) l in
  if Nat.leb 4 (length r) then Some (le_value (firstn 4 r)) else None.

(* reader.rs block_read_index + block.slice(range).  None = Err or panic (usize underflow, slice out of
   range): never distinguished. *)
Definition block_read_doc (block : bytes) (doc_pos : N) : option bytes :=
  let n := len block in
  if N.ltb n 4 then None else
  match read_u32_at block (n - 4) with
  | None => None
  | Some index_len =>
      if N.ltb index_len doc_pos then None
      else if N.ltb n ((index_len + 1) * 4) then None
      else
        let index_start := n - (index_len + 1) * 4 in
        let index := slice block index_start (index_start + index_len * 4) in
        match read_u32_at index (doc_pos * 4) with
        | None => None
        | Some start_offset =>
            let end_offset := match read_u32_at index ((doc_pos + 1) * 4) with
                              | Some e => e
                              | None => index_start mod 2 ^ 32          (* `index_start as u32` *)
                              end in
            if N.leb start_offset end_offset && N.leb end_offset n
            then Some (slice block start_offset end_offset) else None
        end
  end.

(* writer.rs send_current_block_to_compressor: docs, then each start offset as u32, then their number *)
Definition seal_block (block : bytes) (pos : list N) : bytes :=
  block ++ flat_map (le_bytes 4) pos ++ le_bytes 4 (len pos).

Record bc_state := { bc_first_doc : N; bc_out : bytes; bc_layers : list layer_builder;
                     bc_cps : list checkpoint (* ghost: every registered checkpoint, in order *) }.
Record sw_state := { sw_block : bytes; sw_pos : list N; sw_ndocs : N; sw_bc : bc_state }.

Definition bc_new : bc_state := {| bc_first_doc := 0; bc_out := []; bc_layers := []; bc_cps := [] |}.
Definition sw_new : sw_state := {| sw_block := []; sw_pos := []; sw_ndocs := 0; sw_bc := bc_new |}.

Record store_reader := { sr_data : bytes; sr_layers : list bytes; sr_version : N; sr_comp_id : N }.

Definition DOC_STORE_VERSION_V2 : N := 2.

(* DocStoreFooter::serialize: version u32, offset u64, decompressor id u8, 15 reserved bytes *)
Definition store_footer (offset comp_id : N) : bytes :=
  le_bytes 4 DOC_STORE_VERSION_V2 ++ le_bytes 8 offset ++ [comp_id mod 256] ++ repeat 0 15.

Section Store.
  Variable compress : bytes -> bytes.
  Variable decompress : bytes -> option bytes.
  Variable comp_id : N.

  (* BlockCompressorImpl::register_checkpoint *)
  Definition bc_register (bc : bc_state) (out : bytes) (cp : checkpoint) : option bc_state :=
    match sib_insert cb_serialize STORE_CHECKPOINT_PERIOD (bc_layers bc) cp with
    | None => None
    | Some ls => Some {| bc_first_doc := doc_end cp; bc_out := out; bc_layers := ls; bc_cps := bc_cps bc ++ [cp] |}
    end.

  (* BlockCompressorImpl::compress_block_and_write (`assert!(num_docs_in_block > 0)`) *)
  Definition bc_compress_block (bc : bc_state) (data : bytes) (ndocs : N) : option bc_state :=
    if N.eqb ndocs 0 then None else
    let c := compress data in
    let start := len (bc_out bc) in
    bc_register bc (bc_out bc ++ c)
      {| doc_start := bc_first_doc bc; doc_end := bc_first_doc bc + ndocs;
         byte_start := start; byte_end := start + len c |}.

  (* StoreWriter::send_current_block_to_compressor *)
  Definition sw_flush (st : sw_state) : option sw_state :=
    match sw_block st with
    | [] => Some st
    | _ =>
        match bc_compress_block (sw_bc st) (seal_block (sw_block st) (sw_pos st)) (sw_ndocs st) with
        | None => None
        | Some bc => Some {| sw_block := []; sw_pos := []; sw_ndocs := 0; sw_bc := bc |}
        end
    end.

  (* StoreWriter::check_flush_block: `current_block.len() + doc_pos.len() * size_of::<usize>() > block_size` *)
  Definition sw_check_flush (block_size : N) (st : sw_state) : option sw_state :=
    if N.ltb block_size (len (sw_block st) + len (sw_pos st) * STORE_INDEX_ENTRY_COST)
    then sw_flush st else Some st.

  (* StoreWriter::store_bytes (and ::store, whose serialised document is `doc`) *)
  Definition sw_store (block_size : N) (st : sw_state) (doc : bytes) : option sw_state :=
    sw_check_flush block_size
      {| sw_block := sw_block st ++ doc; sw_pos := sw_pos st ++ [len (sw_block st)];
         sw_ndocs := sw_ndocs st + 1; sw_bc := sw_bc st |}.

  Fixpoint sw_store_all (block_size : N) (st : sw_state) (docs : list bytes) : option sw_state :=
    match docs with
    | [] => Some st
    | d :: r => match sw_store block_size st d with
                | Some st' => sw_store_all block_size st' r
                | None => None
                end
    end.

  (* BlockCompressorImpl::stack: bulk-copy the reader's block data, re-register its checkpoints shifted *)
  Fixpoint bc_register_shifted (bc : bc_state) (doc_shift byte_shift : N) (cps : list checkpoint) : option bc_state :=
    match cps with
    | [] => Some bc
    | c :: r =>
        match bc_register bc (bc_out bc)
                {| doc_start := doc_start c + doc_shift; doc_end := doc_end c + doc_shift;
                   byte_start := byte_start c + byte_shift; byte_end := byte_end c + byte_shift |} with
        | None => None
        | Some bc' => bc_register_shifted bc' doc_shift byte_shift r
        end
    end.

  Definition bc_stack (bc : bc_state) (data : bytes) (cps : list checkpoint) : option bc_state :=
    let doc_shift := bc_first_doc bc in
    let byte_shift := len (bc_out bc) in
    bc_register_shifted
      {| bc_first_doc := bc_first_doc bc; bc_out := bc_out bc ++ data; bc_layers := bc_layers bc; bc_cps := bc_cps bc |}
      doc_shift byte_shift cps.

  (* StoreWriter::stack *)
  Definition sw_stack (st : sw_state) (data : bytes) (cps : list checkpoint) : option sw_state :=
    match sw_flush st with
    | None => None
    | Some st1 => match bc_stack (sw_bc st1) data cps with
                  | None => None
                  | Some bc => Some {| sw_block := sw_block st1; sw_pos := sw_pos st1; sw_ndocs := sw_ndocs st1; sw_bc := bc |}
                  end
    end.

  (* StoreWriter::close + BlockCompressorImpl::close: the store file *)
  Definition sw_close (st : sw_state) : option bytes :=
    match sw_flush st with
    | None => None
    | Some st1 =>
        let bc := sw_bc st1 in
        match sib_finish cb_serialize (bc_layers bc) None with
        | None => None
        | Some bufs => Some (bc_out bc ++ si_layout bufs ++ store_footer (len (bc_out bc)) comp_id)
        end
    end.

  Definition store_write (block_size : N) (docs : list bytes) : option bytes :=
    match sw_store_all block_size sw_new docs with
    | None => None
    | Some st => sw_close st
    end.

  (* ---------------------------------------------------------------- reader *)
  (* StoreReader::open: footer = last 28 bytes; body split at footer.offset *)
  Definition store_open (file : bytes) : option store_reader :=
    let n := len file in
    if N.ltb n STORE_FOOTER_SIZE then None else
    let body := firstn (N.to_nat (n - STORE_FOOTER_SIZE)) file in
    let footer := skipn (N.to_nat (n - STORE_FOOTER_SIZE)) file in
    let version := le_value (firstn 4 footer) in
    let offset := le_value (firstn 8 (skipn 4 footer)) in
    let cid := nth 12 footer 0 in
    if negb (N.eqb version 1 || N.eqb version 2) then None
    else if N.ltb (len body) offset then None
    else match si_open (skipn (N.to_nat offset) body) with
         | None => None
         | Some layers => Some {| sr_data := firstn (N.to_nat offset) body; sr_layers := layers;
                                  sr_version := version; sr_comp_id := cid |}
         end.

  (* read_block without cache *)
  Definition read_block (r : store_reader) (cp : checkpoint) : option bytes :=
    if N.leb (byte_start cp) (byte_end cp) && N.leb (byte_end cp) (len (sr_data r))
    then decompress (slice (sr_data r) (byte_start cp) (byte_end cp)) else None.

  (* StoreReader::get_document_bytes *)
  Definition store_get (r : store_reader) (doc_id : N) : option bytes :=
    match skip_seek (sr_layers r) doc_id with
    | Found cp =>
        match read_block r cp with
        | None => None
        | Some block => if N.ltb doc_id (doc_start cp) then None else block_read_doc block (doc_id - doc_start cp)
        end
    | _ => None
    end.

  (* the block cache: a partial map keyed by the block's start offset; the LRU policy (external crate)
     is any policy: `cache` is an arbitrary partial map *)
  Definition read_block_cached (cache : N -> option bytes) (r : store_reader) (cp : checkpoint) : option bytes :=
    match cache (byte_start cp) with
    | Some b => Some b
    | None => read_block r cp
    end.

  Definition store_get_cached (cache : N -> option bytes) (r : store_reader) (doc_id : N) : option bytes :=
    match skip_seek (sr_layers r) doc_id with
    | Found cp =>
        match read_block_cached cache r cp with
        | None => None
        | Some block => if N.ltb doc_id (doc_start cp) then None else block_read_doc block (doc_id - doc_start cp)
        end
    | _ => None
    end.

  (* StoreReader::iter_raw.  State: current checkpoint, remaining checkpoints, current block, doc_pos.
     Result: one entry per live doc id in 0..last_doc_id; None = an Err item or a panic. *)
  Fixpoint iter_go (r : store_reader) (alive : N -> bool) (n : nat) (doc_id : N)
           (cur : option checkpoint) (rest : list checkpoint) (block : option (option bytes)) (doc_pos : N)
    : list (option bytes) :=
    match n with
    | O => []
    | S n' =>
        match cur with
        | None => [None]                      (* curr_checkpoint.as_ref().unwrap() panics *)
        | Some c =>
            let moved := N.leb (doc_end c) doc_id in
            let cur' := if moved then hd_error rest else cur in
            let rest' := if moved then tl rest else rest in
            let block' := if moved then option_map (read_block r) cur' else block in
            let doc_pos' := if moved then 0 else doc_pos in
            let tail := iter_go r alive n' (doc_id + 1) cur' rest' block' (doc_pos' + 1) in
            if alive doc_id then
              (match block' with
               | Some (Some b) => block_read_doc b doc_pos'
               | _ => None
               end) :: tail
            else tail
        end
    end.

  Definition store_checkpoints (r : store_reader) : list checkpoint :=
    match skip_checkpoints (sr_layers r) with ScanOk l => l | _ => [] end.

  Definition store_iter_raw (r : store_reader) (alive : N -> bool) : list (option bytes) :=
    let cps := store_checkpoints r in
    let last_doc := match last_opt cps with Some c => doc_end c | None => 0 end in
    let cur := hd_error cps in
    iter_go r alive (N.to_nat last_doc) 0 cur (tl cps) (option_map (read_block r) cur) 0.

  (* ---------------------------------------------------------------- merge (merger.rs write_storable_fields,
     trivial doc-id mapping): per source reader either re-append the live raw documents or stack. *)
  Definition live_raw (r : store_reader) (alive : N -> bool) : option (list bytes) :=
    fold_right (fun x acc => match x, acc with Some d, Some l => Some (d :: l) | _, _ => None end)
               (Some []) (store_iter_raw r alive).

  (* `reader.has_deletes() || block_checkpoints().take(7).count() < 6 || decompressor != compressor` *)
  Definition must_reappend (has_deletes : bool) (r : store_reader) : bool :=
    has_deletes
    || N.ltb (len (firstn (N.to_nat STORE_STACK_TAKE) (store_checkpoints r))) STORE_STACK_MIN_BLOCKS
    || negb (N.eqb (sr_comp_id r) comp_id).

  (* one source: re-append its live raw documents, or stack its blocks *)
  Definition merge_src (block_size : N) (st : sw_state) (r : store_reader) (reappend : bool) (alive : N -> bool) : option sw_state :=
    if reappend then
      match live_raw r alive with
      | None => None
      | Some docs => sw_store_all block_size st docs
      end
    else sw_stack st (sr_data r) (store_checkpoints r).

  Definition merge_one (block_size : N) (st : sw_state) (src : store_reader * (bool * (N -> bool))) : option sw_state :=
    let '(r, (has_deletes, alive)) := src in
    merge_src block_size st r (must_reappend has_deletes r) alive.

  Fixpoint merge_all (block_size : N) (st : sw_state) (srcs : list (store_reader * (bool * (N -> bool)))) : option sw_state :=
    match srcs with
    | [] => Some st
    | s :: r => match merge_one block_size st s with
                | Some st' => merge_all block_size st' r
                | None => None
                end
    end.

  Definition store_merge (block_size : N) (srcs : list (store_reader * (bool * (N -> bool)))) : option bytes :=
    match merge_all block_size sw_new srcs with
    | None => None
    | Some st => sw_close st
    end.
End Store.

(* the identity codec (Compressor::None, id 0): used to evaluate cases *)
Definition id_compress (b : bytes) : bytes := b.
Definition id_decompress (b : bytes) : option bytes := Some b.

Definition opt_bytes_eqb (a b : option bytes) : bool :=
  match a, b with
  | Some x, Some y => list_eqb N.eqb x y
  | None, None => true
  | _, _ => false
  end.

(* membership test for alive sets given as a list of deleted doc ids *)
Definition alive_of (deleted : list N) (d : N) : bool := negb (existsb (N.eqb d) deleted).

(* harness entry point: sources given as store files with the path the harness drove
   (stacked or re-appended) and the deleted doc ids; identity codec *)
Fixpoint c09_merge_go (block_size : N) (st : sw_state) (srcs : list (bytes * (bool * list N))) : option sw_state :=
  match srcs with
  | [] => Some st
  | (file, (stacked, deleted)) :: rest =>
      match store_open file with
      | None => None
      | Some r =>
          match merge_src id_compress id_decompress block_size st r (negb stacked) (alive_of deleted) with
          | None => None
          | Some st' => c09_merge_go block_size st' rest
          end
      end
  end.

Definition c09_merge_model (block_size : N) (srcs : list (bytes * (bool * list N))) : option bytes :=
  match c09_merge_go block_size sw_new srcs with
  | None => None
  | Some st => sw_close id_compress 0 st
  end.
