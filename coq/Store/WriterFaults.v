(* C09 -- error propagation of the doc-store writer: src/store/store_compressor.rs.
   The underlying `Write` is a sequence of operations (write / flush / terminate), numbered from 0;
   `fails i` says whether operation i returns an io::Error (ANY fault pattern).  Every block message
   performs some operations (write_all of the compressed block), close performs the tail (skip index,
   footer, flush, terminate).  Each call is chained with `?`: the first failing operation aborts.
     - SameThread: the caller sees each result directly and stops at the first Err.
     - DedicatedThread: the thread consumes messages until one fails (`...?` inside the loop), then
       runs close; its io::Result is the JoinHandle's value.  `send` returns Err exactly when the
       receiver is gone (the thread has already returned) -- WHEN the main thread notices is a race:
       `notice j` is an arbitrary oracle (it can only be true after a failure); close() drops the
       sender and returns harvest_thread_result = the thread's own io::Result.
   Theorems: for every fault pattern, message list, tail and race oracle the writer reports Err iff some
   executed operation failed; and Ok implies that every operation of the whole stream was executed
   successfully (the file is complete). *)
From TV Require Import Base.Prelude.

Inductive wres := WOk | WErr.

Definition wres_eqb (a b : wres) : bool := match a, b with WOk, WOk | WErr, WErr => true | _, _ => false end.

(* run n consecutive operations starting at index pos; None = one of them failed *)
Fixpoint run_ops (fails : nat -> bool) (pos n : nat) : option nat :=
  match n with
  | O => Some pos
  | S n' => if fails pos then None else run_ops fails (S pos) n'
  end.

(* BlockCompressorImpl processing the messages in order, then close: the thread body *)
Fixpoint thread_body (fails : nat -> bool) (pos : nat) (msgs : list nat) (close_ops : nat) : wres :=
  match msgs with
  | [] => match run_ops fails pos close_ops with Some _ => WOk | None => WErr end
  | m :: r => match run_ops fails pos m with
              | Some pos' => thread_body fails pos' r close_ops
              | None => WErr
              end
  end.

(* SameThread: identical control flow, seen synchronously by the caller *)
Definition same_thread_result := thread_body.

(* has the thread already failed after being handed the first j messages (all processed)? *)
Fixpoint failed_within (fails : nat -> bool) (pos : nat) (msgs : list nat) (j : nat) : bool :=
  match j, msgs with
  | O, _ => false
  | S j', m :: r => match run_ops fails pos m with
                    | Some pos' => failed_within fails pos' r j'
                    | None => true
                    end
  | S _, [] => false
  end.

(* DedicatedThread, main-thread view: sends 0..n-1, then close.  A send may report Err only if the thread
   has failed on an earlier message AND the main thread happens to notice (oracle); close = harvest. *)
Fixpoint sends (fails : nat -> bool) (notice : nat -> bool) (msgs : list nat) (j n : nat) : wres :=
  match n with
  | O => WOk
  | S n' => if failed_within fails 0 msgs j && notice j then WErr else sends fails notice msgs (S j) n'
  end.

Definition dedicated_result (fails : nat -> bool) (notice : nat -> bool) (msgs : list nat) (close_ops : nat) : wres :=
  match sends fails notice msgs 0 (length msgs) with
  | WErr => WErr
  | WOk => thread_body fails 0 msgs close_ops      (* harvest_thread_result: the thread's io::Result *)
  end.

Definition total_ops (msgs : list nat) (close_ops : nat) : nat := fold_right Nat.add close_ops msgs.

(* ------------------------------------------------------------------ proofs *)
Lemma run_ops_some fails n : forall pos pos',
  run_ops fails pos n = Some pos' -> pos' = (pos + n)%nat /\ forall i, (pos <= i < pos + n)%nat -> fails i = false.
Proof.
  induction n as [|n IH]; intros pos pos' H; cbn [run_ops] in H.
  - injection H as <-. split; [lia|]. intros i Hi. lia.
  - destruct (fails pos) eqn:E; [discriminate|]. destruct (IH _ _ H) as (-> & Hall).
    split; [lia|]. intros i Hi. destruct (Nat.eq_dec i pos) as [->|Hne]; [exact E|]. apply Hall. lia.
Qed.

Lemma run_ops_none fails n : forall pos,
  run_ops fails pos n = None -> exists i, (pos <= i < pos + n)%nat /\ fails i = true.
Proof.
  induction n as [|n IH]; intros pos H; cbn [run_ops] in H; [discriminate|].
  destruct (fails pos) eqn:E.
  - exists pos. split; [lia|exact E].
  - destruct (IH _ H) as (i & Hi & Hf). exists i. split; [lia|exact Hf].
Qed.

Lemma run_ops_clean fails n : forall pos,
  (forall i, (pos <= i < pos + n)%nat -> fails i = false) -> run_ops fails pos n = Some (pos + n)%nat.
Proof.
  induction n as [|n IH]; intros pos H; cbn [run_ops]; [f_equal; lia|].
  rewrite (H pos) by lia. rewrite IH; [f_equal; lia|]. intros i Hi. apply H. lia.
Qed.

(* the thread (and the same-thread writer) reports Ok iff no operation of the whole stream fails *)
Theorem thread_body_ok_iff fails msgs close_ops : forall pos,
  thread_body fails pos msgs close_ops = WOk <->
  (forall i, (pos <= i < pos + total_ops msgs close_ops)%nat -> fails i = false).
Proof.
  induction msgs as [|m r IH]; intros pos; cbn [thread_body total_ops fold_right].
  - destruct (run_ops fails pos close_ops) as [p|] eqn:E.
    + split; [intros _|reflexivity]. exact (proj2 (run_ops_some _ _ _ _ E)).
    + split; [discriminate|]. intros H. destruct (run_ops_none _ _ _ E) as (i & Hi & Hf).
      rewrite (H i Hi) in Hf. discriminate.
  - destruct (run_ops fails pos m) as [p|] eqn:E.
    + destruct (run_ops_some _ _ _ _ E) as (-> & Hclean). rewrite IH. fold (total_ops r close_ops).
      split; intros H i Hi.
      * destruct (Nat.lt_ge_cases i (pos + m)); [apply Hclean; lia|apply H; lia].
      * apply H. lia.
    + split; [discriminate|]. intros H. destruct (run_ops_none _ _ _ E) as (i & Hi & Hf).
      fold (total_ops r close_ops) in H. rewrite (H i ltac:(lia)) in Hf. discriminate.
Qed.

(* an I/O error anywhere in the stream -- including the tail written by close -- is never swallowed,
   whichever way the race between the failing thread and the sending main thread goes *)
Theorem dedicated_reports_errors fails notice msgs close_ops i :
  (i < total_ops msgs close_ops)%nat -> fails i = true -> dedicated_result fails notice msgs close_ops = WErr.
Proof.
  intros Hi Hf. unfold dedicated_result.
  destruct (sends fails notice msgs 0 (length msgs)); [|reflexivity].
  destruct (thread_body fails 0 msgs close_ops) eqn:E; [|reflexivity].
  pose proof (proj1 (thread_body_ok_iff _ _ _ _) E) as E'. rewrite (E' i ltac:(lia)) in Hf. discriminate.
Qed.

Theorem same_thread_reports_errors fails msgs close_ops i :
  (i < total_ops msgs close_ops)%nat -> fails i = true -> same_thread_result fails 0 msgs close_ops = WErr.
Proof.
  intros Hi Hf. unfold same_thread_result.
  destruct (thread_body fails 0 msgs close_ops) eqn:E; [|reflexivity].
  pose proof (proj1 (thread_body_ok_iff _ _ _ _) E) as E'. rewrite (E' i ltac:(lia)) in Hf. discriminate.
Qed.

(* Ok means complete: every operation of the stream was executed and succeeded *)
Theorem dedicated_ok_complete fails notice msgs close_ops :
  dedicated_result fails notice msgs close_ops = WOk ->
  forall i, (i < total_ops msgs close_ops)%nat -> fails i = false.
Proof.
  unfold dedicated_result. destruct (sends fails notice msgs 0 (length msgs)); [|discriminate].
  intros E i Hi. pose proof (proj1 (thread_body_ok_iff _ _ _ _) E) as E'. apply E'. lia.
Qed.

(* no fault, no error: the race oracle cannot produce a spurious Err *)
Lemma failed_within_clean fails msgs : forall pos j,
  (forall i, fails i = false) -> failed_within fails pos msgs j = false.
Proof.
  induction msgs as [|m r IH]; intros pos j H; destruct j as [|j]; cbn [failed_within]; try reflexivity.
  rewrite run_ops_clean by (intros; apply H). apply IH. exact H.
Qed.

Theorem dedicated_no_fault_ok fails notice msgs close_ops :
  (forall i, fails i = false) -> dedicated_result fails notice msgs close_ops = WOk.
Proof.
  intros H. unfold dedicated_result.
  assert (Hs : forall n j, sends fails notice msgs j n = WOk).
  { induction n as [|n IH]; intros j; cbn [sends]; [reflexivity|].
    rewrite failed_within_clean by exact H. cbn [andb]. apply IH. }
  rewrite Hs. apply thread_body_ok_iff. intros i _. apply H.
Qed.

(* harness entry point: a single fault class on a stream of n operations *)
Definition sink_fails (sticky : bool) (k i : nat) : bool := if sticky then Nat.leb k i else Nat.eqb k i.
Definition writer_outcome (dedicated sticky : bool) (k nops : nat) : wres :=
  if dedicated then dedicated_result (sink_fails sticky k) (fun _ => false) [] nops
  else same_thread_result (sink_fails sticky k) 0 [] nops.
