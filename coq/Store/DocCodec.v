(* C09 -- the typed binary document codec: src/schema/document/se.rs (BinaryDocumentSerializer,
   BinaryValueSerializer, array/object serializers) and de.rs (BinaryDocumentDeserializer,
   BinaryValueDeserializer::from_reader / deserialize_any, array/object access) with the leaf codecs of
   common/src/serialize.rs (String, Vec<u8>, u64, i64, u128, bool) and common::f64_to_u64.
   Representation: i64 / date values by their two's-complement u64 pattern (what write_i64::<LE> emits),
   f64 by its IEEE bit pattern (so NaN payloads are values like any other), strings and facets by their
   UTF-8 bytes, a PreTokenizedString by its serde_json text (serde_json is external). *)
From TV Require Import Base.Prelude Generated.Constants Store.VInt Store.SkipIndex.
Local Open Scope N_scope.

Inductive value :=
| VNull
| VStr (s : bytes)
| VU64 (n : N)
| VI64 (n : N)
| VF64 (bits : N)
| VBool (b : bool)
| VDate (n : N)
| VFacet (s : bytes)
| VBytes (b : bytes)
| VIp (n : N)
| VPreTok (json : bytes)
| VArr (l : list value)
| VObj (kvs : list (bytes * value)).

(* a field value as ADDED: top-level pre-tokenized text is stored as its text only
   (serialize_doc: PreTokStr(p) => Str(&p.text)); `json` is what the indexer sees and is not stored *)
Inductive fvalue := FVal (v : value) | FPreTok (text json : bytes).

Definition doc := list (N * fvalue).     (* as added: (field id, value) in order *)
Definition sdoc := list (N * value).     (* as stored and returned *)

(* common::f64_to_u64 / u64_to_f64 on bit patterns *)
Definition f64_to_u64 (bits : N) : N := if N.ltb bits (2 ^ 63) then bits + 2 ^ 63 else 2 ^ 64 - 1 - bits.
Definition u64_to_f64 (v : N) : N := if N.leb (2 ^ 63) v then v - 2 ^ 63 else 2 ^ 64 - 1 - v.

(* <String as BinarySerializable> / Cow<[u8]> : VInt length, then the bytes *)
Definition ser_string (s : bytes) : bytes := vint_enc (len s) ++ s.

Fixpoint ser_value (v : value) : bytes :=
  match v with
  | VNull => [DOC_NULL_CODE]
  | VStr s => DOC_TEXT_CODE :: ser_string s
  | VU64 n => DOC_U64_CODE :: le_bytes 8 n
  | VI64 n => DOC_I64_CODE :: le_bytes 8 n
  | VF64 b => DOC_F64_CODE :: le_bytes 8 (f64_to_u64 b)
  | VBool b => [DOC_BOOL_CODE; if b then 1 else 0]
  | VDate n => DOC_DATE_CODE :: le_bytes 8 n
  | VFacet s => DOC_HIERARCHICAL_FACET_CODE :: ser_string s
  | VBytes b => DOC_BYTES_CODE :: ser_string b
  | VIp n => DOC_IP_CODE :: le_bytes 16 n
  | VPreTok j => DOC_EXT_CODE :: DOC_TOK_STR_EXT_CODE :: ser_string j
  | VArr l => DOC_ARRAY_CODE :: vint_enc (len l) ++ flat_map ser_value l
  | VObj kvs =>
      (* BinaryObjectSerializer::begin(length * 2): keys and values inline, each key a Str value *)
      DOC_OBJECT_CODE :: vint_enc (2 * len kvs) ++
      flat_map (fun kv => (DOC_TEXT_CODE :: ser_string (fst kv)) ++ ser_value (snd kv)) kvs
  end.

Definition ser_fvalue (fv : fvalue) : bytes :=
  match fv with
  | FVal v => ser_value v
  | FPreTok text _ => ser_value (VStr text)
  end.

(* serialize_doc: only fields whose schema entry is_stored(); VInt count, then (field u32, value)* *)
Definition stored_fields (stored : N -> bool) (d : doc) : doc := filter (fun fv => stored (fst fv)) d.

Definition ser_doc (stored : N -> bool) (d : doc) : bytes :=
  let fvs := stored_fields stored d in
  vint_enc (len fvs) ++ flat_map (fun fv => le_bytes 4 (fst fv) ++ ser_fvalue (snd fv)) fvs.

(* SPECIFICATION: what a fetch must return for an added document *)
Definition stored_value (fv : fvalue) : value :=
  match fv with FVal v => v | FPreTok text _ => VStr text end.
Definition stored_part (stored : N -> bool) (d : doc) : sdoc :=
  map (fun fv => (fst fv, stored_value (snd fv))) (stored_fields stored d).

(* ------------------------------------------------------------------ deserialisation *)
Inductive dres (A : Type) := DOk (a : A) | DErr | DFuel.
Arguments DOk {A} a.
Arguments DErr {A}.
Arguments DFuel {A}.

Definition dbind {A B} (r : dres A) (f : A -> dres B) : dres B :=
  match r with DOk a => f a | DErr => DErr | DFuel => DFuel end.

Definition of_opt {A} (o : option A) : dres A := match o with Some a => DOk a | None => DErr end.

(* read_u64::<LE> etc.: Err on a short read *)
Definition de_fixed (n : nat) (data : bytes) : dres (N * bytes) :=
  if Nat.leb n (length data) then DOk (le_value (firstn n data), skipn n data) else DErr.

(* String: `reader.take(len).read_to_string` (a short input yields a short string, not an error;
   UTF-8 validation is not modelled: the writer only emits valid UTF-8) *)
Definition de_string (data : bytes) : dres (bytes * bytes) :=
  dbind (of_opt (vint_dec data)) (fun '(n, d) => DOk (firstn (N.to_nat n) d, skipn (N.to_nat n) d)).

(* Vec<u8>: exactly `len` items or Err *)
Definition de_bytes (data : bytes) : dres (bytes * bytes) :=
  dbind (of_opt (vint_dec data)) (fun '(n, d) =>
    if N.leb n (len d) then DOk (firstn (N.to_nat n) d, skipn (N.to_nat n) d) else DErr).

(* BinaryArrayDeserializer::next_element until complete, with the element decoder `dv` *)
Definition de_list_with (dv : bytes -> dres (value * bytes)) : nat -> bytes -> dres (list value * bytes) :=
  fix de_list (k : nat) (dd : bytes) : dres (list value * bytes) :=
    match k with
    | O => DOk ([], dd)
    | S k' => dbind (dv dd) (fun '(v, d2) => dbind (de_list k' d2) (fun '(vs, d3) => DOk (v :: vs, d3)))
    end.

(* BinaryObjectDeserializer::next_entry: key = next_element::<String> (type must be Str), then the value;
   an odd element count makes the `.expect` on the value panic (DErr) *)
Definition de_entries_with (dv : bytes -> dres (value * bytes)) : nat -> bytes -> dres (list (bytes * value) * bytes) :=
  fix de_entries (k : nat) (dd : bytes) : dres (list (bytes * value) * bytes) :=
    match k with
    | O => DOk ([], dd)
    | S O => DErr
    | S (S k') =>
        match dd with
        | kc :: dk =>
            if N.eqb kc DOC_TEXT_CODE then
              dbind (de_string dk) (fun '(key, d2) =>
                dbind (dv d2) (fun '(v, d3) =>
                  dbind (de_entries k' d3) (fun '(kvs, d4) => DOk ((key, v) :: kvs, d4))))
            else DErr
        | [] => DErr
        end
    end.

(* BinaryValueDeserializer::from_reader + deserialize_any with the OwnedValue visitor.
   fuel bounds the nesting depth; DFuel is distinct from a decoding error.
   The deprecated JSON_OBJ_CODE (serde_json text of old indexes) is not modelled: DErr. *)
Fixpoint de_value (fuel : nat) (data : bytes) : dres (value * bytes) :=
  match fuel with
  | O => DFuel
  | S f =>
      match data with
      | [] => DErr
      | code :: d =>
          if N.eqb code DOC_TEXT_CODE then dbind (de_string d) (fun '(s, r) => DOk (VStr s, r))
          else if N.eqb code DOC_U64_CODE then dbind (de_fixed 8 d) (fun '(n, r) => DOk (VU64 n, r))
          else if N.eqb code DOC_I64_CODE then dbind (de_fixed 8 d) (fun '(n, r) => DOk (VI64 n, r))
          else if N.eqb code DOC_F64_CODE then dbind (de_fixed 8 d) (fun '(n, r) => DOk (VF64 (u64_to_f64 n), r))
          else if N.eqb code DOC_BOOL_CODE then
            match d with
            | b :: r => if N.eqb b 0 then DOk (VBool false, r) else if N.eqb b 1 then DOk (VBool true, r) else DErr
            | [] => DErr
            end
          else if N.eqb code DOC_DATE_CODE then dbind (de_fixed 8 d) (fun '(n, r) => DOk (VDate n, r))
          else if N.eqb code DOC_HIERARCHICAL_FACET_CODE then dbind (de_string d) (fun '(s, r) => DOk (VFacet s, r))
          else if N.eqb code DOC_BYTES_CODE then dbind (de_bytes d) (fun '(s, r) => DOk (VBytes s, r))
          else if N.eqb code DOC_EXT_CODE then
            match d with
            | e :: d' => if N.eqb e DOC_TOK_STR_EXT_CODE then dbind (de_string d') (fun '(s, r) => DOk (VPreTok s, r)) else DErr
            | [] => DErr
            end
          else if N.eqb code DOC_IP_CODE then dbind (de_fixed 16 d) (fun '(n, r) => DOk (VIp n, r))
          else if N.eqb code DOC_NULL_CODE then DOk (VNull, d)
          else if N.eqb code DOC_ARRAY_CODE then
            dbind (of_opt (vint_dec d)) (fun '(n, d1) =>
              dbind (de_list_with (de_value f) (N.to_nat n) d1) (fun '(vs, r) => DOk (VArr vs, r)))
          else if N.eqb code DOC_OBJECT_CODE then
            dbind (of_opt (vint_dec d)) (fun '(n, d1) =>
              dbind (de_entries_with (de_value f) (N.to_nat n) d1) (fun '(kvs, r) => DOk (VObj kvs, r)))
          else DErr
      end
  end.

(* BinaryDocumentDeserializer + TantivyDocument::deserialize: VInt count, then (Field u32, value)* *)
Fixpoint de_fields (fuel : nat) (k : nat) (data : bytes) : dres (sdoc * bytes) :=
  match k with
  | O => DOk ([], data)
  | S k' =>
      dbind (de_fixed 4 data) (fun '(field, d1) =>
        dbind (de_value fuel d1) (fun '(v, d2) =>
          dbind (de_fields fuel k' d2) (fun '(fvs, d3) => DOk ((field, v) :: fvs, d3))))
  end.

Definition de_doc_fuel (fuel : nat) (data : bytes) : dres sdoc :=
  dbind (of_opt (vint_dec data)) (fun '(n, d) =>
    dbind (de_fields fuel (N.to_nat n) d) (fun '(fvs, _) => DOk fvs)).

(* every nesting level consumes at least its type code: the input length bounds the depth *)
Definition de_doc (data : bytes) : dres sdoc := de_doc_fuel (S (length data)) data.

(* ------------------------------------------------------------------ decidable equality for cases *)
Definition bytes_eqb := list_eqb N.eqb.

Fixpoint value_eqb (a b : value) : bool :=
  match a, b with
  | VNull, VNull => true
  | VStr x, VStr y => bytes_eqb x y
  | VU64 x, VU64 y => N.eqb x y
  | VI64 x, VI64 y => N.eqb x y
  | VF64 x, VF64 y => N.eqb x y
  | VBool x, VBool y => Bool.eqb x y
  | VDate x, VDate y => N.eqb x y
  | VFacet x, VFacet y => bytes_eqb x y
  | VBytes x, VBytes y => bytes_eqb x y
  | VIp x, VIp y => N.eqb x y
  | VPreTok x, VPreTok y => bytes_eqb x y
  | VArr x, VArr y =>
      (fix go (l1 l2 : list value) : bool :=
         match l1, l2 with
         | [], [] => true
         | v1 :: r1, v2 :: r2 => value_eqb v1 v2 && go r1 r2
         | _, _ => false
         end) x y
  | VObj x, VObj y =>
      (fix go (l1 l2 : list (bytes * value)) : bool :=
         match l1, l2 with
         | [], [] => true
         | (k1, v1) :: r1, (k2, v2) :: r2 => bytes_eqb k1 k2 && value_eqb v1 v2 && go r1 r2
         | _, _ => false
         end) x y
  | _, _ => false
  end.

Definition sdoc_eqb (a b : sdoc) : bool :=
  list_eqb (fun x y => N.eqb (fst x) (fst y) && value_eqb (snd x) (snd y)) a b.

Definition dres_sdoc_eqb (r : dres sdoc) (d : sdoc) : bool :=
  match r with DOk x => sdoc_eqb x d | _ => false end.

(* stored flags as the list of stored field ids *)
Definition stored_of (ids : list N) (f : N) : bool := existsb (N.eqb f) ids.
