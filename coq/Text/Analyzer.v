(* Text/Analyzer.v -- TextAnalyzer = one built-in tokenizer followed by a filter chain (tokenizer.rs
   TextAnalyzerBuilder::filter), and the facts every analyzer satisfies (C19). *)
From TV Require Import Base.Prelude Generated.Constants Text.Utf8 Text.Tokenizer Text.NGram Text.Filters Text.Snippet.
Local Open Scope N_scope.

Section Analyzer.
  Variable alnum : cp -> bool.                     (* char::is_alphanumeric *)
  Variable lower : cp -> list cp.                  (* char::to_lowercase *)
  Variable fold : cp -> option (list cp).          (* fold_non_ascii_char *)
  Variable stem : N -> list cp -> list cp.         (* rust_stemmers, per filter instance *)
  Variable dict_find : N -> list cp -> list (N * N).   (* AhoCorasick::find_iter, per filter instance *)
  Variable re_find : list cp -> option (N * N).    (* Regex::find *)
  Hypothesis re_find_ok : forall s a b, re_find s = Some (a, b) -> exists m, points_at s a b m.

  Inductive tokenizer :=
  | TSimple | TWhitespace | TRaw | TNgram (min max : nat) (prefix_only : bool) | TRegex | TFacet.

  (* NgramTokenizer::new rejects min = 0 and min > max *)
  Definition tokenizer_wf (T : tokenizer) : Prop :=
    match T with TNgram min max _ => (0 < min <= max)%nat | _ => True end.

  Definition tokenize (T : tokenizer) (text : list cp) : option (list token) :=
    match T with
    | TSimple => Some (simple_tokenizer alnum text)
    | TWhitespace => Some (whitespace_tokenizer text)
    | TRaw => Some (raw_tokenizer text)
    | TNgram min max p => Some (ngram_spec min max p text)
    | TRegex => regex_tokenizer re_find text
    | TFacet => Some (facet_tokenizer text)
    end.

  Definition is_facet (T : tokenizer) : bool := match T with TFacet => true | _ => false end.

  (* FacetTokenStream under a filter chain.  The facet tokenizer never clears `token.text`: each advance
     pushes the next path segment onto whatever the text currently is -- and the filters rewrite that very
     String in place (token_mut).  `chain_text` is the text the tokenizer's own token is left with after
     one pass through the chain: rewritten by the map filters it reached; a dropped token stops at the
     dropping filter; after a compound split the later filters work on the split parts (copies). *)
  Fixpoint chain_text (fs : list tfilter) (t : list cp) : list cp :=
    match fs with
    | [] => t
    | fl :: r =>
        match fl with
        | FLower => chain_text r (lower_text lower t)
        | FAsciiFold => chain_text r (fold_text fold t)
        | FStem l => chain_text r (stem l t)
        | FRemoveLong limit => if blen t <? limit then chain_text r t else t
        | FAlnumOnly => if forallb is_ascii_alnum t then chain_text r t else t
        | FStop words => if existsb (cps_eqb t) words then t else chain_text r t
        | FSplit d => match split_token dict_find d (mkTok 0 0 0 t) with
                      | Some [_] => chain_text r t
                      | _ => t
                      end
        end
    end.

  (* the path segments pushed by successive advances: text[cursor..next_sep] *)
  Fixpoint facet_incs (l : list cp) (cur : list cp) (first : bool) : list (list cp) :=
    match l with
    | [] => [rev cur]
    | c :: r => if (c =? TEXT_FACET_SEP_BYTE) && negb first
                then rev cur :: facet_incs r [c] false
                else facet_incs r (c :: cur) false
    end.

  Fixpoint facet_loop (fs : list tfilter) (incs : list (list cp)) (acc : list cp) : option (list token) :=
    match incs with
    | [] => Some []
    | p :: r =>
        let raw := acc ++ p in
        match apply_chain lower fold stem dict_find fs [mkTok 0 0 0 raw], facet_loop fs r (chain_text fs raw) with
        | Some a, Some b => Some (a ++ b)
        | _, _ => None
        end
    end.

  Definition facet_analyze (fs : list tfilter) (text : list cp) : option (list token) :=
    facet_loop fs ([] :: match text with [] => [] | _ => facet_incs text [] true end) [].

  Definition analyze (T : tokenizer) (fs : list tfilter) (text : list cp) : option (list token) :=
    if is_facet T then facet_analyze fs text else
    match tokenize T text with
    | Some ts => apply_chain lower fold stem dict_find fs ts
    | None => None
    end.

  (* tokenizers whose tokens never overlap (offset_to monotone) *)
  Definition non_overlapping (T : tokenizer) : bool :=
    match T with TSimple | TWhitespace | TRaw | TRegex => true | _ => false end.
  Lemma tokenize_ok T text ts : blen text <= USIZE_MAX -> tokenize T text = Some ts ->
    Forall (span_ok text) ts /\ pos_sorted ts /\ from_sorted ts /\
    (is_facet T = false -> Forall (tok_ok text) ts) /\
    (non_overlapping T = true -> disjoint_from 0 ts).
  Proof.
    intros Hlen H.
    assert (Hfin : forall l, Forall (tok_ok text) l -> disjoint_from 0 l -> pos_sorted l ->
              Forall (span_ok text) l /\ pos_sorted l /\ from_sorted l /\
              (is_facet T = false -> Forall (tok_ok text) l) /\ (non_overlapping T = true -> disjoint_from 0 l)).
    { intros l F1 F2 F3. split; [eapply Forall_impl; [|exact F1]; apply tok_ok_span|].
      split; [exact F3|]. split; [eapply disjoint_from_sorted; exact F2|]. split; intros _; assumption. }
    destruct T; cbn [tokenize] in H; try (injection H as <-).
    - destruct (scan_tokenizer_ok alnum text) as (H1 & H2 & H3 & _). apply Hfin; auto.
    - destruct (scan_tokenizer_ok (fun c => negb (is_ascii_ws c)) text) as (H1 & H2 & H3 & _). apply Hfin; auto.
    - destruct (raw_tokenizer_ok text) as (H1 & H2 & H3). apply Hfin; auto.
    - destruct (ngram_spec_ok min max prefix_only text) as (H1 & _ & H3 & H4).
      split; [eapply Forall_impl; [|exact H1]; apply tok_ok_span|]. split; [exact H3|]. split; [exact H4|].
      split; [intros _; exact H1|discriminate].
    - destruct (regex_tokenizer_ok re_find re_find_ok text) as (ts' & E & H1 & H2 & H3). rewrite E in H. injection H as <-.
      apply Hfin; auto.
    - destruct (facet_tokenizer_spans text) as (H1 & H2 & H3).
      split; [exact H1|]. split; [exact H2|]. split; [exact H3|]. split; discriminate.
  Qed.

  Definition zero_span (tk : token) : Prop := t_from tk = 0 /\ t_to tk = 0 /\ t_pos tk = 0.

  Lemma facet_loop_zero fs : forall incs acc out, facet_loop fs incs acc = Some out -> Forall zero_span out.
  Proof.
    induction incs as [|p r IH]; intros acc out H; cbn [facet_loop] in H.
    - injection H as <-. constructor.
    - destruct (apply_chain lower fold stem dict_find fs [mkTok 0 0 0 (acc ++ p)]) as [a|] eqn:Ea; [|discriminate].
      destruct (facet_loop fs r _) as [b|] eqn:Eb; [|discriminate]. injection H as <-.
      apply Forall_app. split; [|eapply IH; exact Eb].
      assert (Hsp : Forall (span_ok []) [mkTok 0 0 0 (acc ++ p)]).
      { constructor; [|constructor]. exists []. exists [], []. repeat split; reflexivity. }
      destruct (chain_preserves lower fold stem dict_find [] fs _ a Ea Hsp) as (_ & _ & _ & Hin).
      apply Forall_forall. intros tk' Htk. destruct (Hin tk' Htk) as (tk & [<-|[]] & (E1 & E2 & E3)).
      cbn [t_from t_to t_pos] in *. repeat split; assumption.
  Qed.

  (* C19, tokens: every analyzer, every text *)
  Theorem analyze_ok T fs text out : blen text <= USIZE_MAX -> analyze T fs text = Some out ->
    Forall (span_ok text) out /\ pos_sorted out /\ from_sorted out /\
    (is_facet T = false -> forallb drop_only fs = true -> Forall (tok_ok text) out).
  Proof.
    intros Hlen H. unfold analyze in H. destruct (is_facet T) eqn:EF.
    { pose proof (facet_loop_zero _ _ _ _ H) as Hz. split; [|split; [|split]].
      - eapply Forall_impl; [|exact Hz]. cbn beta. intros tk (Z1 & Z2 & _). exists []. exists [], text. rewrite Z1, Z2. repeat split; reflexivity.
      - apply (sorted_by_const _ _ 0). eapply Forall_impl; [|exact Hz]. unfold zero_span. cbn beta. tauto.
      - apply (sorted_by_const _ _ 0). eapply Forall_impl; [|exact Hz]. unfold zero_span. cbn beta. tauto.
      - discriminate. }
    destruct (tokenize T text) as [ts|] eqn:Et; [|discriminate].
    destruct (tokenize_ok T text ts Hlen Et) as (H1 & H2 & H3 & H4 & _).
    destruct (chain_preserves lower fold stem dict_find text fs ts out H H1) as (C1 & C2 & C3 & _).
    repeat split; auto. intros Hf Hd. eapply drop_chain_keeps_text; eauto.
  Qed.

  (* the tokenizers never panic; a filter chain without the compound splitter never panics *)
  Definition no_split (fl : tfilter) : bool := match fl with FSplit _ => false | _ => true end.

  Lemma apply_chain_total fs : forallb no_split fs = true -> forall ts, apply_chain lower fold stem dict_find fs ts <> None.
  Proof.
    induction fs as [|fl fs IH]; intros Hn ts; cbn [apply_chain]; [discriminate|].
    cbn [forallb] in Hn. apply andb_true_iff in Hn as [Hn1 Hn2].
    assert (Hf : exists ts', apply_filter lower fold stem dict_find fl ts = Some ts').
    { unfold apply_filter. induction ts as [|tk r IHr]; cbn [omap_flat]; [eexists; reflexivity|].
      destruct IHr as (b & ->). destruct fl; try discriminate; cbn [filter_fn]; eexists; reflexivity. }
    destruct Hf as (ts' & ->). apply IH. exact Hn2.
  Qed.

  Theorem analyze_total T fs text : forallb no_split fs = true -> analyze T fs text <> None.
  Proof.
    intros Hn. unfold analyze. destruct (is_facet T).
    { unfold facet_analyze. generalize ([] :: match text with [] => [] | _ => facet_incs text [] true end). generalize (@nil cp).
      intros acc incs. revert acc. induction incs as [|p r IH]; intros acc; cbn [facet_loop]; [discriminate|].
      destruct (apply_chain lower fold stem dict_find fs [mkTok 0 0 0 (acc ++ p)]) eqn:Ea; [|exfalso; eapply apply_chain_total; eauto].
      specialize (IH (chain_text fs (acc ++ p))). destruct (facet_loop fs r _); [discriminate|contradiction]. }
    destruct (tokenize T text) as [ts|] eqn:Et; [apply apply_chain_total; exact Hn|].
    destruct T; cbn [tokenize] in Et; try discriminate.
    destruct (regex_tokenizer_ok re_find re_find_ok text) as (ts' & E & _). congruence.
  Qed.

  (* an analyzer whose token stream keeps offset_to monotone: non-overlapping tokenizer, no splitter *)
  Lemma disjoint_to_sorted ts : forall lo, disjoint_from lo ts -> sorted_by t_to ts.
  Proof.
    induction ts as [|tk r IH]; intros lo H; [exact I|]. cbn [disjoint_from] in H. destruct H as (H1 & H2 & H3).
    cbn [sorted_by]. split; [|eapply IH; eauto]. destruct r as [|tk' r']; [exact I|]. cbn [disjoint_from] in H3. lia.
  Qed.

  Lemma omap_no_dup_disjoint fl : no_split fl = true -> forall ts out lo,
    apply_filter lower fold stem dict_find fl ts = Some out -> disjoint_from lo ts -> disjoint_from lo out.
  Proof.
    intros Hn. unfold apply_filter. induction ts as [|tk r IH]; intros out lo H Hd; cbn [omap_flat] in H.
    - injection H as <-. exact I.
    - cbn [disjoint_from] in Hd. destruct Hd as (D1 & D2 & D3).
      destruct (filter_fn lower fold stem dict_find fl tk) as [a|] eqn:Ef; [|discriminate].
      destruct (omap_flat _ r) as [b|] eqn:Er; [|discriminate]. injection H as <-.
      specialize (IH b (t_to tk) eq_refl D3).
      assert (Hcase : a = [] \/ exists t, a = [with_text tk t]).
      { destruct fl; try discriminate; cbn [filter_fn] in Ef; injection Ef as <-.
        - right. eexists. reflexivity.
        - right. eexists. reflexivity.
        - destruct (_ <? _); [right; exists (t_text tk); destruct tk; reflexivity|left; reflexivity].
        - destruct (forallb _ _); [right; exists (t_text tk); destruct tk; reflexivity|left; reflexivity].
        - destruct (existsb _ _); [left; reflexivity|right; exists (t_text tk); destruct tk; reflexivity].
        - right. eexists. reflexivity. }
      destruct Hcase as [->|(t & ->)]; cbn [app].
      + eapply disjoint_from_weaken; [|exact IH]. lia.
      + cbn [disjoint_from with_text t_from t_to]. repeat split; assumption.
  Qed.

  Lemma chain_no_dup_disjoint fs : forallb no_split fs = true -> forall ts out lo,
    apply_chain lower fold stem dict_find fs ts = Some out -> disjoint_from lo ts -> disjoint_from lo out.
  Proof.
    induction fs as [|fl fs IH]; intros Hn ts out lo H Hd; cbn [apply_chain] in H.
    - injection H as <-. exact Hd.
    - cbn [forallb] in Hn. apply andb_true_iff in Hn as [Hn1 Hn2].
      destruct (apply_filter _ _ _ _ fl ts) as [ts'|] eqn:Ef; [|discriminate].
      eapply IH; eauto. eapply omap_no_dup_disjoint; eauto.
  Qed.

  Theorem analyze_disjoint T fs text out : non_overlapping T = true -> forallb no_split fs = true ->
    blen text <= USIZE_MAX -> analyze T fs text = Some out -> disjoint_from 0 out.
  Proof.
    intros HT Hn Hlen H. unfold analyze in H. replace (is_facet T) with false in H by (destruct T; try reflexivity; discriminate).
    destruct (tokenize T text) as [ts|] eqn:Et; [|discriminate].
    destruct (tokenize_ok T text ts Hlen Et) as (_ & _ & _ & _ & Hd). eapply chain_no_dup_disjoint; eauto.
  Qed.

  (* C19, snippets: SnippetGenerator::snippet = analyze, search_fragments, select_best; to_html *)
  Section Snip.
    Variable score : Type.
    Variables (szero : score) (sadd : score -> score -> score) (spos : score -> bool) (scmp : score -> score -> comparison).
    Variable lower_str : list cp -> list cp.

    Definition generate (T : tokenizer) (fs : list tfilter) (terms : list (list cp * score)) (max : N) (text : list cp) : option snippet :=
      match analyze T fs text with
      | Some ts => snippet_of score szero sadd spos scmp lower_str terms max text ts
      | None => None
      end.

    (* fragment and raw highlights: every analyzer (no panic up to Snippet construction) *)
    Theorem generate_ok T fs terms max text : forallb no_split fs = true -> blen text <= USIZE_MAX ->
      exists ts sn, analyze T fs text = Some ts /\ generate T fs terms max text = Some sn /\
                    snippet_post score lower_str text ts terms max sn.
    Proof.
      intros Hn Hlen. unfold generate. destruct (analyze T fs text) as [ts|] eqn:Ea; [|exfalso; eapply analyze_total; eauto].
      destruct (analyze_ok T fs text ts Hlen Ea) as (H1 & _ & H3 & _).
      destruct (snippet_of_ok score szero sadd spos scmp lower_str text ts terms max H1 H3) as (sn & E & Hp).
      exists ts, sn. auto.
    Qed.

    (* collapsed highlights and HTML: every analyzer (overlapping tokenizers included) *)
    Theorem generate_html_ok T fs terms max text prefix postfix sn :
      forallb no_split fs = true -> blen text <= USIZE_MAX ->
      generate T fs terms max text = Some sn ->
      ranges_disjoint 0 (collapse (sn_hl sn)) /\
      Forall (fun r => boundary (sn_fragment sn) (fst r) /\ boundary (sn_fragment sn) (snd r)) (collapse (sn_hl sn)) /\
      (forall p, covered p (collapse (sn_hl sn)) <-> covered p (sn_hl sn)) /\
      exists h, to_html prefix postfix sn = Some h.
    Proof.
      intros Hn Hlen H. unfold generate in H. destruct (analyze T fs text) as [ts|] eqn:Ea; [|discriminate].
      destruct (analyze_ok T fs text ts Hlen Ea) as (H1 & _ & H3 & _).
      destruct (snippet_ranges_ok score szero sadd spos scmp lower_str text ts terms max prefix postfix sn H1 H3 H) as (R1 & R2 & R3 & R4).
      repeat split; try assumption; try apply R3.
      destruct (to_html prefix postfix sn) as [h|]; [exists h; reflexivity|contradiction].
    Qed.

    (* the raw ranges returned by highlighted() are themselves sorted and disjoint for non-overlapping analyzers *)
    Theorem generate_raw_disjoint T fs terms max text sn :
      non_overlapping T = true -> forallb no_split fs = true -> blen text <= USIZE_MAX ->
      generate T fs terms max text = Some sn -> ranges_disjoint 0 (sn_hl sn).
    Proof.
      intros HT Hn Hlen H. unfold generate in H. destruct (analyze T fs text) as [ts|] eqn:Ea; [|discriminate].
      pose proof (analyze_disjoint T fs text ts HT Hn Hlen Ea) as Hd.
      eapply (raw_disjoint_from_search score szero sadd spos scmp lower_str text ts terms max sn Hd). exact H.
    Qed.
  End Snip.
End Analyzer.
