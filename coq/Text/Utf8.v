(* Text/Utf8.v -- texts as lists of code points, UTF-8 byte lengths, byte offsets as prefix sums,
   character boundaries and slices (C19).

   A Rust `&str` is modelled by the list of its `char`s (code points).  Its bytes are
   `encode text`; a byte offset is "on a character boundary" iff it is the byte length of a
   prefix of the code-point list -- proved below to coincide with `str::is_char_boundary`
   evaluated on the encoded bytes (leading vs. continuation bytes). *)
From TV Require Import Base.Prelude Generated.Constants.
Local Open Scope N_scope.

Definition cp := N.

(* char::len_utf8 *)
Definition len8 (c : cp) : N :=
  if c <? 128 then 1 else if c <? 2048 then 2 else if c <? 65536 then 3 else 4.

Lemma len8_bounds c : 1 <= len8 c <= 4.
Proof. unfold len8. destruct (c <? 128), (c <? 2048), (c <? 65536); lia. Qed.

Lemma len8_pos c : 0 < len8 c.
Proof. pose proof (len8_bounds c). lia. Qed.

(* str::len of the text: sum of the widths *)
Fixpoint blen (t : list cp) : N :=
  match t with [] => 0 | c :: r => len8 c + blen r end.

Lemma blen_app a b : blen (a ++ b) = blen a + blen b.
Proof. induction a as [|c a IH]; cbn [app blen]; [lia|rewrite IH; lia]. Qed.

Lemma blen_cons c r : blen (c :: r) = len8 c + blen r.
Proof. reflexivity. Qed.

Lemma blen_nil_inv t : blen t = 0 -> t = [].
Proof. destruct t as [|c r]; [reflexivity|]. cbn [blen]. pose proof (len8_pos c). lia. Qed.

Lemma blen_rev t : blen (rev t) = blen t.
Proof. induction t as [|c r IH]; [reflexivity|]. cbn [rev]. rewrite blen_app, IH. cbn [blen]. lia. Qed.

(* number of chars <= number of bytes <= 4 * number of chars *)
Lemma chars_le_bytes t : N.of_nat (length t) <= blen t.
Proof. induction t as [|c r IH]; cbn [length blen]; [lia|]. pose proof (len8_pos c). lia. Qed.

Lemma bytes_le_4chars t : blen t <= 4 * N.of_nat (length t).
Proof. induction t as [|c r IH]; cbn [length blen]; [lia|]. pose proof (len8_bounds c). lia. Qed.

(* ------------------------------------------------------------------------------------------ *)
(* "the byte range from..to of text is exactly the code points b" *)
Definition points_at (text : list cp) (from to : N) (b : list cp) : Prop :=
  exists a c, text = a ++ b ++ c /\ from = blen a /\ to = blen a + blen b.

Definition boundary (text : list cp) (o : N) : Prop :=
  exists a c, text = a ++ c /\ o = blen a.

Lemma points_at_facts text from to b :
  points_at text from to b ->
  from <= to /\ to <= blen text /\ boundary text from /\ boundary text to.
Proof.
  intros (a & c & -> & -> & ->). rewrite !blen_app. repeat split; try lia.
  - exists a, (b ++ c). split; reflexivity.
  - exists (a ++ b), c. rewrite <- app_assoc, blen_app. split; reflexivity.
Qed.

Lemma boundary_le text o : boundary text o -> o <= blen text.
Proof. intros (a & c & -> & ->). rewrite blen_app. lia. Qed.

Lemma boundary_0 text : boundary text 0.
Proof. exists [], text. split; reflexivity. Qed.

Lemma boundary_end text : boundary text (blen text).
Proof. exists text, []. rewrite app_nil_r. split; reflexivity. Qed.

(* ---- executable versions: what `&text[from..to]` does (None = the slicing panic) ---- *)
Fixpoint drop_bytes (t : list cp) (o : N) : option (list cp) :=
  if o =? 0 then Some t else
  match t with
  | [] => None
  | c :: r => if len8 c <=? o then drop_bytes r (o - len8 c) else None
  end.

Fixpoint take_bytes (t : list cp) (n : N) : option (list cp) :=
  if n =? 0 then Some [] else
  match t with
  | [] => None
  | c :: r => if len8 c <=? n
              then match take_bytes r (n - len8 c) with Some x => Some (c :: x) | None => None end
              else None
  end.

Definition slice_cp (text : list cp) (from to : N) : option (list cp) :=
  if to <? from then None else
  match drop_bytes text from with
  | None => None
  | Some r => take_bytes r (to - from)
  end.

Definition boundaryb (text : list cp) (o : N) : bool :=
  match drop_bytes text o with Some _ => true | None => false end.

Lemma drop_bytes_unfold t o :
  drop_bytes t o = if o =? 0 then Some t else
                   match t with [] => None | c :: r => if len8 c <=? o then drop_bytes r (o - len8 c) else None end.
Proof. destruct t; reflexivity. Qed.

Lemma take_bytes_unfold t n :
  take_bytes t n = if n =? 0 then Some [] else
                   match t with [] => None
                   | c :: r => if len8 c <=? n then match take_bytes r (n - len8 c) with Some x => Some (c :: x) | None => None end else None end.
Proof. destruct t; reflexivity. Qed.

Lemma drop_bytes_app a r : drop_bytes (a ++ r) (blen a) = Some r.
Proof.
  induction a as [|c a IH]; cbn [app blen].
  - rewrite drop_bytes_unfold. reflexivity.
  - rewrite drop_bytes_unfold. pose proof (len8_pos c) as Hp.
    destruct (N.eqb_spec (len8 c + blen a) 0) as [E|_]; [lia|].
    destruct (N.leb_spec (len8 c) (len8 c + blen a)) as [_|E]; [|lia].
    replace (len8 c + blen a - len8 c) with (blen a) by lia. exact IH.
Qed.

Lemma drop_bytes_inv t : forall o r, drop_bytes t o = Some r -> exists a, t = a ++ r /\ o = blen a.
Proof.
  induction t as [|c t IH]; intros o r H; rewrite drop_bytes_unfold in H.
  - destruct (N.eqb_spec o 0) as [->|_]; [|discriminate]. injection H as <-. exists []. split; reflexivity.
  - destruct (N.eqb_spec o 0) as [->|Ho].
    + injection H as <-. exists []. split; reflexivity.
    + destruct (N.leb_spec (len8 c) o) as [Hle|_]; [|discriminate].
      apply IH in H as (a & -> & Ha). exists (c :: a). split; [reflexivity|]. cbn [blen]. lia.
Qed.

Lemma take_bytes_app b r : take_bytes (b ++ r) (blen b) = Some b.
Proof.
  induction b as [|c b IH]; cbn [app blen].
  - rewrite take_bytes_unfold. reflexivity.
  - rewrite take_bytes_unfold. pose proof (len8_pos c) as Hp.
    destruct (N.eqb_spec (len8 c + blen b) 0) as [E|_]; [lia|].
    destruct (N.leb_spec (len8 c) (len8 c + blen b)) as [_|E]; [|lia].
    replace (len8 c + blen b - len8 c) with (blen b) by lia. rewrite IH. reflexivity.
Qed.

Lemma take_bytes_inv t : forall n b, take_bytes t n = Some b -> exists r, t = b ++ r /\ n = blen b.
Proof.
  induction t as [|c t IH]; intros n b H; rewrite take_bytes_unfold in H.
  - destruct (N.eqb_spec n 0) as [->|_]; [|discriminate]. injection H as <-. exists []. split; reflexivity.
  - destruct (N.eqb_spec n 0) as [->|Hn].
    + injection H as <-. exists (c :: t). split; reflexivity.
    + destruct (N.leb_spec (len8 c) n) as [Hle|_]; [|discriminate].
      destruct (take_bytes t (n - len8 c)) as [x|] eqn:E; [|discriminate].
      injection H as <-. apply IH in E as (r & -> & Hx). exists r. split; [reflexivity|]. cbn [blen]. lia.
Qed.

Theorem slice_cp_spec text from to b : slice_cp text from to = Some b <-> points_at text from to b.
Proof.
  unfold slice_cp, points_at. split.
  - destruct (N.ltb_spec to from) as [|Hle]; [discriminate|].
    destruct (drop_bytes text from) as [r|] eqn:Ed; [|discriminate]. intros Ht.
    apply drop_bytes_inv in Ed as (a & -> & ->). apply take_bytes_inv in Ht as (c & -> & Hb).
    exists a, c. repeat split; lia.
  - intros (a & c & -> & -> & ->).
    destruct (N.ltb_spec (blen a + blen b) (blen a)) as [|_]; [lia|].
    rewrite drop_bytes_app. replace (blen a + blen b - blen a) with (blen b) by lia. apply take_bytes_app.
Qed.

Theorem boundaryb_spec text o : boundaryb text o = true <-> boundary text o.
Proof.
  unfold boundaryb, boundary. split.
  - destruct (drop_bytes text o) as [r|] eqn:E; [|discriminate]. intros _.
    apply drop_bytes_inv in E as (a & -> & ->). exists a, r. split; reflexivity.
  - intros (a & c & -> & ->). rewrite drop_bytes_app. reflexivity.
Qed.

(* a slice between two boundaries never panics *)
Lemma slice_cp_total text from to :
  boundary text from -> boundary text to -> from <= to -> exists b, slice_cp text from to = Some b.
Proof.
  intros (a & c & -> & ->) (a' & c' & E & ->) Hle.
  (* a is a prefix of a' *)
  assert (exists b, a' = a ++ b) as (b & ->).
  { clear - E Hle. revert a' c' E Hle. induction a as [|x a IH]; intros a' c' E Hle.
    - exists a'. reflexivity.
    - destruct a' as [|y a'].
      + cbn [blen] in Hle. pose proof (len8_pos x). lia.
      + cbn [app] in E. injection E as -> E. cbn [blen] in Hle.
        destruct (IH a' c' E) as (b & ->); [lia|]. exists b. reflexivity. }
  rewrite <- app_assoc in E. apply app_inv_head in E. subst c.
  exists b. apply slice_cp_spec. exists a, c'. rewrite blen_app. repeat split; reflexivity.
Qed.

Lemma points_at_unique text from to b b' : points_at text from to b -> points_at text from to b' -> b = b'.
Proof. intros H H'. apply slice_cp_spec in H, H'. congruence. Qed.

(* ------------------------------------------------------------------------------------------ *)
(* UTF-8 bytes, and Rust's byte-level definition of a char boundary *)
Definition valid_cp (c : cp) : bool := c <? 1114112.
Definition valid_text (t : list cp) : bool := forallb valid_cp t.

Definition utf8 (c : cp) : bytes :=
  if c <? 128 then [c]
  else if c <? 2048 then [192 + c / 64; 128 + c mod 64]
  else if c <? 65536 then [224 + c / 4096; 128 + (c / 64) mod 64; 128 + c mod 64]
  else [240 + c / 262144; 128 + (c / 4096) mod 64; 128 + (c / 64) mod 64; 128 + c mod 64].

Definition encode (t : list cp) : bytes := flat_map utf8 t.

Lemma utf8_length c : N.of_nat (length (utf8 c)) = len8 c.
Proof. unfold utf8, len8. destruct (c <? 128), (c <? 2048), (c <? 65536); reflexivity. Qed.

Lemma encode_length t : N.of_nat (length (encode t)) = blen t.
Proof.
  induction t as [|c t IH]; [reflexivity|]. cbn [encode flat_map blen]. rewrite app_length.
  fold (encode t). rewrite <- IH, <- utf8_length. lia.
Qed.

Lemma encode_app a b : encode (a ++ b) = encode a ++ encode b.
Proof. unfold encode. apply flat_map_app. Qed.

(* u8 continuation byte 0b10xxxxxx *)
Definition is_cont (b : N) : bool := (128 <=? b) && (b <? 192).

(* str::is_char_boundary on the bytes *)
Definition is_char_boundary (bs : bytes) (o : N) : bool :=
  (o =? 0) || (o =? N.of_nat (length bs)) ||
  ((o <? N.of_nat (length bs)) && negb (is_cont (nth (N.to_nat o) bs 0))).

Lemma utf8_head_not_cont c : valid_cp c = true -> is_cont (hd 0 (utf8 c)) = false.
Proof.
  unfold valid_cp, utf8, is_cont. intros Hv. apply N.ltb_lt in Hv.
  destruct (N.ltb_spec c 128); [cbn [hd]; lia|].
  destruct (N.ltb_spec c 2048); [cbn [hd]; lia|].
  destruct (N.ltb_spec c 65536); cbn [hd]; lia.
Qed.

Lemma utf8_tail_cont c k : (0 < k)%nat -> (k < length (utf8 c))%nat -> is_cont (nth k (utf8 c) 0) = true.
Proof.
  unfold utf8, is_cont. intros Hk Hl.
  assert (Hm : forall x, 128 <= 128 + x mod 64 < 192) by (intros x; pose proof (N.mod_lt x 64); lia).
  pose proof (Hm c); pose proof (Hm (c / 64)); pose proof (Hm (c / 4096)).
  destruct (N.ltb_spec c 128); [cbn [length] in Hl; lia|].
  destruct (N.ltb_spec c 2048).
  { destruct k as [|[|k]]; cbn [length nth] in *; lia. }
  destruct (N.ltb_spec c 65536).
  { destruct k as [|[|[|k]]]; cbn [length nth] in *; lia. }
  destruct k as [|[|[|[|k]]]]; cbn [length nth] in *; lia.
Qed.

Lemma utf8_nonempty c : utf8 c <> [].
Proof. unfold utf8. destruct (c <? 128), (c <? 2048), (c <? 65536); discriminate. Qed.

(* the first byte at a boundary of a valid text is never a continuation byte; a byte strictly inside
   a code point always is.  Hence our `boundaryb` is exactly `str::is_char_boundary`. *)
Theorem boundaryb_is_char_boundary t : valid_text t = true ->
  forall o, boundaryb t o = is_char_boundary (encode t) o.
Proof.
  unfold boundaryb, is_char_boundary. induction t as [|c t IH]; intros Hv o.
  - rewrite drop_bytes_unfold. cbn [encode flat_map length]. destruct (N.eqb_spec o 0) as [->|Ho]; [reflexivity|].
    change (N.of_nat 0) with 0. destruct (N.eqb_spec o 0); [lia|]. destruct (N.ltb_spec o 0); [lia|]. reflexivity.
  - cbn [valid_text forallb] in Hv. apply andb_true_iff in Hv as [Hc Hv]. specialize (IH Hv).
    rewrite drop_bytes_unfold. destruct (N.eqb_spec o 0) as [->|Ho]; [reflexivity|]. cbn [orb].
    pose proof (encode_length (c :: t)) as HL. cbn [blen] in HL. rewrite HL.
    cbn [encode flat_map]. fold (encode t).
    pose proof (utf8_length c) as Hl. pose proof (len8_pos c) as Hp.
    destruct (N.leb_spec (len8 c) o) as [Hle|Hlt].
    + rewrite IH. pose proof (encode_length t) as HLt. rewrite HLt.
      replace (nth (N.to_nat o) (utf8 c ++ encode t) 0) with (nth (N.to_nat (o - len8 c)) (encode t) 0).
      2:{ rewrite app_nth2 by lia. f_equal. lia. }
      destruct (N.eqb_spec (o - len8 c) 0) as [E0|N0].
      * (* o = len8 c : either end of text, or first byte of the next code point *)
        cbn [orb]. destruct t as [|d t'].
        { cbn [blen] in *. destruct (N.eqb_spec o (len8 c + 0)); [reflexivity|lia]. }
        destruct (N.eqb_spec o (len8 c + blen (d :: t'))) as [|_]; [reflexivity|]. cbn [orb].
        cbn [blen]. pose proof (len8_pos d). destruct (N.ltb_spec o (len8 c + (len8 d + blen t'))) as [_|]; [|lia].
        rewrite E0. cbn [N.to_nat encode flat_map]. cbn [valid_text forallb] in Hv. apply andb_true_iff in Hv as [Hd _].
        pose proof (utf8_head_not_cont d Hd) as Hh. destruct (utf8 d) as [|h tl] eqn:Eu; [exfalso; eapply utf8_nonempty; eauto|].
        cbn [app nth hd] in *. rewrite Hh. reflexivity.
      * cbn [orb]. destruct (N.eqb_spec (o - len8 c) (blen t)) as [E1|N1].
        { destruct (N.eqb_spec o (len8 c + blen t)); [reflexivity|lia]. }
        destruct (N.eqb_spec o (len8 c + blen t)); [lia|]. cbn [orb].
        destruct (N.ltb_spec (o - len8 c) (blen t)), (N.ltb_spec o (len8 c + blen t)); try lia; reflexivity.
    + (* strictly inside c: a continuation byte *)
      destruct (N.eqb_spec o (len8 c + blen t)); [lia|]. cbn [orb].
      destruct (N.ltb_spec o (len8 c + blen t)) as [_|]; [|lia].
      rewrite app_nth1 by lia. rewrite utf8_tail_cont by lia. reflexivity.
Qed.

(* the bytes of a slice are the slice of the bytes *)
Lemma firstn_skipn_encode a b c :
  firstn (length (encode b)) (skipn (length (encode a)) (encode (a ++ b ++ c))) = encode b.
Proof. rewrite !encode_app, skipn_app_exact, firstn_app_exact. reflexivity. Qed.

Theorem points_at_bytes text from to b :
  points_at text from to b ->
  firstn (N.to_nat (to - from)) (skipn (N.to_nat from) (encode text)) = encode b.
Proof.
  intros (a & c & -> & -> & ->).
  replace (N.to_nat (blen a)) with (length (encode a)) by (pose proof (encode_length a); lia).
  replace (N.to_nat (blen a + blen b - blen a)) with (length (encode b)) by (pose proof (encode_length b); lia).
  apply firstn_skipn_encode.
Qed.

(* ------------------------------------------------------------------------------------------ *)
(* ngram_tokenizer.rs utf8_codepoint_width: width of a code point from its first byte, through the
   regenerated table CODEPOINT_UTF8_WIDTH *)
Definition width_of_lead (b : N) : N :=
  nth (N.to_nat (N.shiftr b TEXT_WIDTH_NIBBLE_SHIFT)) TEXT_CODEPOINT_UTF8_WIDTH 0.

Definition lead_width (c : cp) : N := width_of_lead (hd 0 (utf8 c)).

Definition expected_width (nib : nat) : N :=
  if Nat.ltb nib 8 then 1 else if Nat.ltb nib 12 then 0 else if Nat.ltb nib 14 then 2 else if Nat.ltb nib 15 then 3 else 4.

(* re-checked on the regenerated table at every run: entries 8..11 (continuation bytes) are never used *)
Lemma width_table_ok :
  forallb (fun nib => orb (N.eqb (expected_width nib) 0) (N.eqb (nth nib TEXT_CODEPOINT_UTF8_WIDTH 0) (expected_width nib))) (seq 0 16) = true.
Proof. vm_compute. reflexivity. Qed.

Lemma nibble_shift_is_4 : TEXT_WIDTH_NIBBLE_SHIFT = 4.
Proof. vm_compute. reflexivity. Qed.

Lemma width_lookup nib : (nib < 16)%nat -> expected_width nib <> 0 ->
  nth nib TEXT_CODEPOINT_UTF8_WIDTH 0 = expected_width nib.
Proof.
  intros Hn He. pose proof width_table_ok as H. rewrite forallb_forall in H.
  specialize (H nib). rewrite in_seq in H. specialize (H ltac:(lia)).
  apply orb_true_iff in H as [H|H]; apply N.eqb_eq in H; [contradiction|exact H].
Qed.

Theorem lead_width_is_len8 c : valid_cp c = true -> lead_width c = len8 c.
Proof.
  unfold valid_cp, lead_width, width_of_lead, utf8, len8. intros Hv. apply N.ltb_lt in Hv.
  rewrite nibble_shift_is_4, !N.shiftr_div_pow2. change (2 ^ 4) with 16.
  destruct (N.ltb_spec c 128) as [H1|H1]; cbn [hd].
  { assert (c / 16 < 8) by (apply N.div_lt_upper_bound; lia).
    rewrite width_lookup; unfold expected_width.
    - destruct (Nat.ltb_spec (N.to_nat (c / 16)) 8); [reflexivity|lia].
    - lia.
    - destruct (Nat.ltb_spec (N.to_nat (c / 16)) 8); [discriminate|lia]. }
  destruct (N.ltb_spec c 2048) as [H2|H2]; cbn [hd].
  { assert (c / 64 < 32) by (apply N.div_lt_upper_bound; lia).
    assert (12 <= (192 + c / 64) / 16 < 14) as [Ha Hb].
    { split; [apply N.div_le_lower_bound; lia|apply N.div_lt_upper_bound; lia]. }
    rewrite width_lookup; unfold expected_width.
    - destruct (Nat.ltb_spec (N.to_nat ((192 + c / 64) / 16)) 8); [lia|].
      destruct (Nat.ltb_spec (N.to_nat ((192 + c / 64) / 16)) 12); [lia|].
      destruct (Nat.ltb_spec (N.to_nat ((192 + c / 64) / 16)) 14); [reflexivity|lia].
    - lia.
    - destruct (Nat.ltb_spec (N.to_nat ((192 + c / 64) / 16)) 8); [lia|].
      destruct (Nat.ltb_spec (N.to_nat ((192 + c / 64) / 16)) 12); [lia|].
      destruct (Nat.ltb_spec (N.to_nat ((192 + c / 64) / 16)) 14); [discriminate|lia]. }
  destruct (N.ltb_spec c 65536) as [H3|H3]; cbn [hd].
  { assert (c / 4096 < 16) by (apply N.div_lt_upper_bound; lia).
    assert ((224 + c / 4096) / 16 = 14) as ->.
    { apply N.le_antisymm; [|apply N.div_le_lower_bound; lia].
      assert ((224 + c / 4096) / 16 < 15) by (apply N.div_lt_upper_bound; lia). lia. }
    rewrite width_lookup; [reflexivity|cbn; lia|discriminate]. }
  assert (c / 262144 < 5) by (apply N.div_lt_upper_bound; lia).
  assert ((240 + c / 262144) / 16 = 15) as ->.
  { apply N.le_antisymm; [|apply N.div_le_lower_bound; lia].
    assert ((240 + c / 262144) / 16 < 16) by (apply N.div_lt_upper_bound; lia). lia. }
  rewrite width_lookup; [reflexivity|cbn; lia|discriminate].
Qed.
