(* Text/Tokenizer.v -- tokens and the scanning tokenizers (C19).
   Transliterates tokenizer-api/src/lib.rs (Token, reset), src/tokenizer/simple_tokenizer.rs,
   whitespace_tokenizer.rs, raw_tokenizer.rs, regex_tokenizer.rs (matches supplied by an oracle),
   facet_tokenizer.rs. *)
From TV Require Import Base.Prelude Generated.Constants Text.Utf8.
Local Open Scope N_scope.

Record token := mkTok { t_from : N; t_to : N; t_pos : N; t_text : list cp }.

(* Token::reset sets position = usize::MAX; every advance does position.wrapping_add(1) *)
Definition USIZE_MAX : N := 18446744073709551615.
Definition next_pos (p : N) : N := if p =? USIZE_MAX then 0 else p + 1.

(* ---- what the property says about one token ---- *)
(* offsets inside the text, on boundaries, from <= to *)
Definition span_ok (text : list cp) (tk : token) : Prop :=
  exists b, points_at text (t_from tk) (t_to tk) b.
(* ... and the token text is the slice it points to *)
Definition tok_ok (text : list cp) (tk : token) : Prop :=
  points_at text (t_from tk) (t_to tk) (t_text tk).

Lemma tok_ok_span text tk : tok_ok text tk -> span_ok text tk.
Proof. intros H. exists (t_text tk). exact H. Qed.

Lemma span_ok_facts text tk : span_ok text tk ->
  t_from tk <= t_to tk /\ t_to tk <= blen text /\ boundary text (t_from tk) /\ boundary text (t_to tk).
Proof. intros (b & H). eapply points_at_facts; eauto. Qed.

(* boolean versions (evaluated on the implementation's tokens by the harness) *)
Definition cps_eqb := list_eqb N.eqb.
Lemma cps_eqb_eq a b : cps_eqb a b = true <-> a = b.
Proof. apply list_eqb_eq. intros x y. apply N.eqb_eq. Qed.

Definition span_okb (text : list cp) (tk : token) : bool :=
  match slice_cp text (t_from tk) (t_to tk) with Some _ => true | None => false end.
Definition tok_okb (text : list cp) (tk : token) : bool :=
  match slice_cp text (t_from tk) (t_to tk) with Some b => cps_eqb b (t_text tk) | None => false end.

Lemma span_okb_spec text tk : span_okb text tk = true <-> span_ok text tk.
Proof.
  unfold span_okb, span_ok. split.
  - destruct (slice_cp _ _ _) as [b|] eqn:E; [|discriminate]. intros _. exists b. apply slice_cp_spec. exact E.
  - intros (b & H). apply slice_cp_spec in H. rewrite H. reflexivity.
Qed.
Lemma tok_okb_spec text tk : tok_okb text tk = true <-> tok_ok text tk.
Proof.
  unfold tok_okb, tok_ok. split.
  - destruct (slice_cp _ _ _) as [b|] eqn:E; [|discriminate]. intros H. apply cps_eqb_eq in H. subst. apply slice_cp_spec. exact E.
  - intros H. apply slice_cp_spec in H. rewrite H. apply cps_eqb_eq. reflexivity.
Qed.

(* positions never decrease / offset_from never decreases / tokens do not overlap *)
Fixpoint sorted_by {A} (key : A -> N) (l : list A) : Prop :=
  match l with
  | [] => True
  | x :: r => match r with [] => True | y :: _ => key x <= key y end /\ sorted_by key r
  end.
Fixpoint sorted_byb {A} (key : A -> N) (l : list A) : bool :=
  match l with
  | [] => true
  | x :: r => match r with [] => true | y :: _ => key x <=? key y end && sorted_byb key r
  end.
Lemma sorted_byb_spec {A} (key : A -> N) l : sorted_byb key l = true <-> sorted_by key l.
Proof.
  induction l as [|x r IH]; cbn [sorted_by sorted_byb]; [tauto|].
  rewrite andb_true_iff, IH. destruct r as [|y r']; [tauto|]. rewrite N.leb_le. tauto.
Qed.

Definition pos_sorted (ts : list token) : Prop := sorted_by t_pos ts.
Definition from_sorted (ts : list token) : Prop := sorted_by t_from ts.
(* non-overlapping, in text order: every token starts at or after the end of the previous one *)
Fixpoint disjoint_from (lo : N) (ts : list token) : Prop :=
  match ts with [] => True | tk :: r => lo <= t_from tk /\ t_from tk <= t_to tk /\ disjoint_from (t_to tk) r end.
Fixpoint disjoint_fromb (lo : N) (ts : list token) : bool :=
  match ts with [] => true | tk :: r => (lo <=? t_from tk) && (t_from tk <=? t_to tk) && disjoint_fromb (t_to tk) r end.
Lemma disjoint_fromb_spec ts : forall lo, disjoint_fromb lo ts = true <-> disjoint_from lo ts.
Proof.
  induction ts as [|tk r IH]; intros lo; cbn [disjoint_from disjoint_fromb]; [tauto|].
  rewrite !andb_true_iff, IH, !N.leb_le. tauto.
Qed.

Lemma sorted_by_head_le {A} (key : A -> N) x l : sorted_by key (x :: l) -> Forall (fun y => key x <= key y) l.
Proof.
  revert x. induction l as [|y l IH]; intros x H; [constructor|].
  cbn [sorted_by] in H. destruct H as [Hxy Hr]. constructor; [exact Hxy|].
  specialize (IH y Hr). eapply Forall_impl; [|exact IH]. cbn. intros z Hz. lia.
Qed.

Lemma disjoint_from_weaken ts : forall lo lo', lo' <= lo -> disjoint_from lo ts -> disjoint_from lo' ts.
Proof. destruct ts as [|tk r]; intros lo lo' Hle H; [exact I|]. cbn [disjoint_from] in *. intuition lia. Qed.

Lemma disjoint_from_sorted ts : forall lo, disjoint_from lo ts -> from_sorted ts.
Proof.
  unfold from_sorted. induction ts as [|tk r IH]; intros lo H; [exact I|]. cbn [disjoint_from] in H.
  destruct H as (H1 & H2 & H3). cbn [sorted_by]. split; [|eapply IH; eauto].
  destruct r as [|tk' r']; [exact I|]. cbn [disjoint_from] in H3. lia.
Qed.

(* iterating next_pos from the reset value counts 0,1,2,... as long as usize does not wrap *)
Lemma iter_next_pos k : N.of_nat k <= USIZE_MAX -> iter (S k) next_pos USIZE_MAX = N.of_nat k.
Proof.
  induction k as [|k IH]; intros Hk.
  - reflexivity.
  - rewrite iter_succ, IH by lia. unfold next_pos. destruct (N.eqb_spec (N.of_nat k) USIZE_MAX); lia.
Qed.

(* ------------------------------------------------------------------------------------------ *)
(* SimpleTokenStream / WhitespaceTokenStream share one loop over `chars: CharIndices`:
   advance() pulls chars until one is inside a token (mode None), then search_token_end pulls
   chars while they stay inside (mode Some (offset_from, chars so far)), consuming the delimiter.
   `inside` = char::is_alphanumeric (simple) or !is_ascii_whitespace (whitespace). *)
Section Scan.
  Variable inside : cp -> bool.

  Fixpoint scan (l : list cp) (off pos : N) (cur : option (N * list cp)) : list token :=
    match l with
    | [] => match cur with
            | None => []
            | Some (from, acc) => [mkTok from off (next_pos pos) (rev acc)]   (* unwrap_or(text.len()) *)
            end
    | c :: r =>
        if inside c then
          match cur with
          | None => scan r (off + len8 c) pos (Some (off, [c]))
          | Some (from, acc) => scan r (off + len8 c) pos (Some (from, c :: acc))
          end
        else
          match cur with
          | None => scan r (off + len8 c) pos None
          | Some (from, acc) => mkTok from off (next_pos pos) (rev acc) :: scan r (off + len8 c) (next_pos pos) None
          end
    end.

  Definition scan_tokenizer (text : list cp) : list token := scan text 0 USIZE_MAX None.

  (* invariant: `pre` is what the iterator has consumed *)
  Definition cur_ok (pre : list cp) (cur : option (N * list cp)) : Prop :=
    match cur with
    | None => True
    | Some (from, acc) => exists p0, pre = p0 ++ rev acc /\ from = blen p0
    end.

  Lemma scan_tok_ok : forall l pre off pos cur,
    off = blen pre -> cur_ok pre cur ->
    Forall (tok_ok (pre ++ l)) (scan l off pos cur).
  Proof.
    induction l as [|c r IH]; intros pre off pos cur Hoff Hcur; cbn [scan].
    - destruct cur as [[from acc]|]; [|constructor]. destruct Hcur as (p0 & -> & ->).
      constructor; [|constructor]. unfold tok_ok. cbn [t_from t_to t_text].
      exists p0, []. rewrite !app_nil_r. subst off. rewrite blen_app. repeat split; reflexivity.
    - assert (Hpre : pre ++ c :: r = (pre ++ [c]) ++ r) by (rewrite <- app_assoc; reflexivity).
      assert (Hoff' : off + len8 c = blen (pre ++ [c])) by (rewrite blen_app; cbn [blen]; lia).
      destruct (inside c).
      + destruct cur as [[from acc]|]; rewrite Hpre; apply IH; try exact Hoff'.
        * destruct Hcur as (p0 & -> & ->). exists p0. cbn [rev]. rewrite app_assoc. split; reflexivity.
        * exists pre. cbn [rev app]. split; [reflexivity|exact Hoff].
      + destruct cur as [[from acc]|].
        * constructor.
          -- destruct Hcur as (p0 & -> & ->). unfold tok_ok. cbn [t_from t_to t_text].
             exists p0, (c :: r). subst off. rewrite blen_app, <- app_assoc. repeat split; reflexivity.
          -- rewrite Hpre. apply IH; [exact Hoff'|exact I].
        * rewrite Hpre. apply IH; [exact Hoff'|exact I].
  Qed.

  (* tokens are disjoint and in text order; the open token (if any) starts before `off` *)
  Lemma scan_disjoint : forall l off pos cur lo,
    match cur with None => lo <= off | Some (from, _) => lo <= from /\ from <= off end ->
    disjoint_from lo (scan l off pos cur).
  Proof.
    induction l as [|c r IH]; intros off pos cur lo H; cbn [scan].
    - destruct cur as [[from acc]|]; [|exact I]. cbn [disjoint_from t_from t_to]. intuition lia.
    - pose proof (len8_pos c) as Hp. destruct (inside c).
      + destruct cur as [[from acc]|]; apply IH; intuition lia.
      + destruct cur as [[from acc]|].
        * cbn [disjoint_from t_from t_to]. repeat split; try (intuition lia). apply IH. lia.
        * apply IH. lia.
  Qed.

  (* positions: consecutive applications of next_pos *)
  Fixpoint pos_chain (p : N) (ts : list token) : Prop :=
    match ts with [] => True | tk :: r => t_pos tk = next_pos p /\ pos_chain (t_pos tk) r end.

  Lemma scan_pos_chain : forall l off pos cur, pos_chain pos (scan l off pos cur).
  Proof.
    induction l as [|c r IH]; intros off pos cur; cbn [scan].
    - destruct cur as [[from acc]|]; cbn [pos_chain t_pos]; auto.
    - destruct (inside c); destruct cur as [[from acc]|]; try apply IH.
      cbn [pos_chain t_pos]. split; [reflexivity|apply IH].
  Qed.

  Lemma scan_length : forall l off pos cur,
    (length (scan l off pos cur) <= length l + match cur with None => 0 | Some _ => 1 end)%nat.
  Proof.
    induction l as [|c r IH]; intros off pos cur; cbn [scan length].
    - destruct cur as [[from acc]|]; cbn [length]; lia.
    - destruct (inside c); destruct cur as [[from acc]|];
        try (match goal with |- context [scan r ?o ?p ?k] => specialize (IH o p k) end; cbn [length] in *; lia).
  Qed.

  (* every token is a non-empty run of `inside` characters ... *)
  Lemma scan_runs : forall l off pos cur,
    match cur with None => True | Some (_, acc) => acc <> [] /\ forallb inside acc = true end ->
    Forall (fun tk => t_text tk <> [] /\ forallb inside (t_text tk) = true) (scan l off pos cur).
  Proof.
    assert (Hrev : forall acc, acc <> [] /\ forallb inside acc = true -> rev acc <> [] /\ forallb inside (rev acc) = true).
    { intros acc [Hne Hall]. split.
      - intros E. apply Hne. apply (f_equal (@rev cp)) in E. rewrite rev_involutive in E. exact E.
      - rewrite forallb_forall in *. intros x Hx. apply Hall. apply in_rev. exact Hx. }
    induction l as [|c r IH]; intros off pos cur H; cbn [scan].
    - destruct cur as [[from acc]|]; constructor; [apply Hrev; exact H|constructor].
    - destruct (inside c) eqn:Ec.
      + destruct cur as [[from acc]|]; apply IH.
        * cbn [forallb]. rewrite Ec. destruct H as [_ H]. rewrite H. split; [discriminate|reflexivity].
        * cbn [forallb]. rewrite Ec. split; [discriminate|reflexivity].
      + destruct cur as [[from acc]|]; [constructor; [apply Hrev; exact H|]|]; apply IH; exact I.
  Qed.
End Scan.

(* pos_chain from the reset value = positions 0,1,2,... (no usize wrap for texts shorter than 2^64) *)
Lemma pos_chain_sorted : forall ts p k,
  p = iter k next_pos USIZE_MAX -> (0 < k)%nat -> N.of_nat (k + length ts) <= USIZE_MAX + 1 ->
  pos_chain p ts -> Forall (fun tk => p <= t_pos tk) ts /\ pos_sorted ts.
Proof.
  unfold pos_sorted. induction ts as [|tk r IH]; intros p k Hp Hk Hlen Hc; [split; [constructor|exact I]|].
  cbn [pos_chain] in Hc. destruct Hc as [Ht Hc]. cbn [length] in Hlen.
  destruct k as [|k']; [lia|].
  assert (Hpv : p = N.of_nat k') by (rewrite Hp; apply iter_next_pos; lia).
  assert (Htv : t_pos tk = N.of_nat (S k')).
  { rewrite Ht, Hpv. unfold next_pos. destruct (N.eqb_spec (N.of_nat k') USIZE_MAX); lia. }
  destruct (IH (t_pos tk) (S (S k'))) as [Hall Hs]; try lia; try exact Hc.
  { rewrite iter_succ, <- Hp, Ht. reflexivity. }
  split.
  - constructor; [lia|]. eapply Forall_impl; [|exact Hall]. cbn. intros z Hz. lia.
  - cbn [sorted_by]. split; [|exact Hs]. destruct r as [|tk' r']; [exact I|].
    inversion Hall; subst. assumption.
Qed.

Lemma pos_chain_first_sorted ts :
  N.of_nat (length ts) <= USIZE_MAX -> pos_chain USIZE_MAX ts -> pos_sorted ts.
Proof.
  intros Hlen Hc. destruct ts as [|tk r]; [exact I|].
  cbn [pos_chain] in Hc. destruct Hc as [Ht Hc]. cbn [length] in Hlen.
  destruct (pos_chain_sorted r (t_pos tk) 1) as [Hall Hs]; try lia; try exact Hc.
  { cbn [iter]. exact Ht. }
  unfold pos_sorted. cbn [sorted_by]. split; [|exact Hs].
  destruct r as [|tk' r']; [exact I|]. inversion Hall; subst. assumption.
Qed.

Theorem scan_tokenizer_ok inside text :
  Forall (tok_ok text) (scan_tokenizer inside text) /\
  disjoint_from 0 (scan_tokenizer inside text) /\
  (blen text <= USIZE_MAX -> pos_sorted (scan_tokenizer inside text)) /\
  Forall (fun tk => t_text tk <> [] /\ forallb inside (t_text tk) = true) (scan_tokenizer inside text).
Proof.
  unfold scan_tokenizer. repeat split.
  - apply (scan_tok_ok inside text [] 0 USIZE_MAX None); [reflexivity|exact I].
  - apply scan_disjoint. lia.
  - intros Hlen. apply pos_chain_first_sorted; [|apply scan_pos_chain].
    pose proof (scan_length inside text 0 USIZE_MAX None) as Hl. cbn beta iota in Hl. pose proof (chars_le_bytes text). lia.
  - apply scan_runs. exact I.
Qed.

(* char::is_ascii_whitespace: U+0020, U+0009, U+000A, U+000C, U+000D *)
Definition is_ascii_ws (c : cp) : bool :=
  (c =? 32) || (c =? 9) || (c =? 10) || (c =? 12) || (c =? 13).

Definition simple_tokenizer (alnum : cp -> bool) := scan_tokenizer alnum.
Definition whitespace_tokenizer := scan_tokenizer (fun c => negb (is_ascii_ws c)).

(* RawTokenizer: one token 0..text.len(), position 0 *)
Definition raw_tokenizer (text : list cp) : list token := [mkTok 0 (blen text) 0 text].

Theorem raw_tokenizer_ok text :
  Forall (tok_ok text) (raw_tokenizer text) /\ disjoint_from 0 (raw_tokenizer text) /\ pos_sorted (raw_tokenizer text).
Proof.
  unfold raw_tokenizer. repeat split.
  - constructor; [|constructor]. exists [], []. rewrite app_nil_r. repeat split; reflexivity.
  - cbn [t_from]. lia.
  - cbn [t_from t_to]. lia.
Qed.

(* ------------------------------------------------------------------------------------------ *)
(* RegexTokenStream: the regex engine is an oracle `find : remaining text -> option (start, end)`
   (byte offsets of the leftmost match in the remaining slice).  Contract of regex::Regex::find on
   a &str: start <= end, both on char boundaries of the slice.  The loop is transliterated:
   cursor += match.end; text = &text[match.end..]; an empty match ends the stream.  Fuel is the
   number of remaining code points + 1 (every productive step consumes at least one). *)
Section Regex.
  Variable find : list cp -> option (N * N).
  Hypothesis find_ok : forall s a b, find s = Some (a, b) -> exists m, points_at s a b m.

  Fixpoint regex_loop (fuel : nat) (s : list cp) (cursor pos : N) : option (list token) :=
    match fuel with
    | O => None                                                (* out of fuel: excluded below *)
    | S fuel' =>
        match find s with
        | None => Some []
        | Some (a, b) =>
            match slice_cp s a b, drop_bytes s b with
            | Some m, Some rest =>
                if (blen m =? 0) then Some []                    (* regex_match.as_str().is_empty() *)
                else match regex_loop fuel' rest (cursor + b) (next_pos pos) with
                     | Some ts => Some (mkTok (cursor + a) (cursor + b) (next_pos pos) m :: ts)
                     | None => None
                     end
            | _, _ => Some []    (* unreachable under find_ok; a slicing panic would be here *)
            end
        end
    end.

  Definition regex_tokenizer (text : list cp) : option (list token) :=
    regex_loop (S (length text)) text 0 USIZE_MAX.

  Lemma regex_loop_ok : forall fuel s pre cursor pos ts,
    cursor = blen pre -> regex_loop fuel s cursor pos = Some ts ->
    Forall (tok_ok (pre ++ s)) ts /\ disjoint_from cursor ts /\ pos_chain pos ts /\ (length ts <= length s)%nat.
  Proof.
    induction fuel as [|fuel IH]; intros s pre cursor pos ts Hc H; cbn [regex_loop] in H; [discriminate|].
    destruct (find s) as [[a b]|] eqn:Ef.
    2:{ injection H as <-. split; [constructor|]. split; [exact I|]. split; [exact I|]. cbn [length]. lia. }
    destruct (find_ok _ _ _ Ef) as (m & Hm).
    pose proof Hm as Hm'. apply slice_cp_spec in Hm'. rewrite Hm' in H.
    destruct Hm as (x & y & Hs & Ha & Hb).
    assert (Hd : drop_bytes s b = Some y).
    { subst s b. rewrite app_assoc, <- blen_app. apply drop_bytes_app. }
    rewrite Hd in H. destruct (N.eqb_spec (blen m) 0) as [E0|N0].
    { injection H as <-. split; [constructor|]. split; [exact I|]. split; [exact I|]. cbn [length]. lia. }
    destruct (regex_loop fuel y (cursor + b) (next_pos pos)) as [ts'|] eqn:El; [|discriminate].
    injection H as <-.
    destruct (IH y (pre ++ x ++ m) (cursor + b) (next_pos pos) ts') as (H1 & H2 & H3 & H4); [|exact El|].
    { subst. rewrite !blen_app. lia. }
    assert (Hmne : (0 < length m)%nat).
    { destruct m; [cbn [blen] in N0; lia|cbn [length]; lia]. }
    split; [|split; [|split]].
    - constructor.
      + unfold tok_ok. cbn [t_from t_to t_text]. exists (pre ++ x), y. subst. rewrite !blen_app, <- !app_assoc.
        repeat split; lia.
      + subst s. rewrite <- !app_assoc in H1. exact H1.
    - cbn [disjoint_from t_from t_to]. repeat split; try lia. exact H2.
    - cbn [pos_chain t_pos]. split; [reflexivity|exact H3].
    - subst s. cbn [length]. rewrite !app_length. lia.
  Qed.


  (* What the stream is, relationally: the successive leftmost matches of the remaining text, each
     non-empty, each searched from the end of the previous one; the stream ENDS at the first failed
     search or the first EMPTY match (tokens are a prefix of the non-empty matches -- as coded). *)
  Inductive regex_chain : list cp -> list cp -> list token -> Prop :=
  | rc_none pre s : find s = None -> regex_chain pre s []
  | rc_empty pre s a : find s = Some (a, a) -> regex_chain pre s []
  | rc_step pre s x m y tk ts :
      s = x ++ m ++ y -> find s = Some (blen x, blen x + blen m) -> m <> [] ->
      t_from tk = blen pre + blen x -> t_to tk = blen pre + blen x + blen m -> t_text tk = m ->
      regex_chain (pre ++ x ++ m) y ts -> regex_chain pre s (tk :: ts).

  Lemma regex_loop_chain : forall fuel s pre cursor pos ts,
    cursor = blen pre -> regex_loop fuel s cursor pos = Some ts -> regex_chain pre s ts.
  Proof.
    induction fuel as [|fuel IH]; intros s pre cursor pos ts Hc H; cbn [regex_loop] in H; [discriminate|].
    destruct (find s) as [[a b]|] eqn:Ef.
    2:{ injection H as <-. apply rc_none. exact Ef. }
    destruct (find_ok _ _ _ Ef) as (m & Hm).
    pose proof Hm as Hm'. apply slice_cp_spec in Hm'. rewrite Hm' in H.
    destruct Hm as (x & y & Hs & Ha & Hb).
    assert (Hd : drop_bytes s b = Some y).
    { subst s b. rewrite app_assoc, <- blen_app. apply drop_bytes_app. }
    rewrite Hd in H. destruct (N.eqb_spec (blen m) 0) as [E0|N0].
    { injection H as <-. apply (rc_empty pre s a). rewrite Ef. f_equal. f_equal. lia. }
    destruct (regex_loop fuel y (cursor + b) (next_pos pos)) as [ts'|] eqn:El; [|discriminate].
    injection H as <-.
    eapply (rc_step pre s x m y); try eassumption; cbn [t_from t_to t_text]; try (subst; lia); try reflexivity.
    - rewrite Ef. subst. reflexivity.
    - intros ->. cbn [blen] in N0. lia.
    - eapply IH; [|exact El]. subst. rewrite !blen_app. lia.
  Qed.

  Theorem regex_tokenizer_chain text ts : regex_tokenizer text = Some ts -> regex_chain [] text ts.
  Proof. unfold regex_tokenizer. apply regex_loop_chain. reflexivity. Qed.

  Lemma regex_loop_fuel : forall fuel s cursor pos, (length s < fuel)%nat -> regex_loop fuel s cursor pos <> None.
  Proof.
    induction fuel as [|fuel IH]; intros s cursor pos Hf; [lia|]. cbn [regex_loop].
    destruct (find s) as [[a b]|] eqn:Ef; [|discriminate].
    destruct (find_ok _ _ _ Ef) as (m & Hm).
    pose proof Hm as Hm'. apply slice_cp_spec in Hm'. rewrite Hm'.
    destruct Hm as (x & y & Hs & Ha & Hb).
    assert (Hd : drop_bytes s b = Some y).
    { subst s b. rewrite app_assoc, <- blen_app. apply drop_bytes_app. }
    rewrite Hd. destruct (N.eqb_spec (blen m) 0) as [E0|N0]; [discriminate|].
    assert (Hy : (length y < fuel)%nat).
    { subst s. rewrite !app_length in Hf. destruct m; [cbn [blen] in N0; lia|cbn [length] in Hf; lia]. }
    specialize (IH y (cursor + b) (next_pos pos) Hy).
    destruct (regex_loop fuel y (cursor + b) (next_pos pos)); [discriminate|contradiction].
  Qed.

  Theorem regex_tokenizer_ok text :
    exists ts, regex_tokenizer text = Some ts /\
      Forall (tok_ok text) ts /\ disjoint_from 0 ts /\ (blen text <= USIZE_MAX -> pos_sorted ts).
  Proof.
    unfold regex_tokenizer.
    destruct (regex_loop (S (length text)) text 0 USIZE_MAX) as [ts|] eqn:E.
    2:{ exfalso. eapply regex_loop_fuel; [|exact E]. lia. }
    exists ts. split; [reflexivity|].
    destruct (regex_loop_ok _ text [] 0 USIZE_MAX ts eq_refl E) as (H1 & H2 & H3 & H4).
    repeat split; try assumption.
    intros Hlen. apply pos_chain_first_sorted; [|exact H3]. pose proof (chars_le_bytes text). lia.
  Qed.
End Regex.

(* ------------------------------------------------------------------------------------------ *)
(* FacetTokenStream: the token text accumulates the facet path up to each separator; position stays
   0 and -- as coded -- offset_from/offset_to are never written after reset (both stay 0).
   State: RootFacetNotEmitted -> UpToPosition(cursor) -> Terminated.  Separators are found on the
   bytes (FACET_SEP_BYTE is ASCII, so a separator byte is a separator code point). *)
Fixpoint facet_parts (l : list cp) (acc : list cp) (first : bool) : list (list cp) :=
  (* emits acc' at each separator that is not the first char of the remaining part, and at the end *)
  match l with
  | [] => [rev acc]
  | c :: r => if (c =? TEXT_FACET_SEP_BYTE) && negb first
              then rev acc :: facet_parts r (c :: acc) false
              else facet_parts r (c :: acc) false
  end.

Definition facet_texts (text : list cp) : list (list cp) :=
  [] :: match text with [] => [] | _ => facet_parts text [] true end.
Definition facet_tokenizer (text : list cp) : list token :=
  map (fun t => mkTok 0 0 0 t) (facet_texts text).

(* What holds: the offsets are trivially inside the text and on boundaries, positions constant.
   What does not hold (F22): the text of a non-root facet token is not the slice 0..0. *)
Theorem facet_tokenizer_spans text :
  Forall (span_ok text) (facet_tokenizer text) /\ pos_sorted (facet_tokenizer text) /\ from_sorted (facet_tokenizer text).
Proof.
  assert (Hs : forall t, span_ok text (mkTok 0 0 0 t)).
  { intros t. exists []. exists [], text. repeat split; reflexivity. }
  assert (Hsorted : forall (key : token -> N) l, (forall t, key (mkTok 0 0 0 t) = 0) ->
             sorted_by key (map (fun t => mkTok 0 0 0 t) l)).
  { intros key l Hk. induction l as [|x l IH]; [exact I|]. cbn [map sorted_by]. split; [|exact IH].
    destruct l; cbn [map]; [exact I|]. rewrite !Hk. lia. }
  unfold facet_tokenizer. split; [|split].
  - apply Forall_forall. intros tk Hin. apply in_map_iff in Hin as (t & <- & _). apply Hs.
  - apply (Hsorted t_pos). reflexivity.
  - apply (Hsorted t_from). reflexivity.
Qed.

(* the text carried by a facet token is the prefix of the path that it stands for *)
Lemma facet_parts_prefix : forall l acc first t,
  In t (facet_parts l acc first) -> exists a b, l = a ++ b /\ t = rev acc ++ a.
Proof.
  induction l as [|c r IH]; intros acc first t Hin; cbn [facet_parts] in Hin.
  - destruct Hin as [<-|[]]. exists [], []. split; [reflexivity|rewrite app_nil_r; reflexivity].
  - assert (Hrec : In t (facet_parts r (c :: acc) false) -> exists a b, c :: r = a ++ b /\ t = rev acc ++ a).
    { intros H. apply IH in H as (a & b & -> & ->). exists (c :: a), b. cbn [rev]. rewrite <- app_assoc. split; reflexivity. }
    destruct ((c =? TEXT_FACET_SEP_BYTE) && negb first); [|auto].
    destruct Hin as [<-|Hin]; [|auto]. exists [], (c :: r). split; [reflexivity|rewrite app_nil_r; reflexivity].
Qed.
