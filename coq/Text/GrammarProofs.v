(* C16 -- proofs about the strict grammar model: print/parse round trip on the phrase fragment. *)
From TV Require Import Base.Prelude Text.BinOpFold Text.Grammar Generated.Constants.
Local Open Scope N_scope.

(* closed comparisons of character codes *)
Ltac ncmp :=
  repeat match goal with
         | |- context [N.eqb ?a ?b] =>
             let v := eval vm_compute in (N.eqb a b) in
             match v with true => idtac | false => idtac end;
             change (N.eqb a b) with v
         end.
Ltac unfold_chars :=
  unfold BSL, DQ, SQ, LP, RP, STAR, PLUS, MINUS, DOT, SLASH, COLON, LT, EQ, GT, LBR, RBR, CARET, BQ, LCB, RCB, TILDE,
         kw_AND, kw_OR, kw_NOT, kw_IN, kw_TO in *.

Definition nms (s : str) : bool := match s with [] => true | c :: _ => negb (is_ms c) end.
Definition follow_ok (s : str) : bool := match s with [] => true | c :: _ => is_ms c || (c =? 41) end.
Definition end_ok (s : str) : bool := match s with [] => true | c :: _ => c =? 41 end.

Lemma skip_ms_app w rest : ws0 w = true -> nms rest = true -> skip_ms (w ++ rest) = rest.
Proof.
  intros Hw Hr. induction w as [|c w IH]; cbn [app].
  - destruct rest as [|c r]; [reflexivity|]. cbn [skip_ms]. cbn [nms] in Hr. now destruct (is_ms c).
  - cbn [ws0 forallb] in Hw. apply andb_true_iff in Hw as [Hc Hw]. cbn [skip_ms]. rewrite Hc. now apply IH.
Qed.

Lemma quoted_body_ok q body rest :
  wf_body q body = true -> quoted_body (quote_char q) (body ++ quote_char q :: rest) = Some (body, rest).
Proof.
  intros H. induction body as [|c b IH]; cbn [app quoted_body].
  - destruct q; cbn [quote_char]; unfold_chars; ncmp; reflexivity.
  - cbn [wf_body forallb] in H. apply andb_true_iff in H as [Hc Hb]. apply andb_true_iff in Hc as [H1 H2].
    apply negb_true_iff in H1, H2. rewrite H1, H2. fold (wf_body q b) in Hb. now rewrite (IH Hb).
Qed.

Lemma slop_none rest : follow_ok rest = true -> slop_or_prefix rest = (0, false, rest).
Proof.
  destruct rest as [|c r]; [reflexivity|]. cbn [follow_ok slop_or_prefix]. intros H.
  assert (H1 : (c =? STAR) = false).
  { destruct (c =? STAR) eqn:E; [|reflexivity]. apply N.eqb_eq in E. subst c. vm_compute in H. discriminate. }
  assert (H2 : (c =? TILDE) = false).
  { destruct (c =? TILDE) eqn:E; [|reflexivity]. apply N.eqb_eq in E. subst c. vm_compute in H. discriminate. }
  now rewrite H1, H2.
Qed.
Lemma boost_none rest : follow_ok rest = true -> boost_p rest = None.
Proof.
  destruct rest as [|c r]; [reflexivity|]. cbn [follow_ok boost_p]. intros H.
  destruct (c =? CARET) eqn:E; [|reflexivity]. apply N.eqb_eq in E. subst c. vm_compute in H. discriminate.
Qed.

Lemma alts_fail_first c t :
  is_ms c = false -> in_tab c [GT; LT; LCB; LBR; 73; STAR; SLASH] = false ->
  range (c :: t) = None /\ set_p (c :: t) = None /\ exists_p (c :: t) = None /\ regex_p (c :: t) = None.
Proof.
  intros Hms Ht. unfold in_tab in Ht. cbn [existsb] in Ht.
  repeat (apply orb_false_iff in Ht; destruct Ht as [?H Ht]).
  repeat split.
  - unfold range, elastic_range, lower_to_upper. cbn [skip_ms]. rewrite Hms. cbn [strip_prefix].
    rewrite (N.eqb_sym GT c), (N.eqb_sym LT c), H, H0, H1, H2. reflexivity.
  - unfold set_p. cbn [skip_ms]. rewrite Hms. unfold kw_IN. cbn [strip_prefix]. rewrite (N.eqb_sym 73 c), H3. reflexivity.
  - unfold exists_p. cbn [skip_ms]. rewrite Hms, H4. reflexivity.
  - unfold regex_p. rewrite H5. reflexivity.
Qed.

Lemma phrase_leaf rej astp leafp q body rest :
  wf_body q body = true -> follow_ok rest = true ->
  leaf_body rej astp leafp (quote_char q :: body ++ quote_char q :: rest)
  = ROk (Leaf (LLit None body (quote_delim q) 0 false)) rest.
Proof.
  intros Hb Hr.
  assert (Ht : term_or_phrase (quote_char q :: body ++ quote_char q :: rest) = Some (LLit None body (quote_delim q) 0 false, rest)).
  { unfold term_or_phrase, simple_term.
    destruct q; cbn [quote_char negative_number]; unfold_chars; ncmp; cbn [quote_char].
    - pose proof (quoted_body_ok QD body rest Hb) as Hq. cbn [quote_char] in Hq. unfold DQ in Hq. rewrite Hq.
      rewrite (slop_none rest Hr). reflexivity.
    - pose proof (quoted_body_ok QS body rest Hb) as Hq. cbn [quote_char] in Hq. unfold SQ in Hq. rewrite Hq.
      rewrite (slop_none rest Hr). reflexivity. }
  unfold leaf_body.
  destruct q; cbn [quote_char] in *; unfold_chars; ncmp; cbn [andb strip_prefix]; ncmp.
  all: unfold literal, field_name; unfold special, in_tab; unfold_chars.
  all: set (sp := existsb _ QG_SPECIAL_CHARS); vm_compute in sp; subst sp; cbn [negb andb]; ncmp.
  all: unfold leaf_alts.
  - destruct (alts_fail_first 34 (body ++ 34 :: rest) eq_refl eq_refl) as (-> & -> & -> & ->).
    unfold DQ in Ht. rewrite Ht. reflexivity.
  - destruct (alts_fail_first 39 (body ++ 39 :: rest) eq_refl eq_refl) as (-> & -> & -> & ->).
    unfold SQ in Ht. rewrite Ht. reflexivity.
Qed.

Lemma leaf_fail_end rej astp leafp rest : end_ok rest = true -> leaf_body rej astp leafp rest = RFail.
Proof.
  destruct rest as [|c t]; [reflexivity|]. cbn [end_ok]. intros H. apply N.eqb_eq in H. subst c.
  unfold leaf_body. unfold_chars; ncmp; cbn [andb strip_prefix]; ncmp.
  unfold literal, field_name; unfold special, in_tab; unfold_chars.
  set (sp := existsb _ QG_SPECIAL_CHARS); vm_compute in sp; subst sp; cbn [negb andb]; ncmp.
  unfold leaf_alts.
  destruct (alts_fail_first 41 t eq_refl eq_refl) as (-> & -> & -> & ->).
  unfold term_or_phrase, simple_term. cbn [negative_number]. unfold_chars; ncmp.
  unfold word. unfold_chars; ncmp. unfold word_char, esc, in_tab.
  set (e := existsb _ QG_ESCAPE_IN_WORD); vm_compute in e; subst e. rewrite andb_false_r. cbn [andb].
  unfold term_group, field_name; unfold special, in_tab; unfold_chars.
  set (sp := existsb _ QG_SPECIAL_CHARS); vm_compute in sp; subst sp; cbn [negb andb]; ncmp. reflexivity.
Qed.

(* ------------------------------------------------------------------ the fragment *)
Definition mem := (str * option binop * str * option occur * cq)%type.
Fixpoint print_rest (rest : list mem) : str :=
  match rest with
  | [] => []
  | (sep, op, w, o, x) :: r => sep ++ op_str op ++ w ++ occ_str o ++ print x ++ print_rest r
  end.
Fixpoint norm_rest (rest : list mem) : list (@triple leaf) :=
  match rest with
  | [] => []
  | (_, op, _, o, x) :: r => (op, o, norm x) :: norm_rest r
  end.
Lemma print_seq lead o1 x1 rest trail :
  print (CSeq lead o1 x1 rest trail) = lead ++ occ_str o1 ++ print x1 ++ print_rest rest ++ trail.
Proof.
  cbn [print]. do 3 f_equal.
Qed.
Lemma norm_seq lead o1 x1 rest trail :
  norm (CSeq lead o1 x1 rest trail) = finalize (unrev (scan [] ((None, o1, norm x1) :: norm_rest rest))).
Proof.
  cbn [norm]. do 4 f_equal.
Qed.

Definition occ_ok (o : option occur) : bool := match o with Some Should => false | _ => true end.
Definition mem_ok (pfx : cq -> bool) (m : mem) : bool :=
  match m with
  | (sep, op, w, o, x) =>
      ws1 sep && ws0 w && (match op with None => is_nil w | Some _ => true end) && occ_ok o && negb (is_seq x) && pfx x
  end.
(* phrases (either quote kind), parentheses, and sequences of them with + / -, AND / OR, any layout *)
Fixpoint pf (c : cq) : bool :=
  match c with
  | CLit None (CPhrase q b SNone) => wf_body q b
  | CParen q => is_seq q && pf q
  | CSeq lead o1 x1 rest trail =>
      ws0 lead && occ_ok o1 && negb (is_seq x1) && pf x1 &&
      (fix go (rest : list mem) : bool := match rest with [] => true | m :: r => mem_ok pf m && go r end) rest && ws0 trail
  | _ => false
  end.
Fixpoint cdepth (c : cq) : nat :=
  match c with
  | CParen q => S (cdepth q)
  | CSeq _ _ x1 rest _ =>
      S ((fix go (rest : list mem) : nat := match rest with [] => cdepth x1 | m :: r => Nat.max (cdepth (snd m)) (go r) end) rest)
  | _ => 1%nat
  end.

Definition head_quote_or_paren (s : str) : Prop :=
  exists c t, s = c :: t /\ (c = 34 \/ c = 39 \/ c = 40).
Lemma atom_head x : pf x = true -> is_seq x = false -> head_quote_or_paren (print x).
Proof.
  destruct x as [[[n w]|] l| | | | | |]; cbn [pf is_seq]; try discriminate.
  - destruct l as [| |q b sp| | | |]; try discriminate. destruct sp; try discriminate. intros _ _.
    cbn [print print_leaf app]. destruct q; eexists; eexists; (split; [reflexivity|]); cbn; auto.
  - intros _ _. cbn [print]. eexists; eexists; (split; [reflexivity|]); auto.
Qed.

Section Level.
  Variable leafp : str -> res uast.
  Hypothesis leafp_end : forall tail, end_ok tail = true -> leafp tail = RFail.

  Lemma occur_leaf_ok o x rest :
    occ_ok o = true -> head_quote_or_paren (print x) -> follow_ok rest = true ->
    leafp (print x ++ rest) = ROk (norm x) rest ->
    occur_leaf leafp (occ_str o ++ print x ++ rest) = ROk (o, norm x) rest.
  Proof.
    intros Ho (c & t & Hp & Hc) Hr Hl. unfold occur_leaf, boosted_leaf.
    destruct o as [[]|]; try discriminate; cbn [occ_str app occur_symbol]; unfold_chars; ncmp; cbv iota beta.
    - rewrite Hl, (boost_none rest Hr). reflexivity.
    - rewrite Hl, (boost_none rest Hr). reflexivity.
    - rewrite Hp in *. cbn [app occur_symbol]. unfold_chars.
      assert (H1 : (c =? 45) = false) by (destruct Hc as [-> | [-> | ->]]; reflexivity).
      assert (H2 : (c =? 43) = false) by (destruct Hc as [-> | [-> | ->]]; reflexivity).
      rewrite H1, H2. cbv iota beta. cbn [app] in Hl. rewrite Hl, (boost_none rest Hr). reflexivity.
  Qed.

  Definition body (m : mem) : str :=
    match m with (_, op, w, o, x) => op_str op ++ w ++ occ_str o ++ print x end.
  Definition tri (m : mem) : @triple leaf := match m with (_, op, _, o, x) => (op, o, norm x) end.
  Fixpoint after (ms : list mem) (trail tail : str) : str :=
    match ms with
    | [] => trail ++ tail
    | m :: r => fst (fst (fst (fst m))) ++ body m ++ after r trail tail
    end.
  Lemma after_eq ms trail tail : print_rest ms ++ trail ++ tail = after ms trail tail.
  Proof.
    induction ms as [|[[[[sep op] w] o] x] r IH]; [reflexivity|].
    cbn [print_rest after body fst]. rewrite <- IH. now rewrite <- !app_assoc.
  Qed.

  Definition mem_leaf_ok (m : mem) : Prop :=
    forall rest, follow_ok rest = true -> leafp (print (snd m) ++ rest) = ROk (norm (snd m)) rest.

  Lemma nms_head c t : (c = 34 \/ c = 39 \/ c = 40 \/ c = 43 \/ c = 45 \/ c = 65 \/ c = 79) -> nms (c :: t) = true.
  Proof. intros H. cbn [nms]. repeat (destruct H as [-> | H]; [reflexivity|]). now subst. Qed.

  Lemma body_head m : mem_ok pf m = true -> exists c t, body m = c :: t /\ (c = 34 \/ c = 39 \/ c = 40 \/ c = 43 \/ c = 45 \/ c = 65 \/ c = 79).
  Proof.
    destruct m as [[[[sep op] w] o] x]. cbn [mem_ok body]. intros H.
    repeat (apply andb_true_iff in H; destruct H as [H ?H]).
    apply negb_true_iff in H1. destruct (atom_head x H0 H1) as (c & t & Hp & Hc).
    destruct op as [[]|].
    - cbn. eexists; eexists; split; [reflexivity|]. auto 10.
    - cbn. eexists; eexists; split; [reflexivity|]. auto 10.
    - destruct w; [|discriminate]. cbn [op_str app]. destruct o as [[]|]; try discriminate; cbn [occ_str app].
      + eexists; eexists; split; [reflexivity|]. auto 10.
      + eexists; eexists; split; [reflexivity|]. auto 10.
      + rewrite Hp. eexists; eexists; split; [reflexivity|]. destruct Hc as [-> | [-> | ->]]; auto 10.
  Qed.

  Lemma follow_after ms trail tail :
    ws0 trail = true -> end_ok tail = true -> Forall (fun m => mem_ok pf m = true) ms ->
    follow_ok (after ms trail tail) = true.
  Proof.
    intros Ht He Hm. destruct ms as [|m r]; cbn [after].
    - destruct trail as [|c t]; cbn [app].
      + destruct tail as [|c t]; [reflexivity|]. cbn [follow_ok end_ok] in *. now rewrite He, orb_true_r.
      + cbn [ws0 forallb] in Ht. apply andb_true_iff in Ht as [Hc _]. cbn [follow_ok]. now rewrite Hc.
    - inversion Hm as [|? ? Hm1 _]; subst. destruct m as [[[[sep op] w] o] x]. cbn [fst mem_ok] in *.
      repeat (apply andb_true_iff in Hm1; destruct Hm1 as [Hm1 ?H]).
      pose proof Hm1 as Hs. destruct sep as [|c s]; [cbn in *; congruence|].
      cbn [ws0 forallb] in Hs. apply andb_true_iff in Hs as [Hc _]. cbn [app follow_ok]. now rewrite Hc.
  Qed.

  Lemma skip_after ms trail tail :
    ws0 trail = true -> end_ok tail = true -> Forall (fun m => mem_ok pf m = true) ms ->
    skip_ms (after ms trail tail) = match ms with [] => tail | m :: r => body m ++ after r trail tail end.
  Proof.
    intros Ht He Hm. destruct ms as [|m r]; cbn [after].
    - apply skip_ms_app; [exact Ht|]. destruct tail as [|c t]; [reflexivity|]. cbn [end_ok nms] in *.
      apply N.eqb_eq in He. now subst.
    - inversion Hm as [|? ? Hm1 _]; subst. destruct (body_head m Hm1) as (c & t & Hb & Hc).
      destruct m as [[[[sep op] w] o] x]. cbn [fst mem_ok] in *.
      repeat (apply andb_true_iff in Hm1; destruct Hm1 as [Hm1 ?H]).
      apply skip_ms_app; [exact Hm1|]. rewrite Hb. cbn [app]. now apply nms_head.
  Qed.

  Lemma operand_leaf_ok m rest :
    mem_ok pf m = true -> mem_leaf_ok m -> follow_ok rest = true ->
    operand_leaf leafp (body m ++ rest) = ROk (tri m) (skip_ms rest).
  Proof.
    destruct m as [[[[sep op] w] o] x]. intros Hm Hl Hr. pose proof Hm as Hm'. cbn [mem_ok] in Hm.
    repeat (apply andb_true_iff in Hm; destruct Hm as [Hm ?H]).
    apply negb_true_iff in H0. pose proof (atom_head x H H0) as Hh.
    unfold mem_leaf_ok in Hl. cbn [snd] in Hl.
    assert (Hol := occur_leaf_ok o x rest H1 Hh Hr (Hl rest Hr)).
    assert (Hn : nms (occ_str o ++ print x ++ rest) = true).
    { destruct Hh as (c & t & Hp & Hc). destruct o as [[]|]; try discriminate; cbn [occ_str app]; try reflexivity.
      rewrite Hp. cbn [app]. apply nms_head. destruct Hc as [-> | [-> | ->]]; auto 10. }
    unfold operand_leaf, body, tri.
    replace ((op_str op ++ w ++ occ_str o ++ print x) ++ rest) with (op_str op ++ w ++ (occ_str o ++ print x ++ rest))
      by (now rewrite <- !app_assoc).
    destruct op as [[]|].
    - cbn [op_str app]. unfold binary_operand, kw_OR, kw_AND. cbn [app strip_prefix]. ncmp. cbv iota beta.
      rewrite (skip_ms_app w _ H3 Hn). rewrite Hol. reflexivity.
    - cbn [op_str app]. unfold binary_operand, kw_OR, kw_AND. cbn [app strip_prefix]. ncmp. cbv iota beta.
      rewrite (skip_ms_app w _ H3 Hn). rewrite Hol. reflexivity.
    - destruct w; [|discriminate]. cbn [op_str app].
      assert (Hhd : exists c t, occ_str o ++ print x = c :: t /\ (c = 34 \/ c = 39 \/ c = 40 \/ c = 43 \/ c = 45)).
      { destruct Hh as (c & t & Hp & Hc). destruct o as [[]|]; try discriminate; cbn [occ_str app].
        - eexists; eexists; split; [reflexivity|]. auto 10.
        - eexists; eexists; split; [reflexivity|]. auto 10.
        - rewrite Hp. eexists; eexists; split; [reflexivity|]. destruct Hc as [-> | [-> | ->]]; auto 10. }
      destruct Hhd as (c & t & Hb & Hc).
      assert (Hbo : binary_operand ((occ_str o ++ print x) ++ rest) = (None, (occ_str o ++ print x) ++ rest)).
      { rewrite Hb. cbn [app]. unfold binary_operand, kw_AND, kw_OR. cbn [app strip_prefix].
        assert (E1 : (65 =? c) = false) by (repeat (destruct Hc as [-> | Hc]; [reflexivity|]); subst; reflexivity).
        assert (E2 : (79 =? c) = false) by (repeat (destruct Hc as [-> | Hc]; [reflexivity|]); subst; reflexivity).
        rewrite E1, E2. reflexivity. }
      rewrite <- app_assoc in Hbo. rewrite Hbo.
      assert (Hs : skip_ms (occ_str o ++ print x ++ rest) = occ_str o ++ print x ++ rest).
      { apply (skip_ms_app [] _ eq_refl Hn). }
      rewrite Hs, Hol. reflexivity.
  Qed.

  Lemma operand_fail_end tail : end_ok tail = true -> operand_leaf leafp tail = RFail.
  Proof.
    intros He. unfold operand_leaf, occur_leaf, boosted_leaf.
    destruct tail as [|c t].
    - cbn. now rewrite (leafp_end [] eq_refl).
    - cbn [end_ok] in He. apply N.eqb_eq in He. subst c.
      unfold binary_operand, kw_AND, kw_OR. cbn [app strip_prefix]. ncmp. cbv iota beta.
      cbn [skip_ms]. replace (is_ms 41) with false by reflexivity. cbn [occur_symbol]. unfold_chars. ncmp. cbv iota beta.
      now rewrite (leafp_end (41 :: t) eq_refl).
  Qed.

  Lemma loop_ok r : forall m n trail tail,
    (length r + 2 <= n)%nat -> ws0 trail = true -> end_ok tail = true ->
    Forall (fun m => mem_ok pf m = true) (m :: r) -> Forall mem_leaf_ok (m :: r) ->
    many_operands leafp n (body m ++ after r trail tail) = ROk (tri m :: map tri r) tail.
  Proof.
    induction r as [|m2 r IH]; intros m n trail tail Hn Ht He Hm Hl.
    - destruct n as [|[|n]]; cbn [length] in Hn; try lia.
      inversion Hm as [|? ? Hm1 _]; inversion Hl as [|? ? Hl1 _]; subst.
      cbn [many_operands]. rewrite (operand_leaf_ok m _ Hm1 Hl1 (follow_after [] trail tail Ht He (Forall_nil _))).
      rewrite (skip_after [] trail tail Ht He (Forall_nil _)).
      rewrite (operand_fail_end tail He). reflexivity.
    - destruct n as [|n]; cbn [length] in Hn; try lia.
      inversion Hm as [|? ? Hm1 Hm2]; inversion Hl as [|? ? Hl1 Hl2]; subst.
      cbn [many_operands]. rewrite (operand_leaf_ok m _ Hm1 Hl1 (follow_after (m2 :: r) trail tail Ht He Hm2)).
      rewrite (skip_after (m2 :: r) trail tail Ht He Hm2).
      rewrite (IH m2 n trail tail ltac:(lia) Ht He Hm2 Hl2). reflexivity.
  Qed.

  Lemma after_len r trail tail : Forall (fun m => mem_ok pf m = true) r -> (length r <= length (after r trail tail))%nat.
  Proof.
    induction 1 as [|m r Hm _ IH]; cbn [length after]; [lia|].
    destruct (body_head m Hm) as (c & t & Hb & _). rewrite !app_length, Hb. cbn [length]. lia.
  Qed.

  (* ast on a printed sequence *)
  Lemma ast_seq_ok lead o1 x1 rest trail tail :
    ws0 lead = true -> occ_ok o1 = true -> pf x1 = true -> is_seq x1 = false ->
    (forall r, follow_ok r = true -> leafp (print x1 ++ r) = ROk (norm x1) r) ->
    ws0 trail = true -> end_ok tail = true ->
    Forall (fun m => mem_ok pf m = true) rest -> Forall mem_leaf_ok rest ->
    ast_body leafp (print (CSeq lead o1 x1 rest trail) ++ tail) = ROk (norm (CSeq lead o1 x1 rest trail)) tail.
  Proof.
    intros Hlead Ho Hpf Hns Hx Ht He Hm Hl.
    rewrite print_seq, norm_seq. unfold ast_body.
    replace ((lead ++ occ_str o1 ++ print x1 ++ print_rest rest ++ trail) ++ tail)
      with (lead ++ (occ_str o1 ++ print x1 ++ after rest trail tail))
      by (rewrite <- after_eq; now rewrite <- !app_assoc).
    pose proof (atom_head x1 Hpf Hns) as Hh.
    assert (Hn : nms (occ_str o1 ++ print x1 ++ after rest trail tail) = true).
    { destruct Hh as (c & t & Hp & Hc). destruct o1 as [[]|]; try discriminate; cbn [occ_str app]; try reflexivity.
      rewrite Hp. cbn [app]. apply nms_head. destruct Hc as [-> | [-> | ->]]; auto 10. }
    rewrite (skip_ms_app lead _ Hlead Hn).
    pose proof (follow_after rest trail tail Ht He Hm) as Hf.
    rewrite (occur_leaf_ok o1 x1 _ Ho Hh Hf (Hx _ Hf)). cbn [fst snd].
    pose proof (skip_after rest trail tail Ht He Hm) as Hsk.
    destruct rest as [|m r].
    - (* single member *)
      rewrite Hsk.
      replace (finalize (unrev (scan [] ((None, o1, norm x1) :: norm_rest []))))
        with (if is_mustnot o1 then unary MustNot (norm x1) else norm x1)
        by (destruct o1 as [[]|]; reflexivity).
      unfold ms1. cbn [after] in *. destruct (trail ++ tail) as [|c t] eqn:E; [now subst|].
      destruct (is_ms c) eqn:Ec; [|reflexivity].
      cbn [skip_ms] in Hsk. rewrite Ec in Hsk. rewrite Hsk.
      destruct (length tail) eqn:El; cbn [many_operands]; rewrite (operand_fail_end tail He); reflexivity.
    - inversion Hm as [|? ? Hm1 Hm2]; subst.
      assert (Hms1 : ms1 (after (m :: r) trail tail) = Some (body m ++ after r trail tail)).
      { unfold ms1. cbn [after]. destruct m as [[[[sep op] w] o] x]. cbn [fst].
        pose proof Hm1 as Hm1'. cbn [mem_ok] in Hm1'. repeat (apply andb_true_iff in Hm1'; destruct Hm1' as [Hm1' ?H]).
        destruct sep as [|c s]; [cbn in *; congruence|]. cbn [app]. cbn [ws0 forallb] in Hm1'.
        apply andb_true_iff in Hm1' as [Hc Hs]. rewrite Hc.
        cbn [after fst skip_ms app] in Hsk. rewrite Hc in Hsk. rewrite Hsk. reflexivity. }
      rewrite Hms1.
      assert (Hlen : (length r + 2 <= S (length (body m ++ after r trail tail)))%nat).
      { destruct (body_head m Hm1) as (c & t & Hb & _). pose proof (after_len r trail tail Hm2).
        rewrite app_length, Hb. cbn [length]. lia. }
      rewrite (loop_ok r m _ trail tail Hlen Ht He Hm Hl).
      rewrite aggregate_binary_eq. cbn [fst snd norm_rest map].
      replace (skip_ms tail) with tail by (destruct tail as [|c t]; [reflexivity|]; cbn [end_ok] in He; apply N.eqb_eq in He; now subst).
      do 3 f_equal. f_equal.
      clear. induction r as [|[[[[sep op] w] o] x] r IH]; [destruct m as [[[[? ?] ?] ?] ?]; reflexivity|].
      destruct m as [[[[? ?] ?] ?] ?]. cbn [norm_rest map tri] in *. f_equal. injection IH as IH. now rewrite IH.
  Qed.
End Level.

Lemma cdepth_pos c : (1 <= cdepth c)%nat.
Proof. destruct c; cbn [cdepth]; lia. Qed.

Lemma pf_seq_inv lead o1 x1 rest trail :
  pf (CSeq lead o1 x1 rest trail) = true ->
  ws0 lead = true /\ occ_ok o1 = true /\ is_seq x1 = false /\ pf x1 = true /\
  Forall (fun m => mem_ok pf m = true) rest /\ ws0 trail = true.
Proof.
  cbn [pf]. intros H. rewrite !andb_true_iff in H. destruct H as (((((H1 & H2) & H3) & H4) & H5) & H6).
  apply negb_true_iff in H3. repeat split; try assumption.
  clear - H5. induction rest as [|m r IH]; [constructor|].
  apply andb_true_iff in H5 as [Hm Hr]. constructor; [exact Hm|now apply IH].
Qed.

Lemma cdepth_seq_inv lead o1 x1 rest trail d :
  (cdepth (CSeq lead o1 x1 rest trail) <= S d)%nat ->
  (cdepth x1 <= d)%nat /\ Forall (fun m : mem => (cdepth (snd m) <= d)%nat) rest.
Proof.
  cbn [cdepth]. intros H. apply le_S_n in H. revert H.
  induction rest as [|m r IH]; intros H; [split; [exact H|constructor]|].
  pose proof (Nat.le_max_l (cdepth (snd m)) ((fix go (rest : list mem) : nat := match rest with [] => cdepth x1 | m :: r => Nat.max (cdepth (snd m)) (go r) end) r)).
  pose proof (Nat.le_max_r (cdepth (snd m)) ((fix go (rest : list mem) : nat := match rest with [] => cdepth x1 | m :: r => Nat.max (cdepth (snd m)) (go r) end) r)).
  destruct (IH ltac:(lia)) as [Hx Hr]. split; [exact Hx|constructor; [lia|exact Hr]].
Qed.

Lemma print_parse_gen rej n : forall c, (cdepth c <= n)%nat -> pf c = true ->
  (is_seq c = false -> forall fuel rest, (cdepth c <= fuel)%nat -> follow_ok rest = true ->
     gp_s rej fuel false (print c ++ rest) = ROk (norm c) rest) /\
  (is_seq c = true -> forall fuel rest, (cdepth c <= fuel)%nat -> end_ok rest = true ->
     gp_s rej fuel true (print c ++ rest) = ROk (norm c) rest).
Proof.
  induction n as [|n IH]; intros c Hd Hpf; [pose proof (cdepth_pos c); lia|].
  destruct c as [[[fn fw]|] l| |q| | | |lead o1 x1 rest trail]; cbn [pf] in Hpf; try discriminate.
  - (* phrase *)
    destruct l as [| |q b sp| | | |]; try discriminate. destruct sp; try discriminate.
    split; [|discriminate]. intros _ fuel rest Hf Hr. cbn [cdepth] in Hf. destruct fuel as [|f]; [lia|].
    cbn [gp_s print print_leaf norm norm_leaf option_map].
    replace ((([] ++ quote_char q :: b ++ [quote_char q] ++ []) ++ rest)) with (quote_char q :: b ++ quote_char q :: rest)
      by (cbn [app]; repeat rewrite app_nil_r; repeat rewrite <- app_assoc; reflexivity).
    apply phrase_leaf; assumption.
  - (* parentheses *)
    apply andb_true_iff in Hpf as [Hs Hq]. cbn [cdepth] in Hd.
    split; [|discriminate]. intros _ fuel rest Hf Hr. cbn [cdepth] in Hf. destruct fuel as [|f]; [lia|].
    destruct (IH q ltac:(lia) Hq) as [_ Hseq].
    cbn [gp_s print norm]. unfold leaf_body. cbn [app]. unfold_chars. ncmp.
    rewrite <- app_assoc. cbn [app].
    rewrite (Hseq Hs f (41 :: rest) ltac:(lia) eq_refl). ncmp. reflexivity.
  - (* sequence *)
    split; [discriminate|]. intros _ fuel tail Hf He. destruct fuel as [|f]; [pose proof (cdepth_pos (CSeq lead o1 x1 rest trail)); lia|].
    destruct (pf_seq_inv _ _ _ _ _ Hpf) as (Hlead & Ho & Hns & Hx & Hm & Ht).
    destruct (cdepth_seq_inv _ _ _ _ _ _ Hd) as [Hdx Hdr].
    destruct (cdepth_seq_inv _ _ _ _ _ _ Hf) as [Hfx Hfr].
    cbn [gp_s]. apply ast_seq_ok; try assumption.
    + intros t Het. pose proof (cdepth_pos x1). destruct f as [|f']; [lia|]. cbn [gp_s]. now apply leaf_fail_end.
    + intros r Hr. destruct (IH x1 Hdx Hx) as [Hatom _]. now apply Hatom.
    + clear - IH Hm Hdr Hfr. induction rest as [|m r IHr]; [constructor|].
      inversion Hm; inversion Hdr; inversion Hfr; subst. constructor; [|now apply IHr].
      intros t Ht. destruct m as [[[[sep op] w] o] x]. cbn [snd mem_ok] in *.
      match goal with H : _ && _ = true |- _ => repeat (apply andb_true_iff in H; destruct H as [H ?H]) end.
      match goal with H : negb (is_seq x) = true |- _ => apply negb_true_iff in H end.
      destruct (IH x ltac:(assumption) ltac:(assumption)) as [Hatom _]. now apply Hatom.
Qed.

(* the fuel of parse_ref is adequate: nesting depth is bounded by the length of the text *)
Lemma print_rest_len (rest : list mem) m : In m rest -> (length (print (snd m)) <= length (print_rest rest))%nat.
Proof.
  induction rest as [|[[[[sep op] w] o] x] r IH]; [intros []|]. intros [<- | Hin]; cbn [print_rest snd].
  - rewrite !app_length. lia.
  - specialize (IH Hin). rewrite !app_length. lia.
Qed.

Lemma max_fold_le x1 (rest : list mem) B :
  (cdepth x1 <= B)%nat -> (forall m, In m rest -> (cdepth (snd m) <= B)%nat) ->
  ((fix go (rest : list mem) : nat := match rest with [] => cdepth x1 | m :: r => Nat.max (cdepth (snd m)) (go r) end) rest <= B)%nat.
Proof.
  intros Hx. induction rest as [|m r IH]; intros H; [exact Hx|].
  apply Nat.max_lub; [apply H; now left|apply IH; intros m0 Hin; apply H; now right].
Qed.

Lemma depth_len n : forall c, (cdepth c <= n)%nat -> pf c = true ->
  (is_seq c = false -> (cdepth c <= length (print c))%nat) /\
  (is_seq c = true -> (cdepth c <= S (length (print c)))%nat).
Proof.
  induction n as [|n IH]; intros c Hd Hpf; [pose proof (cdepth_pos c); lia|].
  destruct c as [[[fn fw]|] l| |q| | | |lead o1 x1 rest trail]; cbn [pf] in Hpf; try discriminate.
  - destruct l as [| |q b sp| | | |]; try discriminate. destruct sp; try discriminate.
    split; [|discriminate]. intros _. cbn [cdepth print print_leaf app length]. lia.
  - apply andb_true_iff in Hpf as [Hs Hq]. cbn [cdepth] in Hd.
    split; [|discriminate]. intros _. destruct (IH q ltac:(lia) Hq) as [_ Hseq]. specialize (Hseq Hs).
    cbn [cdepth print length]. rewrite app_length. cbn [length]. lia.
  - split; [discriminate|]. intros _.
    destruct (pf_seq_inv _ _ _ _ _ Hpf) as (Hlead & Ho & Hns & Hx & Hm & Ht).
    destruct (cdepth_seq_inv _ _ _ _ _ _ Hd) as [Hdx Hdr].
    rewrite print_seq. rewrite !app_length.
    assert (Hall : forall m, In m rest -> (cdepth (snd m) <= length (print_rest rest))%nat).
    { intros m Hin. rewrite Forall_forall in Hm, Hdr. specialize (Hm m Hin). specialize (Hdr m Hin).
      destruct m as [[[[sep op] w] o] x]. cbn [snd mem_ok] in *.
      rewrite !andb_true_iff in Hm. destruct Hm as (((((_ & _) & _) & _) & Hsx) & Hpx). apply negb_true_iff in Hsx.
      destruct (IH x Hdr Hpx) as [Hatom _]. specialize (Hatom Hsx).
      pose proof (print_rest_len rest (sep, op, w, o, x) Hin). cbn [snd] in *. lia. }
    destruct (IH x1 Hdx Hx) as [Hx1 _]. specialize (Hx1 Hns).
    cbn [cdepth]. apply le_n_S. apply max_fold_le; [lia|].
    intros m Hin. specialize (Hall m Hin). lia.
Qed.

(* print / parse round trip: every concrete query of the fragment, under every layout *)
Theorem print_parse_s rej c :
  pf c = true -> is_seq c = true ->
  parse_raw_s rej (print c) = Ok (norm c) /\ parse_ref_s rej (print c) = Ok (norm_top c).
Proof.
  intros Hpf Hs.
  assert (Hraw : parse_raw_s rej (print c) = Ok (norm c)).
  { destruct c as [| | | | | |lead o1 x1 rest trail]; try discriminate.
    destruct (pf_seq_inv _ _ _ _ _ Hpf) as (Hlead & Ho & Hns & Hx & Hm & Ht).
    set (c' := CSeq [] o1 x1 rest trail).
    assert (Hpf' : pf c' = true).
    { revert Hpf. unfold c'. cbn [pf]. rewrite !andb_true_iff. intros (((((H1 & H2) & H3) & H4) & H5) & H6). repeat split; assumption. }
    assert (Hskip : skip_ms (print (CSeq lead o1 x1 rest trail)) = print c').
    { unfold c'. rewrite !print_seq. cbn [app]. apply skip_ms_app; [exact Hlead|].
      destruct (atom_head x1 Hx Hns) as (ch & t & Hp & Hc).
      destruct o1 as [[]|]; try discriminate; cbn [occ_str app]; try reflexivity.
      rewrite Hp. cbn [app]. apply nms_head. destruct Hc as [-> | [-> | ->]]; auto 10. }
    unfold parse_raw_s. rewrite Hskip.
    destruct (print_parse_gen rej (cdepth c') c' (le_n _) Hpf') as [_ Hseq].
    destruct (depth_len (cdepth (CSeq lead o1 x1 rest trail)) _ (le_n _) Hpf) as [_ Hlen]. specialize (Hlen eq_refl).
    assert (Hfuel : (cdepth c' <= ref_fuel (print (CSeq lead o1 x1 rest trail)))%nat).
    { unfold ref_fuel. change (cdepth c') with (cdepth (CSeq lead o1 x1 rest trail)). lia. }
    specialize (Hseq eq_refl _ [] Hfuel eq_refl). rewrite app_nil_r in Hseq. rewrite Hseq. reflexivity. }
  split; [exact Hraw|]. unfold parse_ref_s. rewrite Hraw. reflexivity.
Qed.
Theorem print_parse c :
  pf c = true -> is_seq c = true -> parse_raw (print c) = Ok (norm c) /\ parse_ref (print c) = Ok (norm_top c).
Proof. exact (print_parse_s rejects_bare_exists c). Qed.

(* non-vacuity: +"a b" AND ( 'c' OR "d" )   with assorted whitespace *)
Example print_parse_example :
  let c := CSeq [32] (Some Must) (CLit None (CPhrase QD [97;32;98] SNone))
             [([32;9], Some And, [10], None,
               CParen (CSeq [32] None (CLit None (CPhrase QS [99] SNone))
                         [([13;32], Some Or, [], Some MustNot, CLit None (CPhrase QD [100] SNone))] [32]))] [9] in
  pf c = true /\ is_seq c = true /\ wf c = true /\ parse_ref (print c) = Ok (norm_top c).
Proof. vm_compute. repeat split; reflexivity. Qed.

(* ------------------------------------------------------------------ no panic under the pinned shape *)
Definition np {A} (r : res A) : Prop := r <> RAbort Panic.
Ltac brk :=
  repeat match goal with
         | |- np (match ?x with _ => _ end) => destruct x eqn:?
         | |- np (if ?x then _ else _) => destruct x eqn:?
         | |- np (let (_, _) := ?x in _) => destruct x eqn:?
         end.

Section NoPanic.
  Variable astp leafp : str -> res uast.
  Hypothesis Hast : forall s, np (astp s).
  Hypothesis Hleaf : forall s, np (leafp s).

  Lemma term_group_np s : np (term_group astp s).
  Proof.
    unfold term_group. brk; try (unfold np; congruence).
    all: match goal with H : astp ?t = RAbort ?k |- _ => pose proof (Hast t) as Hn; rewrite H in Hn; unfold np in *; congruence end.
  Qed.
  Lemma literal_np s : np (literal true astp s).
  Proof.
    unfold literal. brk; try (unfold np; congruence); apply term_group_np.
  Qed.
  Lemma leaf_body_np s : np (leaf_body true astp leafp s).
  Proof.
    unfold leaf_body. brk; try (unfold np; congruence); try apply literal_np.
    all: try match goal with H : astp ?t = RAbort ?k |- _ => pose proof (Hast t) as Hn; rewrite H in Hn; unfold np in *; congruence end.
    all: try match goal with H : leafp ?t = RAbort ?k |- _ => pose proof (Hleaf t) as Hn; rewrite H in Hn; unfold np in *; congruence end.
  Qed.

  Lemma boosted_leaf_np s : np (boosted_leaf leafp s).
  Proof.
    unfold boosted_leaf. brk; try (unfold np; congruence).
    all: try match goal with H : leafp ?t = RAbort ?k |- _ => pose proof (Hleaf t) as Hn; rewrite H in Hn; unfold np in *; congruence end.
  Qed.
  Lemma occur_leaf_np s : np (occur_leaf leafp s).
  Proof.
    unfold occur_leaf. brk; try (unfold np; congruence).
    all: try match goal with H : boosted_leaf leafp ?t = RAbort ?k |- _ => pose proof (boosted_leaf_np t) as Hn; rewrite H in Hn; unfold np in *; congruence end.
  Qed.
  Lemma operand_leaf_np s : np (operand_leaf leafp s).
  Proof.
    unfold operand_leaf. brk; try (unfold np; congruence).
    all: try match goal with H : occur_leaf leafp ?t = RAbort ?k |- _ => pose proof (occur_leaf_np t) as Hn; rewrite H in Hn; unfold np in *; congruence end.
  Qed.
  Lemma many_operands_np n : forall s, np (many_operands leafp n s).
  Proof.
    induction n as [|n IH]; intros s; cbn [many_operands]; [unfold np; congruence|].
    brk; try (unfold np; congruence).
    all: try match goal with H : many_operands leafp _ ?t = RAbort ?k |- _ => pose proof (IH t) as Hn; rewrite H in Hn; unfold np in *; congruence end.
    all: try match goal with H : operand_leaf leafp ?t = RAbort ?k |- _ => pose proof (operand_leaf_np t) as Hn; rewrite H in Hn; unfold np in *; congruence end.
  Qed.
  Lemma ast_body_np s : np (ast_body leafp s).
  Proof.
    unfold ast_body. brk; try (unfold np; congruence).
    all: try match goal with H : many_operands leafp ?n ?t = RAbort ?k |- _ => pose proof (many_operands_np n t) as Hn; rewrite H in Hn; unfold np in *; congruence end.
    all: try match goal with H : occur_leaf leafp ?t = RAbort ?k |- _ => pose proof (occur_leaf_np t) as Hn; rewrite H in Hn; unfold np in *; congruence end.
  Qed.
End NoPanic.

Lemma gp_np fuel : forall b s, np (gp_s true fuel b s).
Proof.
  induction fuel as [|f IH]; intros b s; cbn [gp_s]; [unfold np; congruence|].
  destruct b; [apply ast_body_np|apply leaf_body_np]; intros t; apply IH.
Qed.

(* under the shape in which `literal` rejects an exists-leaf without field, the strict grammar model
   never panics -- for every string *)
Theorem no_panic_rejecting s : parse_ref_s true s <> Panicked.
Proof.
  unfold parse_ref_s, parse_raw_s. pose proof (gp_np (ref_fuel s) true (skip_ms s)) as H. unfold np in H.
  destruct (gp_s true (ref_fuel s) true (skip_ms s)) as [a [|c r]| |[]]; try discriminate; try congruence.
  destruct (is_nil (skip_ms s)); discriminate.
Qed.
Theorem no_panic_pinned : rejects_bare_exists = true -> forall s, parse_ref s <> Panicked.
Proof. intros H s. unfold parse_ref. rewrite H. apply no_panic_rejecting. Qed.
