(* C16 -- proofs about the strict grammar model: print/parse round trip on the documented fragment. *)
From TV Require Import Base.Prelude Text.BinOpFold Text.Grammar Generated.Constants.
Local Open Scope N_scope.
