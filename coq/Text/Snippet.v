(* Text/Snippet.v -- src/snippet/mod.rs (C19): FragmentCandidate::try_add_token, search_fragments,
   select_best_fragment_combination, sort_and_deduplicate_ranges, merge_overlapping_ranges,
   collapse_overlapped_ranges, Snippet::to_html (htmlescape::encode_minimal).
   Scores (f32) are abstract: the theorems hold for every score arithmetic and comparison;
   str::to_lowercase is an oracle.  `None` results are the panics of the Rust code (slicing off a
   boundary / out of range, usize underflow in debug builds). *)
From TV Require Import Base.Prelude Generated.Constants Text.Utf8 Text.Tokenizer.
Local Open Scope N_scope.

Definition range := (N * N)%type.

(* ------------------------------------------------------------------------------------------ *)
(* collapse_overlapped_ranges *)
Definition range_leb (a b : range) : bool :=          (* key (start, end), lexicographic *)
  (fst a <? fst b) || ((fst a =? fst b) && (snd a <=? snd b)).
Definition range_eqb (a b : range) : bool := (fst a =? fst b) && (snd a =? snd b).

Fixpoint insert_range (x : range) (l : list range) : list range :=
  match l with
  | [] => [x]
  | y :: r => if range_leb x y then x :: l else y :: insert_range x r
  end.
Fixpoint sort_ranges (l : list range) : list range :=     (* sort_by_key(|r| (r.start, r.end)) *)
  match l with [] => [] | x :: r => insert_range x (sort_ranges r) end.
Fixpoint dedup_ranges (l : list range) : list range :=     (* Vec::dedup *)
  match l with
  | [] => []
  | x :: r => match r with
              | [] => [x]
              | y :: _ => if range_eqb x y then dedup_ranges r else x :: dedup_ranges r
              end
  end.
(* merge_overlapping_ranges: `last` is result.last_mut() *)
Fixpoint merge_from (last : range) (rs : list range) : list range :=
  match rs with
  | [] => [last]
  | r :: rest => if fst r <? snd last                                   (* last.end > range.start *)
                 then merge_from (fst last, N.max (snd last) (snd r)) rest
                 else last :: merge_from r rest
  end.
Definition merge_overlapping (rs : list range) : list range :=
  match rs with [] => [] | r :: rest => merge_from r rest end.
Definition collapse (rs : list range) : list range := merge_overlapping (dedup_ranges (sort_ranges rs)).

(* sorted, pairwise disjoint, each well formed, all at or after lo *)
Fixpoint ranges_disjoint (lo : N) (rs : list range) : Prop :=
  match rs with [] => True | r :: rest => lo <= fst r /\ fst r <= snd r /\ ranges_disjoint (snd r) rest end.
Fixpoint ranges_disjointb (lo : N) (rs : list range) : bool :=
  match rs with [] => true | r :: rest => (lo <=? fst r) && (fst r <=? snd r) && ranges_disjointb (snd r) rest end.
Lemma ranges_disjointb_spec rs : forall lo, ranges_disjointb lo rs = true <-> ranges_disjoint lo rs.
Proof.
  induction rs as [|r rest IH]; intros lo; cbn [ranges_disjoint ranges_disjointb]; [tauto|].
  rewrite !andb_true_iff, IH, !N.leb_le. tauto.
Qed.

Definition covered (p : N) (rs : list range) : Prop := exists r, In r rs /\ fst r <= p < snd r.
Definition wf_range (r : range) : Prop := fst r <= snd r.

Lemma insert_range_in x l y : In y (insert_range x l) <-> y = x \/ In y l.
Proof.
  induction l as [|z l IH]; cbn [insert_range In]; [intuition|].
  destruct (range_leb x z); cbn [In]; [intuition|]. rewrite IH. intuition.
Qed.
Lemma sort_ranges_in l y : In y (sort_ranges l) <-> In y l.
Proof. induction l as [|x l IH]; cbn [sort_ranges In]; [tauto|]. rewrite insert_range_in, IH. intuition. Qed.

Lemma range_eqb_eq a b : range_eqb a b = true <-> a = b.
Proof.
  unfold range_eqb. destruct a, b. cbn [fst snd]. rewrite andb_true_iff, !N.eqb_eq. split; [intros [-> ->]; reflexivity|intros E; injection E; auto].
Qed.

Lemma dedup_ranges_in l y : In y (dedup_ranges l) <-> In y l.
Proof.
  induction l as [|x l IH]; [reflexivity|]. cbn [dedup_ranges]. destruct l as [|z l'].
  - reflexivity.
  - destruct (range_eqb x z) eqn:E.
    + apply range_eqb_eq in E. subst z. rewrite IH. cbn [In]. intuition.
    + cbn [In] in *. rewrite IH. reflexivity.
Qed.

Lemma insert_range_sorted x l : sorted_by fst l -> sorted_by fst (insert_range x l).
Proof.
  induction l as [|y l IH]; intros Hs; cbn [insert_range]; [cbn; auto|].
  destruct (range_leb x y) eqn:E.
  - cbn [sorted_by]. split; [|exact Hs]. unfold range_leb in E. lia.
  - cbn [sorted_by] in Hs. destruct Hs as [Hy Hs]. specialize (IH Hs). cbn [sorted_by]. split; [|exact IH].
    destruct l as [|z l']; cbn [insert_range].
    + unfold range_leb in E. lia.
    + destruct (range_leb x z); [unfold range_leb in E; lia|exact Hy].
Qed.
Lemma sort_ranges_sorted l : sorted_by fst (sort_ranges l).
Proof. induction l as [|x l IH]; [exact I|]. cbn [sort_ranges]. apply insert_range_sorted. exact IH. Qed.

Lemma dedup_ranges_sorted l : sorted_by fst l -> sorted_by fst (dedup_ranges l) /\
  (forall k, Forall (fun y => k <= fst y) l -> Forall (fun y => k <= fst y) (dedup_ranges l)).
Proof.
  induction l as [|x l IH]; intros Hs; [split; [exact I|intros; constructor]|].
  pose proof (sorted_by_head_le fst x l Hs) as Hle.
  assert (Hsl : sorted_by fst l) by (cbn [sorted_by] in Hs; tauto). destruct (IH Hsl) as [IH1 IH2].
  cbn [dedup_ranges]. destruct l as [|z l'].
  - split; [exact Hs|]. intros k Hk. exact Hk.
  - destruct (range_eqb x z) eqn:E.
    + split; [exact IH1|]. intros k Hk. inversion Hk; subst. apply IH2. assumption.
    + split.
      * specialize (IH2 (fst x) Hle). cbn [sorted_by]. split; [|exact IH1].
        destruct (dedup_ranges (z :: l')) as [|w ?]; [exact I|]. inversion IH2; subst. assumption.
      * intros k Hk. inversion Hk; subst. constructor; [assumption|]. apply IH2. assumption.
Qed.

Lemma merge_from_disjoint : forall rs last lo,
  lo <= fst last -> wf_range last -> sorted_by fst (last :: rs) -> Forall wf_range rs ->
  ranges_disjoint lo (merge_from last rs).
Proof.
  unfold wf_range. induction rs as [|r rest IH]; intros last lo Hlo Hwf Hs Hall; cbn [merge_from].
  - cbn [ranges_disjoint]. auto.
  - inversion Hall as [|? ? Hr Hrest]; subst. cbn [sorted_by] in Hs. destruct Hs as [Hlr Hs].
    destruct (N.ltb_spec (fst r) (snd last)) as [Hlt|Hge].
    + apply IH; cbn [fst snd]; try lia; try assumption.
      cbn [sorted_by] in *. destruct Hs as [Hr2 Hs]. split; [|exact Hs]. destruct rest as [|q ?]; [exact I|]. cbn [fst]. lia.
    + cbn [ranges_disjoint]. repeat split; try assumption. apply IH; try assumption.
  Qed.

Lemma merge_from_covered : forall rs last p,
  sorted_by fst (last :: rs) -> (covered p (merge_from last rs) <-> covered p (last :: rs)).
Proof.
  unfold covered. induction rs as [|r rest IH]; intros last p Hs; cbn [merge_from]; [reflexivity|].
  cbn [sorted_by] in Hs. destruct Hs as [Hlr Hs].
  destruct (N.ltb_spec (fst r) (snd last)) as [Hlt|Hge].
  - rewrite IH.
    2:{ cbn [sorted_by] in *. destruct Hs as [Hr2 Hs]. split; [|exact Hs]. destruct rest as [|q ?]; [exact I|]. cbn [fst]. lia. }
    split.
    + intros (x & [E|Hin] & Hp).
      * subst x. cbn [fst snd] in Hp. destruct (N.lt_ge_cases p (snd last)); [exists last|exists r]; cbn [In]; split; auto; lia.
      * exists x. cbn [In]. auto.
    + intros (x & [E|[E|Hin]] & Hp).
      * subst x. exists (fst last, N.max (snd last) (snd r)). cbn [In fst snd]. split; [auto|lia].
      * subst x. exists (fst last, N.max (snd last) (snd r)). cbn [In fst snd]. split; [auto|lia].
      * exists x. cbn [In]. auto.
  - split.
    + intros (x & [E|Hin] & Hp).
      * exists x. cbn [In]. auto.
      * assert (Hc : exists y, In y (merge_from r rest) /\ fst y <= p < snd y) by (exists x; auto).
        apply IH in Hc; [|exact Hs]. destruct Hc as (y & Hy & Hpy). exists y. cbn [In] in *. tauto.
    + intros (x & [E|Hin] & Hp).
      * exists x. cbn [In]. auto.
      * assert (Hc : exists y, In y (r :: rest) /\ fst y <= p < snd y) by (exists x; auto).
        apply IH in Hc; [|exact Hs]. destruct Hc as (y & Hy & Hpy). exists y. cbn [In]. auto.
Qed.

(* every end point of a merged range is an end point of an input range *)
Lemma merge_from_endpoints : forall rs last,
  Forall (fun x => In (fst x) (map fst (last :: rs)) /\ In (snd x) (map snd (last :: rs))) (merge_from last rs).
Proof.
  induction rs as [|r rest IH]; intros last; cbn [merge_from].
  - constructor; [|constructor]. cbn. auto.
  - destruct (fst r <? snd last).
    + eapply Forall_impl; [|apply IH]. cbn [map fst snd In]. intros x [H1 H2]. split; [tauto|].
      destruct H2 as [H2|H2]; [|tauto]. destruct (N.max_spec (snd last) (snd r)) as [[_ E]|[_ E]]; rewrite E in H2; auto.
    + constructor; [cbn; auto|]. eapply Forall_impl; [|apply IH]. cbn [map In]. intros x [H1 H2]. tauto.
Qed.

Theorem collapse_spec rs :
  Forall wf_range rs ->
  ranges_disjoint 0 (collapse rs) /\
  (forall p, covered p (collapse rs) <-> covered p rs) /\
  Forall (fun x => In (fst x) (map fst rs) /\ In (snd x) (map snd rs)) (collapse rs).
Proof.
  intros Hwf. unfold collapse.
  set (l := dedup_ranges (sort_ranges rs)).
  assert (Hin : forall y, In y l <-> In y rs) by (intros y; unfold l; rewrite dedup_ranges_in, sort_ranges_in; reflexivity).
  assert (Hs : sorted_by fst l) by (apply dedup_ranges_sorted, sort_ranges_sorted).
  assert (Hwfl : Forall wf_range l).
  { apply Forall_forall. intros y Hy. rewrite Forall_forall in Hwf. apply Hwf, Hin, Hy. }
  destruct l as [|x l'] eqn:El; cbn [merge_overlapping].
  - repeat split; try constructor.
    + intros (r & [] & _).
    + intros (r & Hr & _). apply Hin in Hr. destruct Hr.
  - inversion Hwfl as [|? ? Hwx Hwl]; subst. split; [|split].
    + apply merge_from_disjoint; try assumption. lia.
    + intros p. rewrite merge_from_covered by exact Hs. unfold covered. split; intros (r & Hr & Hp); exists r; split; try exact Hp; apply Hin; exact Hr.
    + eapply Forall_impl; [|apply merge_from_endpoints]. cbn beta. intros y [Hy1 Hy2].
      split; [apply in_map_iff in Hy1 as (z & <- & Hz)|apply in_map_iff in Hy2 as (z & <- & Hz)]; apply in_map, Hin, Hz.
Qed.

(* ------------------------------------------------------------------------------------------ *)
(* htmlescape::encode_minimal *)
Definition esc_char (c : cp) : list cp :=
  if c =? 34 then [38;113;117;111;116;59]        (* &quot; *)
  else if c =? 38 then [38;97;109;112;59]         (* &amp;  *)
  else if c =? 39 then [38;35;120;50;55;59]       (* &#x27; *)
  else if c =? 60 then [38;108;116;59]            (* &lt;   *)
  else if c =? 62 then [38;103;116;59]            (* &gt;   *)
  else [c].
Definition escape (t : list cp) : list cp := flat_map esc_char t.

(* no markup character survives escaping *)
Definition markup (c : cp) : bool := (c =? 34) || (c =? 39) || (c =? 60) || (c =? 62).
Lemma escape_no_markup t : forallb (fun c => negb (markup c)) (escape t) = true.
Proof.
  induction t as [|c t IH]; [reflexivity|]. cbn [escape flat_map]. rewrite forallb_app. fold (escape t). rewrite IH, andb_true_r.
  unfold esc_char, markup.
  destruct (N.eqb_spec c 34); [reflexivity|]. destruct (N.eqb_spec c 38); [reflexivity|].
  destruct (N.eqb_spec c 39); [reflexivity|]. destruct (N.eqb_spec c 60); [reflexivity|].
  destruct (N.eqb_spec c 62); [reflexivity|]. cbn [forallb]. rewrite andb_true_r.
  destruct (N.eqb_spec c 34), (N.eqb_spec c 39), (N.eqb_spec c 60), (N.eqb_spec c 62); try contradiction; reflexivity.
Qed.

(* reading HTML back: drop tags `<...>`, decode the five entities *)
Definition entity (r : list cp) : option (cp * nat) :=
  match r with
  | 113 :: 117 :: 111 :: 116 :: 59 :: _ => Some (34, 5%nat)
  | 97 :: 109 :: 112 :: 59 :: _ => Some (38, 4%nat)
  | 35 :: 120 :: 50 :: 55 :: 59 :: _ => Some (39, 5%nat)
  | 108 :: 116 :: 59 :: _ => Some (60, 3%nat)
  | 103 :: 116 :: 59 :: _ => Some (62, 3%nat)
  | _ => None
  end.
Fixpoint unhtml_go (l : list cp) (skip : nat) (intag : bool) : list cp :=
  match l with
  | [] => []
  | c :: r =>
      match skip with
      | S k => unhtml_go r k intag
      | O => if intag then unhtml_go r 0 (negb (c =? 62))
             else if c =? 60 then unhtml_go r 0 true
             else if c =? 38 then match entity r with
                                  | Some (ch, n) => ch :: unhtml_go r n false
                                  | None => c :: unhtml_go r 0 false
                                  end
             else c :: unhtml_go r 0 false
      end
  end.
Definition unhtml (l : list cp) : list cp := unhtml_go l 0 false.

Lemma unhtml_esc_char c rest : unhtml_go (esc_char c ++ rest) 0 false = c :: unhtml_go rest 0 false.
Proof.
  unfold esc_char.
  destruct (N.eqb_spec c 34) as [->|N1]; [reflexivity|]. destruct (N.eqb_spec c 38) as [->|N2]; [reflexivity|].
  destruct (N.eqb_spec c 39) as [->|N3]; [reflexivity|]. destruct (N.eqb_spec c 60) as [->|N4]; [reflexivity|].
  destruct (N.eqb_spec c 62) as [->|N5]; [reflexivity|]. cbn [app unhtml_go].
  destruct (N.eqb_spec c 60); [contradiction|]. destruct (N.eqb_spec c 38); [contradiction|]. reflexivity.
Qed.
Lemma unhtml_escape t rest : unhtml_go (escape t ++ rest) 0 false = t ++ unhtml_go rest 0 false.
Proof.
  induction t as [|c t IH]; [reflexivity|]. cbn [escape flat_map]. fold (escape t).
  rewrite <- app_assoc, unhtml_esc_char, IH. reflexivity.
Qed.
(* the default highlight tags (regenerated from the source) are skipped as tags *)
Lemma unhtml_prefix rest : unhtml_go (SNIPPET_DEFAULT_PREFIX ++ rest) 0 false = unhtml_go rest 0 false.
Proof. reflexivity. Qed.
Lemma unhtml_postfix rest : unhtml_go (SNIPPET_DEFAULT_POSTFIX ++ rest) 0 false = unhtml_go rest 0 false.
Proof. reflexivity. Qed.

(* Snippet::to_html *)
Fixpoint html_loop (prefix postfix frag : list cp) (rs : list range) (start_from : N) : option (list cp) :=
  match rs with
  | [] => match slice_cp frag start_from (blen frag) with Some x => Some (escape x) | None => None end
  | (a, b) :: rest =>
      match slice_cp frag start_from a, slice_cp frag a b, html_loop prefix postfix frag rest b with
      | Some x, Some y, Some z => Some (escape x ++ prefix ++ escape y ++ postfix ++ z)
      | _, _, _ => None
      end
  end.

Record snippet := mkSnip { sn_fragment : list cp; sn_hl : list range }.
Definition to_html (prefix postfix : list cp) (sn : snippet) : option (list cp) :=
  html_loop prefix postfix (sn_fragment sn) (collapse (sn_hl sn)) 0.

(* the pieces to_html is made of: (plain, highlighted) pairs and a plain tail *)
Definition render (prefix postfix : list cp) (pieces : list (list cp * list cp)) (tail : list cp) : list cp :=
  flat_map (fun xy => escape (fst xy) ++ prefix ++ escape (snd xy) ++ postfix) pieces ++ escape tail.
Definition plain (pieces : list (list cp * list cp)) (tail : list cp) : list cp :=
  flat_map (fun xy => fst xy ++ snd xy) pieces ++ tail.

Lemma drop_bytes_step frag s x r : drop_bytes frag s = Some (x ++ r) -> drop_bytes frag (s + blen x) = Some r.
Proof.
  intros H. apply drop_bytes_inv in H as (p & -> & ->). rewrite app_assoc, <- blen_app. apply drop_bytes_app.
Qed.

Lemma slice_cp_drop frag s a x : slice_cp frag s a = Some x ->
  exists r, drop_bytes frag s = Some (x ++ r) /\ a = s + blen x.
Proof.
  intros H. apply slice_cp_spec in H as (p & c & -> & -> & ->). exists c. split; [apply drop_bytes_app|reflexivity].
Qed.

Lemma html_loop_structure prefix postfix frag : forall rs s h,
  html_loop prefix postfix frag rs s = Some h ->
  exists pieces tail rest, drop_bytes frag s = Some rest /\ rest = plain pieces tail /\ h = render prefix postfix pieces tail /\
     length pieces = length rs.
Proof.
  induction rs as [|[a b] rs IH]; intros s h H; cbn [html_loop] in H.
  - destruct (slice_cp frag s (blen frag)) as [x|] eqn:E; [|discriminate]. injection H as <-.
    apply slice_cp_drop in E as (r & Hd & Hlen). exists [], x, x. repeat split; try reflexivity.
    pose proof Hd as Hd'. apply drop_bytes_inv in Hd' as (p & Ep & ->). rewrite Ep, !blen_app in Hlen.
    assert (r = []) by (apply blen_nil_inv; lia). subst r. rewrite app_nil_r in Hd. exact Hd.
  - destruct (slice_cp frag s a) as [x|] eqn:Ex; [|discriminate].
    destruct (slice_cp frag a b) as [y|] eqn:Ey; [|discriminate].
    destruct (html_loop prefix postfix frag rs b) as [z|] eqn:Ez; [|discriminate]. injection H as <-.
    destruct (IH b z Ez) as (pieces & tail & rest & Hd & -> & -> & Hlen).
    apply slice_cp_drop in Ex as (r1 & Hd1 & ->). apply slice_cp_drop in Ey as (r2 & Hd2 & ->).
    pose proof (drop_bytes_step _ _ _ _ Hd1) as Hd1'. rewrite Hd2 in Hd1'. injection Hd1' as <-.
    pose proof (drop_bytes_step _ _ _ _ Hd2) as Hd2'. rewrite Hd in Hd2'. injection Hd2' as <-.
    exists ((x, y) :: pieces), tail, (x ++ y ++ plain pieces tail). repeat split.
    + exact Hd1.
    + unfold plain. cbn [flat_map fst snd]. rewrite <- !app_assoc. reflexivity.
    + unfold render. cbn [flat_map fst snd]. rewrite <- !app_assoc. reflexivity.
    + cbn [length]. rewrite Hlen. reflexivity.
Qed.

Lemma unhtml_render pieces tail :
  unhtml (render SNIPPET_DEFAULT_PREFIX SNIPPET_DEFAULT_POSTFIX pieces tail) = plain pieces tail.
Proof.
  unfold unhtml, render, plain. induction pieces as [|[x y] pieces IH]; cbn [flat_map fst snd].
  - cbn [app]. rewrite <- (app_nil_r (escape tail)), unhtml_escape. cbn [unhtml_go]. rewrite app_nil_r. reflexivity.
  - rewrite <- !app_assoc, unhtml_escape, unhtml_prefix, unhtml_escape, unhtml_postfix, IH. reflexivity.
Qed.

(* the HTML is the fragment, escaped everywhere outside the inserted tags, and reading it back
   (dropping tags, decoding entities) returns the fragment *)
Theorem to_html_spec prefix postfix sn h :
  to_html prefix postfix sn = Some h ->
  exists pieces tail, sn_fragment sn = plain pieces tail /\ h = render prefix postfix pieces tail /\
                      length pieces = length (collapse (sn_hl sn)).
Proof.
  unfold to_html. intros H. destruct (html_loop_structure _ _ _ _ _ _ H) as (pieces & tail & rest & Hd & -> & -> & Hl).
  exists pieces, tail. rewrite drop_bytes_unfold in Hd. cbn in Hd. injection Hd as ->. auto.
Qed.

Theorem to_html_roundtrip sn h :
  to_html SNIPPET_DEFAULT_PREFIX SNIPPET_DEFAULT_POSTFIX sn = Some h -> unhtml h = sn_fragment sn.
Proof.
  intros H. destruct (to_html_spec _ _ _ _ H) as (pieces & tail & -> & -> & _). apply unhtml_render.
Qed.

(* to_html cannot panic when the collapsed ranges are sorted, disjoint, inside the fragment and on boundaries *)
Lemma html_loop_total prefix postfix frag : forall rs s,
  boundary frag s -> ranges_disjoint s rs ->
  Forall (fun r => boundary frag (fst r) /\ boundary frag (snd r)) rs ->
  html_loop prefix postfix frag rs s <> None.
Proof.
  induction rs as [|[a b] rs IH]; intros s Hs Hd Hb; cbn [html_loop].
  - destruct (slice_cp_total frag s (blen frag) Hs (boundary_end frag) (boundary_le _ _ Hs)) as (x & ->). discriminate.
  - cbn [ranges_disjoint fst snd] in Hd. destruct Hd as (H1 & H2 & H3). inversion Hb as [|? ? [Ba Bb] Hb']; subst. cbn [fst snd] in *.
    destruct (slice_cp_total frag s a Hs Ba H1) as (x & ->). destruct (slice_cp_total frag a b Ba Bb H2) as (y & ->).
    specialize (IH b Bb H3 Hb'). destruct (html_loop prefix postfix frag rs b); [discriminate|contradiction].
Qed.


(* two adjacent slices make one; a boundary of the text inside a slice is a boundary of the slice *)
Lemma points_at_glue text a b c x y : points_at text a b x -> points_at text b c y -> points_at text a c (x ++ y).
Proof.
  intros (p & q & E1 & -> & ->) (p' & q' & E2 & Hb & ->).
  assert (Hd1 : drop_bytes text (blen (p ++ x)) = Some q) by (rewrite E1, app_assoc; apply drop_bytes_app).
  assert (Hd2 : drop_bytes text (blen p') = Some (y ++ q')) by (rewrite E2; apply drop_bytes_app).
  rewrite blen_app, Hb, Hd2 in Hd1. injection Hd1 as <-.
  exists p, q'. rewrite blen_app, <- app_assoc. repeat split; try lia. exact E1.
Qed.

Lemma boundary_in_slice text start stop frag o :
  points_at text start stop frag -> boundary text o -> start <= o <= stop -> boundary frag (o - start).
Proof.
  intros Hp Ho [H1 H2]. destruct (points_at_facts _ _ _ _ Hp) as (_ & _ & Bs & Be).
  destruct (slice_cp_total text start o Bs Ho H1) as (x & Ex). destruct (slice_cp_total text o stop Ho Be H2) as (y & Ey).
  apply slice_cp_spec in Ex, Ey. pose proof (points_at_glue _ _ _ _ _ _ Ex Ey) as Hg.
  rewrite (points_at_unique _ _ _ _ _ Hp Hg). exists x, y. split; [reflexivity|].
  destruct Ex as (p & q & _ & -> & ->). lia.
Qed.

(* ------------------------------------------------------------------------------------------ *)
(* fragments *)
Section Fragments.
  Variable score : Type.
  Variable szero : score.
  Variable sadd : score -> score -> score.
  Variable spos : score -> bool.                       (* score > 0.0 *)
  Variable scmp : score -> score -> comparison.        (* partial_cmp(..).unwrap_or(Equal) *)
  Variable lower_str : list cp -> list cp.             (* str::to_lowercase *)

  Record frag := mkFrag { f_score : score; f_start : N; f_stop : N; f_hl : list range }.
  Definition frag_new (start : N) : frag := mkFrag szero start start [].

  Fixpoint term_score (terms : list (list cp * score)) (t : list cp) : option score :=
    match terms with
    | [] => None
    | (w, s) :: r => if cps_eqb w t then Some s else term_score r t
    end.

  (* FragmentCandidate::try_add_token: `self.stop_offset = self.stop_offset.max(token.offset_to)`
     (the shape of that statement is pinned: SNIPPET_STOP_IS_MAX) *)
  Definition new_stop (stop to : N) : N := if SNIPPET_STOP_IS_MAX =? 1 then N.max stop to else to.
  Lemma new_stop_eq stop to : new_stop stop to = N.max stop to.
  Proof. unfold new_stop. replace (SNIPPET_STOP_IS_MAX =? 1) with true by (vm_compute; reflexivity). reflexivity. Qed.

  Definition try_add_token (terms : list (list cp * score)) (f : frag) (tk : token) : frag :=
    match term_score terms (lower_str (t_text tk)) with
    | Some s => mkFrag (sadd (f_score f) s) (f_start f) (new_stop (f_stop f) (t_to tk)) (f_hl f ++ [(t_from tk, t_to tk)])
    | None => mkFrag (f_score f) (f_start f) (new_stop (f_stop f) (t_to tk)) (f_hl f)
    end.

  Definition push_if_scored (acc : list frag) (f : frag) : list frag :=
    if spos (f_score f) then acc ++ [f] else acc.

  (* search_fragments; None = `next.offset_to - fragment.start_offset` underflows *)
  Fixpoint search_loop (terms : list (list cp * score)) (max : N) (ts : list token) (cur : frag) (acc : list frag)
    : option (list frag) :=
    match ts with
    | [] => Some (push_if_scored acc cur)
    | tk :: r =>
        if t_to tk <? f_start cur then None
        else if max <? t_to tk - f_start cur
             then search_loop terms max r (try_add_token terms (frag_new (t_from tk)) tk) (push_if_scored acc cur)
             else search_loop terms max r (try_add_token terms cur tk) acc
    end.
  Definition search_fragments terms max ts := search_loop terms max ts (frag_new 0) [].

  (* select_best_fragment_combination: Iterator::max_by keeps the later of equal maxima *)
  Definition pair_cmp (a b : N * N) : comparison :=
    match N.compare (fst a) (fst b) with Eq => N.compare (snd a) (snd b) | c => c end.
  Definition frag_cmp (l r : frag) : comparison :=
    match scmp (f_score l) (f_score r) with
    | Eq => pair_cmp (f_start r, f_stop r) (f_start l, f_stop l)
    | c => c
    end.
  Definition best_fragment (fs : list frag) : option frag :=
    match fs with
    | [] => None
    | x :: r => Some (fold_left (fun b y => match frag_cmp b y with Gt => b | _ => y end) r x)
    end.

  Fixpoint shift_ranges (start : N) (rs : list range) : option (list range) :=
    match rs with
    | [] => Some []
    | (a, b) :: r => if (a <? start) || (b <? start) then None          (* usize underflow *)
                     else match shift_ranges start r with Some x => Some ((a - start, b - start) :: x) | None => None end
    end.

  Definition select_best (fs : list frag) (text : list cp) : option snippet :=
    match best_fragment fs with
    | None => Some (mkSnip [] [])                                       (* Snippet::empty() *)
    | Some f =>
        match slice_cp text (f_start f) (f_stop f), shift_ranges (f_start f) (f_hl f) with
        | Some ft, Some hl => Some (mkSnip ft hl)
        | _, _ => None
        end
    end.

  Definition snippet_of (terms : list (list cp * score)) (max : N) (text : list cp) (ts : list token) : option snippet :=
    match search_fragments terms max ts with
    | Some fs => select_best fs text
    | None => None
    end.

  Lemma best_fragment_in fs f : best_fragment fs = Some f -> In f fs.
  Proof.
    destruct fs as [|x r]; [discriminate|]. cbn [best_fragment]. intros H. injection H as <-.
    revert x. induction r as [|y r IH]; intros x; cbn [fold_left]; [left; reflexivity|].
    destruct (frag_cmp x y); specialize (IH y) as IHy; specialize (IH x) as IHx; cbn [In] in *; tauto.
  Qed.

  (* ---- invariant of a fragment candidate w.r.t. the token stream `all` ---- *)
  Variable text : list cp.
  Variable all : list token.
  Variable terms : list (list cp * score).
  Variable max : N.

  Definition hl_from_token (f : frag) (r : range) : Prop :=
    exists tk, In tk all /\ r = (t_from tk, t_to tk) /\ term_score terms (lower_str (t_text tk)) <> None /\ f_start f <= fst r.

  Definition frag_inv (f : frag) : Prop :=
    boundary text (f_start f) /\ boundary text (f_stop f) /\ f_start f <= f_stop f /\
    Forall (hl_from_token f) (f_hl f) /\
    (f_stop f - f_start f <= max \/
     exists tk, In tk all /\ f_start f = t_from tk /\ f_stop f = t_to tk /\ max < t_to tk - t_from tk).

  Definition tok_pre (tk : token) : Prop := In tk all /\ span_ok text tk.

  Lemma frag_new_inv o : boundary text o -> frag_inv (frag_new o).
  Proof.
    intros Hb. unfold frag_inv, frag_new. cbn [f_start f_stop f_hl].
    split; [exact Hb|]. split; [exact Hb|]. split; [lia|]. split; [constructor|left; lia].
  Qed.

  Lemma try_add_inv f tk : frag_inv f -> tok_pre tk -> f_start f <= t_from tk ->
    (t_to tk - f_start f <= max \/ (f_start f = t_from tk /\ f_stop f = t_from tk /\ max < t_to tk - t_from tk)) ->
    frag_inv (try_add_token terms f tk).
  Proof.
    intros (B1 & B2 & Hle & Hhl & Hlen) [Hin Hsp] Hfrom Hmax.
    destruct (span_ok_facts _ _ Hsp) as (S1 & S2 & S3 & S4).
    assert (Hstop : boundary text (N.max (f_stop f) (t_to tk))).
    { destruct (N.max_spec (f_stop f) (t_to tk)) as [[_ ->]|[_ ->]]; assumption. }
    assert (Hlen' : N.max (f_stop f) (t_to tk) - f_start f <= max \/
              exists tk0, In tk0 all /\ f_start f = t_from tk0 /\ N.max (f_stop f) (t_to tk) = t_to tk0 /\ max < t_to tk0 - t_from tk0).
    { destruct Hmax as [H|(H1 & H2 & H3)].
      - destruct Hlen as [Hl|(tk0 & I0 & E1 & E2 & G)]; [left; lia|].
        right. exists tk0. repeat split; try assumption. lia.
      - right. exists tk. repeat split; try assumption. lia. }
    unfold try_add_token. destruct (term_score terms (lower_str (t_text tk))) as [s|] eqn:Es;
      unfold frag_inv; cbn [f_start f_stop f_hl]; rewrite !new_stop_eq;
      (split; [exact B1|]); (split; [exact Hstop|]); (split; [lia|]); (split; [|exact Hlen']); [|exact Hhl].
    apply Forall_app. split; [exact Hhl|]. constructor; [|constructor].
    exists tk. cbn [fst]. repeat split; try assumption. rewrite Es. discriminate.
  Qed.

  Lemma push_inv acc f : Forall frag_inv acc -> frag_inv f -> Forall frag_inv (push_if_scored acc f).
  Proof. intros Ha Hf. unfold push_if_scored. destruct (spos _); [apply Forall_app; split; [exact Ha|constructor; [exact Hf|constructor]]|exact Ha]. Qed.

  Lemma search_loop_inv : forall ts cur acc,
    Forall tok_pre ts -> from_sorted ts -> Forall (fun tk => f_start cur <= t_from tk) ts ->
    frag_inv cur -> Forall frag_inv acc ->
    exists fs, search_loop terms max ts cur acc = Some fs /\ Forall frag_inv fs.
  Proof.
    induction ts as [|tk r IH]; intros cur acc Hpre Hs Hge Hcur Hacc; cbn [search_loop].
    - eexists. split; [reflexivity|]. apply push_inv; assumption.
    - inversion Hpre as [|? ? Htk Hpre']; subst. inversion Hge as [|? ? Hge1 Hge']; subst.
      pose proof (sorted_by_head_le t_from tk r Hs) as Hle. assert (Hs' : from_sorted r) by (unfold from_sorted in *; cbn [sorted_by] in Hs; tauto).
      destruct Htk as [Hin Hsp]. destruct (span_ok_facts _ _ Hsp) as (S1 & S2 & S3 & S4).
      destruct (N.ltb_spec (t_to tk) (f_start cur)) as [Hlt|Hnl]; [lia|].
      destruct (N.ltb_spec max (t_to tk - f_start cur)) as [Hbig|Hsmall].
      + apply IH; try assumption.
        * unfold try_add_token, frag_new. destruct (term_score _ _); cbn [f_start]; exact Hle.
        * apply try_add_inv; [apply frag_new_inv; exact S3|split; assumption|cbn [frag_new f_start]; lia|].
          cbn [frag_new f_start f_stop]. destruct (N.le_gt_cases (t_to tk - t_from tk) max); [left; assumption|right; repeat split; try reflexivity; lia].
        * apply push_inv; assumption.
      + apply IH; try assumption.
        * unfold try_add_token. destruct (term_score _ _); cbn [f_start]; eapply Forall_impl; try exact Hge'; cbn; intros; lia.
        * apply try_add_inv; [exact Hcur|split; assumption|exact Hge1|left; exact Hsmall].
  Qed.

  (* ---- highlights stay inside the fragment (the fragment end is the furthest token end) ---- *)
  Definition hl_inside (f : frag) : Prop := Forall (fun r => snd r <= f_stop f) (f_hl f).

  Lemma search_loop_inside : forall ts cur acc fs,
    hl_inside cur -> Forall hl_inside acc ->
    search_loop terms max ts cur acc = Some fs -> Forall hl_inside fs.
  Proof.
    assert (Hpush : forall acc f, Forall hl_inside acc -> hl_inside f -> Forall hl_inside (push_if_scored acc f)).
    { intros acc f Ha Hf. unfold push_if_scored. destruct (spos _); [apply Forall_app; split; [exact Ha|constructor; [exact Hf|constructor]]|exact Ha]. }
    assert (Hadd : forall f tk, hl_inside f -> hl_inside (try_add_token terms f tk)).
    { intros f tk Hf. unfold try_add_token, hl_inside in *. destruct (term_score _ _); cbn [f_hl f_stop]; rewrite new_stop_eq.
      - apply Forall_app. split; [eapply Forall_impl; [|exact Hf]; cbn; intros; lia|constructor; [cbn; lia|constructor]].
      - eapply Forall_impl; [|exact Hf]. cbn. intros; lia. }
    induction ts as [|tk r IH]; intros cur acc fs Hcur Hacc H; cbn [search_loop] in H.
    - injection H as <-. apply Hpush; assumption.
    - destruct (t_to tk <? f_start cur); [discriminate|].
      destruct (max <? t_to tk - f_start cur).
      + refine (IH _ _ fs (Hadd _ tk _) (Hpush _ _ Hacc Hcur) H). constructor.
      + refine (IH _ _ fs (Hadd _ tk Hcur) Hacc H).
  Qed.

  Lemma shift_ranges_ok start : forall rs,
    Forall (fun r => start <= fst r /\ fst r <= snd r) rs ->
    exists out, shift_ranges start rs = Some out /\ out = map (fun r => (fst r - start, snd r - start)) rs.
  Proof.
    induction rs as [|[a b] rs IH]; intros Hall; cbn [shift_ranges]; [exists []; split; reflexivity|].
    inversion Hall as [|? ? [H1 H2] Hall']; subst. cbn [fst snd] in *.
    destruct (N.ltb_spec a start); [lia|]. destruct (N.ltb_spec b start); [lia|]. cbn [orb].
    destruct (IH Hall') as (out & -> & ->). eexists. split; reflexivity.
  Qed.

  (* ---- with non-overlapping tokens the raw highlight ranges are already sorted and disjoint ---- *)
  Lemma ranges_disjoint_snoc : forall rs lo hi a b,
    ranges_disjoint lo rs -> Forall (fun r => snd r <= hi) rs -> lo <= hi -> hi <= a -> a <= b ->
    ranges_disjoint lo (rs ++ [(a, b)]).
  Proof.
    induction rs as [|r rs IH]; intros lo hi a b Hd Hhi Hlo Ha Hab; cbn [app ranges_disjoint fst snd].
    - repeat split; try lia.
    - cbn [ranges_disjoint] in Hd. destruct Hd as (D1 & D2 & D3). inversion Hhi; subst.
      repeat split; try assumption. eapply IH; eauto.
  Qed.

  Definition hl_chain (f : frag) : Prop :=
    ranges_disjoint (f_start f) (f_hl f) /\ Forall (fun r => snd r <= f_stop f) (f_hl f) /\ f_start f <= f_stop f.

  Lemma search_loop_chain : forall ts cur acc fs,
    disjoint_from (f_stop cur) ts -> hl_chain cur -> Forall hl_chain acc ->
    search_loop terms max ts cur acc = Some fs -> Forall hl_chain fs.
  Proof.
    assert (Hpush : forall acc f, Forall hl_chain acc -> hl_chain f -> Forall hl_chain (push_if_scored acc f)).
    { intros acc f Ha Hf. unfold push_if_scored. destruct (spos _); [apply Forall_app; split; [exact Ha|constructor; [exact Hf|constructor]]|exact Ha]. }
    assert (Hadd : forall f tk, hl_chain f -> f_stop f <= t_from tk -> t_from tk <= t_to tk ->
                                hl_chain (try_add_token terms f tk) /\ f_stop (try_add_token terms f tk) = t_to tk).
    { intros f tk (C1 & C2 & C3) Hle Hwf. unfold try_add_token, hl_chain. destruct (term_score _ _); cbn [f_hl f_stop f_start]; rewrite !new_stop_eq; repeat split; try lia.
      - eapply ranges_disjoint_snoc; eauto.
      - apply Forall_app. split; [eapply Forall_impl; [|exact C2]; cbn; intros; lia|constructor; [cbn; lia|constructor]].
      - exact C1.
      - eapply Forall_impl; [|exact C2]. cbn. intros; lia. }
    induction ts as [|tk r IH]; intros cur acc fs Hd Hcur Hacc H; cbn [search_loop] in H.
    - injection H as <-. apply Hpush; assumption.
    - cbn [disjoint_from] in Hd. destruct Hd as (D1 & D2 & D3).
      destruct (t_to tk <? f_start cur); [discriminate|].
      destruct (max <? t_to tk - f_start cur).
      + destruct (Hadd (frag_new (t_from tk)) tk) as [Ha1 Ha2]; try assumption.
        { unfold hl_chain, frag_new. cbn [f_start f_stop f_hl]. repeat split; try lia. constructor. }
        { cbn [frag_new f_stop]. lia. }
        refine (IH _ _ fs _ Ha1 (Hpush _ _ Hacc Hcur) H). rewrite Ha2. exact D3.
      + destruct (Hadd cur tk Hcur D1 D2) as [Ha1 Ha2].
        refine (IH _ _ fs _ Ha1 Hacc H). rewrite Ha2. exact D3.
  Qed.

  Lemma shift_disjoint start : forall rs lo, start <= lo -> ranges_disjoint lo rs ->
    ranges_disjoint (lo - start) (map (fun r => (fst r - start, snd r - start)) rs).
  Proof.
    induction rs as [|r rs IH]; intros lo Hlo Hd; [exact I|]. cbn [ranges_disjoint] in Hd. destruct Hd as (D1 & D2 & D3).
    cbn [map ranges_disjoint fst snd]. repeat split; try lia. apply IH; [lia|exact D3].
  Qed.

  Lemma ranges_disjoint_wf : forall rs lo, ranges_disjoint lo rs -> Forall (fun r => lo <= fst r /\ fst r <= snd r) rs.
  Proof.
    induction rs as [|r rs IH]; intros lo Hd; [constructor|].
    cbn [ranges_disjoint] in Hd. destruct Hd as (D1 & D2 & D3). constructor; [split; assumption|].
    eapply Forall_impl; [|apply (IH (snd r) D3)]. cbn. intros x [X1 X2]. split; lia.
  Qed.

  Lemma raw_disjoint_from_search sn : disjoint_from 0 all ->
    snippet_of terms max text all = Some sn -> ranges_disjoint 0 (sn_hl sn).
  Proof.
    intros Hd H. unfold snippet_of, search_fragments in H.
    destruct (search_loop terms max all (frag_new 0) []) as [fs|] eqn:Efs; [|discriminate].
    assert (Hch : Forall hl_chain fs).
    { eapply search_loop_chain; [| | |exact Efs].
      - exact Hd.
      - unfold hl_chain, frag_new. cbn [f_start f_stop f_hl]. repeat split; try lia. constructor.
      - constructor. }
    unfold select_best in H. destruct (best_fragment fs) as [f|] eqn:Eb.
    2:{ injection H as <-. exact I. }
    apply best_fragment_in in Eb. rewrite Forall_forall in Hch. destruct (Hch f Eb) as (C1 & C2 & C3).
    destruct (slice_cp text (f_start f) (f_stop f)); [|discriminate].
    destruct (shift_ranges (f_start f) (f_hl f)) as [hl|] eqn:Es; [|discriminate]. injection H as <-. cbn [sn_hl].
    assert (Hwf : Forall (fun r => f_start f <= fst r /\ fst r <= snd r) (f_hl f)).
    { apply ranges_disjoint_wf. exact C1. }
    destruct (shift_ranges_ok _ _ Hwf) as (hl' & E' & ->). rewrite Es in E'. injection E' as ->.
    replace 0 with (f_start f - f_start f) by lia. apply shift_disjoint; [lia|exact C1].
  Qed.

  Hypothesis all_spans : Forall (span_ok text) all.
  Hypothesis all_from_sorted : from_sorted all.

  Definition snippet_post (sn : snippet) : Prop :=
    sn = mkSnip [] [] \/
    exists start stop,
      points_at text start stop (sn_fragment sn) /\
      (stop - start <= max \/
       exists tk, In tk all /\ start = t_from tk /\ stop = t_to tk /\ max < t_to tk - t_from tk) /\
      Forall (fun r => exists tk, In tk all /\ t_from tk = start + fst r /\ t_to tk = start + snd r /\ fst r <= snd r /\
                                  term_score terms (lower_str (t_text tk)) <> None) (sn_hl sn) /\
      Forall (fun r => start + snd r <= stop) (sn_hl sn).

  Theorem snippet_of_ok : exists sn, snippet_of terms max text all = Some sn /\ snippet_post sn.
  Proof.
    unfold snippet_of, search_fragments.
    assert (Hpre : Forall tok_pre all).
    { apply Forall_forall. intros tk Hin. split; [exact Hin|]. rewrite Forall_forall in all_spans. auto. }
    destruct (search_loop_inv all (frag_new 0) []) as (fs & Efs & Hinv); try assumption.
    { apply Forall_forall. intros tk _. cbn [frag_new f_start]. lia. }
    { apply frag_new_inv, boundary_0. }
    { constructor. }
    rewrite Efs. unfold select_best. destruct (best_fragment fs) as [f|] eqn:Eb.
    2:{ eexists. split; [reflexivity|left; reflexivity]. }
    apply best_fragment_in in Eb. rewrite Forall_forall in Hinv. destruct (Hinv f Eb) as (B1 & B2 & Hle & Hhl & Hlen).
    destruct (slice_cp_total text _ _ B1 B2 Hle) as (ft & Eft). rewrite Eft.
    assert (Hwf : Forall (fun r => f_start f <= fst r /\ fst r <= snd r) (f_hl f)).
    { eapply Forall_impl; [|exact Hhl]. cbn beta. intros r (tk & Hin & -> & _ & Hge). cbn [fst snd] in *. split; [exact Hge|].
      rewrite Forall_forall in all_spans. apply (span_ok_facts text tk). auto. }
    destruct (shift_ranges_ok _ _ Hwf) as (hl & -> & Ehl). eexists. split; [reflexivity|]. right.
    exists (f_start f), (f_stop f). cbn [sn_fragment sn_hl]. split; [apply slice_cp_spec; exact Eft|]. split; [exact Hlen|]. split.
    - subst hl. apply Forall_forall. intros r Hin. apply in_map_iff in Hin as (r0 & <- & Hin0).
      rewrite Forall_forall in Hhl, Hwf. destruct (Hhl r0 Hin0) as (tk & Hin & -> & Hsc & Hge). destruct (Hwf _ Hin0) as [W1 W2].
      cbn [fst snd] in *. exists tk. repeat split; try assumption; lia.
    - assert (Hins : Forall (hl_inside) fs).
      { eapply (search_loop_inside all (frag_new 0) [] fs); try exact Efs; constructor. }
      rewrite Forall_forall in Hins. specialize (Hins f Eb). unfold hl_inside in Hins.
      subst hl. apply Forall_forall. intros r Hin. apply in_map_iff in Hin as (r0 & <- & Hin0).
      rewrite Forall_forall in Hins, Hwf. specialize (Hins r0 Hin0). destruct (Hwf _ Hin0) as [W1 W2]. cbn [fst snd]. lia.
  Qed.
End Fragments.

(* ------------------------------------------------------------------------------------------ *)
(* Collapsed highlights of a generated snippet, for every token stream with spans on boundaries and
   non-decreasing offset_from (overlapping or not): sorted, disjoint, inside the fragment, on its
   character boundaries, covering exactly the highlighted tokens; to_html does not panic. *)
Theorem snippet_ranges_ok (score : Type) szero sadd spos scmp lower_str text all terms max prefix postfix sn :
  Forall (span_ok text) all -> from_sorted all ->
  snippet_of score szero sadd spos scmp lower_str terms max text all = Some sn ->
  let frag := sn_fragment sn in
  let hl := collapse (sn_hl sn) in
  ranges_disjoint 0 hl /\
  Forall (fun r => boundary frag (fst r) /\ boundary frag (snd r)) hl /\
  (forall p, covered p hl <-> covered p (sn_hl sn)) /\
  to_html prefix postfix sn <> None.
Proof.
  intros Hsp Hfs Hsn frag hl.
  destruct (snippet_of_ok score szero sadd spos scmp lower_str text all terms max Hsp Hfs) as (sn' & E & Hpost).
  rewrite Hsn in E. injection E as <-.
  assert (Hraw : Forall (fun r => fst r <= snd r /\ boundary frag (fst r) /\ boundary frag (snd r)) (sn_hl sn)).
  { destruct Hpost as [->|(start & stop & Hp & _ & Hhl & Hin)]; [constructor|].
    apply Forall_forall. intros r Hr. rewrite Forall_forall in Hhl, Hin. destruct (Hhl r Hr) as (tk & Htk & F1 & F2 & Hle & _).
    specialize (Hin r Hr). rewrite Forall_forall in Hsp. destruct (span_ok_facts _ _ (Hsp tk Htk)) as (_ & _ & B1 & B2).
    split; [exact Hle|]. split.
    - replace (fst r) with (t_from tk - start) by lia. eapply boundary_in_slice; eauto. lia.
    - replace (snd r) with (t_to tk - start) by lia. eapply boundary_in_slice; eauto. lia. }
  assert (Hwf : Forall wf_range (sn_hl sn)) by (eapply Forall_impl; [|exact Hraw]; cbn beta; unfold wf_range; tauto).
  destruct (collapse_spec _ Hwf) as (Hd & Hc & He). fold hl in Hd, Hc, He.
  assert (Hb : Forall (fun r => boundary frag (fst r) /\ boundary frag (snd r)) hl).
  { apply Forall_forall. intros r Hr. rewrite Forall_forall in He, Hraw. destruct (He r Hr) as [E1 E2].
    apply in_map_iff in E1 as (r1 & <- & Hr1). apply in_map_iff in E2 as (r2 & <- & Hr2).
    split; [apply (Hraw r1 Hr1)|apply (Hraw r2 Hr2)]. }
  repeat split; try assumption.
  - apply Hc.
  - apply Hc.
  - unfold to_html. apply html_loop_total; [apply boundary_0|exact Hd|exact Hb].
Qed.
