(* C16 -- the query grammar (strict entry point), over strings of Unicode code points.
   parse_ref transliterates query-grammar/src/query_grammar.rs (parse_to_ast and everything below
   it: field_name, word, interpret_escape, relaxed_word, negative_number, simple_term,
   term_or_phrase, term_group, exists, literal, slop_or_prefix_val, range, set, regex, leaf,
   boosted_leaf, occur_leaf, operand_leaf, ast, rewrite_ast) and UserInputLeaf::set_field /
   set_default_field (user_input_ast.rs).  nom`s `Err::Error` is RFail; the `expect` in set_field is
   RAbort Panic; recursion is by fuel (RAbort OutOfFuel is a distinct outcome).
   Then: concrete queries `cq` (an abstract query together with its layout: whitespace runs,
   redundant parentheses, quote kinds), the printer, and `norm` (the documented meaning as a
   UserInputAst).  Style: stdlib. *)
From TV Require Import Base.Prelude Text.BinOpFold Generated.Constants.
Local Open Scope N_scope.

Definition str := list N.
Definition str_eqb : str -> str -> bool := list_eqb N.eqb.

(* ------------------------------------------------------------------ character classes *)
Definition in_tab (c : N) (t : list N) : bool := existsb (N.eqb c) t.
Definition special (c : N) : bool := in_tab c QG_SPECIAL_CHARS.
Definition esc (c : N) : bool := in_tab c QG_ESCAPE_IN_WORD.
(* nom multispace: space, tab, CR, LF *)
Definition is_ms (c : N) : bool := (c =? 32) || (c =? 9) || (c =? 13) || (c =? 10).
(* char::is_whitespace (Unicode White_Space) *)
Definition is_ws (c : N) : bool :=
  ((9 <=? c) && (c <=? 13)) || (c =? 32) || (c =? 133) || (c =? 160) || (c =? 5760) ||
  ((8192 <=? c) && (c <=? 8202)) || (c =? 8232) || (c =? 8233) || (c =? 8239) || (c =? 8287) || (c =? 12288).
Definition is_digit (c : N) : bool := (48 <=? c) && (c <=? 57).

Definition BSL : N := 92.   (* \ *)
Definition DQ : N := 34.    (* ` *)
Definition SQ : N := 39.    (* ` *)
Definition LP : N := 40.
Definition RP : N := 41.
Definition STAR : N := 42.
Definition PLUS : N := 43.
Definition MINUS : N := 45.
Definition DOT : N := 46.
Definition SLASH : N := 47.
Definition COLON : N := 58.
Definition LT : N := 60.
Definition EQ : N := 61.
Definition GT : N := 62.
Definition LBR : N := 91.
Definition RBR : N := 93.
Definition CARET : N := 94.
Definition BQ : N := 96.
Definition LCB : N := 123.
Definition RCB : N := 125.
Definition TILDE : N := 126.
Definition kw_AND : str := [65;78;68].
Definition kw_OR : str := [79;82].
Definition kw_NOT : str := [78;79;84].
Definition kw_IN : str := [73;78].
Definition kw_TO : str := [84;79].

(* ------------------------------------------------------------------ AST *)
Inductive delim := DNone | DSingle | DDouble.
Inductive bound := BIncl (s : str) | BExcl (s : str) | BUnb.
Inductive leaf :=
| LLit (field : option str) (phrase : str) (d : delim) (slop : N) (prefix : bool)
| LAll
| LRange (field : option str) (lo hi : bound)
| LSet (field : option str) (elems : list str)
| LExists (field : str)
| LRegex (field : option str) (pat : str).
Definition uast := ast leaf.

Definition opt_eqb {A} (e : A -> A -> bool) (a b : option A) : bool :=
  match a, b with Some x, Some y => e x y | None, None => true | _, _ => false end.
Definition delim_eqb (a b : delim) : bool :=
  match a, b with DNone, DNone | DSingle, DSingle | DDouble, DDouble => true | _, _ => false end.
Definition bound_eqb (a b : bound) : bool :=
  match a, b with
  | BIncl x, BIncl y | BExcl x, BExcl y => str_eqb x y
  | BUnb, BUnb => true
  | _, _ => false
  end.
Definition leaf_eqb (a b : leaf) : bool :=
  match a, b with
  | LLit f1 p1 d1 s1 x1, LLit f2 p2 d2 s2 x2 =>
      opt_eqb str_eqb f1 f2 && str_eqb p1 p2 && delim_eqb d1 d2 && (s1 =? s2) && Bool.eqb x1 x2
  | LAll, LAll => true
  | LRange f1 l1 h1, LRange f2 l2 h2 => opt_eqb str_eqb f1 f2 && bound_eqb l1 l2 && bound_eqb h1 h2
  | LSet f1 e1, LSet f2 e2 => opt_eqb str_eqb f1 f2 && list_eqb str_eqb e1 e2
  | LExists f1, LExists f2 => str_eqb f1 f2
  | LRegex f1 p1, LRegex f2 p2 => opt_eqb str_eqb f1 f2 && str_eqb p1 p2
  | _, _ => false
  end.
Fixpoint ast_eqb {L} (leqb : L -> L -> bool) (a b : ast L) : bool :=
  match a, b with
  | Leaf x, Leaf y => leqb x y
  | Boost a1 b1, Boost a2 b2 => ast_eqb leqb a1 a2 && (fst b1 =? fst b2) && (snd b1 =? snd b2)
  | Clause c1, Clause c2 =>
      (fix go (c1 c2 : list (option occur * ast L)) : bool :=
         match c1, c2 with
         | [], [] => true
         | x :: r1, y :: r2 => opt_eqb occur_eqb (fst x) (fst y) && ast_eqb leqb (snd x) (snd y) && go r1 r2
         | _, _ => false
         end) c1 c2
  | _, _ => false
  end.
Definition uast_eqb : uast -> uast -> bool := ast_eqb leaf_eqb.
Definition clause_eqb (x y : option occur * uast) : bool :=
  opt_eqb occur_eqb (fst x) (fst y) && uast_eqb (snd x) (snd y).

(* ------------------------------------------------------------------ parser results *)
Inductive abort := Panic | OutOfFuel.
Inductive res (A : Type) := ROk (a : A) (rest : str) | RFail | RAbort (k : abort).
Arguments ROk {A} a rest.
Arguments RFail {A}.
Arguments RAbort {A} k.

(* ------------------------------------------------------------------ primitives *)
Fixpoint strip_prefix (t s : str) : option str :=
  match t, s with
  | [], _ => Some s
  | a :: t', b :: s' => if a =? b then strip_prefix t' s' else None
  | _ :: _, [] => None
  end.
Fixpoint skip_ms (s : str) : str :=
  match s with c :: t => if is_ms c then skip_ms t else s | [] => [] end.
Definition ms1 (s : str) : option str :=
  match s with c :: t => if is_ms c then Some (skip_ms t) else None | [] => None end.
Fixpoint take_digits (s : str) : str * str :=
  match s with
  | c :: t => if is_digit c then let (d, r) := take_digits t in (c :: d, r) else ([], s)
  | [] => ([], [])
  end.
Definition is_nil {A} (l : list A) : bool := match l with [] => true | _ => false end.
Fixpoint digits_val_acc (acc : N) (d : str) : N :=
  match d with [] => acc | c :: t => digits_val_acc (10 * acc + (c - 48)) t end.
Definition digits_val := digits_val_acc 0.

(* field_name: first char, then many0(simple | escape sequence | lone backslash), then ms0 `:` ms0 *)
Fixpoint fn_rest (s : str) : str * str :=
  match s with
  | [] => ([], [])
  | c :: t =>
      if negb (special c) then let (f, r) := fn_rest t in (c :: f, r)
      else if c =? BSL then
        match t with
        | d :: t' => if special d then let (f, r) := fn_rest t' in (d :: f, r)
                     else let (f, r) := fn_rest t in (BSL :: f, r)
        | [] => ([BSL], [])
        end
      else ([], s)
  end.
Definition fn_colon (f : str) (r : str) : option (str * str) :=
  match skip_ms r with
  | c :: r' => if c =? COLON then Some (f, skip_ms r') else None
  | [] => None
  end.
Definition field_name (s : str) : option (str * str) :=
  match s with
  | [] => None
  | c :: t =>
      if negb (special c) && negb (c =? MINUS) then let (f, r) := fn_rest t in fn_colon (c :: f) r
      else if c =? BSL then
        match t with
        | d :: t' => if special d then let (f, r) := fn_rest t' in fn_colon (d :: f) r else None
        | [] => None
        end
      else None
  end.

(* interpret_escape *)
Definition require_escape (c : N) : bool := is_ws c || esc c || (c =? MINUS).
Fixpoint interp_esc (in_esc : bool) (s : str) : str :=
  match s with
  | [] => []
  | c :: t =>
      if in_esc then (if require_escape c then [c] else [BSL; c]) ++ interp_esc false t
      else if c =? BSL then interp_esc true t
      else c :: interp_esc false t
  end.

(* word *)
Definition word_char (c : N) : bool := negb (is_ws c) && negb (esc c).
Fixpoint word_chars (s : str) : str * str :=
  match s with
  | [] => ([], [])
  | c :: t =>
      if c =? BSL then
        match t with
        | d :: t' => let (w, r) := word_chars t' in (BSL :: d :: w, r)
        | [] => ([], s)
        end
      else if word_char c then let (w, r) := word_chars t in (c :: w, r)
      else ([], s)
  end.
Definition is_keyword (w : str) : bool :=
  str_eqb w kw_OR || str_eqb w kw_AND || str_eqb w kw_NOT || str_eqb w kw_IN.
Definition word_finish (w r : str) : option (str * str) :=
  if is_keyword w then None
  else Some (if in_tab BSL w then interp_esc false w else w, r).
Definition word (s : str) : option (str * str) :=
  match s with
  | [] => None
  | c :: t =>
      if c =? BSL then
        match t with
        | d :: t' => let (w, r) := word_chars t' in word_finish (BSL :: d :: w) r
        | [] => None
        end
      else if word_char c && negb (c =? MINUS) then let (w, r) := word_chars t in word_finish (c :: w) r
      else None
  end.

(* relaxed_word *)
Definition relaxed_rest_char (c : N) : bool :=
  negb (is_ws c) && negb (in_tab c [LCB; RCB; DQ; LBR; RBR; LP; RP]).
Definition relaxed_first_char (c : N) : bool := relaxed_rest_char c && negb (c =? BQ).
Fixpoint span (p : N -> bool) (s : str) : str * str :=
  match s with
  | c :: t => if p c then let (a, r) := span p t in (c :: a, r) else ([], s)
  | [] => ([], [])
  end.
Definition relaxed_word (s : str) : option (str * str) :=
  match s with
  | c :: t => if relaxed_first_char c then let (a, r) := span relaxed_rest_char t in Some (c :: a, r) else None
  | [] => None
  end.

(* negative_number: `-` digit1 (`.` digit1)? *)
Definition negative_number (s : str) : option (str * str) :=
  match s with
  | c :: t =>
      if c =? MINUS then
        let (d, r) := take_digits t in
        if is_nil d then None
        else match r with
             | c2 :: r' =>
                 if c2 =? DOT then
                   let (d2, r2) := take_digits r' in
                   if is_nil d2 then Some (MINUS :: d, r) else Some (MINUS :: d ++ DOT :: d2, r2)
                 else Some (MINUS :: d, r)
             | [] => Some (MINUS :: d, r)
             end
      else None
  | [] => None
  end.

(* escaped_string(delimiter): after the opening delimiter *)
Fixpoint quoted_body (q : N) (s : str) : option (str * str) :=
  match s with
  | [] => None
  | c :: t =>
      if c =? BSL then
        match t with
        | d :: t' => match quoted_body q t' with Some (b, r) => Some (d :: b, r) | None => None end
        | [] => None
        end
      else if c =? q then Some ([], t)
      else match quoted_body q t with Some (b, r) => Some (c :: b, r) | None => None end
  end.

Definition simple_term (s : str) : option (delim * str * str) :=
  match negative_number s with
  | Some (n, r) => Some (DNone, n, r)
  | None =>
      match s with
      | c :: t =>
          if c =? SQ then
            match quoted_body SQ t with
            | Some (b, r) => Some (DSingle, b, r)
            | None => match word s with Some (w, r) => Some (DNone, w, r) | None => None end
            end
          else if c =? DQ then
            match quoted_body DQ t with
            | Some (b, r) => Some (DDouble, b, r)
            | None => match word s with Some (w, r) => Some (DNone, w, r) | None => None end
            end
          else match word s with Some (w, r) => Some (DNone, w, r) | None => None end
      | [] => None
      end
  end.

(* slop_or_prefix_val: `*` | `~` u32 | nothing  (nom`s u32 fails on overflow) *)
Definition slop_or_prefix (s : str) : N * bool * str :=
  match s with
  | c :: t =>
      if c =? STAR then (0, true, t)
      else if c =? TILDE then
        let (d, r) := take_digits t in
        if is_nil d then (0, false, s)
        else if digits_val d <=? 4294967295 then (digits_val d, false, r) else (0, false, s)
      else (0, false, s)
  | [] => (0, false, s)
  end.

Definition term_or_phrase (s : str) : option (leaf * str) :=
  match simple_term s with
  | Some (d, p, r) => let '(sl, pf, r') := slop_or_prefix r in Some (LLit None p d sl pf, r')
  | None => None
  end.

(* range *)
Definition range_term_val (s : str) : option (str * str) :=
  match negative_number s with
  | Some x => Some x
  | None =>
      match relaxed_word s with
      | Some x => Some x
      | None => match s with c :: t => if c =? STAR then Some ([STAR], t) else None | [] => None end
      end
  end.
Definition is_star (s : str) : bool := str_eqb s [STAR].
Definition elastic_range (s : str) : option (leaf * str) :=
  let s0 := skip_ms s in
  let cmp (k : nat) (r : str) :=
    match range_term_val (skip_ms r) with
    | Some (b, r') =>
        Some (match k with
              | 0%nat => LRange None (BIncl b) BUnb       (* >= *)
              | 1%nat => LRange None BUnb (BIncl b)       (* <= *)
              | 2%nat => LRange None BUnb (BExcl b)       (* <  *)
              | _ => LRange None (BExcl b) BUnb           (* >  *)
              end, r')
    | None => None
    end in
  match strip_prefix [GT; EQ] s0 with
  | Some r => cmp 0%nat r
  | None =>
      match strip_prefix [LT; EQ] s0 with
      | Some r => cmp 1%nat r
      | None =>
          match strip_prefix [LT] s0 with
          | Some r => cmp 2%nat r
          | None => match strip_prefix [GT] s0 with Some r => cmp 3%nat r | None => None end
          end
      end
  end.
Definition lower_to_upper (s : str) : option (leaf * str) :=
  match s with
  | c :: t =>
      if (c =? LCB) || (c =? LBR) then
        match range_term_val (skip_ms t) with
        | Some (lo, r1) =>
            match ms1 r1 with
            | Some r2 =>
                match strip_prefix kw_TO r2 with
                | Some r3 =>
                    match ms1 r3 with
                    | Some r4 =>
                        match range_term_val r4 with
                        | Some (hi, r5) =>
                            match skip_ms r5 with
                            | e :: r6 =>
                                if (e =? RCB) || (e =? RBR) then
                                  Some (LRange None
                                          (if is_star lo then BUnb else if c =? LCB then BExcl lo else BIncl lo)
                                          (if is_star hi then BUnb else if e =? RCB then BExcl hi else BIncl hi), r6)
                                else None
                            | [] => None
                            end
                        | None => None
                        end
                    | None => None
                    end
                | None => None
                end
            | None => None
            end
        | None => None
        end
      else None
  | [] => None
  end.
Definition range (s : str) : option (leaf * str) :=
  match elastic_range s with Some x => Some x | None => lower_to_upper s end.

(* set: ms0 `IN` ms1 `[` ms0 separated_list0(ms1, simple_term) `]` *)
Fixpoint set_more (n : nat) (s : str) : list str * str :=
  match n with
  | O => ([], s)
  | S n' =>
      match ms1 s with
      | Some r =>
          match simple_term r with
          | Some (_, e, r') => let (es, r'') := set_more n' r' in (e :: es, r'')
          | None => ([], s)
          end
      | None => ([], s)
      end
  end.
Definition set_p (s : str) : option (leaf * str) :=
  match strip_prefix kw_IN (skip_ms s) with
  | Some r =>
      match ms1 r with
      | Some (c :: r1) =>
          if c =? LBR then
            let r2 := skip_ms r1 in
            let (es, r3) := match simple_term r2 with
                            | Some (_, e, r') => let (es, r'') := set_more (length r') r' in (e :: es, r'')
                            | None => ([], r2)
                            end in
            match r3 with
            | e :: r4 => if e =? RBR then Some (LSet None es, r4) else None
            | [] => None
            end
          else None
      | _ => None
      end
  | None => None
  end.

(* exists: ms0 `*` peek(whitespace | ESCAPE_IN_WORD without backslash | eof) *)
Definition exists_follow (s : str) : bool :=
  match s with [] => true | c :: _ => is_ws c || (esc c && negb (c =? BSL)) end.
Definition exists_p (s : str) : option (leaf * str) :=
  match skip_ms s with
  | c :: t => if (c =? STAR) && exists_follow t then Some (LExists [], t) else None
  | [] => None
  end.

(* regex: `/` many1(`\/` | none_of(`/`)) `/` peek(ms1 | `)` | `^` | eof) *)
Fixpoint regex_body (s : str) : option (str * str) :=
  match s with
  | [] => None
  | c :: t =>
      if c =? SLASH then Some ([], t)
      else if c =? BSL then
        match t with
        | d :: t' =>
            if d =? SLASH then match regex_body t' with Some (b, r) => Some (SLASH :: b, r) | None => None end
            else match regex_body t with Some (b, r) => Some (BSL :: b, r) | None => None end
        | [] => None
        end
      else match regex_body t with Some (b, r) => Some (c :: b, r) | None => None end
  end.
Definition regex_follow (s : str) : bool :=
  match s with [] => true | c :: _ => is_ms c || (c =? RP) || (c =? CARET) end.
Definition regex_p (s : str) : option (leaf * str) :=
  match s with
  | c :: t =>
      if c =? SLASH then
        match regex_body t with
        | Some (b, r) => if negb (is_nil b) && regex_follow r then Some (LRegex None b, r) else None
        | None => None
        end
      else None
  | [] => None
  end.

Definition leaf_alts (s : str) : option (leaf * str) :=
  match range s with Some x => Some x | None =>
  match set_p s with Some x => Some x | None =>
  match exists_p s with Some x => Some x | None =>
  match regex_p s with Some x => Some x | None => term_or_phrase s end end end end.

(* UserInputLeaf::set_field; None = the `expect` panics *)
Definition set_field (l : leaf) (f : option str) : option leaf :=
  match l with
  | LLit _ p d s x => Some (LLit f p d s x)
  | LAll => Some LAll
  | LRange _ lo hi => Some (LRange f lo hi)
  | LSet _ e => Some (LSet f e)
  | LExists _ => match f with Some f => Some (LExists f) | None => None end
  | LRegex _ p => Some (LRegex f p)
  end.
Definition leaf_set_default_field (f : str) (l : leaf) : leaf :=
  match l with
  | LLit None p d s x => LLit (Some f) p d s x
  | LAll => LExists f
  | LRange None lo hi => LRange (Some f) lo hi
  | LSet None e => LSet (Some f) e
  | LRegex None p => LRegex (Some f) p
  | _ => l
  end.
Fixpoint set_default_field (f : str) (a : uast) : uast :=
  match a with
  | Leaf l => Leaf (leaf_set_default_field f l)
  | Boost a b => Boost (set_default_field f a) b
  | Clause cs => Clause ((fix go (cs : list (option occur * uast)) :=
                            match cs with [] => [] | c :: r => (fst c, set_default_field f (snd c)) :: go r end) cs)
  end.

(* boost: `^` digit1 (`.` digit1)? ; value kept as (mantissa, #fraction digits), trailing zeros dropped *)
Fixpoint strip_zeros_rev (r : str) : str :=
  match r with c :: t => if c =? 48 then strip_zeros_rev t else r | [] => [] end.
Definition boost_norm (ip : str) (fp : str) : N * N :=
  let f := rev (strip_zeros_rev (rev fp)) in (digits_val (ip ++ f), N.of_nat (length f)).
Definition boost_p (s : str) : option (N * N * str) :=
  match s with
  | c :: t =>
      if c =? CARET then
        let (d, r) := take_digits t in
        if is_nil d then None
        else match r with
             | c2 :: r' =>
                 if c2 =? DOT then
                   let (d2, r2) := take_digits r' in
                   if is_nil d2 then Some (boost_norm d [], r) else Some (boost_norm d d2, r2)
                 else Some (boost_norm d [], r)
             | [] => Some (boost_norm d [], r)
             end
      else None
  | [] => None
  end.
Definition is_one (b : N * N) : bool := (fst b =? 1) && (snd b =? 0).
Definition apply_boost (a : uast) (b : N * N) : uast := if is_one b then a else Boost a b.

(* ------------------------------------------------------------------ the recursive part *)
Section Rec.
  (* shape of `literal` (pinned: QG_LITERAL_REJECTS_BARE_EXISTS): true = an exists-leaf without a
     field name makes the first alternative fail (map_res ... Err), false = the old shape, where
     UserInputLeaf::set_field(None) is reached and its `expect` panics *)
  Variable rej : bool.
  Variable astp : str -> res uast.     (* `ast` one level down *)
  Variable leafp : str -> res uast.    (* `leaf` one level down *)

  Definition term_group (s : str) : res uast :=
    match field_name s with
    | Some (f, r) =>
        match skip_ms r with
        | c :: r1 =>
            if c =? LP then
              match astp (skip_ms r1) with
              | ROk a (c2 :: r2) => if c2 =? RP then ROk (set_default_field f a) r2 else RFail
              | ROk _ [] => RFail
              | RFail => RFail
              | RAbort k => RAbort k
              end
            else RFail
        | [] => RFail
        end
    | None => RFail
    end.

  Definition literal (s : str) : res uast :=
    let '(fo, s1) := match field_name s with Some (f, r) => (Some f, r) | None => (None, s) end in
    match leaf_alts s1 with
    | Some (l, r) =>
        match set_field l fo with
        | Some l' => ROk (Leaf l') r
        | None => if rej then term_group s else RAbort Panic
        end
    | None => term_group s
    end.

  Definition star_follow (s : str) : bool :=
    match s with [] => true | c :: _ => is_ms c || (c =? RP) || (esc c && negb (c =? BSL)) end.

  Definition leaf_body (s : str) : res uast :=
    let others := fun _ : unit =>
      match s with
      | c :: t =>
          if (c =? STAR) && star_follow t then ROk (Leaf LAll) t
          else
            match (match strip_prefix kw_NOT s with Some r => ms1 r | None => None end) with
            | Some r =>
                match leafp r with
                | ROk a r' => ROk (unary MustNot a) r'
                | RFail => literal s
                | RAbort k => RAbort k
                end
            | None => literal s
            end
      | [] => RFail
      end in
    match s with
    | c :: t =>
        if c =? LP then
          match astp t with
          | ROk a (c2 :: r2) => if c2 =? RP then ROk a r2 else others tt
          | ROk _ [] => others tt
          | RFail => others tt
          | RAbort k => RAbort k
          end
        else others tt
    | [] => RFail
    end.
End Rec.

Section Ast.
  Variable leafp : str -> res uast.    (* `leaf` *)

  Definition boosted_leaf (s : str) : res uast :=
    match leafp s with
    | ROk a r => match boost_p r with Some (b, r') => ROk (apply_boost a b) r' | None => ROk a r end
    | RFail => RFail
    | RAbort k => RAbort k
    end.
  Definition occur_symbol (s : str) : option occur * str :=
    match s with
    | c :: t => if c =? MINUS then (Some MustNot, t) else if c =? PLUS then (Some Must, t) else (None, s)
    | [] => (None, s)
    end.
  Definition occur_leaf (s : str) : res (option occur * uast) :=
    let (o, s1) := occur_symbol s in
    match boosted_leaf s1 with
    | ROk a r => ROk (o, a) r
    | RFail => RFail
    | RAbort k => RAbort k
    end.
  Definition binary_operand (s : str) : option binop * str :=
    match strip_prefix (kw_AND ++ [32]) s with
    | Some r => (Some And, r)
    | None => match strip_prefix (kw_OR ++ [32]) s with Some r => (Some Or, r) | None => (None, s) end
    end.
  Definition operand_leaf (s : str) : res (@triple leaf) :=
    let (op, s1) := binary_operand s in
    match occur_leaf (skip_ms s1) with
    | ROk oa r => ROk (op, fst oa, snd oa) (skip_ms r)
    | RFail => RFail
    | RAbort k => RAbort k
    end.
  (* many0(operand_leaf), bounded by the input length *)
  Fixpoint many_operands (n : nat) (s : str) : res (list (@triple leaf)) :=
    match n with
    | O => RAbort OutOfFuel
    | S n' =>
        match operand_leaf s with
        | ROk t r =>
            match many_operands n' r with
            | ROk ts r' => ROk (t :: ts) r'
            | RFail => RFail
            | RAbort k => RAbort k
            end
        | RFail => ROk [] s
        | RAbort k => RAbort k
        end
    end.
  Definition ast_body (s : str) : res uast :=
    match occur_leaf (skip_ms s) with
    | ROk oa rest =>
        let single := ROk (if is_mustnot (fst oa) then unary MustNot (snd oa) else snd oa) (skip_ms rest) in
        match ms1 rest with
        | Some r1 =>
            match many_operands (S (length r1)) r1 with
            | ROk [] _ => single
            | ROk more r2 =>
                match aggregate_binary oa more with
                | Some u => ROk u (skip_ms r2)
                | None => RFail
                end
            | RFail => single
            | RAbort k => RAbort k
            end
        | None => single
        end
    | RFail => RFail
    | RAbort k => RAbort k
    end.
End Ast.

(* gp_s rej fuel true = ast, gp_s rej fuel false = leaf *)
Fixpoint gp_s (rej : bool) (fuel : nat) (is_ast : bool) (s : str) : res uast :=
  match fuel with
  | O => RAbort OutOfFuel
  | S f => if is_ast then ast_body (gp_s rej f false) s else leaf_body rej (gp_s rej f true) (gp_s rej f false) s
  end.
(* the shape of the code under verification, regenerated from query_grammar.rs *)
Definition rejects_bare_exists : bool := QG_LITERAL_REJECTS_BARE_EXISTS =? 1.
Definition gp : nat -> bool -> str -> res uast := gp_s rejects_bare_exists.

(* rewrite_ast *)
Fixpoint dedupe (seen : list (option occur * uast)) (l : list (option occur * uast)) : list (option occur * uast) :=
  match l with
  | [] => []
  | c :: r => if existsb (clause_eqb c) seen then dedupe seen r else c :: dedupe (c :: seen) r
  end.
(* rewrite_ast_clause.  Shape pinned by QG_REWRITE_HOISTS_ONLY_NEGATION:
   only_neg = false: `(None, Clause [c'])` becomes c' whatever its occur (F164: after deduplication
     `(b OR b)` / `(b AND b)` is a single Should / Must child, and hoisting it replaces the default
     occur of the group's position);
   only_neg = true: only a negation keeps its occur (`a (-b)` = `a -b`, issue #1433). *)
Definition rewrite_clause_s (only_neg : bool) (c : option occur * uast) : option occur * uast :=
  match c with
  | (None, Clause [c']) =>
      if only_neg then (if is_mustnot (fst c') then c' else (None, snd c')) else c'
  | _ => c
  end.
Fixpoint rewrite_ast_s (only_neg : bool) (a : uast) : uast :=
  match a with
  | Clause cs =>
      Clause (map (rewrite_clause_s only_neg)
                (dedupe [] ((fix go (cs : list (option occur * uast)) :=
                               match cs with [] => [] | c :: r => (fst c, rewrite_ast_s only_neg (snd c)) :: go r end) cs)))
  | _ => a
  end.
Definition hoists_only_negation : bool := QG_REWRITE_HOISTS_ONLY_NEGATION =? 1.
Definition rewrite_ast : uast -> uast := rewrite_ast_s hoists_only_negation.

(* F164: the query contains a group (a clause child without occur) that, after deduplication, has a
   single child whose occur is Should or Must *)
Fixpoint F164_ast (a : uast) : bool :=
  match a with
  | Clause cs =>
      (fix go (cs : list (option occur * uast)) : bool :=
         match cs with
         | [] => false
         | c :: r =>
             (match fst c, rewrite_ast_s true (snd c) with
              | None, Clause [(Some Should, _)] | None, Clause [(Some Must, _)] => true
              | _, _ => false
              end) || F164_ast (snd c) || go r
         end) cs
  | Boost a _ => F164_ast a
  | Leaf _ => false
  end.

Inductive outcome := Ok (u : uast) | Err | Panicked | NoFuel.

Definition ref_fuel (s : str) : nat := (2 * length s + 2)%nat.

(* parse_to_ast: ms0, opt(ast), eof *)
Definition parse_raw_s (rej : bool) (s : str) : outcome :=
  let s0 := skip_ms s in
  match gp_s rej (ref_fuel s) true s0 with
  | ROk a [] => Ok a
  | ROk _ (_ :: _) => Err
  | RFail => if is_nil s0 then Ok (Clause []) else Err
  | RAbort Panic => Panicked
  | RAbort OutOfFuel => NoFuel
  end.
Definition parse_ref_s (rej : bool) (s : str) : outcome :=
  match parse_raw_s rej s with Ok a => Ok (rewrite_ast a) | o => o end.
Definition parse_raw : str -> outcome := parse_raw_s rejects_bare_exists.
Definition parse_ref : str -> outcome := parse_ref_s rejects_bare_exists.

Definition outcome_eqb (a b : outcome) : bool :=
  match a, b with
  | Ok x, Ok y => uast_eqb x y
  | Err, Err | Panicked, Panicked | NoFuel, NoFuel => true
  | _, _ => false
  end.

(* ------------------------------------------------------------------ known-finding classes *)
(* F12 (fixed in the code; class kept for the witness of the old shape):
   UserInputLeaf::set_field(None) is reached on an Exists leaf (`expect` panics).  `exists`
   accepts ms0 `*` followed by whitespace (char::is_whitespace), an ESCAPE_IN_WORD character other
   than backslash, or the end; `leaf` intercepts a `*` only when it is followed by nom-multispace,
   `)`, the end or such an ESCAPE_IN_WORD character.  Class: (i) an occurrence marker, whitespace,
   then such a `*`; or (ii) a `*` directly followed by a whitespace character that nom's multispace
   does not know (VT, FF, NEL, NBSP, ...). *)
Fixpoint f12_scan (s : str) : bool :=
  match s with
  | [] => false
  | c :: t =>
      (((c =? PLUS) || (c =? MINUS)) &&
       match t with
       | d :: _ => is_ms d && match skip_ms t with e :: u => (e =? STAR) && exists_follow u | [] => false end
       | [] => false
       end)
      || ((c =? STAR) && match t with d :: _ => is_ws d && negb (is_ms d) | [] => false end)
      || f12_scan t
  end.
Definition F12_class (s : str) : bool := f12_scan s.

(* F13: the lenient grammar is a separate parser, not a relaxation of the strict one.  Observed
   classes of inputs on which it differs from (or reports an error next to) a successful strict parse:
   A. the characters on which it commits to the regex / range branch:  /  <  >  [  {
   B. NOT followed by tab / CR / LF (the lenient grammar knows only the tag `NOT `);
   C. a keyword followed by whitespace and `:` (strict: a field name; lenient: an operator);
   D. leaves glued without whitespace (strict accepts them, lenient reports `missing space`):
      a quote that opens right after, or closes right before, a word-like character; a `^` / `~`
      whose number is followed by something else than whitespace, `)` or the end (or a slop that
      does not fit u32); a `)` directly followed by a leaf; a `(` directly after a word; a negative
      number directly followed by a word; a `~` without number; `++`, `**`; a prefix `*` after a quote followed by a leaf; any backslash escape. *)
Fixpoint has_sub (p s : str) (k : str -> bool) : bool :=
  match s with
  | [] => false
  | _ :: t => (match strip_prefix p s with Some r => k r | None => false end) || has_sub p t k
  end.
Definition kw_then_colon (r : str) : bool :=
  match r with c :: _ => is_ms c && match skip_ms r with d :: _ => d =? COLON | [] => false end | [] => false end.
Definition wordish_left (c : N) : bool := negb (is_ms c || in_tab c [LP; COLON; PLUS; MINUS]).
Definition wordish_right (c : N) : bool := negb (is_ms c || in_tab c [RP; TILDE; STAR; CARET]).
(* st: the quote we are inside of (0 = outside) *)
Fixpoint glue_quote (st : N) (prev : option N) (s : str) : bool :=
  match s with
  | [] => false
  | c :: t =>
      if st =? 0 then
        if (c =? DQ) || (c =? SQ) then
          match prev with Some l => wordish_left l | None => false end || glue_quote c (Some c) t
        else glue_quote 0 (Some c) t
      else if c =? BSL then match t with _ :: t' => glue_quote st (Some c) t' | [] => false end
      else if c =? st then
        match t with r :: _ => wordish_right r | [] => false end || glue_quote 0 (Some c) t
      else glue_quote st (Some c) t
  end.
Definition after_number (s : str) : str :=
  let (d, r) := take_digits s in
  match r with
  | c :: r' => if (c =? DOT) && negb (is_nil d) then let (d2, r2) := take_digits r' in if is_nil d2 then r else r2 else r
  | [] => r
  end.
Fixpoint glue_num (s : str) : bool :=
  match s with
  | [] => false
  | c :: t =>
      (((c =? CARET) || (c =? TILDE)) &&
       (match after_number t with [] => false | d :: _ => negb (is_ms d || (d =? RP)) end
        || ((c =? TILDE) && ((4294967295 <? digits_val (fst (take_digits t))) || is_nil (fst (take_digits t))))))
      || glue_num t
  end.
Fixpoint glue_paren (s : str) : bool :=
  match s with
  | [] => false
  | c :: t => ((c =? RP) && match t with d :: _ => negb (is_ms d || (d =? RP) || (d =? CARET)) | [] => false end) || glue_paren t
  end.
Fixpoint glue_open (prev : option N) (s : str) : bool :=
  match s with
  | [] => false
  | c :: t => ((c =? LP) && match prev with Some l => wordish_left l | None => false end) || glue_open (Some c) t
  end.
(* a prefix star right after a closing quote, directly followed by a leaf *)
Fixpoint glue_star (prev : option N) (s : str) : bool :=
  match s with
  | [] => false
  | c :: t =>
      ((c =? STAR) && match prev with Some l => (l =? DQ) || (l =? SQ) | None => false end &&
       match t with d :: _ => negb (is_ms d || (d =? RP) || (d =? CARET)) | [] => false end)
      || glue_star (Some c) t
  end.
Fixpoint glue_neg (prev : option N) (s : str) : bool :=
  match s with
  | [] => false
  | c :: t =>
      ((c =? MINUS) && match prev with None => true | Some l => negb (wordish_left l) end &&
       (let (d, _) := take_digits t in negb (is_nil d)) &&
       match after_number t with [] => false | d :: _ => negb (is_ms d || (d =? RP) || (d =? CARET)) end)
      || glue_neg (Some c) t
  end.
Definition F13_class (s : str) : bool :=
  existsb (fun c => in_tab c [SLASH; LT; GT; LBR; LCB]) s
  || has_sub kw_NOT s (fun r => match r with c :: _ => (c =? 9) || (c =? 13) || (c =? 10) | [] => false end)
  || has_sub kw_NOT s kw_then_colon || has_sub kw_AND s kw_then_colon
  || has_sub kw_OR s kw_then_colon || has_sub kw_IN s kw_then_colon
  || glue_quote 0 None s || glue_num s || glue_paren s || glue_open None s || glue_neg None s || glue_star None s
  || in_tab BSL s || has_sub [PLUS; PLUS] s (fun _ => true) || has_sub [STAR; STAR] s (fun _ => true).

(* F160: field_name accepts tab / CR / LF inside a field name (only the space character is in
   SPECIAL_CHARS): a word, then whitespace without any space character, then `field:` is read as one
   field name.  Class: a tab / CR / LF that follows a field-name character and from which the
   field-name scan reaches a `:`. *)
Fixpoint f160_scan (prev_field_char : bool) (s : str) : bool :=
  match s with
  | [] => false
  | c :: t =>
      (prev_field_char && ((c =? 9) || (c =? 10) || (c =? 13)) &&
       (let (f, r) := fn_rest s in match fn_colon f r with Some _ => true | None => false end))
      || f160_scan (negb (special c) && negb (is_ms c)) t
  end.
Definition F160_class (s : str) : bool := f160_scan false s.

(* F161: the parser recurses once per nesting level (parentheses, field groups, NOT) without a
   depth limit: a deeply nested input overflows the stack, which aborts the process.
   Class: nesting measure (deepest open-parenthesis balance + number of NOT keywords) >= 1000. *)
Definition rep (n : N) (u : str) : str := N.iter n (fun acc => u ++ acc) [].
Fixpoint nest_max (bal best : N) (s : str) : N :=
  match s with
  | [] => best
  | c :: t =>
      if c =? LP then nest_max (bal + 1) (N.max best (bal + 1)) t
      else if c =? RP then nest_max (bal - 1) best t
      else nest_max bal best t
  end.
Fixpoint count_not (s : str) : N :=
  match s with
  | [] => 0
  | _ :: t => (match strip_prefix kw_NOT s with Some _ => 1 | None => 0 end) + count_not t
  end.
Definition F161_class (s : str) : bool := 1000 <=? nest_max 0 0 s + count_not s.

(* F162: set_infallible loops forever (appending an error on every turn) when an element position
   holds a character that char::is_whitespace accepts but nom multispace does not skip.
   Class: `IN`, optional whitespace, `[`, and later such a character. *)
Fixpoint f162_scan (s : str) : bool :=
  match s with
  | [] => false
  | _ :: t =>
      (match strip_prefix kw_IN s with
       | Some r => match skip_ms r with
                   | c2 :: r2 => (c2 =? LBR) && existsb (fun c => is_ws c && negb (is_ms c)) r2
                   | [] => false
                   end
       | None => false
       end) || f162_scan t
  end.
Definition F162_class (s : str) : bool := f162_scan s.

(* ------------------------------------------------------------------ concrete queries *)
(* A concrete query is an abstract query of the documented grammar together with its layout
   (whitespace runs, redundant parentheses, quote kind, spelling of numbers). *)
Inductive quote := QD | QS.
Inductive slopfx := SNone | SSlop (digits : str) | SPrefix.
Inductive cmpop := CGe | CLe | CLt | CGt.
Inductive selem := SEWord (w : str) | SEQuoted (q : quote) (body : str).
Inductive cleaf :=
| CWord (w : str)                                   (* word *)
| CNeg (ip : str) (fp : option str)                 (* -12  -1.5 *)
| CPhrase (q : quote) (body : str) (sp : slopfx)    (* `a b`~2   `a b`*  *)
| CRange (lo_incl : bool) (w1 : str) (lo : option str) (w2 w3 : str) (hi : option str) (w4 : str) (hi_incl : bool)
                                                    (* [ w1 lo w2 TO w3 hi w4 ] ; None = * *)
| CCmp (op : cmpop) (w : str) (v : str)             (* >= w v *)
| CSet (w1 : str) (elems : list (str * selem))      (* IN w1 [ (ws elem)* ] *)
| CExists.                                          (* field:* *)

Inductive cq :=
| CLit (field : option (str * str)) (l : cleaf)     (* field name and the whitespace after `:` *)
| CAllQ                                             (* * *)
| CParen (q : cq)                                   (* ( q ) *)
| CGroup (f : str) (w1 w2 : str) (q : cq)           (* f: w1 ( w2 q ) *)
| CBoost (q : cq) (ip : str) (fp : option str)      (* q^2.5 *)
| CNot (w : str) (q : cq)                           (* NOT w q *)
| CSeq (lead : str) (o1 : option occur) (x1 : cq)
       (rest : list (str * option binop * str * option occur * cq)) (trail : str).
       (* lead [+-]x1 (sep [AND |OR ] ws [+-]x)* trail *)

Definition quote_char (q : quote) : N := match q with QD => DQ | QS => SQ end.
Definition quote_delim (q : quote) : delim := match q with QD => DDouble | QS => DSingle end.
Definition occ_str (o : option occur) : str :=
  match o with Some Must => [PLUS] | Some MustNot => [MINUS] | _ => [] end.
Definition op_str (o : option binop) : str :=
  match o with Some And => kw_AND ++ [32] | Some Or => kw_OR ++ [32] | None => [] end.
Definition cmp_str (c : cmpop) : str :=
  match c with CGe => [GT; EQ] | CLe => [LT; EQ] | CLt => [LT] | CGt => [GT] end.
Definition bound_str (b : option str) : str := match b with Some s => s | None => [STAR] end.
Definition neg_str (ip : str) (fp : option str) : str :=
  MINUS :: ip ++ match fp with Some f => DOT :: f | None => [] end.
Definition selem_str (e : selem) : str :=
  match e with SEWord w => w | SEQuoted q b => quote_char q :: b ++ [quote_char q] end.
Definition selem_text (e : selem) : str := match e with SEWord w => w | SEQuoted _ b => b end.

Definition print_leaf (l : cleaf) : str :=
  match l with
  | CWord w => w
  | CNeg ip fp => neg_str ip fp
  | CPhrase q b sp =>
      quote_char q :: b ++ [quote_char q] ++
      match sp with SNone => [] | SSlop d => TILDE :: d | SPrefix => [STAR] end
  | CRange li w1 lo w2 w3 hi w4 hi_incl =>
      (if li then LBR else LCB) :: w1 ++ bound_str lo ++ w2 ++ kw_TO ++ w3 ++ bound_str hi ++ w4 ++
      [if hi_incl then RBR else RCB]
  | CCmp op w v => cmp_str op ++ w ++ v
  | CSet w1 elems => kw_IN ++ w1 ++ LBR :: flat_map (fun e => fst e ++ selem_str (snd e)) elems ++ [RBR]
  | CExists => [STAR]
  end.

Fixpoint print (c : cq) : str :=
  match c with
  | CLit f l => match f with Some (n, w) => n ++ COLON :: w | None => [] end ++ print_leaf l
  | CAllQ => [STAR]
  | CParen q => LP :: print q ++ [RP]
  | CGroup f w1 w2 q => f ++ COLON :: w1 ++ LP :: w2 ++ print q ++ [RP]
  | CBoost q ip fp => print q ++ CARET :: ip ++ match fp with Some f => DOT :: f | None => [] end
  | CNot w q => kw_NOT ++ w ++ print q
  | CSeq lead o1 x1 rest trail =>
      lead ++ occ_str o1 ++ print x1 ++
      (fix go (rest : list (str * option binop * str * option occur * cq)) : str :=
         match rest with
         | [] => []
         | (sep, op, w, o, x) :: r => sep ++ op_str op ++ w ++ occ_str o ++ print x ++ go r
         end) rest ++ trail
  end.

(* the documented meaning, as a UserInputAst (before rewrite_ast) *)
Definition mk_bound (incl : bool) (b : option str) : bound :=
  match b with None => BUnb | Some s => if incl then BIncl s else BExcl s end.
Definition norm_leaf (f : option str) (l : cleaf) : leaf :=
  match l with
  | CWord w => LLit f w DNone 0 false
  | CNeg ip fp => LLit f (neg_str ip fp) DNone 0 false
  | CPhrase q b sp =>
      LLit f b (quote_delim q) (match sp with SSlop d => digits_val d | _ => 0 end)
           (match sp with SPrefix => true | _ => false end)
  | CRange li _ lo _ _ hi _ hi_incl => LRange f (mk_bound li lo) (mk_bound hi_incl hi)
  | CCmp op _ v =>
      match op with
      | CGe => LRange f (BIncl v) BUnb
      | CLe => LRange f BUnb (BIncl v)
      | CLt => LRange f BUnb (BExcl v)
      | CGt => LRange f (BExcl v) BUnb
      end
  | CSet _ elems => LSet f (map (fun e => selem_text (snd e)) elems)
  | CExists => LExists (match f with Some n => n | None => [] end)
  end.

Fixpoint norm (c : cq) : uast :=
  match c with
  | CLit f l => Leaf (norm_leaf (option_map fst f) l)
  | CAllQ => Leaf LAll
  | CParen q => norm q
  | CGroup f _ _ q => set_default_field f (norm q)
  | CBoost q ip fp => apply_boost (norm q) (boost_norm ip (match fp with Some f => f | None => [] end))
  | CNot _ q => unary MustNot (norm q)
  | CSeq _ o1 x1 rest _ =>
      finalize (unrev (scan [] ((None, o1, norm x1) ::
        (fix go (rest : list (str * option binop * str * option occur * cq)) : list (@triple leaf) :=
           match rest with
           | [] => []
           | (_, op, _, o, x) :: r => (op, o, norm x) :: go r
           end) rest)))
  end.
Definition norm_top (c : cq) : uast := rewrite_ast (norm c).

(* ------------------------------------------------------------------ well-formedness *)
Definition ws0 (w : str) : bool := forallb is_ms w.
Definition ws1 (w : str) : bool := ws0 w && negb (is_nil w).
(* a separator between two members: whitespace containing at least one space character *)
Definition wsep (w : str) : bool := ws0 w && in_tab 32 w.
Definition all_digits (d : str) : bool := forallb is_digit d && negb (is_nil d).

Definition plain_char (c : N) : bool := word_char c && negb (c =? BSL).
Definition word_first (c : N) : bool :=
  plain_char c && negb (in_tab c [MINUS; PLUS; STAR; LT; GT; SLASH]).
Definition wf_word (w : str) : bool :=
  match w with
  | c :: _ => word_first c && forallb plain_char w && negb (is_keyword w)
  | [] => false
  end.
Definition wf_field (n : str) : bool :=
  match n with
  | c :: _ => negb (c =? MINUS) && forallb (fun c => negb (special c) && negb (is_ms c)) n
  | [] => false
  end.
Definition wf_body (q : quote) (b : str) : bool :=
  forallb (fun c => negb (c =? BSL) && negb (c =? quote_char q)) b.
Definition wf_slop (sp : slopfx) : bool :=
  match sp with SSlop d => all_digits d && (digits_val d <=? 4294967295) | _ => true end.
Definition wf_neg (ip : str) (fp : option str) : bool :=
  all_digits ip && match fp with Some f => all_digits f | None => true end.
(* a range bound: a negative number, or a relaxed word that does not start with `-` and is not `*` *)
Definition wf_bound_str (b : str) : bool :=
  match negative_number b with
  | Some (n, []) => true
  | _ =>
      match b with
      | c :: t => relaxed_first_char c && negb (c =? MINUS) && forallb relaxed_rest_char t && negb (is_star b)
      | [] => false
      end
  end.
Definition wf_bound (b : option str) : bool := match b with Some s => wf_bound_str s | None => true end.
Definition wf_selem (e : selem) : bool :=
  match e with SEWord w => wf_word w | SEQuoted q b => wf_body q b end.
Fixpoint wf_selems (first : bool) (l : list (str * selem)) : bool :=
  match l with
  | [] => true
  | (w, e) :: r => (if first then ws0 w else ws1 w) && wf_selem e && wf_selems false r
  end.
Definition wf_leaf (has_field : bool) (l : cleaf) : bool :=
  match l with
  | CWord w => wf_word w
  | CNeg ip fp => has_field && wf_neg ip fp
  | CPhrase q b sp => wf_body q b && wf_slop sp
  | CRange _ w1 lo w2 w3 hi w4 _ => has_field && ws0 w1 && wf_bound lo && ws1 w2 && ws1 w3 && wf_bound hi && ws0 w4
  | CCmp _ w v => has_field && ws0 w && wf_bound_str v
  | CSet w1 elems => has_field && ws1 w1 && wf_selems true elems
  | CExists => has_field
  end.
Fixpoint is_cmp (c : cq) : bool :=
  match c with CLit _ (CCmp _ _ _) => true | CNot _ q => is_cmp q | _ => false end.
Definition is_seq (c : cq) : bool := match c with CSeq _ _ _ _ _ => true | _ => false end.
Definition is_leafish (c : cq) : bool :=
  match c with CSeq _ _ _ _ _ | CBoost _ _ _ => false | _ => true end.

(* wf c : c is an atom (anything but a CSeq) or a query (CSeq); `CParen`/`CGroup` contain queries,
   boosts and NOT contain leaves, sequences contain atoms *)
Fixpoint wf (c : cq) : bool :=
  match c with
  | CLit f l =>
      match f with Some (n, w) => wf_field n && ws0 w | None => true end &&
      wf_leaf (match f with Some _ => true | None => false end) l
  | CAllQ => true
  | CParen q => is_seq q && wf q
  | CGroup f w1 w2 q => wf_field f && ws0 w1 && ws0 w2 && is_seq q && wf q
  | CBoost q ip fp => is_leafish q && negb (is_cmp q) && wf q && wf_neg ip fp
  | CNot w q => ws1 w && is_leafish q && wf q
  | CSeq lead o1 x1 rest trail =>
      ws0 lead && negb (is_seq x1) && wf x1 &&
      (fix go (rest : list (str * option binop * str * option occur * cq)) : bool :=
         match rest with
         | [] => true
         | (sep, op, w, o, x) :: r =>
             wsep sep && ws0 w && (match op with None => is_nil w | Some _ => true end) &&
             negb (is_seq x) && wf x && go r
         end) rest && ws0 trail
  end.

(* the fragment for which print/parse is proved below (see GrammarProofs.v) *)
Definition frag_leaf (l : cleaf) : bool :=
  match l with CWord _ | CPhrase _ _ _ => true | _ => false end.
Fixpoint frag (c : cq) : bool :=
  match c with
  | CLit _ l => frag_leaf l
  | CAllQ => false
  | CParen q => frag q
  | CGroup _ _ _ _ => false
  | CBoost _ _ _ => false
  | CNot _ _ => false
  | CSeq _ _ x1 rest _ =>
      frag x1 && (fix go (rest : list (str * option binop * str * option occur * cq)) : bool :=
                    match rest with [] => true | (_, _, _, _, x) :: r => frag x && go r end) rest
  end.
