(* C16 -- from the UserInputAst to matching documents.
   Transliterates the schema-independent part of src/query/query_parser/query_parser.rs:
   compute_logical_ast_with_occur_lenient (default occur by mode: QueryParser::default_occur),
   all_negative / the `only must_not` rejection, trim_ast; the leaves are interpreted against a
   small document model (two tokenised text fields that are the default fields, one raw string
   field, one u64 field) that the harness schema instantiates.  `cq_sem` is the documented meaning
   of a concrete query, defined without the operator fold.  Style: stdlib. *)
From TV Require Import Base.Prelude Text.BinOpFold Text.Grammar.
Local Open Scope N_scope.

(* ------------------------------------------------------------------ logical AST *)
Inductive last (L : Type) : Type :=
| LClause (cs : list (occur * last L))
| LBoost (a : last L) (b : N * N)
| LLeaf (l : L).
Arguments LClause {L} cs.
Arguments LBoost {L} a b.
Arguments LLeaf {L} l.

Section Logical.
  Context {L : Type}.
  Variable dflt : occur.       (* Must iff conjunction_by_default *)

  (* compute_logical_ast_with_occur_lenient on a tree whose leaves resolve *)
  Fixpoint to_logical (a : ast L) : last L :=
    match a with
    | Leaf l => LLeaf l
    | Boost a b => LBoost (to_logical a) b
    | Clause cs => LClause ((fix go (cs : list (option occur * ast L)) :=
                               match cs with [] => [] | c :: r => (resolve dflt (fst c), to_logical (snd c)) :: go r end) cs)
    end.

  (* all_negative *)
  Fixpoint all_negative (a : last L) : bool :=
    match a with
    | LLeaf _ => false
    | LBoost a _ => all_negative a
    | LClause cs => (fix go (cs : list (occur * last L)) :=
                       match cs with [] => true | c :: r => (occur_eqb (fst c) MustNot || all_negative (snd c)) && go r end) cs
    end.

  Variable lsem : L -> bool.
  Fixpoint lsem_ast (a : last L) : bool :=
    match a with
    | LLeaf l => lsem l
    | LBoost a _ => lsem_ast a
    | LClause cs => clause_sem ((fix go (cs : list (occur * last L)) :=
                                   match cs with [] => [] | c :: r => (fst c, lsem_ast (snd c)) :: go r end) cs)
    end.

  Lemma to_logical_sem (a : ast L) : lsem_ast (to_logical a) = sem lsem dflt a.
  Proof.
    induction a as [cs IH|a b IH|l] using ast_ind'; [|exact IH|reflexivity].
    cbn [to_logical lsem_ast sem]. f_equal.
    induction cs as [|c r IHr]; [reflexivity|].
    inversion IH as [|? ? Hc Hr]; subst. cbn [fst snd]. f_equal; [f_equal; exact Hc|now apply IHr].
  Qed.
End Logical.

(* the strict QueryParser::parse_query rejects a query iff the resolved tree is all-negative
   (and not the empty clause) *)
Definition rejected_all_negative {L} (dflt : occur) (a : ast L) : bool :=
  match a with
  | Clause [] => false
  | _ => all_negative (to_logical dflt a)
  end.

(* ------------------------------------------------------------------ occurrence markers *)
Section OccurSemantics.
  Context {L : Type}.
  Variable lsem : L -> bool.
  Notation semd := (sem lsem).

  (* documented meaning of `+a -b c ...`:  every +, no -, and
     - disjunction by default: when there is no +, at least one unmarked member;
     - conjunction by default: every unmarked member as well. *)
  Definition marked (o : occur) (l : list (option occur * ast L)) : list (ast L) :=
    map snd (filter (fun c => match fst c with Some o' => occur_eqb o o' | None => false end) l).
  Definition unmarked (l : list (option occur * ast L)) : list (ast L) :=
    map snd (filter (fun c => match fst c with None => true | _ => false end) l).

  Definition occur_spec (dflt : occur) (l : list (option occur * ast L)) : bool :=
    let v := semd dflt in
    forallb v (marked Must l) && forallb (fun x => negb (v x)) (marked MustNot l) &&
    match dflt with
    | Must => forallb v (unmarked l) && (negb (is_nil (marked Must l)) || negb (is_nil (unmarked l)) || existsb v (marked Should l))
    | _ => negb (is_nil (marked Must l)) || existsb v (unmarked l) || existsb v (marked Should l)
    end.

  Ltac bool_crush :=
    repeat match goal with
           | |- context [forallb ?f ?l] => destruct (forallb f l)
           | |- context [existsb ?f ?l] => destruct (existsb f l)
           | |- context [is_nil ?l] => destruct (is_nil l)
           end; reflexivity.

  Lemma clause_sem_occur_spec dflt (l : list (option occur * ast L)) :
    (dflt = Should \/ dflt = Must) ->
    clause_sem (map (fun c => (resolve dflt (fst c), semd dflt (snd c))) l) = occur_spec dflt l.
  Proof.
    intros Hd. unfold clause_sem, occur_spec, marked, unmarked.
    set (m := map (fun c => (resolve dflt (fst c), semd dflt (snd c))) l).
    assert (H1 : forallb clause_ok m =
                 forallb (semd dflt) (map snd (filter (fun c => match fst c with Some o' => occur_eqb Must o' | None => false end) l)) &&
                 forallb (fun x => negb (semd dflt x)) (map snd (filter (fun c => match fst c with Some o' => occur_eqb MustNot o' | None => false end) l)) &&
                 (if occur_eqb dflt Must then forallb (semd dflt) (map snd (filter (fun c => match fst c with None => true | _ => false end) l)) else true)).
    { subst m. induction l as [|[o x] r IH]; [destruct Hd as [-> | ->]; reflexivity|].
      cbn [map filter fst snd forallb]. rewrite IH. clear IH.
      destruct Hd as [-> | ->]; destruct o as [[]|]; cbn [resolve clause_ok fst snd occur_eqb map forallb];
        try (match goal with |- context [sem lsem ?dd x] => destruct (sem lsem dd x) end); cbn [negb andb]; bool_crush. }
    assert (H2 : existsb (fun c => is_must (fst c)) m =
                 negb (is_nil (map snd (filter (fun c => match fst c with Some o' => occur_eqb Must o' | None => false end) l))) ||
                 (occur_eqb dflt Must && negb (is_nil (map snd (filter (fun c => match fst c with None => true | _ => false end) l))))).
    { clear H1. subst m. induction l as [|[o x] r IH]; [destruct Hd as [-> | ->]; reflexivity|].
      cbn [map filter fst snd existsb]. rewrite IH. clear IH.
      destruct Hd as [-> | ->]; destruct o as [[]|]; cbn [resolve is_must fst snd occur_eqb map is_nil negb andb orb]; bool_crush. }
    assert (H3 : existsb (fun c => occur_eqb (fst c) Should && snd c) m =
                 existsb (semd dflt) (map snd (filter (fun c => match fst c with Some o' => occur_eqb Should o' | None => false end) l)) ||
                 (occur_eqb dflt Should && existsb (semd dflt) (map snd (filter (fun c => match fst c with None => true | _ => false end) l)))).
    { clear H1 H2. subst m. induction l as [|[o x] r IH]; [destruct Hd as [-> | ->]; reflexivity|].
      cbn [map filter fst snd existsb]. rewrite IH. clear IH.
      destruct Hd as [-> | ->]; destruct o as [[]|]; cbn [resolve fst snd occur_eqb map existsb andb orb];
        try (match goal with |- context [sem lsem ?dd x] => destruct (sem lsem dd x) end); cbn [andb orb]; bool_crush. }
    rewrite H1, H2, H3. clear H1 H2 H3 m.
    destruct Hd as [-> | ->]; cbn [occur_eqb andb orb]; bool_crush.
  Qed.
End OccurSemantics.

(* ------------------------------------------------------------------ documents and leaves *)
Record doc := { d_title : list str; d_body : list str; d_tag : str; d_n : N }.

Definition F_title : str := [116;105;116;108;101].
Definition F_body : str := [98;111;100;121].
Definition F_tag : str := [116;97;103].
Definition F_n : str := [110].

Fixpoint split_sp (cur : str) (s : str) : list str :=
  match s with
  | [] => if is_nil cur then [] else [rev cur]
  | c :: t => if c =? 32 then (if is_nil cur then split_sp [] t else rev cur :: split_sp [] t) else split_sp (c :: cur) t
  end.
Definition tokens (s : str) : list str := split_sp [] s.

Fixpoint starts_with (p l : list str) : bool :=
  match p, l with
  | [], _ => true
  | a :: p', b :: l' => str_eqb a b && starts_with p' l'
  | _ :: _, [] => false
  end.
Fixpoint contains_phrase (p l : list str) : bool :=
  starts_with p l || match l with [] => false | _ :: l' => contains_phrase p l' end.

Definition text_match (toks : list str) (phrase : str) : bool :=
  match tokens phrase with
  | [] => false
  | [t] => existsb (str_eqb t) toks
  | p => contains_phrase p toks
  end.
Definition all_digits_b (s : str) : bool := forallb is_digit s && negb (is_nil s).
Definition bound_ok_lo (b : bound) (v : N) : bool :=
  match b with BUnb => true | BIncl s => all_digits_b s && (digits_val s <=? v) | BExcl s => all_digits_b s && (digits_val s <? v) end.
Definition bound_ok_hi (b : bound) (v : N) : bool :=
  match b with BUnb => true | BIncl s => all_digits_b s && (v <=? digits_val s) | BExcl s => all_digits_b s && (v <? digits_val s) end.

(* which documents a leaf matches on the harness schema (title, body: default fields) *)
Definition leaf_matches (d : doc) (l : leaf) : bool :=
  match l with
  | LLit None p _ _ _ => text_match (d_title d) p || text_match (d_body d) p
  | LLit (Some f) p _ _ _ =>
      if str_eqb f F_title then text_match (d_title d) p
      else if str_eqb f F_body then text_match (d_body d) p
      else if str_eqb f F_tag then str_eqb p (d_tag d)
      else if str_eqb f F_n then all_digits_b p && (digits_val p =? d_n d)
      else false
  | LAll => true
  | LRange (Some f) lo hi => str_eqb f F_n && bound_ok_lo lo (d_n d) && bound_ok_hi hi (d_n d)
  | LSet (Some f) es =>
      if str_eqb f F_n then existsb (fun e => all_digits_b e && (digits_val e =? d_n d)) es
      else if str_eqb f F_tag then existsb (fun e => str_eqb e (d_tag d)) es
      else false
  | _ => false
  end.

Definition count_spec (dflt : occur) (corpus : list doc) (u : uast) : N :=
  N.of_nat (length (filter (fun d => sem (leaf_matches d) dflt u) corpus)).

(* ------------------------------------------------------------------ documented meaning of a concrete query *)
Definition is_pure_chain (o1 : option occur) (rest : list (str * option binop * str * option occur * cq)) : bool :=
  match o1 with None => true | _ => false end &&
  forallb (fun r => match r with (_, Some _, _, None, _) => true | _ => false end) rest.
Definition is_pure_list (rest : list (str * option binop * str * option occur * cq)) : bool :=
  forallb (fun r => match r with (_, None, _, _, _) => true | _ => false end) rest.

Section CqSem.
  Variable dflt : occur.
  Variable d : doc.
  (* the meaning of an atom is a truth value; the meaning of `+a -b c` / `a AND b OR c` is given by
     the documented rules; mixed lists (outside the documented grammar) get no independent meaning:
     cq_sem returns None *)
  Fixpoint cq_sem (c : cq) : option bool :=
    match c with
    | CLit f l => Some (leaf_matches d (norm_leaf (option_map fst f) l))
    | CAllQ => Some true
    | CParen q => cq_sem q
    | CGroup _ _ _ _ => None
    | CBoost q _ _ => cq_sem q
    | CNot _ _ => None
    | CSeq _ o1 x1 rest _ =>
        let vs := (fix go (rest : list (str * option binop * str * option occur * cq)) : option (list (option binop * option occur * bool)) :=
                     match rest with
                     | [] => Some []
                     | (_, op, _, o, x) :: r =>
                         match cq_sem x, go r with Some v, Some vs => Some ((op, o, v) :: vs) | _, _ => None end
                     end) rest in
        match cq_sem x1, vs with
        | Some v1, Some vs =>
            if is_nil rest then
              (match o1 with Some MustNot => Some false | _ => Some v1 end)
            else if is_pure_chain o1 rest then
              Some (existsb (forallb (fun b => b))
                      (and_runs [v1] (map (fun t => (match fst (fst t) with Some And => And | _ => Or end, snd t)) vs)))
            else if is_pure_list rest then
              Some (clause_sem ((resolve dflt o1, v1) :: map (fun t => (resolve dflt (snd (fst t)), snd t)) vs))
            else None
        | _, _ => None
        end
    end.
End CqSem.

(* number of documents of the corpus that the documented meaning selects (None: no claim) *)
Fixpoint cq_count (dflt : occur) (corpus : list doc) (c : cq) : option N :=
  match corpus with
  | [] => Some 0
  | d :: r => match cq_sem dflt d c, cq_count dflt r c with
              | Some b, Some n => Some (if b then n + 1 else n)
              | _, _ => None
              end
  end.
