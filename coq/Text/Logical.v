(* C16 -- from the UserInputAst to matching documents.
   Transliterates the schema-independent part of src/query/query_parser/query_parser.rs:
   compute_logical_ast_with_occur_lenient (default occur by mode: QueryParser::default_occur),
   all_negative / the `only must_not` rejection, trim_ast; the leaves are interpreted against a
   small document model (two tokenised text fields that are the default fields, one raw string
   field, one u64 field) that the harness schema instantiates.  `cq_sem` is the documented meaning
   of a concrete query, defined without the operator fold.  Style: stdlib. *)
From TV Require Import Base.Prelude Text.BinOpFold Text.Grammar Generated.Constants.
Local Open Scope N_scope.

(* ------------------------------------------------------------------ logical AST *)
Inductive last (L : Type) : Type :=
| LClause (cs : list (occur * last L))
| LBoost (a : last L) (b : N * N)
| LLeaf (l : L).
Arguments LClause {L} cs.
Arguments LBoost {L} a b.
Arguments LLeaf {L} l.

Section Logical.
  Context {L : Type}.
  Variable dflt : occur.       (* Must iff conjunction_by_default *)

  (* compute_logical_ast_with_occur_lenient on a tree whose leaves resolve *)
  Fixpoint to_logical (a : ast L) : last L :=
    match a with
    | Leaf l => LLeaf l
    | Boost a b => LBoost (to_logical a) b
    | Clause cs => LClause ((fix go (cs : list (option occur * ast L)) :=
                               match cs with [] => [] | c :: r => (resolve dflt (fst c), to_logical (snd c)) :: go r end) cs)
    end.

  (* all_negative *)
  Fixpoint all_negative (a : last L) : bool :=
    match a with
    | LLeaf _ => false
    | LBoost a _ => all_negative a
    | LClause cs => (fix go (cs : list (occur * last L)) :=
                       match cs with [] => true | c :: r => (occur_eqb (fst c) MustNot || all_negative (snd c)) && go r end) cs
    end.

  Variable lsem : L -> bool.
  Fixpoint lsem_ast (a : last L) : bool :=
    match a with
    | LLeaf l => lsem l
    | LBoost a _ => lsem_ast a
    | LClause cs => clause_sem ((fix go (cs : list (occur * last L)) :=
                                   match cs with [] => [] | c :: r => (fst c, lsem_ast (snd c)) :: go r end) cs)
    end.

  Lemma to_logical_sem (a : ast L) : lsem_ast (to_logical a) = sem lsem dflt a.
  Proof.
    induction a as [cs IH|a b IH|l] using ast_ind'; [|exact IH|reflexivity].
    cbn [to_logical lsem_ast sem]. f_equal.
    induction cs as [|c r IHr]; [reflexivity|].
    inversion IH as [|? ? Hc Hr]; subst. cbn [fst snd]. f_equal; [f_equal; exact Hc|now apply IHr].
  Qed.
End Logical.

(* the strict QueryParser::parse_query rejects a query iff the resolved tree is all-negative
   (and not the empty clause) *)
Definition rejected_all_negative {L} (dflt : occur) (a : ast L) : bool :=
  match a with
  | Clause [] => false
  | _ => all_negative (to_logical dflt a)
  end.

(* ------------------------------------------------------------------ occurrence markers *)
Section OccurSemantics.
  Context {L : Type}.
  Variable lsem : L -> bool.
  Notation semd := (sem lsem).

  (* documented meaning of `+a -b c ...`:  every +, no -, and
     - disjunction by default: when there is no +, at least one unmarked member;
     - conjunction by default: every unmarked member as well. *)
  Definition marked (o : occur) (l : list (option occur * ast L)) : list (ast L) :=
    map snd (filter (fun c => match fst c with Some o' => occur_eqb o o' | None => false end) l).
  Definition unmarked (l : list (option occur * ast L)) : list (ast L) :=
    map snd (filter (fun c => match fst c with None => true | _ => false end) l).

  Definition occur_spec (dflt : occur) (l : list (option occur * ast L)) : bool :=
    let v := semd dflt in
    forallb v (marked Must l) && forallb (fun x => negb (v x)) (marked MustNot l) &&
    match dflt with
    | Must => forallb v (unmarked l) && (negb (is_nil (marked Must l)) || negb (is_nil (unmarked l)) || existsb v (marked Should l))
    | _ => negb (is_nil (marked Must l)) || existsb v (unmarked l) || existsb v (marked Should l)
    end.

  Ltac bool_crush :=
    repeat match goal with
           | |- context [forallb ?f ?l] => destruct (forallb f l)
           | |- context [existsb ?f ?l] => destruct (existsb f l)
           | |- context [is_nil ?l] => destruct (is_nil l)
           end; reflexivity.

  Lemma clause_sem_occur_spec dflt (l : list (option occur * ast L)) :
    (dflt = Should \/ dflt = Must) ->
    clause_sem (map (fun c => (resolve dflt (fst c), semd dflt (snd c))) l) = occur_spec dflt l.
  Proof.
    intros Hd. unfold clause_sem, occur_spec, marked, unmarked.
    set (m := map (fun c => (resolve dflt (fst c), semd dflt (snd c))) l).
    assert (H1 : forallb clause_ok m =
                 forallb (semd dflt) (map snd (filter (fun c => match fst c with Some o' => occur_eqb Must o' | None => false end) l)) &&
                 forallb (fun x => negb (semd dflt x)) (map snd (filter (fun c => match fst c with Some o' => occur_eqb MustNot o' | None => false end) l)) &&
                 (if occur_eqb dflt Must then forallb (semd dflt) (map snd (filter (fun c => match fst c with None => true | _ => false end) l)) else true)).
    { subst m. induction l as [|[o x] r IH]; [destruct Hd as [-> | ->]; reflexivity|].
      cbn [map filter fst snd forallb]. rewrite IH. clear IH.
      destruct Hd as [-> | ->]; destruct o as [[]|]; cbn [resolve clause_ok fst snd occur_eqb map forallb];
        try (match goal with |- context [sem lsem ?dd x] => destruct (sem lsem dd x) end); cbn [negb andb]; bool_crush. }
    assert (H2 : existsb (fun c => is_must (fst c)) m =
                 negb (is_nil (map snd (filter (fun c => match fst c with Some o' => occur_eqb Must o' | None => false end) l))) ||
                 (occur_eqb dflt Must && negb (is_nil (map snd (filter (fun c => match fst c with None => true | _ => false end) l))))).
    { clear H1. subst m. induction l as [|[o x] r IH]; [destruct Hd as [-> | ->]; reflexivity|].
      cbn [map filter fst snd existsb]. rewrite IH. clear IH.
      destruct Hd as [-> | ->]; destruct o as [[]|]; cbn [resolve is_must fst snd occur_eqb map is_nil negb andb orb]; bool_crush. }
    assert (H3 : existsb (fun c => occur_eqb (fst c) Should && snd c) m =
                 existsb (semd dflt) (map snd (filter (fun c => match fst c with Some o' => occur_eqb Should o' | None => false end) l)) ||
                 (occur_eqb dflt Should && existsb (semd dflt) (map snd (filter (fun c => match fst c with None => true | _ => false end) l)))).
    { clear H1 H2. subst m. induction l as [|[o x] r IH]; [destruct Hd as [-> | ->]; reflexivity|].
      cbn [map filter fst snd existsb]. rewrite IH. clear IH.
      destruct Hd as [-> | ->]; destruct o as [[]|]; cbn [resolve fst snd occur_eqb map existsb andb orb];
        try (match goal with |- context [sem lsem ?dd x] => destruct (sem lsem dd x) end); cbn [andb orb]; bool_crush. }
    rewrite H1, H2, H3. clear H1 H2 H3 m.
    destruct Hd as [-> | ->]; cbn [occur_eqb andb orb]; bool_crush.
  Qed.
End OccurSemantics.

(* ------------------------------------------------------------------ documents and leaves *)
(* the words of the text fields are kept as written (before the analyzer); title / body use the
   `default` tokenizer (default fields), `stop` uses SimpleTokenizer + LowerCaser + StopWordFilter *)
Record doc := { d_title : list str; d_body : list str; d_stop : list str; d_tag : str; d_n : N }.

Definition F_title : str := [116;105;116;108;101].
Definition F_body : str := [98;111;100;121].
Definition F_stop : str := [115;116;111;112].
Definition F_tag : str := [116;97;103].
Definition F_n : str := [110].

Fixpoint split_sp (cur : str) (s : str) : list str :=
  match s with
  | [] => if is_nil cur then [] else [rev cur]
  | c :: t => if c =? 32 then (if is_nil cur then split_sp [] t else rev cur :: split_sp [] t) else split_sp (c :: cur) t
  end.
Definition tokens (s : str) : list str := split_sp [] s.

(* ---- analyzers: a token filter removes a word but the words that remain keep their positions
   (src/tokenizer: Token::position is assigned by the tokenizer, filters only drop tokens);
   postings_writer.index_text and generate_literals_for_str both use token.position *)
Fixpoint analyze_from (drop : str -> bool) (k : N) (ws : list str) : list (N * str) :=
  match ws with
  | [] => []
  | w :: r => if drop w then analyze_from drop (k + 1) r else (k, w) :: analyze_from drop (k + 1) r
  end.
Definition analyze (drop : str -> bool) (ws : list str) : list (N * str) := analyze_from drop 0 ws.

(* RemoveLongFilter of the `default` tokenizer (limit and comparison regenerated from the sources) *)
Definition drop_long (w : str) : bool :=
  let len := N.of_nat (length w) in
  if QG_REMOVE_LONG_KEEPS_STRICTLY_SHORTER =? 1 then QG_DEFAULT_TOKENIZER_LONG_LIMIT <=? len
  else QG_DEFAULT_TOKENIZER_LONG_LIMIT <? len.
(* the stop words the harness registers for the `stop` field: the, of *)
Definition stop_words : list str := [[116;104;101]; [111;102]].
Definition drop_stop (w : str) : bool := existsb (str_eqb w) stop_words.

Definition has_tok (doc_toks : list (N * str)) (p : N) (t : str) : bool :=
  existsb (fun pt => (fst pt =? p) && str_eqb (snd pt) t) doc_toks.
Fixpoint is_prefix (p s : str) : bool :=
  match p, s with
  | [], _ => true
  | a :: p', b :: s' => (a =? b) && is_prefix p' s'
  | _ :: _, [] => false
  end.
Definition has_tok_prefix (doc_toks : list (N * str)) (p : N) (t : str) : bool :=
  existsb (fun pt => (fst pt =? p) && is_prefix t (snd pt)) doc_toks.

(* PhraseQuery::new_with_offset(terms): the terms at the same relative offsets; with `prefix` the
   last term only has to be a prefix of the document's token (PhrasePrefixQuery) *)
Fixpoint rest_ok (doc_toks : list (N * str)) (prefix : bool) (dp p0 : N) (q : list (N * str)) : bool :=
  match q with
  | [] => true
  | [(p, t)] => if prefix then has_tok_prefix doc_toks (dp + (p - p0)) t else has_tok doc_toks (dp + (p - p0)) t
  | (p, t) :: r => has_tok doc_toks (dp + (p - p0)) t && rest_ok doc_toks prefix dp p0 r
  end.
Definition phrase_match (doc_toks : list (N * str)) (prefix : bool) (q : list (N * str)) : bool :=
  match q with
  | [] => false
  | (p0, t0) :: r =>
      existsb (fun pt => str_eqb (snd pt) t0 && rest_ok doc_toks prefix (fst pt) p0 r) doc_toks
  end.

(* generate_literals_for_str: no token -> nothing; one token -> a term; several -> a phrase with the
   analyzer's positions.  `hi` selects, for a phrase with slop > 0, the upper bound (all its terms
   occur) instead of the lower bound (they occur at exactly the phrase's offsets): the slop matching
   itself belongs to C03. *)
Definition text_match (hi : bool) (drop : str -> bool) (words : list str) (phrase : str) (slop : N) (prefix : bool) : bool :=
  let doc_toks := analyze drop words in
  match analyze drop (tokens phrase) with
  | [] => false
  | [(_, t)] => existsb (fun pt => str_eqb (snd pt) t) doc_toks
  | q =>
      if hi && negb (slop =? 0) then forallb (fun pt => existsb (fun dt => str_eqb (snd dt) (snd pt)) doc_toks) q
      else phrase_match doc_toks prefix q
  end.
Definition all_digits_b (s : str) : bool := forallb is_digit s && negb (is_nil s).
Definition bound_ok_lo (b : bound) (v : N) : bool :=
  match b with BUnb => true | BIncl s => all_digits_b s && (digits_val s <=? v) | BExcl s => all_digits_b s && (digits_val s <? v) end.
Definition bound_ok_hi (b : bound) (v : N) : bool :=
  match b with BUnb => true | BIncl s => all_digits_b s && (v <=? digits_val s) | BExcl s => all_digits_b s && (v <? digits_val s) end.

(* which documents a leaf matches on the harness schema (title, body: default fields) *)
Definition leaf_matches_b (hi : bool) (d : doc) (l : leaf) : bool :=
  match l with
  | LLit None p _ sl pf => text_match hi drop_long (d_title d) p sl pf || text_match hi drop_long (d_body d) p sl pf
  | LLit (Some f) p _ sl pf =>
      if str_eqb f F_title then text_match hi drop_long (d_title d) p sl pf
      else if str_eqb f F_body then text_match hi drop_long (d_body d) p sl pf
      else if str_eqb f F_stop then text_match hi drop_stop (d_stop d) p sl pf
      else if str_eqb f F_tag then str_eqb p (d_tag d)
      else if str_eqb f F_n then all_digits_b p && (digits_val p =? d_n d)
      else false
  | LAll => true
  | LRange (Some f) lo hi_b => str_eqb f F_n && bound_ok_lo lo (d_n d) && bound_ok_hi hi_b (d_n d)
  | LSet (Some f) es =>
      if str_eqb f F_n then existsb (fun e => all_digits_b e && (digits_val e =? d_n d)) es
      else if str_eqb f F_tag then existsb (fun e => str_eqb e (d_tag d)) es
      else false
  | _ => false
  end.
Definition leaf_matches : doc -> leaf -> bool := leaf_matches_b false.

Definition count_spec_b (hi : bool) (dflt : occur) (corpus : list doc) (u : uast) : N :=
  N.of_nat (length (filter (fun d => sem (leaf_matches_b hi d) dflt u) corpus)).
Definition count_spec : occur -> list doc -> uast -> N := count_spec_b false.

(* ------------------------------------------------------------------ documented meaning of a concrete query *)
Definition is_pure_chain (o1 : option occur) (rest : list (str * option binop * str * option occur * cq)) : bool :=
  match o1 with None => true | _ => false end &&
  forallb (fun r => match r with (_, Some _, _, None, _) => true | _ => false end) rest.
Definition is_pure_list (rest : list (str * option binop * str * option occur * cq)) : bool :=
  forallb (fun r => match r with (_, None, _, _, _) => true | _ => false end) rest.

Section CqSem.
  Variable hi : bool.
  Variable dflt : occur.
  Variable d : doc.
  (* the meaning of an atom is a truth value; the meaning of `+a -b c` / `a AND b OR c` is given by
     the documented rules; mixed lists (outside the documented grammar) get no independent meaning:
     cq_sem returns None *)
  Fixpoint cq_sem (c : cq) : option bool :=
    match c with
    | CLit f l => Some (leaf_matches_b hi d (norm_leaf (option_map fst f) l))
    | CAllQ => Some true
    | CParen q => cq_sem q
    | CGroup _ _ _ _ => None
    | CBoost q _ _ => cq_sem q
    | CNot _ _ => None
    | CSeq _ o1 x1 rest _ =>
        let vs := (fix go (rest : list (str * option binop * str * option occur * cq)) : option (list (option binop * option occur * bool)) :=
                     match rest with
                     | [] => Some []
                     | (_, op, _, o, x) :: r =>
                         match cq_sem x, go r with Some v, Some vs => Some ((op, o, v) :: vs) | _, _ => None end
                     end) rest in
        match cq_sem x1, vs with
        | Some v1, Some vs =>
            if is_nil rest then
              (match o1 with Some MustNot => Some false | _ => Some v1 end)
            else if is_pure_chain o1 rest then
              Some (existsb (forallb (fun b => b))
                      (and_runs [v1] (map (fun t => (match fst (fst t) with Some And => And | _ => Or end, snd t)) vs)))
            else if is_pure_list rest then
              Some (clause_sem ((resolve dflt o1, v1) :: map (fun t => (resolve dflt (snd (fst t)), snd t)) vs))
            else None
        | _, _ => None
        end
    end.
End CqSem.

(* number of documents of the corpus that the documented meaning selects (None: no claim) *)
Fixpoint cq_count_b (hi : bool) (dflt : occur) (corpus : list doc) (c : cq) : option N :=
  match corpus with
  | [] => Some 0
  | d :: r => match cq_sem hi dflt d c, cq_count_b hi dflt r c with
              | Some b, Some n => Some (if b then n + 1 else n)
              | _, _ => None
              end
  end.
Definition cq_count : occur -> list doc -> cq -> option N := cq_count_b false.
(* exact when no phrase carries a slop; otherwise lower and upper bound *)
Definition count_within (dflt : occur) (corpus : list doc) (c : cq) (cnt : N) : bool :=
  match cq_count_b false dflt corpus c, cq_count_b true dflt corpus c with
  | Some lo, Some hi => (lo <=? cnt) && (cnt <=? hi)
  | _, _ => false
  end.

(* F163 (src/query/phrase_prefix_query/phrase_prefix_scorer.rs): with three or more terms the
   phrase-prefix scorer assumes that the prefix term directly follows the previous term
   (PhraseScorer::new_with_offset(.., 0, 1)); when the analyzer removed a word right before the last
   word of a `"..."*` phrase, the documents that contain the phrase's own text are missed.
   Class: the query contains a prefix phrase whose analysis keeps >= 3 tokens and whose last two
   tokens are not at consecutive positions. *)
Definition field_drop (f : option str) : str -> bool :=
  match f with Some n => if str_eqb n F_stop then drop_stop else drop_long | None => drop_long end.
Definition gap_before_last (q : list (N * str)) : bool :=
  match rev q with
  | (p2, _) :: (p1, _) :: _ :: _ => negb (p2 =? p1 + 1)
  | _ => false
  end.
Definition F163_leaf (l : leaf) : bool :=
  match l with
  | LLit f p _ _ true => gap_before_last (analyze (field_drop f) (tokens p))
  | _ => false
  end.
Fixpoint ast_exists (P : leaf -> bool) (a : uast) : bool :=
  match a with
  | Leaf l => P l
  | Boost a _ => ast_exists P a
  | Clause cs => (fix go (cs : list (option occur * uast)) : bool :=
                    match cs with [] => false | c :: r => ast_exists P (snd c) || go r end) cs
  end.
Definition F163_class (u : uast) : bool := ast_exists F163_leaf u.

(* ------------------------------------------------------------------ phrases keep the analyzer's positions *)
Lemma str_eqb_refl (s : str) : str_eqb s s = true.
Proof. unfold str_eqb. induction s as [|c s IH]; [reflexivity|]. cbn [list_eqb]. now rewrite N.eqb_refl, IH. Qed.

Lemma analyze_from_app drop k a b :
  analyze_from drop k (a ++ b) = analyze_from drop k a ++ analyze_from drop (k + N.of_nat (length a)) b.
Proof.
  revert k. induction a as [|w a IH]; intros k; cbn [app analyze_from length].
  - f_equal. lia.
  - rewrite IH. replace (k + 1 + N.of_nat (length a)) with (k + N.of_nat (S (length a))) by lia.
    now destruct (drop w).
Qed.
Lemma analyze_from_shift drop k ws :
  analyze_from drop k ws = map (fun pt => (k + fst pt, snd pt)) (analyze_from drop 0 ws).
Proof.
  revert k. induction ws as [|w r IH]; intros k; [reflexivity|]. cbn [analyze_from].
  rewrite (IH (k + 1)), (IH (0 + 1)).
  assert (E : map (fun pt : N * str => (k + 1 + fst pt, snd pt)) (analyze_from drop 0 r)
            = map (fun pt : N * str => (k + fst pt, snd pt)) (map (fun pt : N * str => (0 + 1 + fst pt, snd pt)) (analyze_from drop 0 r))).
  { rewrite map_map. apply map_ext. intros [p t]. cbn [fst snd]. f_equal. lia. }
  destruct (drop w); cbn [map fst snd]; rewrite E; [reflexivity|]. f_equal. f_equal. lia.
Qed.
Lemma analyze_from_ge drop k ws pt : In pt (analyze_from drop k ws) -> k <= fst pt.
Proof.
  revert k. induction ws as [|w r IH]; intros k; [intros []|]. cbn [analyze_from].
  destruct (drop w); [intros H; apply IH in H; lia|]. intros [<- | H]; [cbn; lia|apply IH in H; lia].
Qed.
Lemma analyze_from_sorted drop k ws p t r :
  analyze_from drop k ws = (p, t) :: r -> forall pt, In pt r -> p <= fst pt.
Proof.
  revert k. induction ws as [|w ws IH]; intros k; [discriminate|]. cbn [analyze_from].
  destruct (drop w); [apply IH|]. intros E pt Hin. injection E as <- <- <-.
  apply analyze_from_ge in Hin. lia.
Qed.

Lemma has_tok_in D p t : In (p, t) D -> has_tok D p t = true.
Proof.
  intros H. unfold has_tok. apply existsb_exists. exists (p, t). split; [exact H|].
  cbn [fst snd]. now rewrite N.eqb_refl, str_eqb_refl.
Qed.
Lemma rest_ok_all D dp p0 r :
  (forall pt, In pt r -> p0 <= fst pt /\ In (dp + (fst pt - p0), snd pt) D) -> rest_ok D false dp p0 r = true.
Proof.
  induction r as [|[p t] r IH]; intros H; [reflexivity|].
  assert (Hh : has_tok D (dp + (p - p0)) t = true).
  { apply has_tok_in. exact (proj2 (H (p, t) (or_introl eq_refl))). }
  cbn [rest_ok]. destruct r as [|x r']; [exact Hh|]. rewrite Hh. cbn [andb].
  apply IH. intros pt Hin. apply H. now right.
Qed.

(* A document that contains the text of a phrase (as consecutive words, anywhere) matches the phrase
   query built from that text -- whatever words the field's analyzer removes, provided the query keeps
   the analyzer's positions (generate_literals_for_str: `terms.push((token.position, term))`). *)
Theorem phrase_self_match drop pre ws post :
  analyze drop ws <> [] ->
  phrase_match (analyze drop (pre ++ ws ++ post)) false (analyze drop ws) = true.
Proof.
  intros Hne. unfold analyze in *.
  set (k := N.of_nat (length pre)).
  assert (Hsub : forall pt, In pt (analyze_from drop 0 ws) -> In (k + fst pt, snd pt) (analyze_from drop 0 (pre ++ ws ++ post))).
  { intros pt Hin. rewrite analyze_from_app, analyze_from_app. apply in_or_app. right. apply in_or_app. left.
    rewrite N.add_0_l. fold k. rewrite analyze_from_shift. apply in_map_iff. exists pt. split; [reflexivity|exact Hin]. }
  destruct (analyze_from drop 0 ws) as [|[p0 t0] r] eqn:E; [congruence|].
  cbn [phrase_match]. apply existsb_exists. exists (k + p0, t0). split.
  - apply (Hsub (p0, t0)). now left.
  - cbn [fst snd]. rewrite str_eqb_refl. cbn [andb]. apply rest_ok_all. intros pt Hin.
    pose proof (analyze_from_sorted drop 0 ws p0 t0 r E pt Hin) as Hle. split; [exact Hle|].
    replace (k + p0 + (fst pt - p0)) with (k + fst pt) by lia. apply Hsub. now right.
Qed.

(* the `enumerate` numbering (consecutive offsets 0,1,2,... for the tokens that remain) does not have
   this property: "lord of the rings" on the stop-word field *)
Definition renumber (q : list (N * str)) : list (N * str) :=
  (fix go (i : N) (q : list (N * str)) := match q with [] => [] | (_, t) :: r => (i, t) :: go (i + 1) r end) 0 q.
Definition lotr : list str := [[108;111;114;100]; [111;102]; [116;104;101]; [114;105;110;103;115]].
Lemma renumbered_phrase_misses_own_text :
  phrase_match (analyze drop_stop lotr) false (renumber (analyze drop_stop lotr)) = false
  /\ phrase_match (analyze drop_stop [[108;111;114;100]; [114;105;110;103;115]]) false (renumber (analyze drop_stop lotr)) = true
  /\ phrase_match (analyze drop_stop lotr) false (analyze drop_stop lotr) = true.
Proof. vm_compute. repeat split; reflexivity. Qed.
