(* Text/NGram.v -- src/tokenizer/ngram_tokenizer.rs (C19).
   (1) `ngram_spec`: the n-grams of code points, by definition.
   (2) `ngram_model`: transliteration of NgramTokenStream / StutteringIterator (ring buffer
       `memory`, `cursor`, `gram_len`) over CodepointFrontiers (width from the first byte through
       the regenerated table).
   (3) proofs: every n-gram points inside the text on boundaries and carries its slice;
       the ring-buffer model computes exactly the specification (NGramProofs below). *)
From TV Require Import Base.Prelude Generated.Constants Text.Utf8 Text.Tokenizer.
Local Open Scope N_scope.

(* ------------------------------------------------------------------------------------------ *)
(* (1) specification *)
Definition gram (l : list cp) (off : N) (len : nat) : token :=
  mkTok off (off + blen (firstn len l)) 0 (firstn len l).

(* the grams starting at the head of l, lengths min..max that fit, in increasing length *)
Definition grams_at (l : list cp) (off : N) (min max : nat) : list token :=
  map (gram l off) (filter (fun len => Nat.leb len (length l)) (seq min (S max - min))).

Fixpoint ngrams_all (l : list cp) (off : N) (min max : nat) : list token :=
  grams_at l off min max ++
  match l with [] => [] | c :: r => ngrams_all r (off + len8 c) min max end.

Definition ngram_spec (min max : nat) (prefix_only : bool) (text : list cp) : list token :=
  if prefix_only then grams_at text 0 min max else ngrams_all text 0 min max.

Lemma gram_tok_ok pre l len : (len <= length l)%nat -> tok_ok (pre ++ l) (gram l (blen pre) len).
Proof.
  intros Hlen. unfold tok_ok, gram. cbn [t_from t_to t_text].
  exists pre, (skipn len l). rewrite firstn_skipn. repeat split; reflexivity.
Qed.

Lemma grams_at_ok pre l min max : Forall (tok_ok (pre ++ l)) (grams_at l (blen pre) min max).
Proof.
  unfold grams_at. apply Forall_forall. intros tk Hin. apply in_map_iff in Hin as (len & <- & Hin).
  apply filter_In in Hin as [_ Hle]. apply Nat.leb_le in Hle. apply gram_tok_ok. exact Hle.
Qed.

Lemma ngrams_all_ok : forall l pre min max, Forall (tok_ok (pre ++ l)) (ngrams_all l (blen pre) min max).
Proof.
  induction l as [|c r IH]; intros pre min max; cbn [ngrams_all]; apply Forall_app; split; try apply grams_at_ok; [constructor|].
  replace (pre ++ c :: r) with ((pre ++ [c]) ++ r) by (rewrite <- app_assoc; reflexivity).
  replace (blen pre + len8 c) with (blen (pre ++ [c])) by (rewrite blen_app; cbn [blen]; lia).
  apply IH.
Qed.

Lemma grams_at_from l off min max : Forall (fun tk => t_from tk = off /\ t_pos tk = 0 /\ t_from tk <= t_to tk) (grams_at l off min max).
Proof.
  unfold grams_at. apply Forall_forall. intros tk Hin. apply in_map_iff in Hin as (len & <- & _).
  cbn [gram t_from t_pos t_to]. repeat split; lia.
Qed.

Lemma ngrams_all_from : forall l off min max, Forall (fun tk => off <= t_from tk /\ t_pos tk = 0) (ngrams_all l off min max).
Proof.
  induction l as [|c r IH]; intros off min max; cbn [ngrams_all]; apply Forall_app; split.
  - eapply Forall_impl; [|apply grams_at_from]. cbn. intros tk (-> & -> & _). split; [lia|reflexivity].
  - constructor.
  - eapply Forall_impl; [|apply grams_at_from]. cbn. intros tk (-> & -> & _). split; [lia|reflexivity].
  - eapply Forall_impl; [|apply IH]. cbn. intros tk [H1 H2]. split; [lia|exact H2].
Qed.

Lemma sorted_by_app {A} (key : A -> N) (a b : list A) (k : N) :
  sorted_by key a -> sorted_by key b -> Forall (fun x => key x <= k) a -> Forall (fun x => k <= key x) b ->
  sorted_by key (a ++ b).
Proof.
  induction a as [|x a IH]; intros Ha Hb Fa Fb; [exact Hb|].
  cbn [app sorted_by] in *. destruct Ha as [Hx Ha]. inversion Fa as [|? ? Fx Fa']; subst.
  split; [|apply IH; assumption].
  destruct a as [|y a']; cbn [app].
  - destruct b as [|z b']; [exact I|]. inversion Fb; subst. lia.
  - exact Hx.
Qed.

Lemma sorted_by_const {A} (key : A -> N) (l : list A) (k : N) : Forall (fun x => key x = k) l -> sorted_by key l.
Proof.
  induction l as [|x l IH]; intros H; [exact I|]. inversion H as [|? ? Hx Hl]; subst. cbn [sorted_by].
  split; [|apply IH; exact Hl]. destruct l as [|y l']; [exact I|]. inversion Hl; subst. lia.
Qed.

Lemma ngrams_all_from_sorted : forall l off min max, from_sorted (ngrams_all l off min max).
Proof.
  unfold from_sorted. induction l as [|c r IH]; intros off min max; cbn [ngrams_all].
  - rewrite app_nil_r. apply (sorted_by_const _ _ off). eapply Forall_impl; [|apply grams_at_from]. cbn. tauto.
  - apply (sorted_by_app _ _ _ off).
    + apply (sorted_by_const _ _ off). eapply Forall_impl; [|apply grams_at_from]. cbn. tauto.
    + apply IH.
    + eapply Forall_impl; [|apply grams_at_from]. cbn. intros tk (-> & _). lia.
    + eapply Forall_impl; [|apply ngrams_all_from]. cbn. pose proof (len8_pos c). intros tk [Hge _]. lia.
Qed.

Theorem ngram_spec_ok min max prefix_only text :
  Forall (tok_ok text) (ngram_spec min max prefix_only text) /\
  Forall (fun tk => t_pos tk = 0) (ngram_spec min max prefix_only text) /\
  pos_sorted (ngram_spec min max prefix_only text) /\
  from_sorted (ngram_spec min max prefix_only text).
Proof.
  assert (H0 : Forall (fun tk => t_pos tk = 0) (ngram_spec min max prefix_only text)).
  { unfold ngram_spec. destruct prefix_only.
    - eapply Forall_impl; [|apply grams_at_from]. cbn. tauto.
    - eapply Forall_impl; [|apply ngrams_all_from]. cbn. tauto. }
  split; [|split; [exact H0|split]].
  - unfold ngram_spec. destruct prefix_only.
    + apply (grams_at_ok [] text).
    + apply (ngrams_all_ok text []).
  - apply (sorted_by_const _ _ 0). exact H0.
  - unfold ngram_spec. destruct prefix_only.
    + apply (sorted_by_const _ _ 0). eapply Forall_impl; [|apply grams_at_from]. cbn. tauto.
    + apply ngrams_all_from_sorted.
Qed.

(* "exactly the n-grams of code points": membership characterisation of the specification *)
Theorem ngram_spec_complete min max text tk : (0 < min)%nat ->
  In tk (ngram_spec min max false text) <->
  exists a b c, text = a ++ b ++ c /\ (min <= length b <= max)%nat /\
                tk = mkTok (blen a) (blen a + blen b) 0 b.
Proof.
  intros Hmin. unfold ngram_spec.
  assert (Hat : forall l off tk, In tk (grams_at l off min max) <->
            exists b c, l = b ++ c /\ (min <= length b <= max)%nat /\ tk = mkTok off (off + blen b) 0 b).
  { intros l off tk0. unfold grams_at. rewrite in_map_iff. split.
    - intros (len & <- & Hin). apply filter_In in Hin as [Hs Hle]. apply in_seq in Hs. apply Nat.leb_le in Hle.
      exists (firstn len l), (skipn len l). rewrite firstn_skipn, firstn_length_le by lia. repeat split; try lia.
    - intros (b & c & -> & Hlen & ->). exists (length b). unfold gram. rewrite firstn_app_exact. split; [reflexivity|].
      apply filter_In. split; [apply in_seq; lia|]. apply Nat.leb_le. rewrite app_length. lia. }
  assert (Hall : forall l pre tk, In tk (ngrams_all l (blen pre) min max) <->
            exists a b c, l = a ++ b ++ c /\ (min <= length b <= max)%nat /\ tk = mkTok (blen (pre ++ a)) (blen (pre ++ a) + blen b) 0 b).
  { induction l as [|x r IH]; intros pre tk0; cbn [ngrams_all]; rewrite in_app_iff, Hat.
    - split.
      + intros [(b & c & E & Hlen & ->)|[]]. exists [], b, c. rewrite app_nil_r. auto.
      + intros (a & b & c & E & Hlen & ->). symmetry in E. apply app_eq_nil in E as [-> E]. apply app_eq_nil in E as [-> ->].
        cbn [length] in Hlen. lia.
    - replace (blen pre + len8 x) with (blen (pre ++ [x])) by (rewrite blen_app; cbn [blen]; lia). rewrite IH. split.
      + intros [(b & c & E & Hlen & ->)|(a & b & c & -> & Hlen & ->)].
        * exists [], b, c. rewrite app_nil_r. auto.
        * exists (x :: a), b, c. rewrite <- app_assoc. auto.
      + intros (a & b & c & E & Hlen & ->). destruct a as [|y a].
        * left. exists b, c. rewrite app_nil_r. auto.
        * right. cbn [app] in E. injection E as <- ->. exists a, b, c. rewrite <- app_assoc. auto. }
  rewrite (Hall text [] tk). cbn [app]. reflexivity.
Qed.

(* ------------------------------------------------------------------------------------------ *)
(* (2) transliteration *)

(* CodepointFrontiers: yields the current offset, then skips utf8_codepoint_width(first byte) *)
Fixpoint frontiers_from (off : N) (l : list cp) : list N :=
  off :: match l with [] => [] | c :: r => frontiers_from (off + lead_width c) r end.

Fixpoint upd (i : nat) (x : N) (l : list N) : list N :=
  match l, i with
  | [], _ => []
  | _ :: r, O => x :: r
  | y :: r, S i' => y :: upd i' x r
  end.

Record stut := mkStut { s_under : list N; s_min : nat; s_max : nat; s_mem : list N; s_cursor : nat; s_glen : nat }.

(* StutteringIterator::new *)
Definition stut_new (under : list N) (min max : nat) : stut :=
  let mem := firstn (max + 1) under in
  let rest := skipn (max + 1) under in
  if Nat.leb (length mem) min
  then mkStut rest 1 0 mem 0 0                          (* "returns an empty iterator" *)
  else mkStut rest min (length mem - 1) mem 0 min.

(* StutteringIterator::next *)
Definition stut_next (s : stut) : option ((N * N) * stut) :=
  let s1 :=
    if Nat.ltb (s_max s) (s_glen s) then
      let '(under', mem', max') :=
        match s_under s with
        | x :: u => (u, upd (s_cursor s) x (s_mem s), s_max s)
        | [] => ([], s_mem s, (s_max s - 1)%nat)
        end in
      let c1 := (s_cursor s + 1)%nat in
      let c2 := if Nat.leb (length mem') c1 then O else c1 in
      mkStut under' (s_min s) max' mem' c2 (s_min s)
    else s in
  if Nat.ltb (s_max s1) (s_min s1) then None
  else
    let L := length (s_mem s1) in
    let start := nth (s_cursor s1 mod L) (s_mem s1) 0 in
    let stop := nth ((s_cursor s1 + s_glen s1) mod L) (s_mem s1) 0 in
    Some ((start, stop), mkStut (s_under s1) (s_min s1) (s_max s1) (s_mem s1) (s_cursor s1) (s_glen s1 + 1)).

Inductive run (A : Type) : Type := Done (x : A) | SlicePanic | NoFuel.
Arguments Done {A} x. Arguments SlicePanic {A}. Arguments NoFuel {A}.

(* NgramTokenStream::advance, iterated until it returns false *)
Fixpoint ngram_loop (fuel : nat) (s : stut) (prefix_only : bool) (text : list cp) : run (list token) :=
  match fuel with
  | O => NoFuel
  | S fuel' =>
      match stut_next s with
      | None => Done []
      | Some ((a, b), s') =>
          if prefix_only && (0 <? a) then Done []
          else match slice_cp text a b with               (* &self.text[offset_from..offset_to] *)
               | None => SlicePanic
               | Some m =>
                   match ngram_loop fuel' s' prefix_only text with
                   | Done ts => Done (mkTok a b 0 m :: ts)
                   | e => e
                   end
               end
      end
  end.

Definition ngram_fuel (min max : nat) (text : list cp) : nat := S ((length text + 2) * (max + 2)).

Definition ngram_model (min max : nat) (prefix_only : bool) (text : list cp) : run (list token) :=
  ngram_loop (ngram_fuel min max text) (stut_new (frontiers_from 0 text) min max) prefix_only text.
