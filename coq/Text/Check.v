(* Text/Check.v -- boolean specification predicates and known-finding classifiers that the C19
   harness evaluates on the implementation's outputs, with their link to the Prop-level
   statements; table-backed oracles. *)
From TV Require Import Base.Prelude Generated.Constants Text.Utf8 Text.Tokenizer Text.NGram Text.Filters Text.Snippet Text.Analyzer.
Local Open Scope N_scope.

Definition token_eqb (a b : token) : bool :=
  (t_from a =? t_from b) && (t_to a =? t_to b) && (t_pos a =? t_pos b) && cps_eqb (t_text a) (t_text b).
Definition tokens_eqb : list token -> list token -> bool := list_eqb token_eqb.
Definition otokens_eqb (m : option (list token)) (i : list token) : bool :=
  match m with Some ts => tokens_eqb ts i | None => false end.
Definition run_tokens_eqb (m : run (list token)) (i : list token) : bool :=
  match m with Done ts => tokens_eqb ts i | _ => false end.

(* ---- oracles from tables shipped with each case ---- *)
Definition mem_cp (s : list cp) (c : cp) : bool := existsb (N.eqb c) s.
Fixpoint assoc_cp {B} (tbl : list (cp * B)) (c : cp) : option B :=
  match tbl with [] => None | (k, v) :: r => if k =? c then Some v else assoc_cp r c end.
Definition lower_of (tbl : list (cp * list cp)) (c : cp) : list cp :=
  match assoc_cp tbl c with Some v => v | None => [c] end.
Definition fold_of (tbl : list (cp * list cp)) (c : cp) : option (list cp) := assoc_cp tbl c.
Fixpoint assoc_text {B} (tbl : list (list cp * B)) (t : list cp) : option B :=
  match tbl with [] => None | (k, v) :: r => if cps_eqb k t then Some v else assoc_text r t end.
Definition text_fn_of (tbl : list (list cp * list cp)) (t : list cp) : list cp :=
  match assoc_text tbl t with Some v => v | None => t end.
Definition dict_of (tbl : list (list cp * list (N * N))) (t : list cp) : list (N * N) :=
  match assoc_text tbl t with Some v => v | None => [] end.
(* regex matches keyed by the byte length of the remaining text *)
Fixpoint assoc_n {B} (tbl : list (N * B)) (k : N) : option B :=
  match tbl with [] => None | (x, v) :: r => if x =? k then Some v else assoc_n r k end.
Definition re_of (tbl : list (N * (N * N))) (s : list cp) : option (N * N) := assoc_n tbl (blen s).

(* per-filter-instance oracle tables: the instance id is the position of the filter in the chain *)
Definition stem_of (tbls : list (N * list (list cp * list cp))) (l : N) (t : list cp) : list cp :=
  match assoc_n tbls l with Some tbl => text_fn_of tbl t | None => t end.
Definition dicts_of (tbls : list (N * list (list cp * list (N * N)))) (d : N) (t : list cp) : list (N * N) :=
  match assoc_n tbls d with Some tbl => dict_of tbl t | None => [] end.

(* ---- tokens: the predicate of C19_token_offsets ---- *)
Definition tokens_spec (text : list cp) (ts : list token) : bool :=
  forallb (span_okb text) ts && sorted_byb t_pos ts.
Definition tokens_text_spec (text : list cp) (ts : list token) : bool := forallb (tok_okb text) ts.

Lemma tokens_spec_ok text ts : tokens_spec text ts = true <-> Forall (span_ok text) ts /\ pos_sorted ts.
Proof.
  unfold tokens_spec, pos_sorted. rewrite andb_true_iff, sorted_byb_spec, forallb_forall, Forall_forall.
  split; intros [H1 H2]; split; auto; intros x Hx; apply span_okb_spec; auto.
Qed.
Lemma tokens_text_spec_ok text ts : tokens_text_spec text ts = true <-> Forall (tok_ok text) ts.
Proof.
  unfold tokens_text_spec. rewrite forallb_forall, Forall_forall. split; intros H x Hx; apply tok_okb_spec; auto.
Qed.

(* filters: every output span is the span of a token of the unfiltered stream, in order *)
Fixpoint spans_subseq (out inp : list token) : bool :=
  match out with
  | [] => true
  | o :: out' =>
      (fix find (inp : list token) : bool :=
         match inp with
         | [] => false
         | i :: inp' => if (t_from o =? t_from i) && (t_to o =? t_to i) && (t_pos o =? t_pos i)
                        then spans_subseq out' inp || find inp'       (* the same source may repeat (splitter) *)
                        else find inp'
         end) inp
  end.

(* ---- snippets ---- *)
Fixpoint is_prefix (p l : list cp) : bool :=
  match p, l with
  | [], _ => true
  | x :: p', y :: l' => (x =? y) && is_prefix p' l'
  | _, [] => false
  end.
Fixpoint substring_of (frag text : list cp) : bool :=
  is_prefix frag text || match text with [] => false | _ :: r => substring_of frag r end.
(* fragment: a substring of the text of at most max_num_chars characters *)
Definition fragment_spec (text frag : list cp) (max : N) : bool :=
  substring_of frag text && (N.of_nat (length frag) <=? max).
(* highlighted ranges: sorted, disjoint, inside the fragment, on character boundaries *)
Definition ranges_spec (frag : list cp) (rs : list range) : bool :=
  ranges_disjointb 0 rs && forallb (fun r => boundaryb frag (fst r) && boundaryb frag (snd r)) rs.

Lemma ranges_spec_ok frag rs : ranges_spec frag rs = true <->
  ranges_disjoint 0 rs /\ Forall (fun r => boundary frag (fst r) /\ boundary frag (snd r)) rs.
Proof.
  unfold ranges_spec. rewrite andb_true_iff, ranges_disjointb_spec, forallb_forall, Forall_forall.
  split; intros [H1 H2]; split; auto; intros x Hx.
  - specialize (H2 x Hx). apply andb_true_iff in H2 as [A B]. split; apply boundaryb_spec; assumption.
  - destruct (H2 x Hx) as [A B]. apply andb_true_iff. split; apply boundaryb_spec; assumption.
Qed.

(* each highlighted range is the span of a token whose lower-cased text is a query term
   (`hits`: parallel to the tokens, computed by the harness with str::to_lowercase) *)
Fixpoint frag_starts (frag text : list cp) (off : N) : list N :=
  (if is_prefix frag text then [off] else []) ++
  match text with [] => [] | c :: r => frag_starts frag r (off + len8 c) end.
Definition hl_cover_spec (text frag : list cp) (hl : list range) (ts : list token) (hits : list bool) : bool :=
  existsb (fun start =>
    forallb (fun r => existsb (fun th => snd th && (t_from (fst th) =? start + fst r) && (t_to (fst th) =? start + snd r))
                              (combine ts hits)) hl)
    (frag_starts frag text 0).

(* HTML: removing the (regenerated) default tags leaves exactly the escaped fragment *)
Fixpoint strip_tags_go (l : list cp) (skip : nat) : option (list cp) :=
  match l with
  | [] => Some []
  | c :: r =>
      match skip with
      | S k => strip_tags_go r k
      | O => if c =? 60 then
               if is_prefix SNIPPET_DEFAULT_PREFIX l then strip_tags_go r (length SNIPPET_DEFAULT_PREFIX - 1)
               else if is_prefix SNIPPET_DEFAULT_POSTFIX l then strip_tags_go r (length SNIPPET_DEFAULT_POSTFIX - 1)
               else None
             else match strip_tags_go r 0 with Some x => Some (c :: x) | None => None end
      end
  end.
Definition html_spec (frag html : list cp) : bool :=
  match strip_tags_go html 0 with Some x => cps_eqb x (escape frag) | None => false end
  && cps_eqb (unhtml html) frag.

(* ---- classifiers of the known findings ---- *)
(* F9: the fragment is exactly one token whose byte length exceeds max_num_chars *)
Definition f9_class (text : list cp) (ts : list token) (frag : list cp) (max : N) : bool :=
  existsb (fun tk => (max <? t_to tk - t_from tk) &&
                     match slice_cp text (t_from tk) (t_to tk) with Some b => cps_eqb b frag | None => false end) ts.
(* F10: the analyzer emits overlapping tokens *)
Definition f10_class (ts : list token) : bool := negb (disjoint_fromb 0 ts).
(* F22: the token stream is that of the FacetTokenizer as coded (offsets never written) *)
Definition f22_class (text : list cp) (ts : list token) : bool := tokens_eqb (facet_tokenizer text) ts && negb (tokens_text_spec text ts).

(* concrete score arithmetic for the tie: scores shipped as exact dyadic integers *)
Definition nscore_cmp (a b : N) : comparison := N.compare a b.
Definition n_generate alnum lower fold stem dict re lower_str T fs terms max text :=
  generate alnum lower fold stem dict re N 0 N.add (fun s => 0 <? s) nscore_cmp lower_str T fs terms max text.
Definition n_snippet_of lower_str terms max text ts :=
  snippet_of N 0 N.add (fun s => 0 <? s) nscore_cmp lower_str terms max text ts.

Definition ranges_eqb : list range -> list range -> bool := list_eqb range_eqb.
Definition snippet_eqb (m : option snippet) (frag : list cp) (hl : list range) : bool :=
  match m with Some sn => cps_eqb (sn_fragment sn) frag && ranges_eqb (sn_hl sn) hl | None => false end.
Definition ohtml_eqb (m : option (list cp)) (html : list cp) : bool :=
  match m with Some h => cps_eqb h html | None => false end.

Lemma fragment_length_unless_f9 :
  forall (score : Type) szero sadd spos scmp lower_str text ts terms max sn,
  Forall (span_ok text) ts -> from_sorted ts ->
  snippet_of score szero sadd spos scmp lower_str terms max text ts = Some sn ->
  f9_class text ts (sn_fragment sn) max = false ->
  N.of_nat (length (sn_fragment sn)) <= max.
Proof.
  intros score szero sadd spos scmp lower_str text ts terms max sn Hsp Hfs Hsn Hcls.
  destruct (snippet_of_ok score szero sadd spos scmp lower_str text ts terms max Hsp Hfs) as (sn' & E & Hp).
  rewrite Hsn in E. injection E as <-.
  destruct Hp as [->|(start & stop & Hpt & Hlen & _)]; [cbn; lia|].
  pose proof (chars_le_bytes (sn_fragment sn)) as Hc.
  destruct Hpt as (a & c & Etext & -> & ->).
  destruct Hlen as [Hle|(tk & Hin & E1 & E2 & Hgt)]; [lia|].
  exfalso. unfold f9_class in Hcls. apply Bool.not_true_iff_false in Hcls. apply Hcls.
  apply existsb_exists. exists tk. split; [exact Hin|]. apply andb_true_iff. split; [apply N.ltb_lt; exact Hgt|].
  assert (Hs : slice_cp text (t_from tk) (t_to tk) = Some (sn_fragment sn)).
  { apply slice_cp_spec. exists a, c. rewrite <- E1, <- E2. auto. }
  rewrite Hs. apply cps_eqb_eq. reflexivity.
Qed.

Lemma highlighted_disjoint_unless_f10 :
  forall (score : Type) szero sadd spos scmp lower_str text ts terms max sn,
  f10_class ts = false ->
  snippet_of score szero sadd spos scmp lower_str terms max text ts = Some sn ->
  ranges_disjoint 0 (sn_hl sn).
Proof.
  intros score szero sadd spos scmp lower_str text ts terms max sn Hc Hsn.
  apply (raw_disjoint_from_search score szero sadd spos scmp lower_str text ts terms max sn); [|exact Hsn].
  apply disjoint_fromb_spec. unfold f10_class in Hc. apply negb_false_iff in Hc. exact Hc.
Qed.

Lemma slice_is_byte_slice : forall text from to b, points_at text from to b ->
  from <= to /\ to <= blen text /\ boundary text from /\ boundary text to /\
  firstn (N.to_nat (to - from)) (skipn (N.to_nat from) (encode text)) = encode b.
Proof.
  intros text from to b H. destruct (points_at_facts text from to b H) as (A & B & C & D).
  repeat split; try assumption. apply points_at_bytes. exact H.
Qed.
