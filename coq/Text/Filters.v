(* Text/Filters.v -- token filters as stream transformers (C19): lower_caser.rs, ascii_folding_filter.rs,
   remove_long.rs, alphanum_only.rs, stop_word_filter/mod.rs, stemmer.rs, split_compound_words.rs.
   Every filter maps one token to zero, one or several tokens that keep the source token's
   offset_from / offset_to / position; only `text` is rewritten.  Unicode case mapping, the folding
   table, the stemmers and the Aho-Corasick automaton are Section oracles. *)
From TV Require Import Base.Prelude Generated.Constants Text.Utf8 Text.Tokenizer.
Local Open Scope N_scope.

Definition same_span (a b : token) : Prop :=
  t_from b = t_from a /\ t_to b = t_to a /\ t_pos b = t_pos a.

Definition with_text (tk : token) (t : list cp) : token := mkTok (t_from tk) (t_to tk) (t_pos tk) t.

(* a token-wise transformer; None = a panic inside the filter *)
Fixpoint omap_flat (f : token -> option (list token)) (ts : list token) : option (list token) :=
  match ts with
  | [] => Some []
  | tk :: r => match f tk, omap_flat f r with
               | Some a, Some b => Some (a ++ b)
               | _, _ => None
               end
  end.

Lemma sorted_by_head_ge {A} (key : A -> N) (l : list A) (k : N) :
  sorted_by key l -> match l with [] => True | x :: _ => k <= key x end -> Forall (fun y => k <= key y) l.
Proof.
  destruct l as [|x l]; intros Hs Hk; [constructor|]. constructor; [exact Hk|].
  eapply Forall_impl; [|apply (sorted_by_head_le key x l Hs)]. cbn. intros y Hy. lia.
Qed.

Lemma sorted_by_glue {A} (key : A -> N) (a b : list A) (k : N) :
  Forall (fun x => key x = k) a -> sorted_by key b -> Forall (fun y => k <= key y) b -> sorted_by key (a ++ b).
Proof.
  induction a as [|x a IH]; intros Fa Hb Fb; [exact Hb|].
  inversion Fa as [|? ? Hx Fa']; subst. cbn [app sorted_by]. split; [|apply IH; assumption].
  destruct a as [|y a']; cbn [app].
  - destruct b as [|z b']; [exact I|]. inversion Fb; subst. assumption.
  - inversion Fa'; subst. lia.
Qed.

Section Generic.
  Variable f : token -> option (list token).
  Hypothesis f_span : forall tk out, f tk = Some out -> Forall (same_span tk) out.

  Lemma omap_flat_in ts out : omap_flat f ts = Some out ->
    forall tk', In tk' out -> exists tk, In tk ts /\ same_span tk tk'.
  Proof.
    revert out. induction ts as [|tk r IH]; intros out H tk' Hin; cbn [omap_flat] in H.
    - injection H as <-. destruct Hin.
    - destruct (f tk) as [a|] eqn:Ef; [|discriminate]. destruct (omap_flat f r) as [b|]; [|discriminate].
      injection H as <-. apply in_app_iff in Hin as [Hin|Hin].
      + exists tk. split; [left; reflexivity|]. pose proof (f_span _ _ Ef) as Fa. rewrite Forall_forall in Fa. auto.
      + destruct (IH b eq_refl tk' Hin) as (tk0 & H0 & H1). exists tk0. split; [right; exact H0|exact H1].
  Qed.

  Lemma omap_flat_span_ok text ts out : omap_flat f ts = Some out ->
    Forall (span_ok text) ts -> Forall (span_ok text) out.
  Proof.
    intros H Hall. apply Forall_forall. intros tk' Hin.
    destruct (omap_flat_in ts out H tk' Hin) as (tk & Hin0 & (E1 & E2 & _)).
    rewrite Forall_forall in Hall. destruct (Hall tk Hin0) as (b & Hb). exists b. rewrite E1, E2. exact Hb.
  Qed.

  Lemma omap_flat_sorted (key : token -> N) :
    (forall a b, same_span a b -> key b = key a) ->
    forall ts out, omap_flat f ts = Some out -> sorted_by key ts ->
      sorted_by key out /\ (forall k, Forall (fun y => k <= key y) ts -> Forall (fun y => k <= key y) out).
  Proof.
    intros Hkey. induction ts as [|tk r IH]; intros out H Hs; cbn [omap_flat] in H.
    - injection H as <-. split; [exact I|]. intros; constructor.
    - destruct (f tk) as [a|] eqn:Ef; [|discriminate]. destruct (omap_flat f r) as [b|] eqn:Er; [|discriminate].
      injection H as <-. pose proof (sorted_by_head_le key tk r Hs) as Hle.
      assert (Hsr : sorted_by key r) by (cbn [sorted_by] in Hs; tauto).
      destruct (IH b eq_refl Hsr) as [Hb Hbk].
      assert (Fa : Forall (fun x => key x = key tk) a).
      { pose proof (f_span _ _ Ef) as Fa. eapply Forall_impl; [|exact Fa]. cbn. intros x Hx. apply Hkey. exact Hx. }
      split.
      + apply (sorted_by_glue key a b (key tk)); [exact Fa|exact Hb|apply Hbk; exact Hle].
      + intros k Hk. inversion Hk as [|? ? Hk1 Hk2]; subst. apply Forall_app. split.
        * eapply Forall_impl; [|exact Fa]. cbn. intros x Hx. lia.
        * apply Hbk. exact Hk2.
  Qed.
End Generic.

(* ------------------------------------------------------------------------------------------ *)
Section Filters.
  Variable lower : cp -> list cp.            (* char::to_lowercase *)
  Variable fold : cp -> option (list cp).    (* fold_non_ascii_char *)
  Variable stem : N -> list cp -> list cp.   (* rust_stemmers::Stemmer::stem, per filter instance (language) *)
  Variable dict_find : N -> list cp -> list (N * N).   (* AhoCorasick::find_iter(token text) of filter instance d: byte ranges *)

  Definition is_ascii (t : list cp) : bool := forallb (fun c => c <? 128) t.
  Definition ascii_lower (c : cp) : cp := if (65 <=? c) && (c <=? 90) then c + 32 else c.
  Definition is_ascii_alnum (c : cp) : bool :=
    ((48 <=? c) && (c <=? 57)) || ((65 <=? c) && (c <=? 90)) || ((97 <=? c) && (c <=? 122)).

  (* LowerCaserTokenStream::advance *)
  Definition lower_text (t : list cp) : list cp :=
    if is_ascii t then map ascii_lower t else flat_map lower t.
  (* AsciiFoldingFilterTokenStream::advance / to_ascii *)
  Definition fold_text (t : list cp) : list cp :=
    if is_ascii t then t else flat_map (fun c => match fold c with Some s => s | None => [c] end) t.

  (* SplitCompoundWordsTokenStream::split *)
  Fixpoint cuts_loop (ms : list (N * N)) (pos : N) (cuts_desc : list N) : N * list N :=
    match ms with
    | [] => (pos, cuts_desc)
    | (a, b) :: r => if negb (pos =? a) then (pos, cuts_desc) else cuts_loop r b (pos :: cuts_desc)
    end.
  (* `for pos in cuts.iter().rev() { (head, tail) = text.split_at(pos); text = head; parts.push(tail) }`;
     parts are popped from the back, i.e. emitted in text order *)
  Fixpoint split_rev (text : list cp) (cuts_desc : list N) (acc : list (list cp)) : option (list (list cp)) :=
    match cuts_desc with
    | [] => Some acc
    | p :: r => match slice_cp text 0 p, slice_cp text p (blen text) with
                | Some h, Some t => split_rev h r (t :: acc)
                | _, _ => None                                  (* str::split_at panics off a boundary *)
                end
    end.
  Definition split_token (d : N) (tk : token) : option (list token) :=
    let '(pos, cuts_desc) := cuts_loop (dict_find d (t_text tk)) 0 [] in
    if pos =? blen (t_text tk) then
      match split_rev (t_text tk) cuts_desc [] with
      | None => None
      | Some [] => Some [tk]
      | Some parts => Some (map (with_text tk) parts)
      end
    else Some [tk].

  Inductive tfilter :=
  | FLower | FAsciiFold | FRemoveLong (limit : N) | FAlnumOnly | FStop (words : list (list cp)) | FStem (lang : N) | FSplit (dict : N).

  Definition filter_fn (fl : tfilter) (tk : token) : option (list token) :=
    match fl with
    | FLower => Some [with_text tk (lower_text (t_text tk))]
    | FAsciiFold => Some [with_text tk (fold_text (t_text tk))]
    | FRemoveLong limit => Some (if blen (t_text tk) <? limit then [tk] else [])      (* text.len() < limit *)
    | FAlnumOnly => Some (if forallb is_ascii_alnum (t_text tk) then [tk] else [])
    | FStop words => Some (if existsb (cps_eqb (t_text tk)) words then [] else [tk])
    | FStem l => Some [with_text tk (stem l (t_text tk))]
    | FSplit d => split_token d tk
    end.

  Definition apply_filter (fl : tfilter) (ts : list token) : option (list token) := omap_flat (filter_fn fl) ts.

  Fixpoint apply_chain (fs : list tfilter) (ts : list token) : option (list token) :=
    match fs with
    | [] => Some ts
    | fl :: r => match apply_filter fl ts with Some ts' => apply_chain r ts' | None => None end
    end.

  (* a filter that only drops tokens *)
  Definition drop_only (fl : tfilter) : bool :=
    match fl with FRemoveLong _ | FAlnumOnly | FStop _ => true | _ => false end.

  Lemma with_text_same tk t : same_span tk (with_text tk t).
  Proof. repeat split. Qed.
  Lemma same_span_refl tk : same_span tk tk.
  Proof. repeat split. Qed.

  Lemma filter_fn_span fl tk out : filter_fn fl tk = Some out -> Forall (same_span tk) out.
  Proof.
    destruct fl; cbn [filter_fn]; intros H; try (injection H as <-).
    - repeat constructor.
    - repeat constructor.
    - destruct (_ <? _); repeat constructor.
    - destruct (forallb _ _); repeat constructor.
    - destruct (existsb _ _); repeat constructor.
    - repeat constructor.
    - unfold split_token in H. destruct (cuts_loop _ _ _) as [pos cuts]. destruct (pos =? _).
      + destruct (split_rev _ _ _) as [[|p parts]|]; try discriminate; injection H as <-.
        * repeat constructor.
        * apply Forall_forall. intros x Hin. change (In x (map (with_text tk) (p :: parts))) in Hin.
          apply in_map_iff in Hin as (t & <- & _). apply with_text_same.
      + injection H as <-. repeat constructor.
  Qed.

  (* ---- offsets and order survive every chain ---- *)
  Theorem chain_preserves text : forall fs ts out,
    apply_chain fs ts = Some out ->
    Forall (span_ok text) ts ->
    Forall (span_ok text) out /\
    (pos_sorted ts -> pos_sorted out) /\
    (from_sorted ts -> from_sorted out) /\
    (forall tk', In tk' out -> exists tk, In tk ts /\ same_span tk tk').
  Proof.
    induction fs as [|fl fs IH]; intros ts out H Hall; cbn [apply_chain] in H.
    - injection H as <-. repeat split; auto. intros tk' Hin. exists tk'. split; [exact Hin|apply same_span_refl].
    - destruct (apply_filter fl ts) as [ts'|] eqn:Ef; [|discriminate]. unfold apply_filter in Ef.
      pose proof (omap_flat_span_ok _ (filter_fn_span fl) text ts ts' Ef Hall) as Hall'.
      destruct (IH ts' out H Hall') as (H1 & H2 & H3 & H4). split; [exact H1|]. split; [|split].
      + intros Hs. apply H2. eapply (omap_flat_sorted _ (filter_fn_span fl) t_pos); eauto. intros a b (_ & _ & E). exact E.
      + intros Hs. apply H3. eapply (omap_flat_sorted _ (filter_fn_span fl) t_from); eauto. intros a b (E & _). exact E.
      + intros tk' Hin. destruct (H4 tk' Hin) as (tk1 & Hin1 & S1).
        destruct (omap_flat_in _ (filter_fn_span fl) ts ts' Ef tk1 Hin1) as (tk0 & Hin0 & S0).
        exists tk0. split; [exact Hin0|]. destruct S0 as (A1 & A2 & A3), S1 as (B1 & B2 & B3).
        repeat split; congruence.
  Qed.

  (* ---- a chain that does not normalise keeps "token text = the slice it points to" ---- *)
  Lemma drop_only_sub fl : drop_only fl = true -> forall ts out, apply_filter fl ts = Some out ->
    forall tk, In tk out -> In tk ts.
  Proof.
    intros Hd. unfold apply_filter. induction ts as [|t r IH]; intros out H tk Hin; cbn [omap_flat] in H.
    - injection H as <-. destruct Hin.
    - destruct (filter_fn fl t) as [a|] eqn:Ef; [|discriminate]. destruct (omap_flat _ r) as [b|]; [|discriminate].
      injection H as <-. apply in_app_iff in Hin as [Hin|Hin]; [|right; eapply IH; eauto].
      left. destruct fl; try discriminate; cbn [filter_fn] in Ef; injection Ef as <-.
      + destruct (_ <? _); [destruct Hin as [<-|[]]; reflexivity|destruct Hin].
      + destruct (forallb _ _); [destruct Hin as [<-|[]]; reflexivity|destruct Hin].
      + destruct (existsb _ _); [destruct Hin|destruct Hin as [<-|[]]; reflexivity].
  Qed.

  Theorem drop_chain_keeps_text text : forall fs ts out,
    forallb drop_only fs = true -> apply_chain fs ts = Some out ->
    Forall (tok_ok text) ts -> Forall (tok_ok text) out.
  Proof.
    induction fs as [|fl fs IH]; intros ts out Hd H Hall; cbn [apply_chain] in H.
    - injection H as <-. exact Hall.
    - cbn [forallb] in Hd. apply andb_true_iff in Hd as [Hd1 Hd2].
      destruct (apply_filter fl ts) as [ts'|] eqn:Ef; [|discriminate].
      apply (IH ts' out Hd2 H). apply Forall_forall. intros tk Hin. rewrite Forall_forall in Hall.
      apply Hall. eapply drop_only_sub; eauto.
  Qed.

  (* more generally: any output token whose text a chain left unchanged still equals its slice *)
  Theorem unchanged_token_keeps_text text fs ts out tk' :
    apply_chain fs ts = Some out -> Forall (tok_ok text) ts -> In tk' out ->
    (exists tk, In tk ts /\ same_span tk tk' /\ t_text tk' = t_text tk) -> tok_ok text tk'.
  Proof.
    intros _ Hall _ (tk & Hin & (E1 & E2 & _) & E3). rewrite Forall_forall in Hall. specialize (Hall tk Hin).
    unfold tok_ok in *. rewrite E1, E2, E3. exact Hall.
  Qed.

  (* ---- the only filter that can panic is the compound splitter, and only when its dictionary
          matches off character boundaries (byte patterns that are not UTF-8) ---- *)
  Hypothesis dict_find_ok : forall d s a b, In (a, b) (dict_find d s) -> boundary s a /\ boundary s b.

  Lemma cuts_loop_boundaries s : forall ms pos cuts,
    (forall a b, In (a, b) ms -> boundary s a /\ boundary s b) ->
    boundary s pos -> Forall (boundary s) cuts ->
    Forall (boundary s) (snd (cuts_loop ms pos cuts)) /\ boundary s (fst (cuts_loop ms pos cuts)).
  Proof.
    induction ms as [|[a b] r IH]; intros pos cuts Hms Hpos Hcuts; cbn [cuts_loop]; [split; assumption|].
    destruct (N.eqb_spec pos a) as [->|_]; cbn [negb]; [|split; assumption].
    apply IH.
    - intros x y Hin. apply Hms. right. exact Hin.
    - apply (Hms a b). left. reflexivity.
    - constructor; assumption.
  Qed.

End Filters.
