(* C16 -- the query grammar's operator folding.
   Transliteration of query-grammar/src/query_grammar.rs
     aggregate_infallible_expressions / aggregate_binary_expressions
   (pairwise scan over (Option<BinaryOperand>, Option<Occur>, Option<UserInputAst>), `Must`
   defaulting next to AND, synthesized should-not, single-clause collapse), of
   query-grammar/src/occur.rs Occur::compose, of UserInputAst (user_input_ast.rs) over an abstract
   leaf type, and the boolean-query semantics of a clause (BooleanQuery: every Must, no MustNot,
   and -- when there is no Must -- at least one Should).
   Style: stdlib. *)
From TV Require Import Base.Prelude.

Inductive occur := Should | Must | MustNot.
Inductive binop := Or | And.

Definition occur_eqb (a b : occur) : bool :=
  match a, b with Should, Should | Must, Must | MustNot, MustNot => true | _, _ => false end.
Lemma occur_eqb_eq a b : occur_eqb a b = true <-> a = b.
Proof. destruct a, b; cbn; split; intros H; try reflexivity; try discriminate. Qed.

(* occur.rs Occur::compose *)
Definition compose (l r : occur) : occur :=
  match l, r with
  | Should, _ => r
  | Must, MustNot => MustNot
  | Must, _ => Must
  | MustNot, MustNot => Must
  | MustNot, _ => MustNot
  end.

(* user_input_ast.rs UserInputAst; the boost (an f64 written as a short decimal) is kept as
   (mantissa, number of fractional digits) with trailing zeros removed *)
Inductive ast (L : Type) : Type :=
| Clause (cs : list (option occur * ast L))
| Boost (a : ast L) (b : N * N)
| Leaf (l : L).
Arguments Clause {L} cs.
Arguments Boost {L} a b.
Arguments Leaf {L} l.

Section AstInd.
  Context {L : Type} (P : ast L -> Prop).
  Hypothesis HClause : forall cs, Forall (fun c => P (snd c)) cs -> P (Clause cs).
  Hypothesis HBoost : forall a b, P a -> P (Boost a b).
  Hypothesis HLeaf : forall l, P (Leaf l).
  Fixpoint ast_ind' (a : ast L) : P a :=
    match a with
    | Clause cs => HClause cs ((fix go (cs : list (option occur * ast L)) : Forall (fun c => P (snd c)) cs :=
                                 match cs with
                                 | [] => Forall_nil _
                                 | c :: r => Forall_cons c (ast_ind' (snd c)) (go r)
                                 end) cs)
    | Boost a b => HBoost a b (ast_ind' a)
    | Leaf l => HLeaf l
    end.
End AstInd.

(* ------------------------------------------------------------------ semantics *)
(* one boolean clause: (occur, does the sub-query match this document) *)
Definition is_must (o : occur) : bool := match o with Must => true | _ => false end.
Definition clause_ok (c : occur * bool) : bool :=
  match fst c with Must => snd c | MustNot => negb (snd c) | Should => true end.
Definition clause_sem (l : list (occur * bool)) : bool :=
  forallb clause_ok l &&
  (existsb (fun c => is_must (fst c)) l || existsb (fun c => occur_eqb (fst c) Should && snd c) l).

Definition resolve (dflt : occur) (o : option occur) : occur := match o with Some x => x | None => dflt end.

Section Sem.
  Context {L : Type}.
  Variable lsem : L -> bool.      (* does the leaf match the document under consideration *)
  Variable dflt : occur.          (* QueryParser::default_occur: Should, or Must in conjunction mode *)

  Fixpoint sem (a : ast L) : bool :=
    match a with
    | Leaf l => lsem l
    | Boost a _ => sem a
    | Clause cs =>
        clause_sem ((fix go (cs : list (option occur * ast L)) : list (occur * bool) :=
                       match cs with
                       | [] => []
                       | c :: r => (resolve dflt (fst c), sem (snd c)) :: go r
                       end) cs)
    end.

  Lemma sem_clause cs : sem (Clause cs) = clause_sem (map (fun c => (resolve dflt (fst c), sem (snd c))) cs).
  Proof.
    cbn [sem]. f_equal.
  Qed.
End Sem.

(* ------------------------------------------------------------------ the fold *)
Section Fold.
  Context {L : Type}.
  Notation ast := (ast L).
  Definition clause := (option occur * ast)%type.
  Definition triple := (option binop * option occur * ast)%type.

  Definition unary (o : occur) (a : ast) : ast := Clause [(Some o, a)].
  Definition or_else (o d : option occur) : option occur := match o with Some _ => o | None => d end.
  Definition is_mustnot (o : option occur) : bool := match o with Some MustNot => true | _ => false end.

  (* `clauses: Vec<Vec<(Option<Occur>, UserInputAst)>>` kept reversed (head = `clauses.last_mut()`,
     and every inner vector reversed as well) *)
  Definition acc := list (list clause).
  Definition push_new (c : clause) (a : acc) : acc := [c] :: a.
  Definition push_and (c : clause) (a : acc) : acc :=
    match a with [] => [[c]] | l :: r => (c :: l) :: r end.

  (* body of the `for ((prev_operator, occur, ast), (next_operator, _, _)) in leafs.zip(leafs.skip(1))` loop *)
  Definition step (a : acc) (prev : option binop) (occ : option occur) (x : ast) (next : option binop) : acc :=
    match prev with
    | Some And => push_and (or_else occ (Some Must), x) a
    | Some Or =>
        let dflt := match next with Some And => Must | _ => Should end in
        if is_mustnot occ && occur_eqb dflt Should
        then push_new (Some Should, unary MustNot x) a
        else push_new (or_else occ (Some dflt), x) a
    | None =>
        let dflt := match next with Some And => Some Must | Some Or => Some Should | None => None end in
        if is_mustnot occ && match dflt with Some Should => true | _ => false end
        then push_new (Some Should, unary MustNot x) a
        else push_new (or_else occ dflt, x) a
    end.

  (* `let (last_operator, last_occur, last_ast) = leafs.pop().unwrap(); match last_operator ...` *)
  Definition last_step (a : acc) (prev : option binop) (occ : option occur) (x : ast) : acc :=
    match prev with
    | Some And => push_and (or_else occ (Some Must), x) a
    | Some Or =>
        if is_mustnot occ then push_new (Some Should, unary MustNot x) a
        else push_new (or_else occ (Some Should), x) a
    | None => push_new (occ, x) a
    end.

  Fixpoint scan (a : acc) (l : list triple) : acc :=
    match l with
    | [] => a
    | t :: rest =>
        match rest with
        | [] => last_step a (fst (fst t)) (snd (fst t)) (snd t)
        | n :: _ => scan (step a (fst (fst t)) (snd (fst t)) (snd t) (fst (fst n))) rest
        end
    end.

  (* `if clauses.len() == 1 { ... } else { final_clauses ... }` *)
  Definition wrap (sub : list clause) : clause :=
    match sub with [c] => c | _ => (Some Should, Clause sub) end.
  Definition finalize (clauses : list (list clause)) : ast :=
    match clauses with
    | [cl] =>
        match cl with
        | [c] => if is_mustnot (fst c) then Clause cl else snd c
        | _ => Clause cl
        end
    | _ => Clause (map wrap clauses)
    end.

  Definition unrev (a : acc) : list (list clause) := rev (map (@rev clause) a).

  Fixpoint keep_some (l : list (option binop * option occur * option ast)) : list triple :=
    match l with
    | [] => []
    | (p, o, Some x) :: r => (p, o, x) :: keep_some r
    | (_, _, None) :: r => keep_some r
    end.

  (* aggregate_infallible_expressions: the result and "an error was pushed" (the only error is
     `Found unexpected boolean operator before term`) *)
  Definition aggregate (input : list (option binop * option occur * option ast)) : ast * bool :=
    match keep_some input with
    | [] => (Clause [], false)
    | t :: r => (finalize (unrev (scan [] (t :: r))), match fst (fst t) with Some _ => true | None => false end)
    end.

  (* aggregate_binary_expressions(left, others): the first element carries no operator *)
  Definition aggregate_binary (left : option occur * ast) (others : list triple) : option ast :=
    let r := aggregate ((None, fst left, Some (snd left)) :: map (fun t => (fst (fst t), snd (fst t), Some (snd t))) others) in
    if snd r then None else Some (fst r).

  Lemma keep_some_all (l : list triple) : keep_some (map (fun t => (fst (fst t), snd (fst t), Some (snd t))) l) = l.
  Proof. induction l as [|[[p o] x] r IH]; [reflexivity|]. cbn. now rewrite IH. Qed.

  Lemma aggregate_binary_eq left others :
    aggregate_binary left others = Some (finalize (unrev (scan [] ((None, fst left, snd left) :: others)))).
  Proof.
    unfold aggregate_binary, aggregate. cbn [keep_some]. rewrite keep_some_all. reflexivity.
  Qed.

  (* ---------------------------------------------------------------- pure operator chains *)
  (* x1 op1 x2 op2 ... opn xn : no occurrence marker *)
  Definition chain_triples (x1 : ast) (rest : list (binop * ast)) : list triple :=
    (None, None, x1) :: map (fun p => (Some (fst p), None, snd p)) rest.

  Definition fold_chain (x1 : ast) (rest : list (binop * ast)) : ast :=
    finalize (unrev (scan [] (chain_triples x1 rest))).

  (* maximal AND-runs of a chain *)
  Fixpoint and_runs {A} (cur : list A) (rest : list (binop * A)) : list (list A) :=
    match rest with
    | [] => [rev cur]
    | (And, x) :: r => and_runs (x :: cur) r
    | (Or, x) :: r => rev cur :: and_runs [x] r
    end.

  (* lists of (implicit) clauses: `+a -b c` *)
  Definition occur_triples (l : list clause) : list triple := map (fun c => (None, fst c, snd c)) l.
End Fold.

(* ------------------------------------------------------------------ proofs *)
Lemma forallb_rev {A} (f : A -> bool) l : forallb f (rev l) = forallb f l.
Proof.
  induction l as [|x l IH]; [reflexivity|]. cbn [rev forallb]. rewrite forallb_app, IH. cbn. rewrite andb_true_r. apply andb_comm.
Qed.
Lemma existsb_rev {A} (f : A -> bool) l : existsb f (rev l) = existsb f l.
Proof.
  induction l as [|x l IH]; [reflexivity|]. cbn [rev existsb]. rewrite existsb_app, IH. cbn. rewrite orb_false_r. apply orb_comm.
Qed.

Section FoldProofs.
  Context {L : Type}.
  Variable lsem : L -> bool.
  Variable dflt : occur.
  Notation ast := (ast L).
  Notation sem := (sem lsem dflt).

  (* value of one run-clause: all of its members *)
  Definition sub_sem (sub : list (@clause L)) : bool := forallb (fun c => sem (snd c)) sub.

  (* the shape of every finished clause of a pure chain: a single Should, or >= 2 Musts *)
  Definition is_some_must (o : option occur) : bool := match o with Some Must => true | _ => false end.
  Definition all_must (sub : list (@clause L)) : bool := forallb (fun c => is_some_must (fst c)) sub.
  Definition good (sub : list (@clause L)) : bool :=
    match sub with
    | [(Some Should, _)] => true
    | _ => Nat.leb 2 (length sub) && all_must sub
    end.

  Lemma sub_sem_rev sub : sub_sem (rev sub) = sub_sem sub.
  Proof. apply forallb_rev. Qed.
  Lemma all_must_rev sub : all_must (rev sub) = all_must sub.
  Proof. apply forallb_rev. Qed.
  Lemma good_len2 (sub : list (@clause L)) : (2 <= length sub)%nat -> good sub = all_must sub.
  Proof.
    destruct sub as [|c1 [|c2 r]]; cbn [length]; try lia. intros _.
    unfold good. cbn [length Nat.leb andb]. destruct c1 as [[[]|] ?]; reflexivity.
  Qed.
  Lemma good_rev sub : good (rev sub) = good sub.
  Proof.
    destruct sub as [|c1 [|c2 r]]; [reflexivity|reflexivity|].
    rewrite !good_len2; [apply all_must_rev|cbn [length]; lia|rewrite rev_length; cbn [length]; lia].
  Qed.

  Lemma clause_sem_all_must (sub : list (@clause L)) :
    sub <> [] -> all_must sub = true ->
    clause_sem (map (fun c => (resolve dflt (fst c), sem (snd c))) sub) = sub_sem sub.
  Proof.
    intros Hne Hm. unfold clause_sem.
    assert (H1 : forallb clause_ok (map (fun c => (resolve dflt (fst c), sem (snd c))) sub) = sub_sem sub).
    { clear Hne. induction sub as [|[o x] r IH]; [reflexivity|].
      cbn [all_must forallb fst] in Hm. apply andb_true_iff in Hm as [Ho Hr].
      cbn [map forallb sub_sem fst snd]. fold (sub_sem r). rewrite (IH Hr).
      destruct o as [[]|]; try discriminate. reflexivity. }
    rewrite H1. destruct sub as [|[o x] r]; [congruence|].
    cbn [all_must forallb fst] in Hm. apply andb_true_iff in Hm as [Ho _].
    destruct o as [[]|]; try discriminate. cbn. now rewrite andb_true_r.
  Qed.

  Lemma good_member_sem sub :
    good sub = true -> (resolve dflt (fst (wrap sub)), sem (snd (wrap sub))) = (Should, sub_sem sub).
  Proof.
    intros Hg. destruct sub as [|c1 [|c2 r]].
    - discriminate.
    - destruct c1 as [[[]|] x]; try discriminate. cbn. now rewrite andb_true_r.
    - rewrite good_len2 in Hg by (cbn [length]; lia). cbn [wrap snd fst resolve]. f_equal.
      rewrite sem_clause. apply clause_sem_all_must; [discriminate|exact Hg].
  Qed.

  Lemma clause_sem_shoulds (vs : list bool) : clause_sem (map (fun v => (Should, v)) vs) = existsb (fun v => v) vs.
  Proof.
    unfold clause_sem.
    assert (H1 : forallb clause_ok (map (fun v => (Should, v)) vs) = true).
    { induction vs as [|v r IH]; [reflexivity|exact IH]. }
    assert (H2 : existsb (fun c : occur * bool => is_must (fst c)) (map (fun v => (Should, v)) vs) = false).
    { clear H1. induction vs as [|v r IH]; [reflexivity|exact IH]. }
    rewrite H1, H2. clear H1 H2. cbn [andb orb]. induction vs as [|v r IH]; [reflexivity|]. cbn. now rewrite IH.
  Qed.

  Lemma finalize_sem (clauses : list (list (@clause L))) :
    clauses <> [] -> forallb good clauses = true ->
    sem (finalize clauses) = existsb sub_sem clauses.
  Proof.
    intros Hne Hg.
    assert (Hgen : sem (Clause (map wrap clauses)) = existsb sub_sem clauses).
    { rewrite sem_clause, map_map.
      rewrite (map_ext_in _ (fun sub => (Should, sub_sem sub))).
      - rewrite <- (map_map sub_sem (fun v => (Should, v))), clause_sem_shoulds.
        clear. induction clauses as [|c r IH]; [reflexivity|]. cbn. now rewrite IH.
      - intros sub Hin. apply good_member_sem. rewrite forallb_forall in Hg. now apply Hg. }
    destruct clauses as [|cl [|cl2 r]]; [congruence| |exact Hgen].
    cbn [forallb] in Hg. rewrite andb_true_r in Hg.
    cbn [existsb]. rewrite orb_false_r.
    destruct cl as [|c1 [|c2 r]].
    - discriminate.
    - destruct c1 as [[[]|] x]; try discriminate. cbn. now rewrite andb_true_r.
    - cbn [finalize]. rewrite good_len2 in Hg by (cbn [length]; lia). rewrite sem_clause.
      apply clause_sem_all_must; [discriminate|exact Hg].
  Qed.

  (* precedence-respecting evaluation of a chain of truth values *)
  Fixpoint runs_sem (cur : bool) (rest : list (binop * bool)) : bool :=
    match rest with
    | [] => cur
    | (And, b) :: r => runs_sem (cur && b) r
    | (Or, b) :: r => cur || runs_sem b r
    end.

  Definition vals (rest : list (binop * ast)) : list (binop * bool) := map (fun p => (fst p, sem (snd p))) rest.

  Definition V (a : @acc L) : bool := existsb sub_sem a.

  (* state invariant while scanning a pure chain: before an element whose operator is AND the
     current (last) clause is a non-empty run of Musts; every other clause is finished *)
  Definition inv (a : @acc L) (prev : option binop) : Prop :=
    match prev with
    | Some And => exists cur done, a = cur :: done /\ cur <> [] /\ all_must cur = true /\ forallb good done = true
    | _ => forallb good a = true
    end.

  Definition cur_val (a : @acc L) (prev : option binop) (x : ast) : bool :=
    match prev, a with
    | Some And, cur :: _ => sub_sem cur && sem x
    | _, _ => sem x
    end.
  Definition done_val (a : @acc L) (prev : option binop) : bool :=
    match prev, a with
    | Some And, _ :: done => V done
    | _, _ => V a
    end.

  Lemma all_must_len2_good c1 c2 (r : list (@clause L)) : all_must (c1 :: c2 :: r) = true -> good (c1 :: c2 :: r) = true.
  Proof. intros H. rewrite good_len2 by (cbn [length]; lia). exact H. Qed.

  Lemma sub_sem_cons c (r : list (@clause L)) : sub_sem (c :: r) = sem (snd c) && sub_sem r.
  Proof. reflexivity. Qed.
  Lemma sub_sem_single (c : @clause L) : sub_sem [c] = sem (snd c).
  Proof. cbn. apply andb_true_r. Qed.
  Lemma V_cons s (r : @acc L) : V (s :: r) = sub_sem s || V r.
  Proof. reflexivity. Qed.
  Lemma all_must_cons x (cur : list (@clause L)) : all_must cur = true -> all_must ((Some Must, x) :: cur) = true.
  Proof. intros H. exact H. Qed.

  Lemma scan_cons2 (a : @acc L) t n rest :
    scan a (t :: n :: rest) = scan (step a (fst (fst t)) (snd (fst t)) (snd t) (fst (fst n))) (n :: rest).
  Proof. reflexivity. Qed.

  Lemma scan_chain rest : forall (a : @acc L) prev x,
    inv a prev -> (prev = None -> rest <> []) ->
    let out := scan a ((prev, None, x) :: map (fun p => (Some (fst p), None, snd p)) rest) in
    forallb good out = true /\ out <> [] /\
    V out = done_val a prev || runs_sem (cur_val a prev x) (vals rest).
  Proof.
    induction rest as [|[op y] rest IH]; intros a prev x Hinv Hne.
    - (* last element *)
      cbn [map scan fst snd vals runs_sem].
      destruct prev as [[]|].
      + (* Or *) cbn [last_step is_mustnot or_else push_new inv] in *.
        split; [|split]; [cbn [forallb good]; exact Hinv|discriminate|].
        unfold push_new. rewrite V_cons, sub_sem_single. cbn [snd done_val cur_val]. apply orb_comm.
      + (* And *) destruct Hinv as (cur & done & -> & Hcne & Hm & Hd).
        cbn [last_step or_else push_and].
        split; [|split]; [|discriminate|].
        * cbn [forallb]. rewrite Hd, andb_true_r.
          destruct cur as [|c r]; [congruence|]. apply all_must_len2_good. apply all_must_cons. exact Hm.
        * rewrite V_cons, sub_sem_cons. cbn [snd done_val cur_val].
          rewrite (andb_comm (sem x)). apply orb_comm.
      + exfalso. now apply Hne.
    - (* an element followed by (op, y) *)
      cbn [map fst snd]. rewrite scan_cons2. cbn [fst snd].
      set (a' := step a prev None x (Some op)).
      assert (Hstep : inv a' (Some op) /\
                      done_val a' (Some op) || runs_sem (cur_val a' (Some op) y) (vals rest)
                      = done_val a prev || runs_sem (cur_val a prev x) (vals ((op, y) :: rest))).
      { unfold a'. cbn [vals map fst snd runs_sem]. fold (vals rest).
        assert (Hnew : forall prev', prev' <> Some And -> inv a prev' ->
                  inv (match op with
                       | Or => push_new (Some Should, x) a
                       | And => push_new (Some Must, x) a end) (Some op) /\
                  done_val (match op with
                       | Or => push_new (Some Should, x) a
                       | And => push_new (Some Must, x) a end) (Some op)
                  || runs_sem (cur_val (match op with
                       | Or => push_new (Some Should, x) a
                       | And => push_new (Some Must, x) a end) (Some op) y) (vals rest)
                  = V a || match op with
                           | And => runs_sem (sem x && sem y) (vals rest)
                           | Or => sem x || runs_sem (sem y) (vals rest) end).
        { intros prev' Hp Hi.
          assert (Hga : forallb good a = true) by (destruct prev' as [[]|]; [exact Hi|congruence|exact Hi]).
          destruct op; unfold push_new.
          - split; [cbn [inv forallb good]; exact Hga|].
            cbn [done_val cur_val]. rewrite V_cons, sub_sem_single. cbn [snd].
            rewrite (orb_comm (sem x) (V a)). now rewrite orb_assoc.
          - split.
            + exists [(Some Must, x)], a. repeat split; [discriminate|exact Hga].
            + cbn [done_val cur_val]. rewrite sub_sem_single. reflexivity. }
        destruct prev as [[]|].
        - (* prev = Or *)
          specialize (Hnew (Some Or) ltac:(discriminate) Hinv).
          destruct op; cbn [step is_mustnot andb or_else done_val cur_val] in *; exact Hnew.
        - (* prev = And *)
          clear Hnew. destruct Hinv as (cur & done & -> & Hcne & Hm & Hd).
          cbn [step or_else push_and]. destruct op; cbn [inv].
          + split.
            * cbn [forallb]. rewrite Hd, andb_true_r. destruct cur as [|c r]; [congruence|].
              apply all_must_len2_good. apply all_must_cons. exact Hm.
            * cbn [done_val cur_val]. rewrite V_cons, sub_sem_cons. cbn [snd].
              rewrite (andb_comm (sem x)).
              rewrite (orb_comm (sub_sem cur && sem x) (V done)). now rewrite orb_assoc.
          + split.
            * exists ((Some Must, x) :: cur), done. repeat split; [discriminate|apply all_must_cons; exact Hm|exact Hd].
            * cbn [done_val cur_val]. rewrite sub_sem_cons. cbn [snd]. now rewrite (andb_comm (sem x)).
        - (* first element *)
          specialize (Hnew None ltac:(discriminate) Hinv).
          destruct op; cbn [step is_mustnot andb or_else done_val cur_val] in *; exact Hnew. }
      destruct Hstep as [Hinv' Hval].
      specialize (IH a' (Some op) y Hinv' ltac:(discriminate)).
      cbv zeta in IH. destruct IH as (Hg & Hn & HV).
      split; [exact Hg|split; [exact Hn|]]. etransitivity; [exact HV|exact Hval].
  Qed.

  Lemma V_unrev a : existsb sub_sem (unrev a) = V a.
  Proof.
    unfold unrev, V. rewrite existsb_rev. induction a as [|s r IH]; [reflexivity|].
    cbn [map existsb]. now rewrite sub_sem_rev, IH.
  Qed.
  Lemma good_unrev a : forallb good (unrev a) = forallb good a.
  Proof.
    unfold unrev. rewrite forallb_rev. induction a as [|s r IH]; [reflexivity|].
    cbn [map forallb]. now rewrite good_rev, IH.
  Qed.
  Lemma unrev_nonempty (a : @acc L) : a <> [] -> unrev a <> [].
  Proof.
    unfold unrev. destruct a as [|s r]; [congruence|]. intros _ H. cbn [map rev] in H.
    apply app_eq_nil in H as [_ H]. discriminate.
  Qed.

  Theorem fold_chain_runs_sem x1 rest :
    sem (fold_chain x1 rest) = runs_sem (sem x1) (vals rest).
  Proof.
    unfold fold_chain, chain_triples.
    destruct rest as [|[op y] rest].
    - reflexivity.
    - pose proof (scan_chain ((op, y) :: rest) [] None x1) as H.
      cbv zeta in H. specialize (H eq_refl ltac:(discriminate)). destruct H as (Hg & Hn & HV).
      rewrite finalize_sem.
      + rewrite V_unrev, HV. reflexivity.
      + apply unrev_nonempty. exact Hn.
      + rewrite good_unrev. exact Hg.
  Qed.

  (* runs_sem is "OR over the maximal AND-runs of (AND of the members)" *)
  Lemma runs_sem_and_runs (cur : list bool) (rest : list (binop * bool)) :
    runs_sem (forallb (fun b => b) cur) rest = existsb (forallb (fun b => b)) (and_runs cur rest).
  Proof.
    revert cur. induction rest as [|[[] b] r IH]; intros cur.
    - cbn. now rewrite forallb_rev, orb_false_r.
    - cbn [runs_sem and_runs existsb]. rewrite forallb_rev. f_equal.
      rewrite <- IH. cbn. now rewrite andb_true_r.
    - cbn [runs_sem and_runs]. rewrite <- IH. cbn [forallb]. f_equal. apply andb_comm.
  Qed.

  Lemma and_runs_map {A B} (f : A -> B) cur (rest : list (binop * A)) :
    and_runs (map f cur) (map (fun p => (fst p, f (snd p))) rest) = map (map f) (and_runs cur rest).
  Proof.
    revert cur. induction rest as [|[[] x] r IH]; intros cur; cbn [map and_runs fst snd].
    - now rewrite map_rev.
    - rewrite map_rev. f_equal. apply (IH [x]).
    - apply (IH (x :: cur)).
  Qed.

  Theorem and_binds_tighter x1 rest :
    sem (fold_chain x1 rest) = existsb (forallb sem) (and_runs [x1] rest).
  Proof.
    rewrite fold_chain_runs_sem.
    replace (sem x1) with (forallb (fun b => b) [sem x1]) by (cbn; now rewrite andb_true_r).
    rewrite runs_sem_and_runs. unfold vals.
    change [sem x1] with (map sem [x1]). rewrite and_runs_map.
    induction (and_runs [x1] rest) as [|run rs IH]; [reflexivity|].
    cbn [map existsb]. rewrite IH. f_equal.
    clear. induction run as [|a r IH]; [reflexivity|]. cbn. now rewrite IH.
  Qed.

  (* ---------------------------------------------------------------- implicit lists: +a -b c *)
  Lemma scan_occur_list (l : list (@clause L)) : forall a,
    l <> [] -> scan a (occur_triples l) = rev (map (fun c => [c]) l) ++ a.
  Proof.
    induction l as [|c r IH]; intros a Hne; [congruence|].
    destruct r as [|c2 r].
    - destruct c as [o x]. reflexivity.
    - change (occur_triples (c :: c2 :: r)) with ((None, fst c, snd c) :: occur_triples (c2 :: r)).
      cbn [scan]. change (occur_triples (c2 :: r)) with ((None, fst c2, snd c2) :: occur_triples r).
      cbn [fst snd step]. rewrite andb_false_r. cbn [or_else].
      change ((None, fst c2, snd c2) :: occur_triples r) with (occur_triples (c2 :: r)).
      rewrite IH by discriminate. cbn [map rev]. unfold push_new.
      replace (or_else (fst c) None, snd c) with c by (destruct c as [[?|] ?]; reflexivity).
      rewrite <- !app_assoc. reflexivity.
  Qed.

  Lemma unrev_singletons (l : list (@clause L)) : unrev (rev (map (fun c => [c]) l)) = map (fun c => [c]) l.
  Proof.
    unfold unrev. rewrite <- map_rev, rev_involutive, map_map. cbn [rev app]. reflexivity.
  Qed.

  (* the fold of an implicit list with >= 2 members is the clause itself *)
  Lemma fold_occur_list c1 c2 (r : list (@clause L)) :
    finalize (unrev (scan [] (occur_triples (c1 :: c2 :: r)))) = Clause (c1 :: c2 :: r).
  Proof.
    rewrite scan_occur_list by discriminate. rewrite app_nil_r, unrev_singletons.
    cbn [map finalize]. do 3 f_equal. rewrite map_map. cbn. apply map_id.
  Qed.
  Lemma fold_occur_single (c : @clause L) :
    finalize (unrev (scan [] (occur_triples [c]))) = if is_mustnot (fst c) then Clause [c] else snd c.
  Proof. destruct c as [o x]. reflexivity. Qed.
End FoldProofs.
