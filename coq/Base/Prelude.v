(* Shared prelude: imports and arithmetic hygiene used by every stdlib-style file. *)
From Coq Require Export List Arith NArith ZArith Lia Bool.
From Coq Require Export ZifyBool ZifyNat ZifyN.
Export ListNotations.

Global Arguments N.add : simpl never.
Global Arguments N.sub : simpl never.
Global Arguments N.mul : simpl never.
Global Arguments N.div : simpl never.
Global Arguments N.modulo : simpl never.
Global Arguments N.eqb : simpl never.
Global Arguments N.ltb : simpl never.
Global Arguments N.leb : simpl never.
Global Arguments N.lxor : simpl never.
Global Arguments N.land : simpl never.
Global Arguments N.lor : simpl never.
Global Arguments N.shiftl : simpl never.
Global Arguments N.shiftr : simpl never.
Global Arguments N.div2 : simpl never.
Global Arguments N.pow : simpl never.

(* A byte is an N below 256; a byte string is a list of them. *)
Definition byte := N.
Definition bytes := list N.
Definition is_byte (b : N) : bool := N.ltb b 256.
Definition wf_bytes (l : bytes) : bool := forallb is_byte l.

Lemma wf_bytes_app a b : wf_bytes (a ++ b) = wf_bytes a && wf_bytes b.
Proof. unfold wf_bytes. apply forallb_app. Qed.

(* little-endian fixed-width encodings *)
Fixpoint le_bytes (n : nat) (x : N) : bytes :=
  match n with
  | O => []
  | S n' => N.modulo x 256 :: le_bytes n' (N.div x 256)
  end.

Fixpoint le_value (l : bytes) : N :=
  match l with
  | [] => 0
  | b :: r => (b + 256 * le_value r)%N
  end.

Lemma le_bytes_length n x : length (le_bytes n x) = n.
Proof. revert x; induction n as [|n IH]; intros x; simpl; [reflexivity|now rewrite IH]. Qed.

Lemma le_value_bytes n x : (x < 256 ^ N.of_nat n)%N -> le_value (le_bytes n x) = x.
Proof.
  revert x; induction n as [|n IH]; intros x Hx.
  - simpl in *. change (256 ^ N.of_nat 0)%N with 1%N in Hx. lia.
  - cbn [le_bytes le_value]. rewrite IH.
    + pose proof (N.div_mod x 256). lia.
    + rewrite Nat2N.inj_succ, N.pow_succ_r' in Hx.
      apply N.div_lt_upper_bound; lia.
Qed.

Lemma wf_le_bytes n x : wf_bytes (le_bytes n x) = true.
Proof.
  revert x; induction n as [|n IH]; intros x; simpl; [reflexivity|].
  rewrite IH, andb_true_r. unfold is_byte. apply N.ltb_lt. apply N.mod_lt. lia.
Qed.

(* n-fold iteration with the unfolding lemmas we need (Nat.iter has none in 8.16) *)
Fixpoint iter {A : Type} (n : nat) (f : A -> A) (x : A) : A :=
  match n with O => x | S n' => f (iter n' f x) end.
Lemma iter_succ {A} n (f : A -> A) x : iter (S n) f x = f (iter n f x).
Proof. reflexivity. Qed.
Lemma iter_succ_r {A} n (f : A -> A) x : iter (S n) f x = iter n f (f x).
Proof. induction n as [|n IH]; [reflexivity|]. rewrite iter_succ, IH. reflexivity. Qed.

Lemma skipn_app_exact {A} (a b : list A) : skipn (length a) (a ++ b) = b.
Proof. induction a as [|x a IH]; [reflexivity|exact IH]. Qed.
Lemma firstn_app_exact {A} (a b : list A) : firstn (length a) (a ++ b) = a.
Proof. induction a as [|x a IH]; [reflexivity|]. cbn [length app firstn]. now rewrite IH. Qed.

Fixpoint list_eqb {A} (eqb : A -> A -> bool) (a b : list A) : bool :=
  match a, b with
  | [], [] => true
  | x :: a', y :: b' => eqb x y && list_eqb eqb a' b'
  | _, _ => false
  end.

Lemma list_eqb_eq {A} (eqb : A -> A -> bool) (H : forall x y, eqb x y = true <-> x = y) a b :
  list_eqb eqb a b = true <-> a = b.
Proof.
  revert b; induction a as [|x a IH]; intros [|y b]; cbn [list_eqb]; try (split; [discriminate|discriminate]); [tauto|].
  rewrite andb_true_iff, H, IH. split; [intros [-> ->]; reflexivity|intros E; injection E; auto].
Qed.
