(* DocSet/Disjunction.v -- src/query/disjunction.rs: Disjunction with minimum_matches_required.
   The BinaryHeap of ScorerWrappers is a list from which the wrapper with the smallest current
   document is popped (which of several equal ones comes first is not observable on documents).
   Only advance and doc are overridden; the rest is the trait default. *)
From TV Require Import Base.Prelude Generated.Constants DocSet.Spec DocSet.Impl.
Local Open Scope N_scope.

Section Disjunction.
  Variable C : impl.
  Record dstate := { d_chains : list (st C); d_min : nat; d_cur : N; d_oof : bool }.

  (* BinaryHeap::pop on the reversed order = a chain with the smallest doc *)
  Fixpoint pop_min (ds : list (st C)) : option (st C * list (st C)) :=
    match ds with
    | [] => None
    | c :: r =>
        match pop_min r with
        | None => Some (c, [])
        | Some (m, r') => if N.leb (doc C c) (doc C m) then Some (c, r) else Some (m, c :: r')
        end
    end.

  Fixpoint d_loop (fuel : nat) (num : nat) (cur : N) (chains : list (st C)) (mn : nat) (oof : bool) : dstate :=
    match pop_min chains with
    | None => {| d_chains := chains; d_min := mn; d_cur := if Nat.ltb num mn then DOCSET_TERMINATED else cur; d_oof := oof |}
    | Some (cand, rest) =>
        match fuel with
        | O => {| d_chains := chains; d_min := mn; d_cur := cur; d_oof := true |}
        | S f =>
            let next := doc C cand in
            if N.eqb next DOCSET_TERMINATED then d_loop f num cur rest mn oof     (* dropped *)
            else if negb (N.eqb cur next) then
              if Nat.leb mn num then {| d_chains := cand :: rest; d_min := mn; d_cur := cur; d_oof := oof |}
              else d_loop f 1 next (advance C cand :: rest) mn oof
            else d_loop f (S num) cur (advance C cand :: rest) mn oof
        end
    end.
  Definition d_total (ds : list (st C)) : nat := fold_right (fun d n => (S (size C d) + n)%nat) 1%nat ds.
  Definition d_advance (s : dstate) : dstate := d_loop (d_total (d_chains s)) 0 (d_cur s) (d_chains s) (d_min s) (d_oof s).
  Definition d_new (ds : list (st C)) (mn : nat) : dstate :=
    let s0 := {| d_chains := ds; d_min := mn; d_cur := DOCSET_TERMINATED; d_oof := false |} in
    if Nat.ltb (length ds) mn then s0 else d_advance s0.
  Definition d_doc (s : dstate) := d_cur s.
  Definition d_size (s : dstate) : nat := d_total (d_chains s).
  Definition d_set_oof (s : dstate) := {| d_chains := d_chains s; d_min := d_min s; d_cur := d_cur s; d_oof := true |}.
  Definition d_ok (s : dstate) := negb (d_oof s) && forallb (ok C) (d_chains s).
  Definition disj_impl : impl := mk_default d_doc d_advance d_size d_set_oof d_ok.
End Disjunction.
