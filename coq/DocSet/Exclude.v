(* DocSet/Exclude.v -- src/query/exclude.rs: Exclude<TDocSet, TExclusionSet>.
   The exclusion set is a list of docsets (a single docset is the singleton list); `contains` asks
   each of them seek_danger(doc) and stops at the first Found. Exclude overrides advance, seek, doc;
   everything else is the trait default (over Exclude's own doc/advance/seek). *)
From TV Require Import Base.Prelude Generated.Constants DocSet.Spec DocSet.Impl.
Local Open Scope N_scope.

Section Exclude.
  Variables A B : impl.

  Record xstate := { x_und : st A; x_exc : list (st B); x_oof : bool }.

  (* impl ExclusionSet for Vec<TDocSet>: for docset in self.iter_mut() { if seek_danger(doc) == Found { return true } } false *)
  Fixpoint contains (d : N) (ex : list (st B)) : bool * list (st B) :=
    match ex with
    | [] => (false, [])
    | e :: r =>
        let '(res, e') := seek_danger B d e in
        match res with
        | SdFound => (true, e' :: r)
        | SdLower _ => let '(b, r') := contains d r in (b, e' :: r')
        end
    end.

  (* Exclude::new: while und.doc() != DOCSET_TERMINATED { if !excl.contains(und.doc()) { break } und.advance(); }
     Exclude::advance is the same loop entered after one und.advance(); Exclude::seek enters it after
     und.seek(target) (its tail call self.advance() is the next iteration). *)
  Fixpoint skip_loop (fuel : nat) (u : st A) (ex : list (st B)) (oof : bool) : xstate :=
    let d := doc A u in
    if N.eqb d DOCSET_TERMINATED then {| x_und := u; x_exc := ex; x_oof := oof |}
    else
      let '(b, ex') := contains d ex in
      if b then
        match fuel with
        | O => {| x_und := u; x_exc := ex'; x_oof := true |}
        | S f => skip_loop f (advance A u) ex' oof
        end
      else {| x_und := u; x_exc := ex'; x_oof := oof |}.

  Definition x_new (u : st A) (ex : list (st B)) : xstate := skip_loop (size A u) u ex false.
  Definition x_doc (s : xstate) : N := doc A (x_und s).
  Definition x_advance (s : xstate) : xstate :=
    let u' := advance A (x_und s) in skip_loop (size A u') u' (x_exc s) (x_oof s).
  Definition x_seek (t : N) (s : xstate) : xstate :=
    let u' := seek A t (x_und s) in skip_loop (size A u') u' (x_exc s) (x_oof s).
  Definition x_size (s : xstate) : nat := size A (x_und s).
  Definition x_set_oof (s : xstate) : xstate := {| x_und := x_und s; x_exc := x_exc s; x_oof := true |}.
  Definition x_ok (s : xstate) : bool := negb (x_oof s) && ok A (x_und s) && forallb (ok B) (x_exc s).

  Definition exclude_impl : impl := mk_seek_impl x_doc x_advance x_seek x_size x_set_oof x_ok.
End Exclude.

Lemma filter_len_le {X} (f : X -> bool) l : (length (filter f l) <= length l)%nat.
Proof. induction l as [|x r IH]; [apply le_n|]. cbn [filter]. destruct (f x); cbn [length]; lia. Qed.

(* ---------- Exclude represents sem_exclude of what its children represent ---------- *)
Section ExcludeOk.
  Variables (A B : impl) (sa sb : bool).
  Variables (RA : st A -> list N -> Prop) (DA : st A -> N -> list N -> Prop).
  Variables (RB : st B -> list N -> Prop) (DB : st B -> N -> list N -> Prop).
  Hypothesis CA : contract A sa RA DA.
  Hypothesis CB : contract B sb RB DB.

  (* an exclusion child ready for `contains d'` for every d' >= d: valid, or dangling at some target <= d;
     le' is what it currently represents, which agrees with its original list le from d on *)
  Definition xready (d : N) (e : st B) (le : list N) : Prop :=
    exists le', (RB e le' \/ DB e d le') /\ forall x, d <= x -> (In x le' <-> In x le).
  Definition XI (ex : list (st B)) (d : N) (les : list (list N)) : Prop := Forall2 (xready d) ex les.

  Lemma xready_mono d d' e le : d <= d' -> xready d e le -> xready d' e le.
  Proof.
    intros Hd [le' [H1 H2]]. exists le'. split.
    - destruct H1 as [H1|H1]; [now left|right]. exact (c_Dmono _ _ _ _ CB _ _ _ _ H1 Hd).
    - intros x Hx. apply H2. lia.
  Qed.
  Lemma XI_mono ex d d' les : d <= d' -> XI ex d les -> XI ex d' les.
  Proof. intros Hd H. induction H; constructor; [eapply xready_mono; eassumption|assumption]. Qed.

  Lemma XI_ok ex d les : XI ex d les -> forallb (ok B) ex = true.
  Proof.
    intros H. induction H as [|e le ex les [le' [[H1|H1] _]] _ IH]; [reflexivity| |]; cbn [forallb]; rewrite IH, ?andb_true_r.
    - exact (c_ok _ _ _ _ CB _ _ H1).
    - exact (c_Dok _ _ _ _ CB _ _ _ H1).
  Qed.

  (* one seek_danger on a ready child *)
  Lemma xready_danger d e le : d < DOCSET_TERMINATED -> xready d e le ->
    match seek_danger B d e with
    | (SdFound, e') => In d le /\ xready d e' le
    | (SdLower _, e') => ~ In d le /\ xready d e' le
    end.
  Proof.
    intros HT [le' [H1 H2]].
    assert (Hin : In d le' <-> In d le) by (apply H2; lia).
    assert (HD : DB e d le' \/ (RB e le' /\ d < doc B e)).
    { destruct H1 as [H1|H1]; [|now left]. destruct (N.le_gt_cases (doc B e) d) as [Hle|Hgt].
      - left. apply (c_RD _ _ _ _ CB _ _ _ H1). now right.
      - right. split; [assumption|lia]. }
    destruct HD as [HD|[HR Hlt]].
    - pose proof (c_danger _ _ _ _ CB _ _ _ d HD (N.le_refl d) HT) as Hd.
      destruct (seek_danger B d e) as [[|b] e'].
      + destruct Hd as [Hi HR]. split; [tauto|]. exists (ds_seek d le'). split; [now left|].
        intros x Hx. rewrite <- H2 by assumption. rewrite ds_seek_In; [|apply (c_Dwf _ _ _ _ CB _ _ _ HD)]. tauto.
      + destruct Hd as [Hi [_ [_ HD']]]. split; [tauto|]. exists (ds_seek d le'). split; [now right|].
        intros x Hx. rewrite <- H2 by assumption. rewrite ds_seek_In; [|apply (c_Dwf _ _ _ _ CB _ _ _ HD)]. tauto.
    - destruct (c_danger_below _ _ _ _ CB _ _ _ HR Hlt) as [b [Hb HR']].
      destruct (seek_danger B d e) as [r e']. cbn [fst snd] in *. subst r.
      assert (Hn : ~ In d le').
      { intros Hi. pose proof (c_wf _ _ _ _ CB _ _ HR) as Hwf. rewrite (c_doc _ _ _ _ CB _ _ HR) in Hlt.
        destruct le' as [|y r']; [destruct Hi|]. cbn [ds_doc] in Hlt. destruct Hwf as [[Hall _] _].
        destruct Hi as [E|Hi]; [lia|]. rewrite Forall_forall in Hall. specialize (Hall _ Hi). lia. }
      split; [tauto|]. exists le'. split; [now left|assumption].
  Qed.

  Lemma contains_ok d ex les : d < DOCSET_TERMINATED -> XI ex d les ->
    fst (contains B d ex) = existsb (mem d) les /\ XI (snd (contains B d ex)) d les.
  Proof.
    intros HT H. induction H as [|e le ex les He Hr IH]; [cbn; split; [reflexivity|constructor]|].
    cbn [contains existsb]. pose proof (xready_danger d e le HT He) as Hd.
    destruct (seek_danger B d e) as [[|b] e'].
    - destruct Hd as [Hi He']. cbn [fst snd]. split; [|constructor; assumption].
      apply mem_In in Hi. now rewrite Hi.
    - destruct Hd as [Hi He']. destruct IH as [IH1 IH2]. destruct (contains B d ex) as [b' r']. cbn [fst snd] in *.
      split; [|constructor; assumption].
      destruct (mem d le) eqn:E; [apply mem_In in E; tauto|]. cbn [orb]. exact IH1.
  Qed.

  Definition R_x (s : xstate A B) (l : list N) : Prop :=
    exists lu les, x_oof A B s = false /\ RA (x_und A B s) lu /\ XI (x_exc A B s) (ds_doc lu) les /\
                   (lu = [] \/ existsb (mem (ds_doc lu)) les = false) /\ l = sem_exclude lu les.

  Lemma skip_loop_ok fuel : forall u ex lu les d0, RA u lu -> XI ex d0 les -> d0 <= ds_doc lu -> (length lu <= fuel)%nat ->
    R_x (skip_loop A B fuel u ex false) (sem_exclude lu les).
  Proof.
    induction fuel as [|f IH]; intros u ex lu les d0 HR HX Hd Hf.
    - destruct lu; [|cbn in Hf; lia]. cbn [skip_loop]. rewrite (c_doc _ _ _ _ CA _ _ HR). cbn [ds_doc]. rewrite N.eqb_refl.
      exists [], les. cbn [x_oof x_und x_exc ds_doc]. repeat split; try assumption; [|now left].
      eapply XI_mono; [|eassumption]. exact Hd.
    - cbn [skip_loop]. rewrite (c_doc _ _ _ _ CA _ _ HR). destruct lu as [|d r].
      + cbn [ds_doc]. rewrite N.eqb_refl. exists [], les. cbn [x_oof x_und x_exc ds_doc]. repeat split; try assumption; [|now left].
        eapply XI_mono; [|eassumption]. exact Hd.
      + cbn [ds_doc] in *. pose proof (c_wf _ _ _ _ CA _ _ HR) as Hwf. pose proof (wf_docs_cons _ _ Hwf) as [HT [Hall Hwr]].
        destruct (N.eqb_spec d DOCSET_TERMINATED); [lia|].
        destruct (contains_ok d ex les HT (XI_mono _ _ _ _ Hd HX)) as [H1 H2].
        destruct (contains B d ex) as [b ex']. cbn [fst snd] in *. subst b. rewrite sem_exclude_cons.
        destruct (existsb (mem d) les) eqn:E.
        * apply (IH _ _ r les d); [exact (c_advance _ _ _ _ CA _ _ HR)|assumption| |cbn in Hf; lia].
          pose proof (ds_doc_tl_ge _ Hwf) as Hge. cbn [tl ds_doc] in Hge. exact Hge.
        * exists (d :: r), les. cbn [x_oof x_und x_exc ds_doc]. repeat split; try assumption; [now right|].
          rewrite sem_exclude_cons, E. reflexivity.
  Qed.

  (* Exclude::new *)
  Theorem exclude_new_repr u ex lu les : RA u lu -> Forall2 RB ex les ->
    R_x (x_new A B u ex) (sem_exclude lu les).
  Proof.
    intros HR HF. unfold x_new. apply (skip_loop_ok _ _ _ _ _ 0 HR); [|lia|exact (c_size _ _ _ _ CA _ _ HR)].
    induction HF; constructor; [|assumption]. exists y. split; [now left|tauto].
  Qed.

  Let H_wf : forall s l, R_x s l -> wf_docs l.
  Proof. intros s l [lu [les [_ [HR [_ [_ ->]]]]]]. apply sem_exclude_wf. exact (c_wf _ _ _ _ CA _ _ HR). Qed.
  Let H_size : forall s l, R_x s l -> (length l <= x_size A B s)%nat.
  Proof.
    intros s l [lu [les [_ [HR [_ [_ ->]]]]]]. unfold x_size. pose proof (c_size _ _ _ _ CA _ _ HR).
    pose proof (filter_len_le (fun d => negb (existsb (mem d) les)) lu). unfold sem_exclude. lia.
  Qed.
  Let H_doc : forall s l, R_x s l -> x_doc A B s = ds_doc l.
  Proof.
    intros s l [lu [les [_ [HR [_ [Hh ->]]]]]]. unfold x_doc. rewrite (c_doc _ _ _ _ CA _ _ HR).
    destruct lu as [|d r]; [reflexivity|]. destruct Hh as [Hh|Hh]; [discriminate|]. cbn [ds_doc] in *.
    rewrite sem_exclude_cons, Hh. reflexivity.
  Qed.
  Let H_ok : forall s l, R_x s l -> x_ok A B s = true.
  Proof.
    intros s l [lu [les [H0 [HR [HX _]]]]]. unfold x_ok. rewrite H0, (c_ok _ _ _ _ CA _ _ HR), (XI_ok _ _ _ HX). reflexivity.
  Qed.
  Let H_adv : forall s l, R_x s l -> R_x (x_advance A B s) (ds_advance l).
  Proof.
    intros s l [lu [les [H0 [HR [HX [Hh ->]]]]]]. unfold x_advance. rewrite H0.
    pose proof (c_advance _ _ _ _ CA _ _ HR) as HA. pose proof (c_wf _ _ _ _ CA _ _ HR) as Hwf.
    assert (E : ds_advance (sem_exclude lu les) = sem_exclude (ds_advance lu) les).
    { destruct lu as [|d r]; [reflexivity|]. destruct Hh as [Hh|Hh]; [discriminate|]. cbn [ds_doc] in Hh.
      rewrite sem_exclude_cons, Hh. reflexivity. }
    rewrite E. apply (skip_loop_ok _ _ _ _ _ (ds_doc lu) HA HX); [apply ds_doc_tl_ge, Hwf|exact (c_size _ _ _ _ CA _ _ HA)].
  Qed.
  Let H_seek : forall t s l, t <= DOCSET_TERMINATED -> R_x s l -> x_doc A B s <= t -> R_x (x_seek A B t s) (ds_seek t l).
  Proof.
    intros t s l Ht [lu [les [H0 [HR [HX [Hh ->]]]]]] Hd. unfold x_seek, x_doc in *. rewrite H0.
    pose proof (c_seek _ _ _ _ CA _ _ t HR Hd Ht) as HA. pose proof (c_wf _ _ _ _ CA _ _ HR) as Hwf.
    unfold sem_exclude. rewrite ds_seek_filter by apply Hwf.
    apply (skip_loop_ok _ _ _ _ _ (ds_doc lu) HA HX); [apply ds_doc_seek_ge, Hwf|exact (c_size _ _ _ _ CA _ _ HA)].
  Qed.

  (* Exclude overrides advance/seek/doc only: with the trait defaults it meets the (strong) contract *)
  Theorem exclude_contract : contract (exclude_impl A B) true R_x (fun s _ l => R_x s l).
  Proof. apply seek_impl_contract; assumption. Qed.
End ExcludeOk.
