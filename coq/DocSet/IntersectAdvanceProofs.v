(* DocSet/IntersectAdvanceProofs.v -- Intersection (src/query/intersection.rs) over ANY children meeting the
   contract of Impl.v: the leap-frog `advance` (left.seek, right.seek_danger, others.seek_danger with restarts on
   a lower bound), `seek` (go_to_first_doc, from IntersectProofs.v), `doc`, and the intersection's own
   `seek_danger`, so that `contract` holds for `inter_impl C` (sparse count path) with the children's strength
   and program_equivalence / danger_program_sound apply at any nesting depth.

   R_i : aligned valid state (every child valid, all on the same document), or the exhausted state left by
         `advance` (left valid and empty; right/others possibly dangling -- the code never repairs them, and
         never needs to: every later call first seeks left to TERMINATED).
   D_i : after a miss of the intersection's seek_danger: every child dangling at tau (or the exhausted form). *)
From TV Require Import Base.Prelude Generated.Constants DocSet.Spec DocSet.Impl DocSet.Program DocSet.Intersect DocSet.IntersectProofs.
Local Open Scope N_scope.

(* ---------- list facts ---------- *)
Lemma ds_doc_filter_ge f l : wf_docs l -> ds_doc l <= ds_doc (filter f l).
Proof.
  induction l as [|x r IH]; intros Hwf; [cbn; lia|]. cbn [filter]. destruct (f x); [cbn [ds_doc]; lia|].
  pose proof (ds_doc_tl_ge _ Hwf) as H1. cbn [tl] in H1. specialize (IH (wf_docs_tl _ Hwf)). cbn [tl] in IH. lia.
Qed.

Lemma ds_doc_ge_all b L : b <= DOCSET_TERMINATED -> (forall x, In x L -> b <= x) -> b <= ds_doc L.
Proof. destruct L as [|y r]; cbn [ds_doc]; [tauto|]. intros _ H. apply H. now left. Qed.

Lemma In_lt_T l x : wf_docs l -> In x l -> x < DOCSET_TERMINATED.
Proof. intros [_ H] Hi. rewrite Forall_forall in H. auto. Qed.

Lemma ds_seek_nil_ge t l : wf_docs l -> DOCSET_TERMINATED <= t -> ds_seek t l = [].
Proof. intros Hwf Ht. rewrite <- (ds_seek_seek DOCSET_TERMINATED t l Ht), (ds_seek_nil_T l Hwf). reflexivity. Qed.

Lemma seek_head_le_mem t l x : wf_docs l -> In x l -> t <= x -> ds_doc (ds_seek t l) <= x.
Proof.
  intros Hwf Hi Ht. apply ds_doc_le_In; [apply (wf_docs_seek t l Hwf)|]. apply ds_seek_In; [apply Hwf|tauto].
Qed.

Lemma ds_seek_succ_head L : wf_docs L -> ds_seek (ds_doc L + 1) L = tl L.
Proof.
  destruct L as [|x r]; [reflexivity|]. intros Hwf. apply wf_docs_cons in Hwf. destruct Hwf as [_ [Hall _]].
  cbn [ds_doc tl]. rewrite ds_seek_cons_lt by lia. apply ds_seek_all_ge. eapply Forall_impl; [|exact Hall]. cbn. intros; lia.
Qed.

Lemma sem_inter_common ls d : ls <> [] -> (In d (sem_inter ls) <-> common d ls).
Proof.
  destruct ls as [|a r]; [congruence|]. intros _. rewrite sem_inter_In. unfold common. split.
  - intros [H1 H2]. constructor; [assumption|]. rewrite Forall_forall. exact H2.
  - intros H. inversion H; subst. split; [assumption|]. rewrite <- Forall_forall. assumption.
Qed.

Lemma sem_inter_wf' ls : Forall wf_docs ls -> wf_docs (sem_inter ls).
Proof. destruct ls as [|a r]; [intros _; split; [exact I|constructor]|]. intros H. inversion H; subst. now apply sem_inter_wf. Qed.

(* l' keeps every member of l from t on and adds none *)
Definition sub_from (t : N) (l' l : list N) : Prop :=
  (forall x, In x l' -> In x l) /\ (forall x, t <= x -> In x l -> In x l').

Lemma sub_from_refl t l : sub_from t l l.
Proof. split; auto. Qed.
Lemma sub_from_seek t u l : wf_docs l -> u <= t -> sub_from t (ds_seek u l) l.
Proof.
  intros Hwf Hu. split.
  - intros x. apply ds_seek_In_sub.
  - intros x Hx Hi. apply ds_seek_In; [apply Hwf|]. split; [assumption|lia].
Qed.
Lemma sub_from_mono t t' l' l : t <= t' -> sub_from t l' l -> sub_from t' l' l.
Proof. intros Ht [H1 H2]. split; [assumption|]. intros x Hx. apply H2. lia. Qed.
Lemma sub_from_trans t a b c : sub_from t a b -> sub_from t b c -> sub_from t a c.
Proof. intros [H1 H2] [H3 H4]. split; [auto|]. intros x Hx Hi. auto. Qed.

Lemma Forall2_sub_refl t ls : Forall2 (sub_from t) ls ls.
Proof. induction ls; constructor; [apply sub_from_refl|assumption]. Qed.

Lemma common_sub_down t ls1 ls x : Forall2 (sub_from t) ls1 ls -> common x ls1 -> common x ls.
Proof.
  unfold common. induction 1 as [|a b ra rb [H1 _] _ IH]; intros Hc; [constructor|].
  inversion Hc; subst. constructor; auto.
Qed.
Lemma common_sub_up t ls1 ls x : Forall2 (sub_from t) ls1 ls -> t <= x -> common x ls -> common x ls1.
Proof.
  unfold common. induction 1 as [|a b ra rb [_ H2] _ IH]; intros Ht Hc; [constructor|].
  inversion Hc; subst. constructor; auto.
Qed.

(* the represented list after a round of partial seeks: nothing common lies in [cand, b) *)
Lemma inter_eq t cand b ls1 ls : Forall wf_docs ls -> Forall wf_docs ls1 -> Forall2 (sub_from t) ls1 ls -> ls <> [] ->
  t <= b -> cand <= b -> (forall x, common x ls -> cand <= x -> b <= x) ->
  ds_seek b (sem_inter ls1) = ds_seek cand (sem_inter ls).
Proof.
  intros Hw Hw1 HF Hne Htb Hcb Hskip.
  assert (Hne1 : ls1 <> []) by (inversion HF; subst; congruence).
  apply ssorted_ext.
  - apply wf_docs_seek. now apply sem_inter_wf'.
  - apply wf_docs_seek. now apply sem_inter_wf'.
  - intros d. rewrite !ds_seek_In by (apply sem_inter_wf'; assumption).
    rewrite !sem_inter_common by assumption. split.
    + intros [H1 H2]. split; [eapply common_sub_down; eassumption|lia].
    + intros [H1 H2]. pose proof (Hskip d H1 H2). split; [|assumption]. eapply common_sub_up; [eassumption|lia|assumption].
Qed.

Lemma inter_eq0 t cand b l1 r1 ls : Forall wf_docs ls -> Forall wf_docs (l1 :: r1) -> Forall2 (sub_from t) (l1 :: r1) ls -> ls <> [] ->
  t <= b -> cand <= b -> (forall x, common x ls -> cand <= x -> b <= x) -> b <= ds_doc l1 ->
  sem_inter (l1 :: r1) = ds_seek cand (sem_inter ls).
Proof.
  intros Hw Hw1 HF Hne Htb Hcb Hskip Hb.
  rewrite <- (inter_eq t cand b (l1 :: r1) ls) by assumption. symmetry. apply ds_seek_all_ge.
  rewrite Forall_forall. intros x Hx. apply sem_inter_In in Hx. destruct Hx as [Hx _].
  inversion Hw1; subst. pose proof (ds_doc_le_In l1 x (proj1 H1) Hx). lia.
Qed.

Lemma filter_len_le' {X} (f : X -> bool) l : (length (filter f l) <= length l)%nat.
Proof. induction l as [|x r IH]; [apply le_n|]. cbn [filter]. destruct (f x); cbn [length]; lia. Qed.

Lemma Forall_map_const {A B} (P : B -> Prop) (b : B) (l : list A) : P b -> Forall P (map (fun _ => b) l).
Proof. intros H. induction l; constructor; assumption. Qed.

Section InterContract.
  Variables (C : impl) (strong : bool) (RC : st C -> list N -> Prop) (DC : st C -> N -> list N -> Prop).
  Hypothesis CC : contract C strong RC DC.

  Definition anyD (c : st C) : Prop := exists tau l, DC c tau l.
  Definition DCat (tau : N) (c : st C) (l : list N) : Prop := DC c tau l.
  Definition rest_of (s : istate C) : list (st C) := i_right C s :: i_others C s.

  Definition R_i (s : istate C) (l : list N) : Prop :=
    i_oof C s = false /\ i_dense C s = false /\
    ((exists ls, Forall2 RC (all_of C s) ls /\ (exists c, Forall (fun l => ds_doc l = c) ls) /\ l = sem_inter ls)
     \/ (l = [] /\ RC (i_left C s) [] /\ Forall anyD (rest_of s))).

  Definition D_i (s : istate C) (tau : N) (l : list N) : Prop :=
    i_oof C s = false /\ i_dense C s = false /\
    exists ll, DC (i_left C s) tau ll /\
      ((exists lrs, Forall2 (DCat tau) (rest_of s) lrs /\ l = sem_inter (ll :: lrs))
       \/ (ll = [] /\ l = [] /\ Forall anyD (rest_of s))).

  (* ---- small conversions ---- *)
  Lemma R_to_D c l tau : RC c l -> ds_doc l <= tau -> DC c tau l.
  Proof. intros HR Hd. apply (c_RD _ _ _ _ CC _ _ _ HR). right. now rewrite (c_doc _ _ _ _ CC _ _ HR). Qed.

  Lemma R_anyD c l : RC c l -> anyD c.
  Proof.
    intros HR. exists DOCSET_TERMINATED, l. apply R_to_D; [assumption|]. apply ds_doc_le_T. exact (c_wf _ _ _ _ CC _ _ HR).
  Qed.

  Lemma DCat_mono tau tau' cs ls : tau <= tau' -> Forall2 (DCat tau) cs ls -> Forall2 (DCat tau') cs ls.
  Proof. intros Ht. apply Forall2_imp. intros a b H. exact (c_Dmono _ _ _ _ CC _ _ _ _ H Ht). Qed.

  Lemma DCat_anyD tau cs ls : Forall2 (DCat tau) cs ls -> Forall anyD cs.
  Proof. induction 1 as [|c l cs ls H _ IH]; constructor; [exists tau, l; exact H|assumption]. Qed.

  Lemma DCat_wf tau cs ls : Forall2 (DCat tau) cs ls -> Forall wf_docs ls.
  Proof. induction 1 as [|c l cs ls H _ IH]; constructor; [exact (c_Dwf _ _ _ _ CC _ _ _ H)|assumption]. Qed.

  Lemma DCat_ok tau cs ls : Forall2 (DCat tau) cs ls -> forallb (ok C) cs = true.
  Proof. induction 1 as [|c l cs ls H _ IH]; [reflexivity|]. cbn [forallb]. now rewrite (c_Dok _ _ _ _ CC _ _ _ H), IH. Qed.

  Lemma anyD_ok cs : Forall anyD cs -> forallb (ok C) cs = true.
  Proof. induction 1 as [|c cs [tau [l H]] _ IH]; [reflexivity|]. cbn [forallb]. now rewrite (c_Dok _ _ _ _ CC _ _ _ H), IH. Qed.

  Lemma RC_ok cs ls : Forall2 RC cs ls -> forallb (ok C) cs = true.
  Proof. induction 1 as [|c l cs ls H _ IH]; [reflexivity|]. cbn [forallb]. now rewrite (c_ok _ _ _ _ CC _ _ H), IH. Qed.

  Lemma RC_wf cs ls : Forall2 RC cs ls -> Forall wf_docs ls.
  Proof. induction 1 as [|c l cs ls H _ IH]; constructor; [exact (c_wf _ _ _ _ CC _ _ H)|assumption]. Qed.

  Lemma RC_to_DCat tau cs ls : Forall2 RC cs ls -> (strong = true \/ Forall (fun l => ds_doc l <= tau) ls) -> Forall2 (DCat tau) cs ls.
  Proof.
    induction 1 as [|c l cs ls H _ IH]; intros Hs; [constructor|]. constructor.
    - destruct Hs as [Hs|Hs]; [apply (c_RD _ _ _ _ CC _ _ _ H); now left|]. inversion Hs; subst. now apply R_to_D.
    - apply IH. destruct Hs as [Hs|Hs]; [now left|right]. now inversion Hs.
  Qed.

  (* ---- the `for other in &mut self.others` loop with seek_danger ---- *)
  Lemma others_danger_ok t : t < DOCSET_TERMINATED -> forall os los, Forall2 (DCat t) os los ->
    match others_danger C t os with
    | (None, os') => Forall (In t) los /\ Forall2 RC os' (map (ds_seek t) los)
    | (Some b, os') => exists los', Forall2 (DCat t) os' los' /\ t < b /\ b <= DOCSET_TERMINATED /\
         (exists lo, In lo los /\ ~ In t lo /\ b <= ds_doc (ds_seek t lo)) /\
         Forall2 (sub_from t) los' los
    end.
  Proof.
    intros HT. induction 1 as [|o lo os los Ho Hos IH]; [cbn; split; constructor|].
    cbn [others_danger]. unfold DCat in Ho.
    pose proof (c_danger _ _ _ _ CC _ _ _ t Ho (N.le_refl t) HT) as Hd. pose proof (c_Dwf _ _ _ _ CC _ _ _ Ho) as Hwf.
    destruct (seek_danger C t o) as [[|b] o'].
    - destruct Hd as [Hin HR]. destruct (others_danger C t os) as [[b|] os'].
      + destruct IH as [los' [I1 [I2 [I3 [[lo' [I4 I5]] I6]]]]]. exists (ds_seek t lo :: los'). repeat split; try assumption.
        * constructor; [|assumption]. apply R_to_D; [assumption|]. rewrite (ds_seek_head_In t lo (proj1 Hwf) Hin). lia.
        * exists lo'. split; [now right|assumption].
        * constructor; [|assumption]. apply sub_from_seek; [assumption|lia].
      + destruct IH as [I1 I2]. split; [constructor; assumption|]. cbn [map]. constructor; assumption.
    - destruct Hd as [Hn [Hlt [Hle HD]]]. exists (ds_seek t lo :: los). repeat split.
      + constructor; assumption.
      + assumption.
      + pose proof (ds_doc_le_T _ (wf_docs_seek t lo Hwf)). lia.
      + exists lo. split; [now left|tauto].
      + constructor; [apply sub_from_seek; [assumption|lia]|apply Forall2_sub_refl].
  Qed.

  (* ---- leaving the 'outer loop: left.seek(TERMINATED) ---- *)
  Lemma adv_loop_exit fuel cand s : DOCSET_TERMINATED <= cand ->
    adv_loop C fuel cand s = {| i_left := seek C DOCSET_TERMINATED (i_left C s); i_right := i_right C s;
                                i_others := i_others C s; i_dense := i_dense C s; i_oof := i_oof C s |}.
  Proof. intros H. destruct fuel; cbn [adv_loop]; destruct (N.ltb_spec cand DOCSET_TERMINATED); try lia; reflexivity. Qed.

  Lemma exit_R fuel cand s ll : DOCSET_TERMINATED <= cand -> i_oof C s = false -> i_dense C s = false ->
    RC (i_left C s) ll -> Forall anyD (rest_of s) -> R_i (adv_loop C fuel cand s) [].
  Proof.
    intros Hc H0 H1 HL HA. rewrite adv_loop_exit by assumption. pose proof (c_wf _ _ _ _ CC _ _ HL) as Hwf.
    split; [exact H0|split; [exact H1|right]]. cbn [i_left rest_of i_right i_others]. repeat split; [|exact HA].
    rewrite <- (ds_seek_nil_T ll Hwf). apply (c_seek _ _ _ _ CC _ _ _ HL); [|lia].
    rewrite (c_doc _ _ _ _ CC _ _ HL). now apply ds_doc_le_T.
  Qed.

  Lemma inter_nil_ge cand ll r : wf_docs ll -> DOCSET_TERMINATED <= cand -> ds_seek cand (sem_inter (ll :: r)) = [].
  Proof. intros Hwf Hc. apply ds_seek_nil_ge; [now apply sem_inter_wf|assumption]. Qed.

  (* ---- the leap-frog loop ---- *)
  Lemma adv_loop_ok : forall fuel cand s ll lr los,
    i_oof C s = false -> i_dense C s = false ->
    RC (i_left C s) ll -> ds_doc ll <= cand ->
    DC (i_right C s) cand lr -> Forall2 (DCat cand) (i_others C s) los ->
    (cand < DOCSET_TERMINATED -> (length (ds_seek cand ll) < fuel)%nat) ->
    R_i (adv_loop C fuel cand s) (ds_seek cand (sem_inter (ll :: lr :: los))).
  Proof.
    assert (Hexit : forall fuel cand s ll lr los, DOCSET_TERMINATED <= cand ->
      i_oof C s = false -> i_dense C s = false -> RC (i_left C s) ll ->
      DC (i_right C s) cand lr -> Forall2 (DCat cand) (i_others C s) los ->
      R_i (adv_loop C fuel cand s) (ds_seek cand (sem_inter (ll :: lr :: los)))).
    { intros fuel cand s ll lr los Hc H0 H1 HL HR HO. rewrite inter_nil_ge; [|exact (c_wf _ _ _ _ CC _ _ HL)|assumption].
      apply (exit_R fuel cand s ll); try assumption. constructor; [exists cand, lr; exact HR|exact (DCat_anyD _ _ _ HO)]. }
    induction fuel as [|f IH]; intros cand s ll lr los H0 H1 HL Hd HR HO Hf;
      (destruct (N.lt_ge_cases cand DOCSET_TERMINATED) as [Hc|Hc]; [|now apply Hexit]).
    - specialize (Hf Hc). lia.
    - specialize (Hf Hc). cbn [adv_loop]. destruct (N.ltb_spec cand DOCSET_TERMINATED) as [_|]; [|lia].
      pose proof (c_wf _ _ _ _ CC _ _ HL) as Hwl. pose proof (c_Dwf _ _ _ _ CC _ _ _ HR) as Hwr.
      pose proof (DCat_wf _ _ _ HO) as Hwo.
      assert (HL' : RC (seek C cand (i_left C s)) (ds_seek cand ll)).
      { apply (c_seek _ _ _ _ CC _ _ _ HL); [|lia]. now rewrite (c_doc _ _ _ _ CC _ _ HL). }
      rewrite (c_doc _ _ _ _ CC _ _ HL'). pose proof (c_wf _ _ _ _ CC _ _ HL') as Hwl1.
      set (l' := seek C cand (i_left C s)) in *. set (ll1 := ds_seek cand ll) in *. set (cand' := ds_doc ll1).
      assert (Hcc : cand <= cand') by (destruct (ds_seek_head cand ll Hwl) as [H|[H _]]; [exact H|lia]).
      assert (Hc'T : cand' <= DOCSET_TERMINATED) by (now apply ds_doc_le_T).
      assert (Hwall : Forall wf_docs (ll :: lr :: los)) by (constructor; [|constructor]; assumption).
      assert (Hne : ll :: lr :: los <> []) by congruence.
      destruct (N.eq_dec cand' DOCSET_TERMINATED) as [ET|NT].
      + (* left exhausted: right.seek_danger(TERMINATED), then the loop ends *)
        assert (Enil : ll1 = []) by (apply ds_doc_T_nil; assumption).
        destruct (c_danger_T _ _ _ _ CC _ _ _ cand' HR) as [b [Hb [HbT HR']]]; [lia|].
        destruct (seek_danger C cand' (i_right C s)) as [res r']. cbn [fst snd] in *. subst res.
        assert (Elist : ds_seek cand (sem_inter (ll :: lr :: los)) = []).
        { cbn [sem_inter]. rewrite ds_seek_filter by apply Hwl. fold ll1. rewrite Enil. reflexivity. }
        rewrite Elist.
        assert (HX : forall fu, R_i (adv_loop C fu b {| i_left := l'; i_right := r'; i_others := i_others C s; i_dense := i_dense C s; i_oof := i_oof C s |}) []).
        { intros fu. apply (exit_R fu b _ ll1); cbn [i_left i_right i_others i_oof i_dense rest_of]; try assumption.
          constructor; [exists cand, lr; exact HR'|exact (DCat_anyD _ _ _ HO)]. }
        apply HX.
      + assert (Hc'lt : cand' < DOCSET_TERMINATED) by lia.
        assert (Hin1 : In cand' ll1) by (apply ds_doc_In; exact Hc'lt).
        assert (Hskip1 : forall x, In x ll -> cand <= x -> cand' <= x).
        { intros x Hx Hcx. now apply seek_head_le_mem. }
        pose proof (c_danger _ _ _ _ CC _ _ _ cand' HR Hcc Hc'lt) as Hdr.
        assert (HO' : Forall2 (DCat cand') (i_others C s) los) by (eapply DCat_mono; eassumption).
        assert (Hfuel : forall b, cand' < b -> (length (ds_seek b ll1) < f)%nat).
        { intros b Hb. destruct ll1 as [|x rest] eqn:E; [destruct Hin1|]. cbn [ds_doc] in cand'.
          rewrite ds_seek_cons_lt by (unfold cand' in Hb; lia). pose proof (ds_seek_length_le b rest). cbn [length] in Hf. lia. }
        destruct (seek_danger C cand' (i_right C s)) as [[|b] r'].
        * (* right found *)
          destruct Hdr as [Hinr HR'].
          pose proof (others_danger_ok cand' Hc'lt _ _ HO') as Hod.
          destruct (others_danger C cand' (i_others C s)) as [[b|] o'].
          -- destruct Hod as [los' [HO2 [Hlt [HbT [[lo [Hlo [Hnlo Hble]]] Hsub]]]]].
             assert (Hwo' : Forall wf_docs los') by exact (DCat_wf _ _ _ HO2).
             rewrite <- (inter_eq cand' cand b (ll1 :: ds_seek cand' lr :: los') (ll :: lr :: los)); try assumption; try lia.
             ++ apply IH; cbn [i_left i_right i_others i_oof i_dense]; try assumption.
                ** fold cand'. lia.
                ** apply R_to_D; [assumption|]. rewrite (ds_seek_head_In cand' lr (proj1 Hwr) Hinr). lia.
                ** eapply DCat_mono; [|exact HO2]. lia.
                ** intros _. apply Hfuel. exact Hlt.
             ++ constructor; [assumption|constructor; [now apply wf_docs_seek|assumption]].
             ++ constructor; [apply sub_from_seek; assumption|constructor; [apply sub_from_seek; [assumption|lia]|assumption]].
             ++ intros x Hx Hcx. inversion Hx as [|? ? Hxl Hx1]; subst. inversion Hx1 as [|? ? Hxr Hxo]; subst.
                rewrite Forall_forall in Hxo, Hwo. specialize (Hxo _ Hlo).
                pose proof (seek_head_le_mem cand' lo x (Hwo _ Hlo) Hxo (Hskip1 x Hxl Hcx)). lia.
          -- destruct Hod as [Hino HO2].
             rewrite <- (inter_eq0 cand' cand cand' ll1 (ds_seek cand' lr :: map (ds_seek cand') los) (ll :: lr :: los)); try assumption; try lia.
             ++ split; [exact H0|split; [exact H1|left]]. cbn [i_oof i_dense all_of i_left i_right i_others].
                exists (ll1 :: ds_seek cand' lr :: map (ds_seek cand') los). split; [constructor; [|constructor]; assumption|].
                split; [|reflexivity]. exists cand'. constructor; [reflexivity|constructor].
                ** apply ds_seek_head_In; [apply Hwr|assumption].
                ** rewrite Forall_map. rewrite Forall_forall in *. intros lo Hlo. apply ds_seek_head_In; [apply (Hwo _ Hlo)|auto].
             ++ constructor; [assumption|constructor; [now apply wf_docs_seek|]]. rewrite Forall_map.
                eapply Forall_impl; [|exact Hwo]. intros a. apply wf_docs_seek.
             ++ constructor; [apply sub_from_seek; assumption|constructor; [apply sub_from_seek; [assumption|lia]|]].
                clear - Hwo. induction los as [|a r IHr]; [constructor|]. inversion Hwo; subst. cbn [map].
                constructor; [apply sub_from_seek; [assumption|lia]|auto].
             ++ intros x Hx Hcx. inversion Hx; subst. auto.
        * (* right missed *)
          destruct Hdr as [Hnr [Hlt [Hble HR']]].
          assert (HbT : b <= DOCSET_TERMINATED) by (pose proof (ds_doc_le_T _ (wf_docs_seek cand' lr Hwr)); lia).
          rewrite <- (inter_eq cand' cand b (ll1 :: ds_seek cand' lr :: los) (ll :: lr :: los)); try assumption; try lia.
          -- apply IH; cbn [i_left i_right i_others i_oof i_dense]; try assumption.
             ++ fold cand'. lia.
             ++ apply (c_Dmono _ _ _ _ CC _ _ _ _ HR'). lia.
             ++ eapply DCat_mono; [|exact HO']. lia.
             ++ intros _. now apply Hfuel.
          -- constructor; [assumption|constructor; [now apply wf_docs_seek|assumption]].
          -- constructor; [apply sub_from_seek; assumption|constructor; [apply sub_from_seek; [assumption|lia]|apply Forall2_sub_refl]].
          -- intros x Hx Hcx. inversion Hx as [|? ? Hxl Hx1]; subst. inversion Hx1 as [|? ? Hxr Hxo]; subst.
             pose proof (seek_head_le_mem cand' lr x Hwr Hxr (Hskip1 x Hxl Hcx)). lia.
  Qed.
End InterContract.

(* ---------- seek, seek_danger, and the contract ---------- *)
Section InterContract2.
  Variables (C : impl) (strong : bool) (RC : st C -> list N -> Prop) (DC : st C -> N -> list N -> Prop).
  Hypothesis CC : contract C strong RC DC.
  Notation R_i := (R_i C RC DC).
  Notation D_i := (D_i C DC).
  Notation anyD := (anyD C DC).
  Notation DCat := (DCat C DC).

  (* go_to_first_doc when left is exhausted: every child (valid or dangling) is sought to TERMINATED *)
  Lemma gtfd_pass_T ds : Forall (fun c => RC (seek C DOCSET_TERMINATED c) []) ds ->
    gtfd_pass C DOCSET_TERMINATED ds = (None, map (seek C DOCSET_TERMINATED) ds).
  Proof.
    induction 1 as [|c r H _ IH]; [reflexivity|]. cbn [gtfd_pass map]. rewrite (c_doc _ _ _ _ CC _ _ H). cbn [ds_doc].
    destruct (N.ltb_spec DOCSET_TERMINATED DOCSET_TERMINATED); [lia|]. rewrite IH. reflexivity.
  Qed.

  Lemma max_doc_T l' rest : doc C l' = DOCSET_TERMINATED -> Forall anyD rest -> max_doc C (l' :: rest) = DOCSET_TERMINATED.
  Proof.
    intros Hd HA. unfold max_doc. cbn [fold_right]. rewrite Hd.
    assert (H : fold_right (fun d m => N.max (doc C d) m) 0 rest <= DOCSET_TERMINATED).
    { induction HA as [|c r [tau [l Hc]] _ IH]; cbn [fold_right]; [lia|]. pose proof (c_Ddoc _ _ _ _ CC _ _ _ Hc). lia. }
    lia.
  Qed.

  Lemma i_seek_T_ok s : i_oof C s = false -> i_dense C s = false ->
    RC (seek C DOCSET_TERMINATED (i_left C s)) [] -> Forall anyD (rest_of C s) -> R_i (i_seek C DOCSET_TERMINATED s) [].
  Proof.
    intros H0 H1 HL HA. unfold i_seek. set (l' := seek C DOCSET_TERMINATED (i_left C s)) in *.
    assert (Hall : Forall (fun c => RC (seek C DOCSET_TERMINATED c) []) (l' :: rest_of C s)).
    { constructor.
      - change [] with (ds_seek DOCSET_TERMINATED []). apply (c_seek _ _ _ _ CC _ _ _ HL); [|lia].
        rewrite (c_doc _ _ _ _ CC _ _ HL). cbn [ds_doc]. lia.
      - eapply Forall_impl; [|exact HA]. intros c [tau [l Hc]]. exact (c_Dterm _ _ _ _ CC _ _ _ Hc). }
    assert (E : go_to_first_doc C (l' :: i_right C s :: i_others C s) =
                (map (seek C DOCSET_TERMINATED) (l' :: i_right C s :: i_others C s), false)).
    { unfold go_to_first_doc. change (i_right C s :: i_others C s) with (rest_of C s).
      rewrite (max_doc_T l' (rest_of C s)); [|rewrite (c_doc _ _ _ _ CC _ _ HL); reflexivity|exact HA].
      destruct (total_size C (l' :: rest_of C s)); cbn [gtfd]; rewrite (gtfd_pass_T _ Hall); reflexivity. }
    rewrite E. cbn [map of_list]. rewrite H0, H1. cbn [orb].
    inversion Hall as [|? ? Hl Hrest]; subst. inversion Hrest as [|? ? Hr Ho]; subst.
    split; [reflexivity|split; [reflexivity|left]]. cbn [all_of i_left i_right i_others].
    exists ([] :: [] :: map (fun _ => []) (i_others C s)). split; [|split].
    - constructor; [assumption|constructor; [assumption|]]. clear - Ho.
      induction Ho as [|c r H _ IH]; cbn [map]; constructor; assumption.
    - exists DOCSET_TERMINATED. constructor; [reflexivity|constructor; [reflexivity|]]. apply Forall_map_const. reflexivity.
    - reflexivity.
  Qed.

  Let H_wf : forall s l, R_i s l -> wf_docs l.
  Proof.
    intros s l [_ [_ [[ls [HF [_ ->]]]|[-> _]]]]; [|split; [exact I|constructor]].
    apply sem_inter_wf'. exact (RC_wf C strong RC DC CC _ _ HF).
  Qed.

  Let H_ok : forall s l, R_i s l -> i_ok C s = true.
  Proof.
    intros s l [H0 [_ [[ls [HF _]]|[_ [HL HA]]]]]; unfold i_ok; rewrite H0; cbn [negb andb].
    - exact (RC_ok C strong RC DC CC _ _ HF).
    - unfold all_of. cbn [forallb]. rewrite (c_ok _ _ _ _ CC _ _ HL). exact (anyD_ok C strong RC DC CC _ HA).
  Qed.

  Let H_size : forall s l, R_i s l -> (length l <= i_size C s)%nat.
  Proof.
    intros s l [_ [_ [[ls [HF [_ ->]]]|[-> _]]]]; [|cbn; lia]. unfold all_of in HF. inversion HF as [|? ll ? lr HL _]; subst.
    unfold i_size. pose proof (c_size _ _ _ _ CC _ _ HL). cbn [sem_inter].
    pose proof (filter_len_le' (fun d => forallb (mem d) lr) ll). lia.
  Qed.

  Let H_doc : forall s l, R_i s l -> i_doc C s = ds_doc l.
  Proof.
    intros s l [H0 [_ [[ls [HF [Hc ->]]]|[-> [HL _]]]]].
    - apply (inter_doc_repr C strong RC DC CC). split; [exact H0|split; assumption].
    - unfold i_doc. exact (c_doc _ _ _ _ CC _ _ HL).
  Qed.

  Let H_adv : forall s l, R_i s l -> R_i (i_advance C s) (ds_advance l).
  Proof.
    intros s l HR. pose proof (H_wf _ _ HR) as Hwf. pose proof (H_doc _ _ HR) as Hdoc.
    destruct HR as [H0 [H1 [[ls [HF [[c Hc] ->]]]|[-> [HL HA]]]]]; unfold i_advance.
    - unfold all_of in HF. inversion HF as [|? ll ? lrs HL HF1]; subst. inversion HF1 as [|? lr ? los HR HO]; subst.
      inversion Hc as [|? ? Hcl Hc1]; subst. inversion Hc1 as [|? ? Hcr Hco]; subst.
      unfold ds_advance. rewrite <- (ds_seek_succ_head _ Hwf), <- Hdoc. unfold i_doc.
      apply (adv_loop_ok C strong RC DC CC); try assumption.
      + rewrite (c_doc _ _ _ _ CC _ _ HL). lia.
      + apply (R_to_D C strong RC DC CC); [assumption|]. rewrite (c_doc _ _ _ _ CC _ _ HL). lia.
      + apply (RC_to_DCat C strong RC DC CC); [assumption|right]. eapply Forall_impl; [|exact Hco].
        cbn. intros a Ha. rewrite (c_doc _ _ _ _ CC _ _ HL). lia.
      + intros _. pose proof (c_size _ _ _ _ CC _ _ HL). pose proof (ds_seek_length_le (doc C (i_left C s) + 1) ll). lia.
    - cbn [ds_advance tl]. apply (exit_R C strong RC DC CC _ _ s []); try assumption.
      rewrite (c_doc _ _ _ _ CC _ _ HL). cbn [ds_doc]. lia.
  Qed.

  Let H_seek : forall t s l, t <= DOCSET_TERMINATED -> R_i s l -> i_doc C s <= t -> R_i (i_seek C t s) (ds_seek t l).
  Proof.
    intros t s l Ht [H0 [H1 [[ls [HF [Hc ->]]]|[-> [HL HA]]]]] Hd.
    - destruct (inter_seek_repr C strong RC DC CC s ls t (conj H0 (conj HF Hc)) Hd Ht) as [ls' [[A0 [A1 A2]] [E Ed]]].
      split; [exact A0|split; [congruence|left]]. exists ls'. split; [exact A1|split; [exact A2|now symmetry]].
    - assert (t = DOCSET_TERMINATED). { unfold i_doc in Hd. rewrite (c_doc _ _ _ _ CC _ _ HL) in Hd. cbn [ds_doc] in Hd. lia. }
      subst t. cbn [ds_seek]. apply i_seek_T_ok; try assumption.
      change [] with (ds_seek DOCSET_TERMINATED []). apply (c_seek _ _ _ _ CC _ _ _ HL); [|lia].
      rewrite (c_doc _ _ _ _ CC _ _ HL). cbn [ds_doc]. lia.
  Qed.

  (* Intersection::new / intersect_scorers: the state built over valid children represents sem_inter (sparse count path) *)
  Theorem inter_new_R l r o ll lr los : RC l ll -> RC r lr -> Forall2 RC o los ->
    R_i (i_new C l r o false) (sem_inter (ll :: lr :: los)).
  Proof.
    intros Hl Hr Ho. destruct (inter_new_repr C strong RC DC CC l r o ll lr los false Hl Hr Ho) as [ls' [[A0 [A1 A2]] [E Ed]]].
    split; [exact A0|split; [exact Ed|left]]. exists ls'. split; [exact A1|split; [exact A2|now symmetry]].
  Qed.

  (* ---- seek_danger of the intersection itself ---- *)
  Lemma i_danger_ok s tau l t : D_i s tau l -> tau <= t -> t < DOCSET_TERMINATED ->
    match i_seek_danger C t s with
    | (SdFound, s') => In t l /\ R_i s' (ds_seek t l)
    | (SdLower b, s') => ~ In t l /\ t < b /\ b <= ds_doc (ds_seek t l) /\ D_i s' t (ds_seek t l)
    end.
  Proof.
    intros [H0 [H1 [ll [HL Hrest]]]] Htau HT. unfold i_seek_danger.
    pose proof (c_danger _ _ _ _ CC _ _ _ t HL Htau HT) as Hdl. pose proof (c_Dwf _ _ _ _ CC _ _ _ HL) as Hwl.
    destruct Hrest as [[lrs [HRs ->]]|[-> [-> HA]]].
    - unfold rest_of in HRs. inversion HRs as [|? lr ? los HR HO]; subst. unfold DCat in HR.
      pose proof (c_Dwf _ _ _ _ CC _ _ _ HR) as Hwr. pose proof (DCat_wf C strong RC DC CC _ _ _ HO) as Hwo.
      assert (Hwall : Forall wf_docs (ll :: lr :: los)) by (constructor; [|constructor]; assumption).
      assert (Hne : ll :: lr :: los <> []) by congruence.
      assert (Hsub : forall x, In x (sem_inter (ll :: lr :: los)) -> In x ll /\ In x lr /\ Forall (In x) los).
      { intros x Hx. apply sem_inter_common in Hx; [|assumption]. inversion Hx as [|? ? Ha Hb]; subst. inversion Hb; subst. tauto. }
      assert (Hbound : forall b lo, (In lo (ll :: lr :: los)) -> b <= ds_doc (ds_seek t lo) ->
                 b <= ds_doc (ds_seek t (sem_inter (ll :: lr :: los)))).
      { intros b lo Hlo Hb. assert (Hwlo : wf_docs lo) by (rewrite Forall_forall in Hwall; auto).
        apply ds_doc_ge_all; [pose proof (ds_doc_le_T _ (wf_docs_seek t lo Hwlo)); lia|].
        intros x Hx. apply ds_seek_In in Hx; [|apply sem_inter_wf'; assumption]. destruct Hx as [Hx Htx].
        apply sem_inter_common in Hx; [|assumption]. unfold common in Hx. rewrite Forall_forall in Hx.
        pose proof (seek_head_le_mem t lo x Hwlo (Hx _ Hlo) Htx). lia. }
      destruct (seek_danger C t (i_left C s)) as [[|b] l'].
      + destruct Hdl as [Hinl HL'].
        pose proof (c_danger _ _ _ _ CC _ _ _ t HR Htau HT) as Hdr.
        assert (HL'D : DC l' t (ds_seek t ll)).
        { apply (R_to_D C strong RC DC CC); [assumption|]. rewrite (ds_seek_head_In t ll (proj1 Hwl) Hinl). lia. }
        destruct (seek_danger C t (i_right C s)) as [[|b] r'].
        * destruct Hdr as [Hinr HR'].
          pose proof (others_danger_ok C strong RC DC CC t HT _ _ (DCat_mono C strong RC DC CC _ _ _ _ Htau HO)) as Hod.
          destruct (others_danger C t (i_others C s)) as [[b|] o'].
          -- destruct Hod as [los' [HO2 [Hlt [HbT [[lo [Hlo [Hnlo Hble]]] Hsub']]]]].
             repeat split.
             ++ intros Hx. apply Hsub in Hx. destruct Hx as [_ [_ Hx]]. rewrite Forall_forall in Hx. auto.
             ++ assumption.
             ++ apply (Hbound b lo); [now right; right|assumption].
             ++ assumption.
             ++ assumption.
             ++ cbn [i_left i_right i_others rest_of]. exists (ds_seek t ll). split; [assumption|left].
                exists (ds_seek t lr :: los'). split.
                ** constructor; [|assumption]. apply (R_to_D C strong RC DC CC); [assumption|].
                   rewrite (ds_seek_head_In t lr (proj1 Hwr) Hinr). lia.
                ** symmetry. rewrite <- (ds_seek_all_ge t (sem_inter (ds_seek t ll :: ds_seek t lr :: los'))).
                   --- apply (inter_eq t t t); try assumption; try lia.
                       +++ constructor; [now apply wf_docs_seek|constructor; [now apply wf_docs_seek|exact (DCat_wf C strong RC DC CC _ _ _ HO2)]].
                       +++ constructor; [apply sub_from_seek; [assumption|lia]|constructor; [apply sub_from_seek; [assumption|lia]|assumption]].
                   --- rewrite Forall_forall. intros x Hx. apply sem_inter_In in Hx. destruct Hx as [Hx _].
                       apply ds_seek_In in Hx; [tauto|apply Hwl].
          -- destruct Hod as [Hino HO2]. split.
             ++ apply sem_inter_common; [assumption|]. constructor; [assumption|constructor; assumption].
             ++ split; [exact H0|split; [exact H1|left]]. cbn [all_of i_left i_right i_others].
                exists (ds_seek t ll :: ds_seek t lr :: map (ds_seek t) los). split; [constructor; [|constructor]; assumption|split].
                ** exists t. constructor; [apply ds_seek_head_In; [apply Hwl|assumption]|constructor; [apply ds_seek_head_In; [apply Hwr|assumption]|]].
                   rewrite Forall_map. rewrite Forall_forall in *. intros lo Hlo. apply ds_seek_head_In; [apply (Hwo _ Hlo)|auto].
                ** change (ds_seek t ll :: ds_seek t lr :: map (ds_seek t) los) with (map (ds_seek t) (ll :: lr :: los)).
                   symmetry. apply sem_inter_seek; [assumption|constructor; assumption].
        * destruct Hdr as [Hnr [Hlt [Hble HR']]]. repeat split.
          -- intros Hx. apply Hsub in Hx. tauto.
          -- assumption.
          -- apply (Hbound b lr); [now right; left|assumption].
          -- assumption.
          -- assumption.
          -- cbn [i_left i_right i_others rest_of]. exists (ds_seek t ll). split; [assumption|left].
             exists (ds_seek t lr :: los). split; [constructor; [assumption|exact (DCat_mono C strong RC DC CC _ _ _ _ Htau HO)]|].
             symmetry. rewrite <- (ds_seek_all_ge t (sem_inter (ds_seek t ll :: ds_seek t lr :: los))).
             ++ apply (inter_eq t t t); try assumption; try lia.
                ** constructor; [now apply wf_docs_seek|constructor; [now apply wf_docs_seek|assumption]].
                ** constructor; [apply sub_from_seek; [assumption|lia]|constructor; [apply sub_from_seek; [assumption|lia]|apply Forall2_sub_refl]].
             ++ rewrite Forall_forall. intros x Hx. apply sem_inter_In in Hx. destruct Hx as [Hx _].
                apply ds_seek_In in Hx; [tauto|apply Hwl].
      + destruct Hdl as [Hnl [Hlt [Hble HL']]]. repeat split.
        * intros Hx. apply Hsub in Hx. tauto.
        * assumption.
        * apply (Hbound b ll); [now left|assumption].
        * assumption.
        * assumption.
        * cbn [i_left i_right i_others rest_of]. exists (ds_seek t ll). split; [assumption|left].
          exists (lr :: los). split; [exact (DCat_mono C strong RC DC CC _ _ _ _ Htau HRs)|].
          cbn [sem_inter]. apply ds_seek_filter. apply Hwl.
    - destruct (seek_danger C t (i_left C s)) as [[|b] l'].
      + destruct Hdl as [[] _].
      + destruct Hdl as [Hnl [Hlt [Hble HL']]]. repeat split; try assumption.
        cbn [i_left i_right i_others rest_of ds_seek] in *. exists []. split; [assumption|right]. repeat split. exact HA.
  Qed.

  Theorem inter_contract : contract (inter_impl C) strong R_i D_i.
  Proof.
    constructor; cbn [st doc advance seek seek_danger fill_buffer fill_bitset count size ok inter_impl]; try assumption.
    - intros s l t HR Hd Ht. now apply H_seek.
    - intros s l HR. exact (default_fill_buffer_ok (i_doc C) (i_advance C) (i_size C) (i_set_oof C) R_i H_wf H_size H_doc H_adv s l HR).
    - intros s l HR. unfold i_count. destruct HR as [H0 [H1 HR]]. rewrite H1.
      destruct (default_count_ok (i_doc C) (i_advance C) (i_size C) (i_set_oof C) R_i H_wf H_size H_doc H_adv s l (conj H0 (conj H1 HR))) as [E1 E2].
      split; [assumption|]. eapply H_ok; eassumption.
    - intros s l m HR Hd Hm.
      exact (default_fill_bitset_ok (i_doc C) (i_advance C) (i_seek C) (i_size C) (i_set_oof C) (i_ok C) R_i H_wf H_ok H_size H_doc H_adv H_seek s l m HR Hd Hm).
    - (* c_RD *)
      intros s l tau HR Hs. pose proof (H_doc _ _ HR) as Hdoc. destruct HR as [H0 [H1 [[ls [HF [[c Hc] ->]]]|[-> [HL HA]]]]].
      + unfold all_of in HF. inversion HF as [|? ll ? lrs HL HF1]; subst.
        assert (Hs' : strong = true \/ Forall (fun l => ds_doc l <= tau) (ll :: lrs)).
        { destruct Hs as [Hs|Hs]; [now left|right]. unfold i_doc in Hs. rewrite (c_doc _ _ _ _ CC _ _ HL) in Hs.
          inversion Hc as [|? ? Hcl Hc1]; subst. constructor; [assumption|]. eapply Forall_impl; [|exact Hc1]. cbn. intros; lia. }
        pose proof (RC_to_DCat C strong RC DC CC tau _ _ HF Hs') as HD. inversion HD as [|? ? ? ? HDl HDr]; subst.
        split; [exact H0|split; [exact H1|]]. exists ll. split; [exact HDl|left]. exists lrs. split; [exact HDr|reflexivity].
      + split; [exact H0|split; [exact H1|]]. exists []. split; [|right; repeat split; exact HA].
        apply (c_RD _ _ _ _ CC _ _ _ HL). destruct Hs as [Hs|Hs]; [now left|right]. exact Hs.
    - (* c_Dwf *)
      intros s tau l [_ [_ [ll [HL [[lrs [HRs ->]]|[_ [-> _]]]]]]]; [|split; [exact I|constructor]].
      apply sem_inter_wf. exact (c_Dwf _ _ _ _ CC _ _ _ HL).
    - (* c_Dok *)
      intros s tau l [H0 [_ [ll [HL Hrest]]]]. unfold i_ok, all_of. rewrite H0. cbn [negb andb forallb].
      rewrite (c_Dok _ _ _ _ CC _ _ _ HL). cbn [andb].
      destruct Hrest as [[lrs [HRs _]]|[_ [_ HA]]].
      + exact (DCat_ok C strong RC DC CC _ _ _ HRs).
      + exact (anyD_ok C strong RC DC CC _ HA).
    - (* c_Dmono *)
      intros s tau tau' l [H0 [H1 [ll [HL Hrest]]]] Ht. split; [exact H0|split; [exact H1|]]. exists ll.
      split; [exact (c_Dmono _ _ _ _ CC _ _ _ _ HL Ht)|]. destruct Hrest as [[lrs [HRs E]]|Hx]; [left|right; exact Hx].
      exists lrs. split; [exact (DCat_mono C strong RC DC CC _ _ _ _ Ht HRs)|exact E].
    - (* c_Ddoc *)
      intros s tau l [_ [_ [ll [HL _]]]]. exact (c_Ddoc _ _ _ _ CC _ _ _ HL).
    - (* c_Dterm *)
      intros s tau l [H0 [H1 [ll [HL Hrest]]]]. apply i_seek_T_ok; try assumption.
      + exact (c_Dterm _ _ _ _ CC _ _ _ HL).
      + destruct Hrest as [[lrs [HRs _]]|[_ [_ HA]]]; [exact (DCat_anyD C DC _ _ _ HRs)|exact HA].
    - (* c_danger *)
      intros s tau l t HD Ht HT. exact (i_danger_ok s tau l t HD Ht HT).
    - (* c_danger_below *)
      intros s l t HR Ht. unfold i_seek_danger.
      destruct HR as [H0 [H1 [[ls [HF [Hc E]]]|[E [HL HA]]]]].
      + unfold all_of in HF. inversion HF as [|? ll ? lrs HL HF1]; subst.
        destruct (c_danger_below _ _ _ _ CC _ _ _ HL Ht) as [b [Hb HL']].
        destruct (seek_danger C t (i_left C s)) as [res l']. cbn [fst snd] in *. subst res. exists b. split; [reflexivity|].
        split; [exact H0|split; [exact H1|left]]. exists (ll :: lrs). split; [|split; [assumption|reflexivity]].
        unfold all_of. cbn [i_left i_right i_others]. constructor; assumption.
      + destruct (c_danger_below _ _ _ _ CC _ _ _ HL Ht) as [b [Hb HL']].
        destruct (seek_danger C t (i_left C s)) as [res l']. cbn [fst snd] in *. subst res. exists b. split; [reflexivity|].
        split; [exact H0|split; [exact H1|right]]. cbn [i_left i_right i_others rest_of] in *. repeat split; assumption.
    - (* c_danger_T *)
      intros s tau l t [H0 [H1 [ll [HL Hrest]]]] Ht. unfold i_seek_danger.
      destruct (c_danger_T _ _ _ _ CC _ _ _ t HL Ht) as [b [Hb [HbT HL']]].
      destruct (seek_danger C t (i_left C s)) as [res l']. cbn [fst snd] in *. subst res. exists b. repeat split; try assumption.
      cbn [i_left i_right i_others rest_of]. exists ll. split; [assumption|exact Hrest].
  Qed.
End InterContract2.

(* ---------- consequences ---------- *)
Theorem inter_program_equivalence (C : impl) strong RC DC : contract C strong RC DC ->
  forall l r o ll lr los prog, RC l ll -> RC r lr -> Forall2 RC o los ->
  valid_prog (sem_inter (ll :: lr :: los)) prog ->
  run (inter_impl C) (i_new C l r o false) prog = spec_run (sem_inter (ll :: lr :: los)) prog.
Proof.
  intros CC l r o ll lr los prog Hl Hr Ho HV.
  apply (program_equivalence _ _ _ _ (inter_contract C strong RC DC CC)); [|exact HV].
  exact (inter_new_R C strong RC DC CC l r o ll lr los Hl Hr Ho).
Qed.

(* nesting: an intersection whose children are intersections of leaves, on every valid program *)
Theorem inter_nested_all_programs a b c d e f prog :
  wf_docs a -> wf_docs b -> wf_docs c -> wf_docs d -> wf_docs e -> wf_docs f ->
  valid_prog (sem_inter [sem_inter [a; b]; sem_inter [c; d; e]; sem_inter [f; a]]) prog ->
  run (inter_impl (inter_impl vec_impl))
      (i_new (inter_impl vec_impl)
         (i_new vec_impl (vec_of a) (vec_of b) [] false)
         (i_new vec_impl (vec_of c) (vec_of d) [vec_of e] false)
         [i_new vec_impl (vec_of f) (vec_of a) [] false] false) prog
  = spec_run (sem_inter [sem_inter [a; b]; sem_inter [c; d; e]; sem_inter [f; a]]) prog.
Proof.
  intros Ha Hb Hc Hd He Hf HV.
  pose proof (inter_contract vec_impl true R_vec (fun s _ l => R_vec s l) vec_contract) as CI.
  apply (inter_program_equivalence _ _ _ _ CI); [| | |exact HV].
  - apply (inter_new_R vec_impl true R_vec _ vec_contract); [now apply R_vec_of|now apply R_vec_of|constructor].
  - apply (inter_new_R vec_impl true R_vec _ vec_contract); [now apply R_vec_of|now apply R_vec_of|].
    constructor; [now apply R_vec_of|constructor].
  - constructor; [|constructor].
    apply (inter_new_R vec_impl true R_vec _ vec_contract); [now apply R_vec_of|now apply R_vec_of|constructor].
Qed.

(* non-vacuity: a concrete run with a restart of the leap-frog on each of right / others *)
Example inter_advance_nonvacuous :
  run (inter_impl vec_impl) (i_new vec_impl (vec_of [1; 4; 9; 12]) (vec_of [1; 5; 9; 12]) [vec_of [1; 9; 11; 12]] false)
      [CAdvance; CAdvance; CAdvance; CAdvance]
  = [ODoc 9; ODoc 12; ODoc DOCSET_TERMINATED; ODoc DOCSET_TERMINATED].
Proof. vm_compute. reflexivity. Qed.
