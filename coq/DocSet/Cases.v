(* DocSet/Cases.v -- helpers used by the generated correspondence cases (harness/src/bin/c13.rs):
   boolean comparison of observations, constructors of the combinator models over leaves, and the
   set-theoretic meaning of a tree of boolean queries as BooleanWeight composes it. *)
From TV Require Import Base.Prelude Generated.Constants DocSet.Spec DocSet.Impl DocSet.Program
  DocSet.Exclude DocSet.ReqOpt DocSet.Sum DocSet.Intersect DocSet.Union DocSet.Disjunction.
Local Open Scope N_scope.

Definition leaves (ls : list (list N)) : list vstate := map vec_of ls.

(* one-level models over leaves *)
Definition run_union (ls : list (list N)) prog := run (union_impl vec_impl) (u_build vec_impl (leaves ls)) prog.
Definition run_inter (ls : list (list N)) (dense : bool) prog :=
  match leaves ls with
  | a :: b :: o => run (inter_impl vec_impl) (i_new vec_impl a b o dense) prog
  | _ => [OOutOfFuel]
  end.
Definition run_exclude (l : list N) (exs : list (list N)) prog :=
  run (exclude_impl vec_impl vec_impl) (x_new vec_impl vec_impl (vec_of l) (leaves exs)) prog.
Definition run_reqopt (a b : list N) prog :=
  run (reqopt_impl vec_impl vec_impl) (ro_new vec_impl vec_impl (vec_of a) (vec_of b)) prog.
Definition run_disj (k : nat) (ls : list (list N)) prog := run (disj_impl vec_impl) (d_new vec_impl (leaves ls) k) prog.
Definition run_vec (l : list N) prog := run vec_impl (vec_of l) prog.

(* two-level models: children are leaves or unions of leaves; [g] = shape of the union's seek_danger *)
Definition LU_g (g : bool) := sum_impl vec_impl (union_impl_g vec_impl g).
Definition lu_of_g (g : bool) (c : list N + list (list N)) : st (LU_g g) :=
  match c with inl l => inl (vec_of l) | inr ls => inr (u_build vec_impl (leaves ls)) end.
Definition LU := LU_g union_guard.
Definition lu_of := lu_of_g union_guard.
Definition run_inter_lu (cs : list (list N + list (list N))) (dense : bool) prog :=
  match map lu_of cs with
  | a :: b :: o => run (inter_impl LU) (i_new LU a b o dense) prog
  | _ => [OOutOfFuel]
  end.
Definition run_exclude_lu (u : list N + list (list N)) (exs : list (list N + list (list N))) prog :=
  run (exclude_impl LU LU) (x_new LU LU (lu_of u) (map lu_of exs)) prog.
(* union whose children are leaves or unions of leaves (nested should clauses) *)
Definition run_union_lu (cs : list (list N + list (list N))) prog :=
  run (union_impl LU) (u_build LU (map lu_of cs)) prog.
(* intersection of a leaf with a union of (leaves or unions) *)
Definition LUU_g (g : bool) := sum_impl vec_impl (union_impl_g (LU_g g) g).
Definition run_inter_luu_g (g : bool) (a : list N) (cs : list (list N + list (list N))) (leaf_first dense : bool) prog :=
  let x : st (LUU_g g) := inl (vec_of a) in
  let y : st (LUU_g g) := inr (u_build (LU_g g) (map (lu_of_g g) cs)) in
  if leaf_first then run (inter_impl (LUU_g g)) (i_new (LUU_g g) x y [] dense) prog
  else run (inter_impl (LUU_g g)) (i_new (LUU_g g) y x [] dense) prog.
Definition run_inter_luu := run_inter_luu_g union_guard.

(* ---------- meaning of a tree of boolean queries (BooleanWeight::complex_scorer) ---------- *)
Inductive qshape := QLeaf (l : list N) | QBool (musts shoulds nots : list qshape) (msm : nat).

Definition sem_bool (m s n : list (list N)) (msm : nat) : list N :=
  let include :=
    match m, msm with
    | [], O => sem_union s
    | [], _ => sem_disj msm s
    | _, O => sem_inter m
    | _, _ => sem_inter (m ++ [sem_disj msm s])
    end in
  sem_exclude include n.

Fixpoint qsem (q : qshape) : list N :=
  match q with
  | QLeaf l => l
  | QBool m s n k => sem_bool (map qsem m) (map qsem s) (map qsem n) k
  end.

(* F131: a union that is (transitively through unions) a child of a union which an
   intersection drives with seek_danger, i.e. a should-clause tree of depth >= 2 next to a must *)
Fixpoint has_union (q : qshape) : bool :=
  match q with
  | QLeaf _ => false
  | QBool m s n k => (Nat.leb 2 (length s)) || existsb has_union m || existsb has_union s || existsb has_union n
  end.
Fixpoint union_in_union (q : qshape) : bool :=
  match q with
  | QLeaf _ => false
  | QBool m s n k =>
      (Nat.leb 2 (length s) && existsb has_union s)
      || existsb union_in_union m || existsb union_in_union s || existsb union_in_union n
  end.

(* F132: a buffered fill followed by a positioning call on a tree that contains a scoring union *)
Definition is_positioning (c : call) : bool := match c with CAdvance | CSeek _ | CDanger _ => true | _ => false end.
Fixpoint fill_then_position (prog : list call) : bool :=
  match prog with
  | [] => false
  | CFill :: r => existsb is_positioning r || fill_then_position r
  | _ :: r => fill_then_position r
  end.

(* F133: a union (>= 2 should clauses) one of whose children is an intersection (>= 2 clauses that must all
   match): after a seek_danger miss the intersection's doc() can equal the target although it does not match *)
Definition inter_like (q : qshape) : bool :=
  match q with
  | QLeaf _ => false
  | QBool m s n k => Nat.leb 2 (length m) || (Nat.leb 1 (length m) && Nat.leb 1 k) || (Nat.leb 2 k && Nat.eqb k (length s))
  end.
Fixpoint union_over_inter (q : qshape) : bool :=
  match q with
  | QLeaf _ => false
  | QBool m s n k =>
      (Nat.leb 2 (length s) && existsb inter_like s)
      || existsb union_over_inter m || existsb union_over_inter s || existsb union_over_inter n
  end.
