(* DocSet/IntersectProofs.v -- Intersection::new / Intersection::seek (go_to_first_doc) over ANY children
   meeting the contract: all children end aligned on the first common member >= the starting candidate,
   nothing common is skipped, the fuel (sum of the children's sizes) is adequate, and the state represents
   sem_inter of the children's lists.  (The leap-frog advance with seek_danger and the dense count are
   tied by differential runs only.) *)
From TV Require Import Base.Prelude Generated.Constants DocSet.Spec DocSet.Impl DocSet.Intersect.
Local Open Scope N_scope.

Definition eqfrom (c : N) (l' l : list N) : Prop := ds_seek c l' = ds_seek c l.
Definition total_len (ls : list (list N)) : nat := fold_right (fun l n => (length l + n)%nat) O ls.

Lemma eqfrom_mono c c' l' l : c <= c' -> eqfrom c l' l -> eqfrom c' l' l.
Proof. unfold eqfrom. intros H E. rewrite <- (ds_seek_seek c c' l'), <- (ds_seek_seek c c' l) by assumption. now rewrite E. Qed.

Lemma ds_seek_length_le t l : (length (ds_seek t l) <= length l)%nat.
Proof. induction l as [|x r IH]; [apply le_n|]. cbn [ds_seek]. destruct (N.ltb x t); cbn [length]; lia. Qed.

Lemma ds_seek_shrinks c l : ds_doc l <= c -> c < ds_doc (ds_seek c l) -> (length (ds_seek c l) < length l)%nat.
Proof.
  destruct l as [|x r]; cbn [ds_doc ds_seek]; [lia|]. intros H1 H2.
  destruct (N.ltb_spec x c); [pose proof (ds_seek_length_le c r); cbn [length]; lia|cbn [ds_doc] in H2; lia].
Qed.

Lemma ds_doc_le_In l x : ssorted l -> In x l -> ds_doc l <= x.
Proof.
  destruct l as [|y r]; [intros _ []|]. intros [H _] [E|Hi]; cbn [ds_doc]; [lia|].
  rewrite Forall_forall in H. specialize (H _ Hi). lia.
Qed.

Lemma sem_inter_seek c a r : wf_docs a -> Forall wf_docs r ->
  sem_inter (map (ds_seek c) (a :: r)) = ds_seek c (sem_inter (a :: r)).
Proof.
  intros Ha Hr. apply ssorted_ext.
  - cbn [map]. apply sem_inter_wf. now apply wf_docs_seek.
  - apply wf_docs_seek. now apply sem_inter_wf.
  - intros d. cbn [map].
    rewrite (sem_inter_In (ds_seek c a) (map (ds_seek c) r) d).
    rewrite (ds_seek_In c (sem_inter (a :: r)) d) by apply (sem_inter_wf a r Ha).
    rewrite (sem_inter_In a r d). rewrite (ds_seek_In c a d) by apply Ha.
    rewrite Forall_forall in Hr. split.
    + intros [[H1 H2] H3]. repeat split; try assumption. intros l Hl.
      specialize (H3 _ (in_map (ds_seek c) _ _ Hl)). apply ds_seek_In in H3; [tauto|apply (Hr _ Hl)].
    + intros [[H1 H3] H2]. repeat split; try assumption. intros l' Hl'. apply in_map_iff in Hl'.
      destruct Hl' as [l [<- Hl]]. apply ds_seek_In; [apply (Hr _ Hl)|]. split; [auto|assumption].
Qed.

Lemma Forall2_imp {A B} (P Q : A -> B -> Prop) la lb : (forall a b, P a b -> Q a b) -> Forall2 P la lb -> Forall2 Q la lb.
Proof. intros H F. induction F; constructor; auto. Qed.

Section GTFD.
  Variables (C : impl) (strong : bool) (RC : st C -> list N -> Prop) (DC : st C -> N -> list N -> Prop).
  Hypothesis CC : contract C strong RC DC.

  Record Inv (cand : N) (ds : list (st C)) (ls' ls0 : list (list N)) : Prop := {
    inv_R : Forall2 RC ds ls';
    inv_eq : Forall2 (eqfrom cand) ls' ls0;
    inv_le : Forall (fun l' => ds_doc l' <= cand) ls';
    inv_wf0 : Forall wf_docs ls0 }.

  Lemma pass_ok : forall ds ls' ls0 cand, Inv cand ds ls' ls0 -> cand <= DOCSET_TERMINATED ->
    match gtfd_pass C cand ds with
    | (None, ds') => Forall2 RC ds' (map (ds_seek cand) ls0) /\ Forall (fun l => ds_doc (ds_seek cand l) = cand) ls0
    | (Some c', ds') => exists ls'', Inv c' ds' ls'' ls0 /\ cand < c' /\ c' <= DOCSET_TERMINATED /\
                                     (exists l, In l ls0 /\ forall x, In x l -> cand <= x -> c' <= x) /\
                                     (total_len ls'' < total_len ls')%nat
    end.
  Proof.
    induction ds as [|d r IH]; intros ls' ls0 cand [HR HE HL HW] HT.
    - inversion HR; subst. inversion HE; subst. cbn. split; constructor.
    - inversion HR as [|? l' ? rl' Hd Hr]; subst. inversion HE as [|? l0 ? rl0 He Her]; subst.
      inversion HL as [|? ? Hl Hlr]; subst. inversion HW as [|? ? Hw0 Hwr]; subst. cbn [gtfd_pass].
      assert (Hdoc : doc C d <= cand) by (rewrite (c_doc _ _ _ _ CC _ _ Hd); exact Hl).
      pose proof (c_seek _ _ _ _ CC _ _ cand Hd Hdoc HT) as Hs.
      pose proof (c_wf _ _ _ _ CC _ _ Hd) as Hwf'. pose proof (c_wf _ _ _ _ CC _ _ Hs) as Hwfs.
      rewrite (c_doc _ _ _ _ CC _ _ Hs).
      assert (Hge : cand <= ds_doc (ds_seek cand l')) by (destruct (ds_seek_head cand l' Hwf') as [H|[H _]]; [exact H|lia]).
      destruct (N.ltb_spec cand (ds_doc (ds_seek cand l'))) as [Hlt|Hnlt].
      + exists (ds_seek cand l' :: rl'). set (c' := ds_doc (ds_seek cand l')) in *.
        assert (Hc'T : c' <= DOCSET_TERMINATED) by (apply ds_doc_le_T; exact Hwfs).
        split; [|split; [exact Hlt|split; [exact Hc'T|split]]].
        * constructor.
          -- constructor; assumption.
          -- constructor; [|eapply Forall2_imp; [|exact Her]; intros a b; apply eqfrom_mono; lia].
             unfold eqfrom in *. rewrite ds_seek_seek by lia. rewrite <- (ds_seek_seek cand c' l'), <- (ds_seek_seek cand c' l0) by lia. now rewrite He.
          -- constructor; [unfold c'; lia|]. eapply Forall_impl; [|exact Hlr]. cbn. intros; lia.
          -- exact HW.
        * exists l0. split; [now left|]. intros x Hx Hcx.
          assert (Hx' : In x (ds_seek cand l')).
          { unfold eqfrom in He. rewrite He. apply ds_seek_In; [apply Hw0|tauto]. }
          unfold c'. apply ds_doc_le_In; [apply Hwfs|exact Hx'].
        * unfold total_len. cbn [fold_right]. pose proof (ds_seek_shrinks cand l' Hl Hlt). lia.
      + assert (Hhead : ds_doc (ds_seek cand l') = cand) by lia.
        specialize (IH rl' rl0 cand (Build_Inv _ _ _ _ Hr Her Hlr Hwr) HT).
        destruct (gtfd_pass C cand r) as [[c'|] r'].
        * destruct IH as [ls'' [[IR IE IL IW] [Hlt [HcT [[l [Hin Hw]] Hlen]]]]].
          exists (ds_seek cand l' :: ls''). split; [|split; [exact Hlt|split; [exact HcT|split]]].
          -- constructor.
             ++ constructor; assumption.
             ++ constructor; [|assumption]. unfold eqfrom in *. rewrite ds_seek_seek by lia.
                rewrite <- (ds_seek_seek cand c' l'), <- (ds_seek_seek cand c' l0) by lia. now rewrite He.
             ++ constructor; [lia|assumption].
             ++ exact HW.
          -- exists l. split; [now right|exact Hw].
          -- unfold total_len in *. cbn [fold_right]. pose proof (ds_seek_length_le cand l'). lia.
        * destruct IH as [I1 I2]. split.
          -- cbn [map]. constructor; [|assumption]. unfold eqfrom in He. now rewrite <- He.
          -- constructor; [|assumption]. unfold eqfrom in He. now rewrite <- He.
  Qed.
End GTFD.

Section GTFD2.
  Variables (C : impl) (strong : bool) (RC : st C -> list N -> Prop) (DC : st C -> N -> list N -> Prop).
  Hypothesis CC : contract C strong RC DC.

  Definition common (x : N) (ls : list (list N)) : Prop := Forall (In x) ls.

  (* go_to_first_doc: with enough fuel the 'outer loop ends with every child on the first common member c* >= cand
     (TERMINATED if none); no common member in [cand, c* ) exists *)
  Lemma gtfd_ok : forall fuel ds ls' ls0 cand, Inv C RC cand ds ls' ls0 -> cand <= DOCSET_TERMINATED -> (total_len ls' <= fuel)%nat ->
    exists c, gtfd C fuel cand ds = (fst (gtfd C fuel cand ds), false) /\
      cand <= c /\ c <= DOCSET_TERMINATED /\
      Forall2 RC (fst (gtfd C fuel cand ds)) (map (ds_seek c) ls0) /\
      Forall (fun l => ds_doc (ds_seek c l) = c) ls0 /\
      (forall x, common x ls0 -> cand <= x -> c <= x).
  Proof.
    induction fuel as [|f IH]; intros ds ls' ls0 cand HI HT Hf; cbn [gtfd];
      pose proof (pass_ok C strong RC DC CC ds ls' ls0 cand HI HT) as HP;
      destruct (gtfd_pass C cand ds) as [[c'|] ds'].
    - destruct HP as [ls'' [_ [_ [_ [_ Hlen]]]]]. lia.
    - destruct HP as [H1 H2]. exists cand. cbn [fst]. repeat split; try assumption; try lia.
    - destruct HP as [ls'' [HI' [Hlt [HcT [[l [Hin Hw]] Hlen]]]]].
      destruct (IH ds' ls'' ls0 c' HI' HcT) as [c [E [H1 [H2 [H3 [H4 H5]]]]]]; [lia|].
      exists c. repeat split; try assumption; try lia.
      intros x Hx Hc. apply H5; [assumption|]. apply Hw; [|assumption]. unfold common in Hx. rewrite Forall_forall in Hx. auto.
    - destruct HP as [H1 H2]. exists cand. cbn [fst]. repeat split; try assumption; try lia.
  Qed.

  Lemma max_doc_ge ds d : In d ds -> doc C d <= max_doc C ds.
  Proof. induction ds as [|x r IH]; [intros []|]. intros [->|H]; cbn [max_doc fold_right]; [lia|]. specialize (IH H). unfold max_doc in IH. lia. Qed.

  Lemma Forall2_R_facts ds ls : Forall2 RC ds ls ->
    Forall wf_docs ls /\ (total_len ls <= total_size C ds)%nat /\ max_doc C ds <= DOCSET_TERMINATED /\
    Forall (fun l => ds_doc l <= max_doc C ds) ls.
  Proof.
    induction 1 as [|d l ds ls HR HF [I1 [I2 [I3 I4]]]]; [cbn; repeat split; try constructor; lia|].
    pose proof (c_wf _ _ _ _ CC _ _ HR) as Hwf. pose proof (c_size _ _ _ _ CC _ _ HR) as Hsz.
    pose proof (c_doc _ _ _ _ CC _ _ HR) as Hd. pose proof (ds_doc_le_T _ Hwf) as HT.
    unfold total_len, total_size, max_doc in *. cbn [fold_right]. repeat split.
    - constructor; assumption.
    - lia.
    - lia.
    - constructor; [lia|]. eapply Forall_impl; [|exact I4]. cbn. intros; lia.
  Qed.

  Lemma max_doc_le_common ds ls x : Forall2 RC ds ls -> common x ls -> max_doc C ds <= x.
  Proof.
    induction 1 as [|d l ds ls HR HF IH]; intros Hx; [cbn; lia|]. inversion Hx; subst.
    unfold max_doc in *. cbn [fold_right]. specialize (IH H2).
    pose proof (ds_doc_le_In l x (proj1 (c_wf _ _ _ _ CC _ _ HR)) H1). rewrite (c_doc _ _ _ _ CC _ _ HR). lia.
  Qed.

  (* all children valid (any positions): go_to_first_doc aligns them on the first common member *)
  Theorem go_to_first_doc_ok ds ls : Forall2 RC ds ls ->
    exists c, go_to_first_doc C ds = (fst (go_to_first_doc C ds), false) /\ c <= DOCSET_TERMINATED /\
      Forall2 RC (fst (go_to_first_doc C ds)) (map (ds_seek c) ls) /\
      Forall (fun l => ds_doc (ds_seek c l) = c) ls /\
      (forall x, common x ls -> c <= x).
  Proof.
    intros HF. destruct (Forall2_R_facts ds ls HF) as [Hwf [Hsz [HT Hle]]]. unfold go_to_first_doc.
    assert (HI : Inv C RC (max_doc C ds) ds ls ls).
    { constructor; try assumption. clear. induction ls; constructor; [reflexivity|assumption]. }
    destruct (gtfd_ok (total_size C ds) ds ls ls (max_doc C ds) HI HT Hsz) as [c [E [H1 [H2 [H3 [H4 H5]]]]]].
    exists c. repeat split; try assumption. intros x Hx. apply H5; [assumption|]. now apply (max_doc_le_common ds ls).
  Qed.
End GTFD2.

(* ---------- Intersection::new and Intersection::seek represent sem_inter ---------- *)
Lemma aligned_head a r : wf_docs a -> (exists c, Forall (fun l => ds_doc l = c) (a :: r)) ->
  ds_doc (sem_inter (a :: r)) = ds_doc a.
Proof.
  intros Ha [c Hc]. destruct a as [|x a']; [reflexivity|]. inversion Hc as [|? ? Hx Hr]; subst. cbn [ds_doc] in *.
  cbn [sem_inter filter]. apply wf_docs_cons in Ha. destruct Ha as [HT _].
  assert (E : forallb (mem x) r = true).
  { apply forallb_forall. intros l Hl. rewrite Forall_forall in Hr. specialize (Hr _ Hl). apply mem_In.
    rewrite <- Hr. apply ds_doc_In. lia. }
  rewrite E. reflexivity.
Qed.

Section InterRepr.
  Variables (C : impl) (strong : bool) (RC : st C -> list N -> Prop) (DC : st C -> N -> list N -> Prop).
  Hypothesis CC : contract C strong RC DC.

  (* aligned valid state: every child valid, all on the same document *)
  Definition AV (s : istate C) (ls : list (list N)) : Prop :=
    i_oof C s = false /\ Forall2 RC (all_of C s) ls /\ exists c, Forall (fun l => ds_doc l = c) ls.

  Lemma no_common_below c a r : wf_docs a -> Forall wf_docs r -> (forall x, common x (a :: r) -> c <= x) ->
    sem_inter (map (ds_seek c) (a :: r)) = sem_inter (a :: r).
  Proof.
    intros Ha Hr H. rewrite sem_inter_seek by assumption. apply ds_seek_all_ge. rewrite Forall_forall. intros x Hx.
    apply H. apply sem_inter_In in Hx. destruct Hx as [H1 H2]. constructor; [assumption|]. rewrite Forall_forall. exact H2.
  Qed.

  Lemma aligned_after c ds ls dense oof dflt : (2 <= length ls)%nat ->
    Forall2 RC ds (map (ds_seek c) ls) -> Forall (fun l => ds_doc (ds_seek c l) = c) ls ->
    Forall2 RC (all_of C (of_list C ds dense oof dflt)) (map (ds_seek c) ls) /\
    i_oof C (of_list C ds dense oof dflt) = oof /\ i_dense C (of_list C ds dense oof dflt) = dense /\
    exists c', Forall (fun l => ds_doc l = c') (map (ds_seek c) ls).
  Proof.
    intros Hlen HF Hall. destruct ls as [|l1 [|l2 lr]]; cbn in Hlen; try lia.
    cbn [map] in *. inversion HF as [|d1 ? ds1 ? H1 HF1]; subst. inversion HF1 as [|d2 ? ds2 ? H2 HF2]; subst.
    cbn [of_list all_of i_left i_right i_others i_oof i_dense]. repeat split; [constructor; [|constructor]; assumption|].
    exists c. change (Forall (fun l => ds_doc l = c) (map (ds_seek c) (l1 :: l2 :: lr))). rewrite Forall_map. exact Hall.
  Qed.

  Theorem inter_new_repr l r o ll lr los dense : RC l ll -> RC r lr -> Forall2 RC o los ->
    exists ls', AV (i_new C l r o dense) ls' /\ sem_inter ls' = sem_inter (ll :: lr :: los) /\
                i_dense C (i_new C l r o dense) = dense.
  Proof.
    intros Hl Hr Ho. assert (HF : Forall2 RC (l :: r :: o) (ll :: lr :: los)) by (constructor; [|constructor]; assumption).
    destruct (go_to_first_doc_ok C strong RC DC CC _ _ HF) as [c [E [HT [H1 [H2 H3]]]]].
    unfold i_new. cbv zeta. change (all_of C {| i_left := l; i_right := r; i_others := o; i_dense := dense; i_oof := false |}) with (l :: r :: o). rewrite E.
    destruct (aligned_after c (fst (go_to_first_doc C (l :: r :: o))) (ll :: lr :: los) dense false
                {| i_left := l; i_right := r; i_others := o; i_dense := dense; i_oof := false |}) as [A1 [A2 [A3 A4]]];
      [cbn; lia|exact H1|exact H2|].
    exists (map (ds_seek c) (ll :: lr :: los)). split; [split; [exact A2|split; [exact A1|exact A4]]|split; [|exact A3]].
    destruct (Forall2_R_facts C strong RC DC CC _ _ HF) as [Hwf _]. inversion Hwf; subst.
    apply no_common_below; assumption.
  Qed.

  Theorem inter_doc_repr s ls : AV s ls -> i_doc C s = ds_doc (sem_inter ls).
  Proof.
    intros [_ [HF Hc]]. unfold all_of in HF. inversion HF as [|? ll ? lr' HL HF1]; subst.
    unfold i_doc. rewrite (c_doc _ _ _ _ CC _ _ HL). symmetry. apply aligned_head; [exact (c_wf _ _ _ _ CC _ _ HL)|exact Hc].
  Qed.

  Theorem inter_seek_repr s ls t : AV s ls -> i_doc C s <= t -> t <= DOCSET_TERMINATED ->
    exists ls', AV (i_seek C t s) ls' /\ sem_inter ls' = ds_seek t (sem_inter ls) /\ i_dense C (i_seek C t s) = i_dense C s.
  Proof.
    intros [Hoof [HF Hc]] Hd Ht. unfold all_of in HF. inversion HF as [|? ll ? lr' HL HF1]; subst.
    inversion HF1 as [|? lr ? los HR HO]; subst.
    pose proof (c_seek _ _ _ _ CC _ _ t HL Hd Ht) as HL'.
    assert (HF' : Forall2 RC (seek C t (i_left C s) :: i_right C s :: i_others C s) (ds_seek t ll :: lr :: los))
      by (constructor; [|constructor]; assumption).
    destruct (go_to_first_doc_ok C strong RC DC CC _ _ HF') as [c [E [HT [H1 [H2 H3]]]]].
    unfold i_seek. rewrite E, Hoof. cbn [orb].
    destruct (aligned_after c (fst (go_to_first_doc C (seek C t (i_left C s) :: i_right C s :: i_others C s)))
                (ds_seek t ll :: lr :: los) (i_dense C s) false s) as [A1 [A2 [A3 A4]]]; [cbn; lia|exact H1|exact H2|].
    exists (map (ds_seek c) (ds_seek t ll :: lr :: los)). split; [split; [exact A2|split; [exact A1|exact A4]]|split; [|exact A3]].
    destruct (Forall2_R_facts C strong RC DC CC _ _ HF') as [Hwf _]. inversion Hwf; subst.
    rewrite no_common_below by assumption.
    cbn [sem_inter]. rewrite ds_seek_filter; [reflexivity|]. exact (proj1 (c_wf _ _ _ _ CC _ _ HL)).
  Qed.
End InterRepr.
