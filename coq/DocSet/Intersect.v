(* DocSet/Intersect.v -- src/query/intersection.rs: Intersection (left, right, others), built by
   intersect_scorers / Intersection::new (children already sorted by cost by the caller).
   go_to_first_doc (used by new and seek), the leap-frog advance with seek_danger,
   seek_danger, and count_including_deleted (sparse = advance loop, dense = 1024-doc bitmask blocks). *)
From TV Require Import Base.Prelude Generated.Constants DocSet.Spec DocSet.Impl.
Local Open Scope N_scope.

Section Intersect.
  Variable C : impl.

  Record istate := { i_left : st C; i_right : st C; i_others : list (st C); i_dense : bool; i_oof : bool }.

  (* one pass of the inner `for docset in docsets` of go_to_first_doc:
     seek every docset to candidate; stop at the first that lands beyond it *)
  Fixpoint gtfd_pass (cand : N) (ds : list (st C)) : option N * list (st C) :=
    match ds with
    | [] => (None, [])
    | d :: r =>
        let d' := seek C cand d in
        if N.ltb cand (doc C d') then (Some (doc C d'), d' :: r)
        else let '(res, r') := gtfd_pass cand r in (res, d' :: r')
    end.
  (* 'outer loop *)
  Fixpoint gtfd (fuel : nat) (cand : N) (ds : list (st C)) : list (st C) * bool :=
    let '(res, ds') := gtfd_pass cand ds in
    match res with
    | None => (ds', false)
    | Some c' => match fuel with O => (ds', true) | S f => gtfd f c' ds' end
    end.
  Definition max_doc (ds : list (st C)) : N := fold_right (fun d m => N.max (doc C d) m) 0 ds.
  Definition total_size (ds : list (st C)) : nat := fold_right (fun d n => (size C d + n)%nat) O ds.
  Definition go_to_first_doc (ds : list (st C)) : list (st C) * bool :=
    gtfd (total_size ds) (max_doc ds) ds.

  Definition of_list (ds : list (st C)) (dense oof : bool) (dflt : istate) : istate :=
    match ds with
    | l :: r :: o => {| i_left := l; i_right := r; i_others := o; i_dense := dense; i_oof := oof |}
    | _ => dflt
    end.
  Definition all_of (s : istate) : list (st C) := i_left s :: i_right s :: i_others s.

  (* Intersection::new / intersect_scorers (>= 2 children, sorted by cost by the caller) *)
  Definition i_new (l r : st C) (o : list (st C)) (dense : bool) : istate :=
    let s0 := {| i_left := l; i_right := r; i_others := o; i_dense := dense; i_oof := false |} in
    let '(ds, oof) := go_to_first_doc (all_of s0) in of_list ds dense oof s0.

  Definition i_doc (s : istate) : N := doc C (i_left s).

  (* fn seek: self.left.seek(target); go_to_first_doc(all) *)
  Definition i_seek (t : N) (s : istate) : istate :=
    let l' := seek C t (i_left s) in
    let '(ds, oof) := go_to_first_doc (l' :: i_right s :: i_others s) in
    of_list ds (i_dense s) (i_oof s || oof) s.

  (* for other in &mut self.others { if let SeekLowerBound(b) = other.seek_danger(candidate) { candidate = b; continue 'outer } } *)
  Fixpoint others_danger (cand : N) (os : list (st C)) : option N * list (st C) :=
    match os with
    | [] => (None, [])
    | o :: r =>
        let '(res, o') := seek_danger C cand o in
        match res with
        | SdLower b => (Some b, o' :: r)
        | SdFound => let '(x, r') := others_danger cand r in (x, o' :: r')
        end
    end.

  (* fn advance: 'outer: while candidate < DOCSET_TERMINATED { ... } left.seek(DOCSET_TERMINATED) *)
  Fixpoint adv_loop (fuel : nat) (cand : N) (s : istate) : istate :=
    if N.ltb cand DOCSET_TERMINATED then
      let l' := seek C cand (i_left s) in
      let cand := doc C l' in
      let '(res, r') := seek_danger C cand (i_right s) in
      let s1 := {| i_left := l'; i_right := r'; i_others := i_others s; i_dense := i_dense s; i_oof := i_oof s |} in
      match res with
      | SdLower b => match fuel with O => {| i_left := l'; i_right := r'; i_others := i_others s; i_dense := i_dense s; i_oof := true |}
                                | S f => adv_loop f b s1 end
      | SdFound =>
          let '(x, o') := others_danger cand (i_others s) in
          let s2 := {| i_left := l'; i_right := r'; i_others := o'; i_dense := i_dense s; i_oof := i_oof s |} in
          match x with
          | None => s2
          | Some b => match fuel with O => {| i_left := l'; i_right := r'; i_others := o'; i_dense := i_dense s; i_oof := true |}
                                 | S f => adv_loop f b s2 end
          end
      end
    else {| i_left := seek C DOCSET_TERMINATED (i_left s); i_right := i_right s; i_others := i_others s; i_dense := i_dense s; i_oof := i_oof s |}.
  Definition i_advance (s : istate) : istate := adv_loop (S (size C (i_left s))) (doc C (i_left s) + 1) s.

  (* fn seek_danger *)
  Definition i_seek_danger (t : N) (s : istate) : sd_result * istate :=
    let '(r1, l') := seek_danger C t (i_left s) in
    match r1 with
    | SdLower b => (SdLower b, {| i_left := l'; i_right := i_right s; i_others := i_others s; i_dense := i_dense s; i_oof := i_oof s |})
    | SdFound =>
        let '(r2, r') := seek_danger C t (i_right s) in
        match r2 with
        | SdLower b => (SdLower b, {| i_left := l'; i_right := r'; i_others := i_others s; i_dense := i_dense s; i_oof := i_oof s |})
        | SdFound =>
            let '(x, o') := others_danger t (i_others s) in
            let s' := {| i_left := l'; i_right := r'; i_others := o'; i_dense := i_dense s; i_oof := i_oof s |} in
            match x with Some b => (SdLower b, s') | None => (SdFound, s') end
        end
    end.

  Definition i_size (s : istate) : nat := size C (i_left s).
  Definition i_set_oof (s : istate) : istate :=
    {| i_left := i_left s; i_right := i_right s; i_others := i_others s; i_dense := i_dense s; i_oof := true |}.
  Definition i_ok (s : istate) : bool := negb (i_oof s) && forallb (ok C) (all_of s).

  (* ---- count_including_deleted ---- *)
  Fixpoint popcount_pos (p : positive) : N :=
    match p with xH => 1 | xO q => popcount_pos q | xI q => 1 + popcount_pos q end.
  Definition popcount (x : N) : N := match x with N0 => 0 | Npos p => popcount_pos p end.
  Definition and_masks (a b : list N) : list N := map (fun p => N.land (fst p) (snd p)) (combine a b).
  Definition mask_is_empty (a : list N) : bool := forallb (N.eqb 0) a.
  (* `for other in &mut self.others { fill; next_base = max; if and_blocks_and_return_is_empty(..) { continue } }`:
     the `continue` is the inner loop's, so every other is visited *)
  Fixpoint dense_others (base : N) (mask : list N) (nb : N) (os : list (st C)) : list N * N * list (st C) :=
    match os with
    | [] => (mask, nb, [])
    | o :: r =>
        let '((om, ret), o') := fill_bitset C base o in
        let '(mask', nb', r') := dense_others base (and_masks mask om) (N.max nb ret) r in
        (mask', nb', o' :: r')
    end.
  Fixpoint dense_loop (fuel : nat) (count next_base : N) (s : istate) : N * istate :=
    if N.ltb next_base DOCSET_TERMINATED then
      match fuel with
      | O => (count, i_set_oof s)
      | S f =>
          let base := next_base in
          let '((mask, ret1), l') := fill_bitset C base (i_left s) in
          let nb := N.max next_base ret1 in
          let '((tmask, ret2), r') := fill_bitset C base (i_right s) in
          let nb := N.max nb ret2 in
          let mask := and_masks mask tmask in
          if mask_is_empty mask then
            dense_loop f count nb {| i_left := l'; i_right := r'; i_others := i_others s; i_dense := i_dense s; i_oof := i_oof s |}
          else
            let '(mask', nb', o') := dense_others base mask nb (i_others s) in
            dense_loop f (count + fold_right (fun w a => popcount w + a) 0 mask') nb'
                       {| i_left := l'; i_right := r'; i_others := o'; i_dense := i_dense s; i_oof := i_oof s |}
      end
    else (count, s).
  Definition i_count (s : istate) : N * istate :=
    if i_dense s then dense_loop (2 * size C (i_left s) + 2) 0 (doc C (i_left s)) s
    else default_count i_doc i_advance i_size i_set_oof s.

  Definition inter_impl : impl := {|
    st := istate; doc := i_doc; advance := i_advance; seek := i_seek; seek_danger := i_seek_danger;
    fill_buffer := default_fill_buffer i_doc i_advance;
    fill_bitset := default_fill_bitset i_doc i_advance i_size i_set_oof i_seek;
    count := i_count; size := i_size; ok := i_ok |}.
End Intersect.
