(* DocSet/UnionProofs.v -- BufferedUnionScorer (src/query/union/buffered_union.rs, model DocSet/Union.v) over ANY
   children meeting the contract of Impl.v.  Representation invariant (DESIGN §9):
     - every child is valid, not exhausted, and its head is >= window_start + HORIZON;
     - the 64 TinySets hold exactly the not yet delivered members of the union below window_start + HORIZON
       (words below bucket_idx are empty);
     - remaining list = doc :: (window members, children members), a strictly increasing list.
   P_u s L : the window and the children of s hold exactly L (doc is not looked at: the state between `refill`
             and the next `advance_buffered`);  R_u s l : the valid state.
   Scores are not modelled. *)
From TV Require Import Base.Prelude Generated.Constants DocSet.Spec DocSet.Impl DocSet.Program DocSet.Union DocSet.UnionBits DocSet.IntersectProofs.
Local Open Scope N_scope.

Lemma HNT : HORIZON_NUM_TINYBITSETS = 64%nat. Proof. reflexivity. Qed.

Definition small (x : N) : Prop := forall j, N.testbit x j = true -> j < 64.
Definition hasbit (bs : list N) (dl : N) : Prop := N.testbit (nth (N.to_nat (dl / 64)) bs 0) (dl mod 64) = true.
Definition inwin (bs : list N) (w x : N) : Prop := exists dl, dl < 4096 /\ hasbit bs dl /\ x = w + dl.
Definition inchild (lcs : list (list N)) (x : N) : Prop := exists lc, In lc lcs /\ In x lc.
Definition ins (m x : N) (bs : list N) : list N := upd_nth (N.to_nat ((x - m) / 64)) (tiny_insert ((x - m) mod 64)) bs.

Lemma small_0 : small 0.
Proof. intros j. rewrite N.bits_0. discriminate. Qed.

Lemma small_insert b w : b < 64 -> small w -> small (tiny_insert b w).
Proof. intros Hb Hw j. rewrite tiny_insert_spec, orb_true_iff, N.eqb_eq. intros [H| ->]; auto. Qed.

Lemma Forall_small_upd k f bs : Forall small bs -> (forall x, small x -> small (f x)) -> Forall small (upd_nth k f bs).
Proof. intros H Hf. revert k. induction H as [|x r Hx Hr IH]; intros [|k]; cbn [upd_nth]; constructor; auto. Qed.

Lemma Forall_small_clear a b bs : forall o, Forall small bs -> Forall small (clear_range a b o bs).
Proof.
  induction bs as [|x r IH]; intros o H; cbn [clear_range]; [constructor|]. inversion H; subst.
  constructor; [destruct (_ && _); [apply small_0|assumption]|auto].
Qed.

Lemma Forall_small_repeat n : Forall small (repeat 0 n).
Proof. induction n; cbn [repeat]; constructor; [apply small_0|assumption]. Qed.

Lemma nth_small bs i : Forall small bs -> small (nth i bs 0).
Proof. intros H. revert i. induction H as [|x r Hx _ IH]; intros [|i]; cbn [nth]; auto using small_0. Qed.

Lemma hasbit_zero bs dl : nth (N.to_nat (dl / 64)) bs 0 = 0 -> ~ hasbit bs dl.
Proof. unfold hasbit. intros ->. rewrite N.bits_0. discriminate. Qed.

Lemma hasbit_ins bs d0 dl : length bs = 64%nat -> d0 < 4096 -> dl < 4096 ->
  (hasbit (upd_nth (N.to_nat (d0 / 64)) (tiny_insert (d0 mod 64)) bs) dl <-> hasbit bs dl \/ dl = d0).
Proof.
  intros Hl H0 Hd. unfold hasbit. rewrite nth_upd_nth, Hl.
  destruct (Nat.eqb_spec (N.to_nat (dl / 64)) (N.to_nat (d0 / 64))) as [E|E].
  - destruct (Nat.ltb_spec (N.to_nat (d0 / 64)) 64) as [_|Hge]; [|dlia]. cbn [andb].
    rewrite tiny_insert_spec, orb_true_iff, N.eqb_eq. split; (intros [H|H]; [now left|right]); dlia.
  - cbn [andb]. split; [tauto|]. intros [H|H]; [assumption|]. subst. congruence.
Qed.

Lemma hasbit_pop bs bk val rest : length bs = 64%nat -> (bk < 64)%nat -> small (nth bk bs 0) ->
  pop_lowest (nth bk bs 0) = Some (val, rest) ->
  let d0 := val + N.of_nat bk * 64 in
  d0 < 4096 /\ hasbit bs d0 /\ (forall dl, hasbit bs dl -> dl / 64 = N.of_nat bk -> d0 <= dl) /\
  (forall dl, hasbit (upd_nth bk (fun _ => rest) bs) dl <-> hasbit bs dl /\ dl <> d0) /\ small rest.
Proof.
  intros Hl Hbk Hs Hp d0. destruct (pop_lowest_Some _ _ _ Hp) as [H1 [H2 H3]]. pose proof (Hs _ H1) as Hv.
  assert (Ediv : d0 / 64 = N.of_nat bk) by (unfold d0; dlia).
  assert (Emod : d0 mod 64 = val) by (unfold d0; dlia).
  split; [unfold d0; lia|split; [|split; [|split]]].
  - unfold hasbit. rewrite Ediv, Nat2N.id, Emod. exact H1.
  - intros dl Hh Hdiv. unfold hasbit in Hh. rewrite Hdiv, Nat2N.id in Hh.
    destruct (N.lt_ge_cases (dl mod 64) val) as [Hlt|Hge]; [rewrite (H2 _ Hlt) in Hh; discriminate|]. unfold d0. dlia.
  - intros dl. unfold hasbit. rewrite nth_upd_nth, Hl. destruct (Nat.ltb_spec bk 64) as [_|]; [|lia]. rewrite andb_true_r.
    destruct (Nat.eqb_spec (N.to_nat (dl / 64)) bk) as [E|E].
    + rewrite H3, andb_true_iff, negb_true_iff, N.eqb_neq, E. split; (intros [Ha Hb]; split; [exact Ha|]).
      * intros ->. apply Hb. exact Emod.
      * intros Hm. apply Hb. unfold d0. dlia.
    + split; [|tauto]. intros Hh. split; [exact Hh|]. intros ->. apply E. rewrite Ediv. apply Nat2N.id.
  - intros j Hj. rewrite H3, andb_true_iff in Hj. apply Hs. tauto.
Qed.

(* ---------- sorted lists ---------- *)
Lemma sorted_head_min L d : wf_docs L -> In d L -> (forall x, In x L -> d <= x) ->
  exists L', L = d :: L' /\ forall x, In x L' <-> In x L /\ x <> d.
Proof.
  destruct L as [|y r]; [intros _ []|]. intros Hwf Hin Hmin. apply wf_docs_cons in Hwf. destruct Hwf as [_ [Hall _]].
  rewrite Forall_forall in Hall.
  assert (y = d). { destruct Hin as [E|Hi]; [exact E|]. specialize (Hall _ Hi). specialize (Hmin y (or_introl eq_refl)). lia. }
  subst y. exists r. split; [reflexivity|]. intros x. split.
  - intros Hx. split; [now right|]. specialize (Hall _ Hx). lia.
  - intros [[E|Hx] Hne]; [congruence|exact Hx].
Qed.

Lemma ssorted_NoDup l : ssorted l -> NoDup l.
Proof.
  induction l as [|x r IH]; [constructor|]. intros [H1 H2]. constructor; [|auto].
  intros Hi. rewrite Forall_forall in H1. specialize (H1 _ Hi). lia.
Qed.

Lemma nil_of_no_mem (L : list N) : (forall x, ~ In x L) -> L = [].
Proof. destruct L as [|y r]; [reflexivity|]. intros H. exfalso. apply (H y). now left. Qed.

Lemma filter_all_true {A} (f : A -> bool) l : Forall (fun x => f x = true) l -> filter f l = l.
Proof. induction 1 as [|x r Hx _ IH]; [reflexivity|]. cbn [filter]. now rewrite Hx, IH. Qed.

(* ---------- swap_remove ---------- *)
Lemma swap_F2 {A B} (P : A -> B -> Prop) r lr c dl : Forall2 P r lr -> r <> [] ->
  Forall2 P (last r c :: removelast r) (last lr dl :: removelast lr).
Proof.
  induction 1 as [|x y r lr Hxy HF IH]; [congruence|]. intros _.
  destruct HF as [|x2 y2 r2 lr2 H2 HF2]; [cbn; constructor; [assumption|constructor]|].
  specialize (IH ltac:(congruence)).
  change (last (x :: x2 :: r2) c) with (last (x2 :: r2) c). change (last (y :: y2 :: lr2) dl) with (last (y2 :: lr2) dl).
  change (removelast (x :: x2 :: r2)) with (x :: removelast (x2 :: r2)).
  change (removelast (y :: y2 :: lr2)) with (y :: removelast (y2 :: lr2)).
  inversion IH; subst. constructor; [assumption|constructor; assumption].
Qed.

Lemma swap_In {A} (lr : list A) d z : lr <> [] -> (In z (last lr d :: removelast lr) <-> In z lr).
Proof.
  intros Hne. rewrite (app_removelast_last d Hne) at 3. rewrite in_app_iff. cbn [In]. tauto.
Qed.

Lemma swap_length {A} (r : list A) c : r <> [] -> length (last r c :: removelast r) = length r.
Proof.
  intros Hne. rewrite (app_removelast_last c Hne) at 3. rewrite app_length. cbn [length]. lia.
Qed.

Lemma F2_nil_iff {A B} (P : A -> B -> Prop) r lr : Forall2 P r lr -> (r = [] <-> lr = []).
Proof. destruct 1; split; congruence. Qed.

Lemma F2_in_r {A B} (P : A -> B -> Prop) la lb b : Forall2 P la lb -> In b lb -> exists a, In a la /\ P a b.
Proof. induction 1 as [|x y la lb H _ IH]; [intros []|]. intros [<-|Hi]; [exists x; split; [now left|assumption]|]. destruct (IH Hi) as [a [H1 H2]]. exists a. split; [now right|assumption]. Qed.

Lemma In_lt_T_local l x : wf_docs l -> In x l -> x < DOCSET_TERMINATED.
Proof. intros [_ H] Hi. rewrite Forall_forall in H. auto. Qed.

Section UnionRepr.
  Variables (C : impl) (strong : bool) (RC : st C -> list N -> Prop) (DC : st C -> N -> list N -> Prop).
  Hypothesis CC : contract C strong RC DC.

  Definition kids_ok (h : N) (ds : list (st C)) (lcs : list (list N)) : Prop :=
    Forall2 RC ds lcs /\ Forall (fun lc => lc <> [] /\ h <= ds_doc lc) lcs.

  Record P_u (s : ustate C) (L : list N) : Prop := {
    p_oof : u_oof C s = false;
    p_len : length (u_bitsets C s) = 64%nat;
    p_small : Forall small (u_bitsets C s);
    p_zero : forall i, (i < u_bucket C s)%nat -> nth i (u_bitsets C s) 0 = 0;
    p_wf : wf_docs L;
    p_kids : exists lcs, kids_ok (u_w C s + 4096) (u_docsets C s) lcs /\
             forall x, In x L <-> inwin (u_bitsets C s) (u_w C s) x \/ inchild lcs x }.

  (* the state handed to `refill`: empty window, children anywhere *)
  Record Q_u (s : ustate C) (L : list N) : Prop := {
    q_oof : u_oof C s = false;
    q_len : length (u_bitsets C s) = 64%nat;
    q_zero : forall i, nth i (u_bitsets C s) 0 = 0;
    q_wf : wf_docs L;
    q_kids : exists lcs, kids_ok 0 (u_docsets C s) lcs /\ forall x, In x L <-> inchild lcs x }.

  Definition R_u (s : ustate C) (l : list N) : Prop :=
    exists L, P_u s L /\
      ((l = u_doc C s :: L /\ wf_docs l /\ u_w C s <= u_doc C s /\ u_doc C s < u_w C s + 4096)
       \/ (l = [] /\ L = [] /\ u_doc C s = DOCSET_TERMINATED /\ u_docsets C s = [])).

  Lemma P_u_doc_irrel s L d : P_u s L -> P_u (upd C s (u_docsets C s) (u_bitsets C s) (u_bucket C s) (u_w C s) d (u_oof C s)) L.
  Proof. intros [H1 H2 H3 H4 H5 H6]. constructor; cbn [upd u_oof u_bitsets u_bucket u_w u_docsets]; assumption. Qed.

  Lemma kids_weaken h h' ds lcs : h' <= h -> kids_ok h ds lcs -> kids_ok h' ds lcs.
  Proof. intros Hh [H1 H2]. split; [assumption|]. eapply Forall_impl; [|exact H2]. cbn. intros a [Ha Hb]. split; [assumption|lia]. Qed.

  Lemma kids_wf h ds lcs lc : kids_ok h ds lcs -> In lc lcs -> wf_docs lc.
  Proof. intros [HF _] Hlc. destruct (F2_in_r _ _ _ _ HF Hlc) as [c [_ Hc]]. exact (c_wf _ _ _ _ CC _ _ Hc). Qed.

  Lemma inchild_ge h ds lcs x : kids_ok h ds lcs -> inchild lcs x -> h <= x /\ x < DOCSET_TERMINATED.
  Proof.
    intros HK [lc [Hlc Hx]]. pose proof (kids_wf _ _ _ _ HK Hlc) as [Hs Hall]. destruct HK as [HF HA].
    rewrite Forall_forall in HA, Hall. destruct (HA _ Hlc) as [_ Hh].
    pose proof (ds_doc_le_In lc x Hs Hx). split; [lia|auto].
  Qed.

  Lemma no_inwin_zero bs w x : (forall i, nth i bs 0 = 0) -> ~ inwin bs w x.
  Proof. intros Hz [dl [_ [Hh _]]]. exact (hasbit_zero bs dl (Hz _) Hh). Qed.

  (* ---- advance_buffered ---- *)
  Lemma adv_buffered_ok : forall fuel s L, P_u s L -> (64 - u_bucket C s < fuel)%nat ->
    match adv_buffered C fuel s with
    | (true, s') => R_u s' L /\ u_doc C s' < DOCSET_TERMINATED
    | (false, s') => P_u s' L /\ (forall i, nth i (u_bitsets C s') 0 = 0) /\ u_bitsets C s' = u_bitsets C s
    end.
  Proof.
    induction fuel as [|f IH]; intros s L HP Hf; [lia|]. cbn [adv_buffered]. rewrite HNT.
    destruct HP as [H1 H2 H3 H4 H5 [lcs [HK HM]]].
    destruct (Nat.ltb_spec (u_bucket C s) 64) as [Hbk|Hbk].
    - destruct (pop_lowest (nth (u_bucket C s) (u_bitsets C s) 0)) as [[val rest]|] eqn:E.
      + destruct (hasbit_pop _ _ _ _ H2 Hbk (nth_small _ _ H3) E) as [Hd0 [Hh [Hmin [Hafter Hsr]]]].
        set (d0 := val + N.of_nat (u_bucket C s) * 64) in *. set (d' := u_w C s + d0).
        assert (Hin : In d' L) by (apply HM; left; exists d0; repeat split; assumption).
        assert (Hmn : forall x, In x L -> d' <= x).
        { intros x Hx. apply HM in Hx. destruct Hx as [[dl [Hdl [Hhd ->]]]|Hc].
          - unfold d'. apply N.add_le_mono_l.
            destruct (lt_eq_lt_dec (N.to_nat (dl / 64)) (u_bucket C s)) as [[Hlt|Heq]|Hgt].
            + exfalso. exact (hasbit_zero _ _ (H4 _ Hlt) Hhd).
            + apply Hmin; [assumption|lia].
            + unfold d0. pose proof (nth_small _ (u_bucket C s) H3 _ (proj1 (pop_lowest_Some _ _ _ E))). dlia.
          - destruct (inchild_ge _ _ _ _ HK Hc). unfold d'. lia. }
        destruct (sorted_head_min L d' H5 Hin Hmn) as [L' [EL HL']].
        split; [|cbn [upd u_doc]; fold d0; fold d'; exact (In_lt_T_local L d' H5 Hin)].
        exists L'. split; [|left; cbn [upd u_doc u_w]; fold d0; fold d'; split; [exact EL|split; [assumption|unfold d'; lia]]].
        constructor; cbn [upd u_oof u_bitsets u_bucket u_w u_docsets].
        * assumption.
        * now rewrite upd_nth_length.
        * apply Forall_small_upd; [assumption|]. intros _ _. exact Hsr.
        * intros i Hi. rewrite nth_upd_nth. destruct (Nat.eqb_spec i (u_bucket C s)); [lia|]. cbn [andb]. auto.
        * subst L. exact (wf_docs_tl _ H5).
        * exists lcs. split; [assumption|]. intros x. rewrite HL', HM. split.
          -- intros [[[dl [Hdl [Hhd ->]]]|Hc] Hne]; [left|now right]. exists dl. repeat split; [assumption|].
             apply Hafter. split; [assumption|]. intros ->. now apply Hne.
          -- intros [[dl [Hdl [Hhd ->]]]|Hc].
             ++ apply Hafter in Hhd. destruct Hhd as [Hb Hne]. split; [left; exists dl; repeat split; assumption|]. unfold d'. lia.
             ++ split; [now right|]. destruct (inchild_ge _ _ _ _ HK Hc). unfold d'. lia.
      + apply pop_lowest_None in E.
        set (s2 := upd C s (u_docsets C s) (u_bitsets C s) (S (u_bucket C s)) (u_w C s) (u_doc C s) (u_oof C s)).
        assert (HP2 : P_u s2 L).
        { constructor; cbn [s2 upd u_oof u_bitsets u_bucket u_w u_docsets]; try assumption.
          - intros i Hi. destruct (Nat.eq_dec i (u_bucket C s)) as [->|]; [assumption|]. apply H4. lia.
          - exists lcs. split; assumption. }
        pose proof (IH s2 L HP2 ltac:(cbn [s2 upd u_bucket]; lia)) as IH'.
        destruct (adv_buffered C f s2) as [[|] s']; exact IH'.
    - split; [constructor; try assumption; exists lcs; split; assumption|]. split; [|reflexivity].
      intros i. destruct (Nat.lt_ge_cases i 64) as [Hi|Hi]; [apply H4; lia|]. apply nth_overflow. lia.
  Qed.

  (* ---- refill: one child drained into the window ---- *)
  Definition nilb (l : list N) : bool := match l with [] => true | _ => false end.

  Lemma refill_one_ok : forall fuel m bs c lc, RC c lc -> lc <> [] -> (length lc <= S fuel)%nat ->
    exists c', refill_one C fuel m bs c =
                 (fold_left (fun b x => ins m x b) (filter (fun x => N.ltb x (m + 4096)) lc) bs, c',
                  nilb (ds_seek (m + 4096) lc), false) /\
               RC c' (ds_seek (m + 4096) lc).
  Proof.
    induction fuel as [|f IH]; intros m bs c lc HR Hne Hlen; (destruct lc as [|d r]; [congruence|]);
      cbn [refill_one]; change UNION_HORIZON with 4096; rewrite (c_doc _ _ _ _ CC _ _ HR); cbn [ds_doc];
      pose proof (c_wf _ _ _ _ CC _ _ HR) as Hwf; pose proof (wf_docs_cons _ _ Hwf) as [HdT [Hall Hwr]];
      (destruct (N.leb_spec (m + 4096) d) as [Hge|Hlt];
       [ exists c; rewrite filter_nil_ge by assumption; cbn [fold_left ds_seek];
         destruct (N.ltb_spec d (m + 4096)); [lia|]; cbn [nilb]; split; [reflexivity|assumption] | ]);
      pose proof (c_advance _ _ _ _ CC _ _ HR) as HA; cbn [ds_advance tl] in HA; rewrite (c_doc _ _ _ _ CC _ _ HA);
      cbn [filter]; (destruct (N.ltb_spec d (m + 4096)) as [_|]; [|lia]); rewrite ds_seek_cons_lt by assumption; cbn [fold_left];
      fold (ins m d bs); (destruct r as [|d' r'];
       [ cbn [ds_doc]; rewrite N.eqb_refl; exists (advance C c); cbn [filter fold_left ds_seek nilb]; split; [reflexivity|assumption] | ]).
    - cbn [length] in Hlen. lia.
    - cbn [ds_doc]. pose proof (wf_docs_cons _ _ Hwr) as [Hd'T _]. destruct (N.eqb_spec d' DOCSET_TERMINATED); [lia|].
      apply IH; [assumption|congruence|cbn [length] in *; lia].
  Qed.

  Lemma fold_ins_props m xs : forall bs, length bs = 64%nat -> Forall small bs -> Forall (fun x => m <= x /\ x < m + 4096) xs ->
    let bs' := fold_left (fun b x => ins m x b) xs bs in
    length bs' = 64%nat /\ Forall small bs' /\
    forall dl, dl < 4096 -> (hasbit bs' dl <-> hasbit bs dl \/ In (m + dl) xs).
  Proof.
    induction xs as [|x r IH]; intros bs Hl Hs Hx; cbn [fold_left].
    - split; [assumption|split; [assumption|]]. intros dl Hdl. cbn [In]. tauto.
    - inversion Hx as [|? ? [Hx1 Hx2] Hr]; subst.
      assert (Hl1 : length (ins m x bs) = 64%nat) by (unfold ins; now rewrite upd_nth_length).
      assert (Hs1 : Forall small (ins m x bs)).
      { unfold ins. apply Forall_small_upd; [assumption|]. intros y Hy. apply small_insert; [dlia|assumption]. }
      destruct (IH (ins m x bs) Hl1 Hs1 Hr) as [I1 [I2 I3]]. split; [assumption|split; [assumption|]].
      intros dl Hdl. rewrite (I3 dl Hdl). unfold ins. rewrite hasbit_ins by (assumption || lia). cbn [In].
      split; [intros [[H|H]|H]|intros [H|[H|H]]]; try tauto; [right; left; lia|left; right; lia].
  Qed.

  Lemma filter_lt_In (lc : list N) h x : In x (filter (fun y => N.ltb y h) lc) <-> In x lc /\ x < h.
  Proof. rewrite filter_In, N.ltb_lt. tauto. Qed.

  (* ---- refill: unordered_drain_filter over the children ---- *)
  Lemma inchild_nil x : ~ inchild [] x.
  Proof. intros [lc [[] _]]. Qed.
  Lemma inchild_cons lc lr x : inchild (lc :: lr) x <-> In x lc \/ inchild lr x.
  Proof.
    unfold inchild. cbn [In]. split.
    - intros [l0 [[<-|H1] H2]]; [now left|right; exists l0; tauto].
    - intros [H|[l0 [H1 H2]]]; [exists lc; tauto|exists l0; tauto].
  Qed.
  Lemma inchild_ext l1 l2 x : (forall z, In z l1 <-> In z l2) -> (inchild l1 x <-> inchild l2 x).
  Proof. intros H. unfold inchild. split; intros [l0 [H1 H2]]; exists l0; (split; [apply H; assumption|assumption]). Qed.

  Definition drain_post (m : N) (bs : list N) (lcs : list (list N)) (bs' : list N) (ds' : list (st C)) (lcs' : list (list N)) : Prop :=
    kids_ok (m + 4096) ds' lcs' /\ length bs' = 64%nat /\ Forall small bs' /\
    (forall x, inchild lcs' x <-> inchild lcs x /\ m + 4096 <= x) /\
    (forall dl, dl < 4096 -> (hasbit bs' dl <-> hasbit bs dl \/ inchild lcs (m + dl))).

  Lemma drain_post_nil m bs : length bs = 64%nat -> Forall small bs -> drain_post m bs [] bs [] [].
  Proof.
    intros Hl Hs. split; [split; constructor|split; [assumption|split; [assumption|split]]].
    - intros x. pose proof (inchild_nil x). tauto.
    - intros dl _. pose proof (inchild_nil (m + dl)). tauto.
  Qed.

  (* the head child lc has been drained into bs1 *)
  Lemma drain_post_step m bs lc lr lr0 bs1 bs' ds' lcs' tailc (keep : list (list N)) :
    wf_docs lc -> m <= ds_doc lc ->
    (forall dl, dl < 4096 -> (hasbit bs1 dl <-> hasbit bs dl \/ In (m + dl) lc)) ->
    (forall z, In z lr0 <-> In z lr) ->
    drain_post m bs1 lr0 bs' ds' lcs' ->
    (keep = [] /\ tailc = [] /\ ds_seek (m + 4096) lc = [] \/
     exists c', keep = [ds_seek (m + 4096) lc] /\ tailc = [c'] /\ RC c' (ds_seek (m + 4096) lc) /\ ds_seek (m + 4096) lc <> []) ->
    drain_post m bs (lc :: lr) bs' (tailc ++ ds') (keep ++ lcs').
  Proof.
    intros Hwf Hm Hb1 Hsame [[HF HA] [Hl [Hs [Hch Hb]]]] Hk.
    assert (Hmem : forall x, In x (ds_seek (m + 4096) lc) <-> In x lc /\ m + 4096 <= x) by (intros x; apply ds_seek_In; apply Hwf).
    split; [|split; [assumption|split; [assumption|split]]].
    - destruct Hk as [[-> [-> _]]|[c' [-> [-> [Hc' Hne]]]]]; [split; assumption|]. cbn [app]. split; [constructor; assumption|].
      constructor; [|assumption]. split; [assumption|].
      destruct (ds_seek_head (m + 4096) lc Hwf) as [H|[_ H]]; [exact H|congruence].
    - intros x. rewrite inchild_cons, <- (inchild_ext lr0 lr x Hsame).
      destruct Hk as [[-> [-> Hnil]]|[c' [-> [-> [Hc' Hne]]]]]; cbn [app].
      + rewrite Hch. specialize (Hmem x). rewrite Hnil in Hmem. cbn [In] in Hmem. tauto.
      + rewrite inchild_cons, Hch, Hmem. tauto.
    - intros dl Hdl. rewrite (Hb dl Hdl), (Hb1 dl Hdl), inchild_cons, <- (inchild_ext lr0 lr (m + dl) Hsame). tauto.
  Qed.

  Lemma drain_refill_ok : forall n m bs ds lcs, kids_ok m ds lcs -> (length ds <= n)%nat -> length bs = 64%nat -> Forall small bs ->
    exists bs' ds' lcs', drain_refill C n m bs ds = (bs', ds', false) /\ drain_post m bs lcs bs' ds' lcs'.
  Proof.
    induction n as [|n IH]; intros m bs ds lcs [HF HA] Hn Hl Hs.
    - destruct ds as [|c r]; [|cbn in Hn; lia]. inversion HF; subst. exists bs, [], []. split; [reflexivity|now apply drain_post_nil].
    - destruct ds as [|c r]; [inversion HF; subst; exists bs, [], []; split; [reflexivity|now apply drain_post_nil]|].
      inversion HF as [|? lc ? lr Hc Hr]; subst. inversion HA as [|? ? [Hne Hm] HAr]; subst. cbn [drain_refill].
      destruct (refill_one_ok (size C c) m bs c lc Hc Hne) as [c' [E Hc']]; [pose proof (c_size _ _ _ _ CC _ _ Hc); lia|].
      rewrite E. pose proof (c_wf _ _ _ _ CC _ _ Hc) as Hwf.
      set (xs := filter (fun x => N.ltb x (m + 4096)) lc) in *. set (bs1 := fold_left (fun b x => ins m x b) xs bs) in *.
      assert (Hxs : Forall (fun x => m <= x /\ x < m + 4096) xs).
      { rewrite Forall_forall. intros x Hx. apply filter_lt_In in Hx. destruct Hx as [Hx Hlt].
        pose proof (ds_doc_le_In lc x (proj1 Hwf) Hx). lia. }
      destruct (fold_ins_props m xs bs Hl Hs Hxs) as [Hl1 [Hs1 Hb1]]. fold bs1 in Hl1, Hs1, Hb1.
      assert (Hb1' : forall dl, dl < 4096 -> (hasbit bs1 dl <-> hasbit bs dl \/ In (m + dl) lc)).
      { intros dl Hdl. rewrite (Hb1 dl Hdl). unfold xs. rewrite filter_lt_In. split; [tauto|]. intros [H|H]; [now left|right; split; [assumption|lia]]. }
      destruct (ds_seek (m + 4096) lc) as [|y ry] eqn:Eseek; cbn [nilb].
      + destruct r as [|c2 r2].
        * inversion Hr; subst. exists bs1, [], []. split; [reflexivity|].
          apply (drain_post_step m bs lc [] [] bs1 bs1 [] [] [] []); try assumption; [tauto|now apply drain_post_nil|].
          left. rewrite Eseek. tauto.
        * assert (Hrne : c2 :: r2 <> []) by congruence.
          assert (Hlrne : lr <> []) by (intros ->; inversion Hr).
          pose proof (swap_F2 RC _ _ c lc Hr Hrne) as HF2.
          assert (HA2 : Forall (fun lc0 => lc0 <> [] /\ m <= ds_doc lc0) (last lr lc :: removelast lr)).
          { rewrite Forall_forall in *. intros z Hz. apply swap_In in Hz; [|assumption]. auto. }
          destruct (IH m bs1 _ _ (conj HF2 HA2)) as [bs' [ds' [lcs' [E2 HP]]]]; try assumption.
          { rewrite swap_length by assumption. cbn [length] in *. lia. }
          rewrite E2. cbn [orb]. exists bs', ds', lcs'. split; [reflexivity|].
          apply (drain_post_step m bs lc lr (last lr lc :: removelast lr) bs1 bs' ds' lcs' [] []); try assumption.
          -- intros z. now apply swap_In.
          -- left. rewrite Eseek. tauto.
      + destruct (IH m bs1 r lr (conj Hr HAr)) as [bs' [ds' [lcs' [E2 HP]]]]; try assumption.
        { cbn [length] in Hn. lia. }
        rewrite E2. cbn [orb]. exists bs', (c' :: ds'), ((y :: ry) :: lcs'). split; [reflexivity|]. rewrite <- Eseek in *.
        apply (drain_post_step m bs lc lr lr bs1 bs' ds' lcs' [c'] [ds_seek (m + 4096) lc]); try assumption; [tauto|].
        right. exists c'. repeat split; try assumption. rewrite Eseek. congruence.
  Qed.

  (* ---- refill ---- *)
  Lemma fold_min_spec (r : list (st C)) : forall a, let m := fold_left (fun m x => N.min m (doc C x)) r a in
    m <= a /\ Forall (fun c => m <= doc C c) r /\ (m = a \/ exists c, In c r /\ doc C c = m).
  Proof.
    induction r as [|x r IH]; intros a; cbn [fold_left]; [split; [lia|split; [constructor|now left]]|].
    destruct (IH (N.min a (doc C x))) as [I1 [I2 I3]]. cbv zeta. split; [lia|split].
    - constructor; [lia|assumption].
    - destruct I3 as [I3|[c [Hc1 Hc2]]]; [|right; exists c; split; [now right|assumption]].
      destruct (N.min_spec a (doc C x)) as [[_ E]|[_ E]]; [left; congruence|right; exists x; split; [now left|congruence]].
  Qed.

  Lemma F2_docs_all m ds lcs : Forall2 RC ds lcs -> Forall (fun c => m <= doc C c) ds -> Forall (fun lc => m <= ds_doc lc) lcs.
  Proof.
    induction 1 as [|c lc ds lcs Hc _ IH]; intros Hall; [constructor|]. inversion Hall; subst.
    constructor; [rewrite <- (c_doc _ _ _ _ CC _ _ Hc); assumption|auto].
  Qed.
  Lemma F2_docs_ex m ds lcs : Forall2 RC ds lcs -> (exists c, In c ds /\ doc C c = m) -> exists lc, In lc lcs /\ ds_doc lc = m.
  Proof.
    induction 1 as [|c0 lc ds lcs Hc _ IH]; intros [c [Hin Hd]]; [destruct Hin|]. destruct Hin as [->|Hin].
    - exists lc. split; [now left|]. now rewrite <- (c_doc _ _ _ _ CC _ _ Hc).
    - destruct (IH (ex_intro _ c (conj Hin Hd))) as [l0 [H3 H4]]. exists l0. split; [now right|assumption].
  Qed.

  Lemma min_doc_spec ds lcs m : Forall2 RC ds lcs -> min_doc_of C ds = Some m ->
    Forall (fun lc => m <= ds_doc lc) lcs /\ exists lc, In lc lcs /\ ds_doc lc = m.
  Proof.
    intros HF E. destruct ds as [|d r]; [discriminate|]. cbn [min_doc_of] in E. injection E as E.
    destruct (fold_min_spec r (doc C d)) as [I1 [I2 I3]]. rewrite E in *.
    assert (Hall : Forall (fun c => m <= doc C c) (d :: r)) by (constructor; assumption).
    assert (Hex : exists c, In c (d :: r) /\ doc C c = m).
    { destruct I3 as [I3|[c [H1 H2]]]; [exists d; split; [now left|now symmetry]|exists c; split; [now right|assumption]]. }
    split; [exact (F2_docs_all _ _ _ HF Hall)|exact (F2_docs_ex _ _ _ HF Hex)].
  Qed.

  Lemma refill_ok s L : Q_u s L ->
    (u_docsets C s = [] /\ L = [] /\ u_refill C s = (false, s)) \/
    (exists s2, u_refill C s = (true, s2) /\ P_u s2 L /\ hasbit (u_bitsets C s2) 0 /\ u_bucket C s2 = 0%nat).
  Proof.
    intros [H1 H2 H3 H4 [lcs [[HF HA] HM]]]. unfold u_refill.
    destruct (min_doc_of C (u_docsets C s)) as [m|] eqn:Em.
    - right. destruct (min_doc_spec _ _ _ HF Em) as [Hmin [lm [Hlm Hdm]]].
      assert (HK : kids_ok m (u_docsets C s) lcs).
      { split; [assumption|]. rewrite Forall_forall in *. intros z Hz. split; [apply (HA z Hz)|apply (Hmin z Hz)]. }
      assert (Hs : Forall small (u_bitsets C s)).
      { rewrite Forall_forall. intros x Hx. destruct (In_nth _ _ 0 Hx) as [i [_ <-]]. rewrite H3. apply small_0. }
      destruct (drain_refill_ok (length (u_docsets C s)) m (u_bitsets C s) _ _ HK (le_n _) H2 Hs) as [bs' [ds' [lcs' [E [HK' [Hl' [Hs' [Hch Hb]]]]]]]].
      rewrite E. eexists. split; [reflexivity|].
      assert (Hnb : forall dl, ~ hasbit (u_bitsets C s) dl) by (intros dl; apply hasbit_zero, H3).
      split; [constructor; cbn [upd u_oof u_bitsets u_bucket u_w u_docsets]|].
      + rewrite H1. reflexivity.
      + assumption.
      + assumption.
      + intros i Hi. lia.
      + assumption.
      + exists lcs'. split; [assumption|]. intros x. rewrite HM, Hch. split.
        * intros Hx. destruct (inchild_ge _ _ _ _ HK Hx) as [Hge _].
          destruct (N.lt_ge_cases x (m + 4096)) as [Hlt|Hge2]; [left|right; tauto].
          exists (x - m). split; [lia|split; [|lia]]. apply Hb; [lia|]. right. replace (m + (x - m)) with x by lia. exact Hx.
        * intros [[dl [Hdl [Hh ->]]]|[Hx _]]; [|exact Hx]. apply Hb in Hh; [|assumption]. destruct Hh as [Hh|Hh]; [destruct (Hnb _ Hh)|exact Hh].
      + split; [|reflexivity]. cbn [upd u_bitsets]. apply Hb; [lia|]. right. exists lm. split; [assumption|]. rewrite N.add_0_r, <- Hdm.
        apply ds_doc_In. rewrite Forall_forall in HA. destruct (HA _ Hlm) as [Hne _].
        pose proof (kids_wf _ _ _ _ HK Hlm) as Hwf. destruct lm as [|y r]; [congruence|]. apply wf_docs_cons in Hwf. cbn [ds_doc]. tauto.
    - left. destruct (u_docsets C s) as [|d r] eqn:Ed; [|discriminate]. inversion HF; subst. repeat split.
      apply nil_of_no_mem. intros x Hx. apply HM in Hx. exact (inchild_nil x Hx).
  Qed.

  Lemma P_to_Q s L : P_u s L -> (forall i, nth i (u_bitsets C s) 0 = 0) -> Q_u s L.
  Proof.
    intros [H1 H2 H3 H4 H5 [lcs [HK HM]]] Hz. constructor; try assumption. exists lcs. split; [eapply kids_weaken; [|exact HK]; lia|].
    intros x. rewrite HM. pose proof (no_inwin_zero _ (u_w C s) x Hz). tauto.
  Qed.

  (* ---- advance ---- *)
  Lemma u_advance_P s L : P_u s L -> R_u (u_advance C s) L.
  Proof.
    intros HP. unfold u_advance, advance_buffered. rewrite HNT.
    pose proof (adv_buffered_ok 65 s L HP ltac:(lia)) as HA. destruct (adv_buffered C 65 s) as [[|] s1]; [tauto|].
    destruct HA as [HP1 [Hz1 _]]. destruct (refill_ok s1 L (P_to_Q _ _ HP1 Hz1)) as [[Hds [-> E]]|[s2 [E [HP2 Hb2]]]]; rewrite E; cbn [negb].
    - exists []. split; [now apply P_u_doc_irrel|right]. cbn [upd u_doc u_docsets]. tauto.
    - pose proof (adv_buffered_ok 65 s2 L HP2 ltac:(lia)) as HA2. destruct (adv_buffered C 65 s2) as [[|] s3]; cbn [snd]; [tauto|].
      destruct HA2 as [_ [Hz3 Eb]]. exfalso. rewrite Eb in Hz3. exact (hasbit_zero _ 0 (Hz3 _) (proj1 Hb2)).
  Qed.

  Lemma H_wf : forall s l, R_u s l -> wf_docs l.
  Proof. intros s l [L [_ [[_ [H _]]|[-> _]]]]; [exact H|split; [exact I|constructor]]. Qed.

  Lemma H_doc : forall s l, R_u s l -> u_doc C s = ds_doc l.
  Proof. intros s l [L [_ [[-> _]|[-> [_ [H _]]]]]]; [reflexivity|exact H]. Qed.

  Lemma H_adv : forall s l, R_u s l -> R_u (u_advance C s) (ds_advance l).
  Proof. intros s l [L [HP [[-> _]|[-> [-> _]]]]]; cbn [ds_advance tl]; now apply u_advance_P. Qed.

  Lemma H_ok : forall s l, R_u s l -> u_ok C s = true.
  Proof.
    intros s l [L [[H1 _ _ _ _ [lcs [[HF _] _]]] _]]. unfold u_ok. rewrite H1. cbn [negb andb].
    induction HF as [|c lc ds lcs0 Hc _ IH]; [reflexivity|]. cbn [forallb]. now rewrite (c_ok _ _ _ _ CC _ _ Hc), IH.
  Qed.

  Lemma concat_len_le ds lcs : Forall2 RC ds lcs -> (length (concat lcs) <= fold_right (fun d n => (size C d + n)%nat) O ds)%nat.
  Proof.
    induction 1 as [|c lc ds lcs Hc _ IH]; [apply le_n|]. cbn [concat fold_right]. rewrite app_length.
    pose proof (c_size _ _ _ _ CC _ _ Hc). lia.
  Qed.

  Lemma H_size : forall s l, R_u s l -> (length l <= u_size C s)%nat.
  Proof.
    intros s l [L [[H1 H2 H3 H4 H5 [lcs [[HF HA] HM]]] [[-> _]|[-> _]]]]; [|cbn; lia]. unfold u_size. cbn [length]. apply le_n_S.
    assert (Hincl : incl L (map (fun dl => u_w C s + dl) (all_bits 0 (u_bitsets C s)) ++ concat lcs)).
    { intros x Hx. apply HM in Hx. apply in_or_app. destruct Hx as [[dl [Hdl [Hh ->]]]|[lc [Hlc Hx]]].
      - left. apply in_map. unfold hasbit in Hh.
        replace dl with (64 * N.of_nat (0 + N.to_nat (dl / 64)) + dl mod 64) by dlia.
        apply all_bits_In; [rewrite H2; dlia|exact Hh].
      - right. apply in_concat. exists lc. tauto. }
    pose proof (NoDup_incl_length (ssorted_NoDup _ (proj1 H5)) Hincl) as Hlen.
    rewrite app_length, map_length in Hlen. pose proof (all_bits_len 0 (u_bitsets C s)) as Hab.
    pose proof (concat_len_le _ _ HF). lia.
  Qed.

  (* ---- seek ---- *)
  Lemma u_seek_loop_eq fuel : forall t s, u_seek_loop C fuel t s = seek_loop (u_doc C) (u_advance C) (u_set_oof C) fuel t s.
  Proof. induction fuel as [|f IH]; intros t s; cbn [u_seek_loop seek_loop]; [reflexivity|]. now rewrite IH. Qed.

  (* out of the horizon: every child is sought, exhausted ones are swap_removed *)
  Definition dseek_post (t : N) (lcs : list (list N)) (ds' : list (st C)) (lcs' : list (list N)) : Prop :=
    kids_ok t ds' lcs' /\ (forall x, inchild lcs' x <-> inchild lcs x /\ t <= x).

  Lemma dseek_post_step t lc lr lr0 ds' lcs' tailc (keep : list (list N)) :
    wf_docs lc -> (forall z, In z lr0 <-> In z lr) -> dseek_post t lr0 ds' lcs' ->
    (keep = [] /\ tailc = [] /\ ds_seek t lc = [] \/
     exists c', keep = [ds_seek t lc] /\ tailc = [c'] /\ RC c' (ds_seek t lc) /\ ds_seek t lc <> []) ->
    dseek_post t (lc :: lr) (tailc ++ ds') (keep ++ lcs').
  Proof.
    intros Hwf Hsame [[HF HA] Hch] Hk.
    assert (Hmem : forall x, In x (ds_seek t lc) <-> In x lc /\ t <= x) by (intros x; apply ds_seek_In; apply Hwf).
    split.
    - destruct Hk as [[-> [-> _]]|[c' [-> [-> [Hc' Hne]]]]]; [split; assumption|]. cbn [app]. split; [constructor; assumption|].
      constructor; [|assumption]. split; [assumption|].
      destruct (ds_seek_head t lc Hwf) as [H|[_ H]]; [exact H|congruence].
    - intros x. rewrite inchild_cons, <- (inchild_ext lr0 lr x Hsame).
      destruct Hk as [[-> [-> Hnil]]|[c' [-> [-> [Hc' Hne]]]]]; cbn [app].
      + rewrite Hch. specialize (Hmem x). rewrite Hnil in Hmem. cbn [In] in Hmem. tauto.
      + rewrite inchild_cons, Hch, Hmem. tauto.
  Qed.

  Lemma drain_seek_ok : forall n t ds lcs, Forall2 RC ds lcs -> (length ds <= n)%nat -> t <= DOCSET_TERMINATED ->
    exists ds' lcs', drain_seek C n t ds = (ds', false) /\ dseek_post t lcs ds' lcs'.
  Proof.
    assert (Hnil : forall t, dseek_post t [] [] []).
    { intros t. split; [split; constructor|]. intros x. pose proof (inchild_nil x). tauto. }
    induction n as [|n IH]; intros t ds lcs HF Hn Ht.
    - destruct ds as [|c r]; [|cbn in Hn; lia]. inversion HF; subst. exists [], []. split; [reflexivity|apply Hnil].
    - destruct ds as [|c r]; [inversion HF; subst; exists [], []; split; [reflexivity|apply Hnil]|].
      inversion HF as [|? lc ? lr Hc Hr]; subst. cbn [drain_seek].
      pose proof (c_wf _ _ _ _ CC _ _ Hc) as Hwf.
      set (c' := if N.ltb (doc C c) t then seek C t c else c).
      assert (Hc' : RC c' (ds_seek t lc)).
      { unfold c'. destruct (N.ltb_spec (doc C c) t) as [Hlt|Hge]; [apply (c_seek _ _ _ _ CC _ _ _ Hc); lia|].
        rewrite ds_seek_le; [assumption|]. rewrite <- (c_doc _ _ _ _ CC _ _ Hc). lia. }
      rewrite (c_doc _ _ _ _ CC _ _ Hc'). pose proof (c_wf _ _ _ _ CC _ _ Hc') as Hwf'.
      destruct (ds_seek t lc) as [|y ry] eqn:Eseek; cbn [ds_doc].
      + rewrite N.eqb_refl. destruct r as [|c2 r2].
        * inversion Hr; subst. exists [], []. split; [reflexivity|].
          apply (dseek_post_step t lc [] [] [] [] [] []); [assumption|tauto|apply Hnil|left; rewrite Eseek; tauto].
        * assert (Hrne : c2 :: r2 <> []) by congruence.
          assert (Hlrne : lr <> []) by (intros ->; inversion Hr).
          pose proof (swap_F2 RC _ _ c lc Hr Hrne) as HF2.
          destruct (IH t _ _ HF2) as [ds' [lcs' [E2 HP]]]; [rewrite swap_length by assumption; cbn [length] in *; lia|assumption|].
          rewrite E2. exists ds', lcs'. split; [reflexivity|].
          apply (dseek_post_step t lc lr (last lr lc :: removelast lr) ds' lcs' [] []); try assumption.
          -- intros z. now apply swap_In.
          -- left. rewrite Eseek. tauto.
      + pose proof (wf_docs_cons _ _ Hwf') as [HyT _]. destruct (N.eqb_spec y DOCSET_TERMINATED); [lia|].
        destruct (IH t r lr Hr) as [ds' [lcs' [E2 HP]]]; [cbn [length] in Hn; lia|assumption|].
        rewrite E2. exists (c' :: ds'), ((y :: ry) :: lcs'). split; [reflexivity|]. rewrite <- Eseek in *.
        apply (dseek_post_step t lc lr lr ds' lcs' [c'] [ds_seek t lc]); try assumption; [tauto|].
        right. exists c'. repeat split; try assumption. rewrite Eseek. congruence.
  Qed.

  Lemma H_seek : forall t s l, t <= DOCSET_TERMINATED -> R_u s l -> u_doc C s <= t -> R_u (u_seek C t s) (ds_seek t l).
  Proof.
    intros t s l Ht HR Hd. unfold u_seek. destruct (N.leb_spec t (u_doc C s)) as [Hle|Hlt].
    - rewrite ds_seek_le; [assumption|]. rewrite <- (H_doc _ _ HR). lia.
    - destruct HR as [L [HP [[-> [Hwf [Hw1 Hw2]]]|[_ [_ [HdT _]]]]]]; [|lia].
      rewrite ds_seek_cons_lt by assumption. pose proof (wf_docs_cons _ _ Hwf) as [HdT [HdL HwL]].
      destruct HP as [H1 H2 H3 H4 H5 [lcs [HK HM]]]. change UNION_HORIZON with 4096.
      destruct (N.ltb_spec (t - u_w C s) 4096) as [Hin|Hout].
      + (* inside the horizon *)
        set (nb := N.to_nat ((t - u_w C s) / 64)).
        set (s1 := upd C s (u_docsets C s) (clear_range (u_bucket C s) nb 0 (u_bitsets C s)) nb (u_w C s) (u_doc C s) (u_oof C s)).
        set (f := fun x => N.leb (u_w C s + 64 * N.of_nat nb) x). set (L1 := filter f L).
        assert (Hbits : forall dl, hasbit (clear_range (u_bucket C s) nb 0 (u_bitsets C s)) dl <-> hasbit (u_bitsets C s) dl /\ 64 * N.of_nat nb <= dl).
        { intros dl. unfold hasbit. rewrite nth_clear_range. cbn [Nat.add].
          destruct (Nat.leb_spec (u_bucket C s) (N.to_nat (dl / 64))) as [Hb1|Hb1]; cbn [andb].
          - destruct (Nat.ltb_spec (N.to_nat (dl / 64)) nb) as [Hb2|Hb2].
            + rewrite N.bits_0. split; [discriminate|]. intros [_ Hx]. exfalso. dlia.
            + split; [|tauto]. intros Hx. split; [assumption|dlia].
          - rewrite (H4 _ Hb1), N.bits_0. split; [discriminate|tauto]. }
        assert (HP1 : P_u s1 L1).
        { constructor; cbn [s1 upd u_oof u_bitsets u_bucket u_w u_docsets].
          - assumption.
          - now rewrite clear_range_length.
          - now apply Forall_small_clear.
          - intros i Hi. rewrite nth_clear_range. cbn [Nat.add].
            destruct (Nat.leb_spec (u_bucket C s) i); cbn [andb]; [destruct (Nat.ltb_spec i nb); [reflexivity|lia]|apply H4; lia].
          - now apply wf_docs_filter.
          - exists lcs. split; [assumption|]. intros x. unfold L1. rewrite filter_In, HM. unfold f. rewrite N.leb_le. split.
            + intros [[[dl [Hdl [Hh ->]]]|Hc] Hge]; [left|now right]. exists dl. repeat split; [assumption|]. apply Hbits. split; [assumption|lia].
            + intros [[dl [Hdl [Hh ->]]]|Hc].
              * apply Hbits in Hh. destruct Hh as [Hh Hge]. split; [left; exists dl; repeat split; assumption|lia].
              * split; [now right|]. destruct (inchild_ge _ _ _ _ HK Hc). unfold nb. dlia. }
        assert (HR1 : R_u s1 (u_doc C s :: L1)).
        { exists L1. split; [assumption|left]. cbn [s1 upd u_doc u_w]. split; [reflexivity|split; [|split; assumption]].
          split.
          - cbn [ssorted]. split; [|exact (ssorted_filter f L (proj1 HwL))].
            rewrite Forall_forall in *. intros x Hx. apply filter_In in Hx. apply HdL, Hx.
          - constructor; [assumption|]. apply (wf_docs_filter f L HwL). }
        rewrite u_seek_loop_eq.
        assert (E : ds_seek t L = ds_seek t (u_doc C s :: L1)).
        { rewrite ds_seek_cons_lt by assumption. unfold L1. rewrite ds_seek_filter by apply HwL. symmetry. apply filter_all_true.
          rewrite Forall_forall. intros x Hx. apply ds_seek_In in Hx; [|apply HwL]. unfold f. apply N.leb_le. unfold nb. dlia. }
        rewrite E. apply (seek_loop_ok (u_doc C) (u_advance C) (u_size C) (u_set_oof C) R_u H_wf H_size H_doc H_adv); [assumption|assumption|].
        exact (H_size _ _ HR1).
      + (* outside: re-seek the children, refill *)
        destruct HK as [HF HA].
        destruct (drain_seek_ok (length (u_docsets C s)) t _ _ HF (le_n _) Ht) as [ds' [lcs' [E [HK' Hch]]]]. rewrite E.
        set (s1 := upd C s ds' (empty_bitsets) (u_bucket C s) (u_w C s) (u_doc C s) (u_oof C s || false)).
        assert (HQ : Q_u s1 (ds_seek t L)).
        { constructor; cbn [s1 upd u_oof u_bitsets u_bucket u_w u_docsets].
          - rewrite H1. reflexivity.
          - unfold empty_bitsets. now rewrite repeat_length, HNT.
          - intros i. apply nth_repeat_0.
          - now apply wf_docs_seek.
          - exists lcs'. split; [eapply kids_weaken; [|exact HK']; lia|]. intros x.
            rewrite ds_seek_In by apply HwL. rewrite HM, Hch. split; [|tauto].
            intros [[[dl [Hdl [_ ->]]]|Hc] Hge]; [lia|tauto]. }
        destruct (refill_ok s1 _ HQ) as [[Hds [EL Er]]|[s2 [Er [HP2 _]]]]; rewrite Er; cbn [negb].
        * rewrite EL. exists []. split; [|right; cbn [upd u_doc u_docsets]; tauto].
          apply P_u_doc_irrel. rewrite EL in HQ. destruct HQ as [Q1 Q2 Q3 Q4 [lq [[QF QA] QM]]].
          constructor; try assumption.
          -- rewrite Forall_forall. intros x Hx. destruct (In_nth _ _ 0 Hx) as [i [_ <-]]. rewrite Q3. apply small_0.
          -- intros i _. apply Q3.
          -- exists []. rewrite Hds. split; [split; constructor|].
             intros x. pose proof (no_inwin_zero _ (u_w C s1) x Q3). pose proof (inchild_nil x). cbn [In]. tauto.
        * now apply u_advance_P.
  Qed.

  (* ---- build ---- *)
  Lemma Q_nil_P s : Q_u s [] -> u_docsets C s = [] -> P_u s [].
  Proof.
    intros [Q1 Q2 Q3 Q4 _] Hds. constructor; try assumption.
    - rewrite Forall_forall. intros x Hx. destruct (In_nth _ _ 0 Hx) as [i [_ <-]]. rewrite Q3. apply small_0.
    - intros i _. apply Q3.
    - exists []. rewrite Hds. split; [split; constructor|].
      intros x. pose proof (no_inwin_zero _ (u_w C s) x Q3). pose proof (inchild_nil x). cbn [In]. tauto.
  Qed.

  Lemma filter_live ds lcs : Forall2 RC ds lcs ->
    Forall2 RC (filter (fun d => negb (N.eqb (doc C d) DOCSET_TERMINATED)) ds) (filter (fun l => negb (nilb l)) lcs).
  Proof.
    induction 1 as [|c lc ds lcs Hc _ IH]; [constructor|]. cbn [filter]. rewrite (c_doc _ _ _ _ CC _ _ Hc).
    pose proof (c_wf _ _ _ _ CC _ _ Hc) as Hwf. destruct lc as [|y r]; cbn [ds_doc nilb negb].
    - rewrite N.eqb_refl. exact IH.
    - apply wf_docs_cons in Hwf. destruct (N.eqb_spec y DOCSET_TERMINATED); [lia|]. cbn [negb]. constructor; assumption.
  Qed.

  Theorem union_build_repr ds lcs : Forall2 RC ds lcs -> R_u (u_build C ds) (sem_union lcs).
  Proof.
    intros HF. unfold u_build.
    set (s0 := {| u_docsets := filter (fun d => negb (N.eqb (doc C d) DOCSET_TERMINATED)) ds; u_bitsets := empty_bitsets;
                  u_bucket := HORIZON_NUM_TINYBITSETS; u_w := 0; u_doc := 0; u_oof := false |}).
    assert (Hwfs : Forall wf_docs lcs) by (clear - CC HF; induction HF as [|c lc ds lcs Hc _ IH]; constructor; [exact (c_wf _ _ _ _ CC _ _ Hc)|assumption]).
    assert (HQ : Q_u s0 (sem_union lcs)).
    { constructor; cbn [s0 u_oof u_bitsets u_docsets].
      - reflexivity.
      - unfold empty_bitsets. now rewrite repeat_length, HNT.
      - intros i. apply nth_repeat_0.
      - now apply sem_union_wf.
      - exists (filter (fun l => negb (nilb l)) lcs). split; [split; [now apply filter_live|]|].
        + rewrite Forall_forall. intros l Hl. apply filter_In in Hl. destruct Hl as [_ Hl]. split; [destruct l; [discriminate|congruence]|lia].
        + intros x. rewrite sem_union_In. unfold inchild. split; intros [l [H1 H2]]; exists l.
          * split; [|assumption]. apply filter_In. split; [assumption|]. destruct l; [destruct H2|reflexivity].
          * apply filter_In in H1. tauto. }
    destruct (refill_ok s0 _ HQ) as [[Hds [EL Er]]|[s2 [Er [HP2 _]]]]; rewrite Er.
    - rewrite EL in *. exists []. split; [apply P_u_doc_irrel; now apply Q_nil_P|right]. cbn [upd u_doc u_docsets]. tauto.
    - now apply u_advance_P.
  Qed.

  (* ---- fill_buffer ---- *)
  Lemma pop_step s L val rest : P_u s L -> (u_bucket C s < 64)%nat ->
    pop_lowest (nth (u_bucket C s) (u_bitsets C s) 0) = Some (val, rest) ->
    let d := u_w C s + (val + N.of_nat (u_bucket C s) * 64) in
    let s' := upd C s (u_docsets C s) (upd_nth (u_bucket C s) (fun _ => rest) (u_bitsets C s)) (u_bucket C s) (u_w C s) d (u_oof C s) in
    exists L', L = d :: L' /\ P_u s' L' /\ R_u s' L.
  Proof.
    intros HP Hbk E d s'. pose proof (adv_buffered_ok 1 s L HP) as HA. cbn [adv_buffered] in HA. rewrite HNT in HA.
    destruct (Nat.ltb_spec (u_bucket C s) 64) as [_|]; [|lia]. rewrite E in HA.
    destruct HP as [H1 H2 H3 H4 H5 [lcs [HK HM]]].
    destruct (hasbit_pop _ _ _ _ H2 Hbk (nth_small _ _ H3) E) as [Hd0 [Hh [Hmin [Hafter Hsr]]]].
    set (d0 := val + N.of_nat (u_bucket C s) * 64) in *.
    assert (Hin : In d L) by (apply HM; left; exists d0; repeat split; assumption).
    assert (Hmn : forall x, In x L -> d <= x).
    { intros x Hx. apply HM in Hx. destruct Hx as [[dl [Hdl [Hhd ->]]]|Hc].
      - unfold d. apply N.add_le_mono_l.
        destruct (lt_eq_lt_dec (N.to_nat (dl / 64)) (u_bucket C s)) as [[Hlt|Heq]|Hgt].
        + exfalso. exact (hasbit_zero _ _ (H4 _ Hlt) Hhd).
        + apply Hmin; [assumption|lia].
        + unfold d0. pose proof (nth_small _ (u_bucket C s) H3 _ (proj1 (pop_lowest_Some _ _ _ E))). dlia.
      - destruct (inchild_ge _ _ _ _ HK Hc). unfold d. lia. }
    destruct (sorted_head_min L d H5 Hin Hmn) as [L' [EL HL']]. exists L'. split; [exact EL|].
    assert (HP' : P_u s' L').
    { constructor; cbn [s' upd u_oof u_bitsets u_bucket u_w u_docsets].
      * assumption.
      * now rewrite upd_nth_length.
      * apply Forall_small_upd; [assumption|]. intros _ _. exact Hsr.
      * intros i Hi. rewrite nth_upd_nth. destruct (Nat.eqb_spec i (u_bucket C s)); [lia|]. cbn [andb]. auto.
      * subst L. exact (wf_docs_tl _ H5).
      * exists lcs. split; [assumption|]. intros x. rewrite HL', HM. split.
        -- intros [[[dl [Hdl [Hhd ->]]]|Hc] Hne]; [left|now right]. exists dl. repeat split; [assumption|].
           apply Hafter. split; [assumption|]. intros ->. now apply Hne.
        -- intros [[dl [Hdl [Hhd ->]]]|Hc].
           ++ apply Hafter in Hhd. destruct Hhd as [Hb Hne]. split; [left; exists dl; repeat split; assumption|]. unfold d. lia.
           ++ split; [now right|]. destruct (inchild_ge _ _ _ _ HK Hc). unfold d. lia. }
    split; [exact HP'|]. exists L'. split; [exact HP'|left]. cbn [s' upd u_doc u_w]. split; [exact EL|split; [assumption|unfold d; lia]].
  Qed.

  Lemma BL : BUFFER_LEN = 64%nat. Proof. reflexivity. Qed.

  Lemma bucket_step s L : P_u s L -> nth (u_bucket C s) (u_bitsets C s) 0 = 0 ->
    P_u (upd C s (u_docsets C s) (u_bitsets C s) (S (u_bucket C s)) (u_w C s) (u_doc C s) (u_oof C s)) L.
  Proof.
    intros [H1 H2 H3 H4 H5 H6] E. constructor; cbn [upd u_oof u_bitsets u_bucket u_w u_docsets]; try assumption.
    intros i Hi. destruct (Nat.eq_dec i (u_bucket C s)) as [->|]; [assumption|]. apply H4. lia.
  Qed.

  Lemma allzero_of_bucket s L : P_u s L -> (64 <= u_bucket C s)%nat -> forall i, nth i (u_bitsets C s) 0 = 0.
  Proof.
    intros [H1 H2 H3 H4 H5 H6] Hb i. destruct (Nat.lt_ge_cases i 64) as [Hi|Hi]; [apply H4; lia|]. apply nth_overflow. lia.
  Qed.

  Lemma fb_loop_ok : forall fuel buf count s L, P_u s L -> (1 <= count <= 64)%nat ->
    ((66 * (64 - count) + (64 - u_bucket C s) + 2 <= fuel)%nat \/
     (u_bucket C s = 0%nat /\ hasbit (u_bitsets C s) 0 /\ (66 * (64 - count) + 1 <= fuel)%nat)) ->
    fst (fb_loop C fuel buf count s) = rev buf ++ firstn (64 - count) L /\
    R_u (snd (fb_loop C fuel buf count s)) (skipn (64 - count) L).
  Proof.
    induction fuel as [|f IH]; intros buf count s L HP Hc Hf; [lia|]. cbn [fb_loop]. rewrite HNT.
    destruct (Nat.ltb_spec (u_bucket C s) 64) as [Hbk|Hbk].
    - destruct (pop_lowest (nth (u_bucket C s) (u_bitsets C s) 0)) as [[val rest]|] eqn:E.
      + destruct (pop_step s L val rest HP Hbk E) as [L' [EL [HP' HR']]]. rewrite BL.
        destruct (Nat.leb_spec 64 count) as [Hfull|Hroom].
        * replace (64 - count)%nat with 0%nat by lia. cbn [fst snd firstn skipn]. rewrite app_nil_r. split; [reflexivity|exact HR'].
        * match goal with |- context [fb_loop C f (?d :: buf) (S count) ?s'] =>
            destruct (IH (d :: buf) (S count) s' L' HP' ltac:(lia)) as [I1 I2]; [left; cbn [upd u_bucket]; lia|] end.
          rewrite I1. replace (64 - count)%nat with (S (64 - S count)) by lia. rewrite EL. cbn [rev firstn skipn].
          rewrite <- app_assoc. split; [reflexivity|exact I2].
      + apply pop_lowest_None in E. destruct Hf as [Hf|[Hb0 [Hh _]]].
        * apply IH; [now apply bucket_step|assumption|left; cbn [upd u_bucket]; lia].
        * exfalso. rewrite Hb0 in E. apply (hasbit_zero (u_bitsets C s) 0); [exact E|exact Hh].
    - destruct Hf as [Hf|[Hb0 _]]; [|lia].
      destruct (refill_ok s L (P_to_Q _ _ HP (allzero_of_bucket _ _ HP Hbk))) as [[Hds [-> Er]]|[s2 [Er [HP2 [Hh2 Hb2]]]]]; rewrite Er; cbn [negb].
      + cbn [fst snd]. rewrite firstn_nil, skipn_nil, app_nil_r. split; [reflexivity|].
        exists []. split; [now apply P_u_doc_irrel|right]. cbn [upd u_doc u_docsets]. tauto.
      + apply IH; [assumption|assumption|right]. repeat split; try assumption. lia.
  Qed.

  Lemma H_fill_buffer : forall s l, R_u s l ->
    fst (u_fill_buffer C s) = fst (ds_fill_buffer l) /\ R_u (snd (u_fill_buffer C s)) (snd (ds_fill_buffer l)).
  Proof.
    intros s l HR. unfold u_fill_buffer, ds_fill_buffer. cbn [fst snd]. rewrite BL.
    destruct HR as [L [HP [[-> [Hwf [Hw1 Hw2]]]|[-> [-> [HdT Hds]]]]]].
    - pose proof (wf_docs_cons _ _ Hwf) as [HdT _]. destruct (N.eqb_spec (u_doc C s) DOCSET_TERMINATED); [lia|].
      rewrite HNT. destruct (fb_loop_ok ((64 + 2) * (64 + 3)) [u_doc C s] 1 s L HP ltac:(lia)) as [I1 I2]; [left; lia|].
      rewrite I1. split; [reflexivity|exact I2].
    - rewrite HdT, N.eqb_refl. cbn [fst snd]. split; [reflexivity|].
      exists []. split; [assumption|right]. tauto.
  Qed.
End UnionRepr.

(* ---------- counting the window ---------- *)
Lemma bits_pos_sorted p : forall i, ssorted (bits_pos p i).
Proof.
  induction p as [p IH|p IH|]; intros i; cbn [bits_pos ssorted]; [|apply IH|split; [constructor|exact I]].
  split; [|apply IH]. rewrite Forall_forall. intros j Hj. apply bits_pos_In in Hj. lia.
Qed.

Lemma ssorted_map_add c l : ssorted l -> ssorted (map (fun j => c + j) l).
Proof.
  induction l as [|x r IH]; cbn [map ssorted]; [tauto|]. intros [H1 H2]. split; [|auto].
  rewrite Forall_map. eapply Forall_impl; [|exact H1]. cbn. intros; lia.
Qed.

Lemma ssorted_app a b : ssorted a -> ssorted b -> (forall x y, In x a -> In y b -> x < y) -> ssorted (a ++ b).
Proof.
  induction a as [|x r IH]; cbn [app ssorted]; [tauto|]. intros [H1 H2] Hb Hlt. split.
  - apply Forall_app. split; [assumption|]. rewrite Forall_forall. intros y Hy. apply Hlt; [now left|assumption].
  - apply IH; try assumption. intros x0 y Hx Hy. apply Hlt; [now right|assumption].
Qed.

Lemma all_bits_In_inv bs : forall i x, In x (all_bits i bs) ->
  exists k j, (k < length bs)%nat /\ N.testbit (nth k bs 0) j = true /\ x = 64 * N.of_nat (i + k) + j.
Proof.
  induction bs as [|w r IH]; intros i x Hx; [destruct Hx|]. cbn [all_bits] in Hx. apply in_app_or in Hx. destruct Hx as [Hx|Hx].
  - apply in_map_iff in Hx. destruct Hx as [j [<- Hj]]. apply bits_list_In in Hj. exists 0%nat, j. cbn [length nth].
    rewrite Nat.add_0_r. repeat split; [lia|assumption].
  - destruct (IH _ _ Hx) as [k [j [Hk [Hb ->]]]]. exists (S k), j. cbn [length nth]. repeat split; [lia|assumption|].
    replace (i + S k)%nat with (S i + k)%nat by lia. reflexivity.
Qed.

Lemma all_bits_sorted bs : forall i, Forall small bs -> ssorted (all_bits i bs).
Proof.
  induction bs as [|w r IH]; intros i Hs; [exact I|]. inversion Hs as [|? ? Hw Hr]; subst. cbn [all_bits]. apply ssorted_app.
  - apply ssorted_map_add. destruct w as [|p]; [exact I|apply bits_pos_sorted].
  - now apply IH.
  - intros x y Hx Hy. apply in_map_iff in Hx. destruct Hx as [j [<- Hj]]. apply bits_list_In in Hj. specialize (Hw _ Hj).
    destruct (all_bits_In_inv _ _ _ Hy) as [k [j' [_ [_ ->]]]]. lia.
Qed.

Lemma sum_len_skipn_zero k : forall bs, (forall i, (i < k)%nat -> nth i bs 0 = 0) -> sum_len (skipn k bs) = sum_len bs.
Proof.
  induction k as [|k IH]; intros bs Hz; [reflexivity|]. destruct bs as [|x r]; [reflexivity|]. cbn [skipn].
  rewrite IH by (intros i Hi; apply (Hz (S i)); lia). pose proof (Hz 0%nat ltac:(lia)) as H0. cbn [nth] in H0. subst x.
  unfold sum_len. cbn [fold_right tiny_len]. lia.
Qed.

Lemma split_len h L : wf_docs L -> length L = (length (filter (fun x => N.ltb x h) L) + length (ds_seek h L))%nat.
Proof.
  induction L as [|x r IH]; intros Hwf; [reflexivity|]. pose proof (wf_docs_cons _ _ Hwf) as [_ [Hall Hwr]].
  cbn [ds_seek]. destruct (N.ltb_spec x h) as [Hlt|Hge].
  - cbn [filter]. destruct (N.ltb_spec x h); [|lia]. cbn [length]. rewrite (IH Hwr). reflexivity.
  - rewrite filter_nil_ge by assumption. reflexivity.
Qed.

Section UnionRepr2.
  Variables (C : impl) (strong : bool) (RC : st C -> list N -> Prop) (DC : st C -> N -> list N -> Prop).
  Hypothesis CC : contract C strong RC DC.
  Notation P_u := (P_u C RC).
  Notation Q_u := (Q_u C RC).
  Notation R_u := (R_u C RC).

  Lemma window_count s L : P_u s L ->
    sum_len (u_bitsets C s) = N.of_nat (length (filter (fun x => N.ltb x (u_w C s + 4096)) L)).
  Proof.
    intros [H1 H2 H3 H4 H5 [lcs [HK HM]]].
    assert (E : map (fun dl => u_w C s + dl) (all_bits 0 (u_bitsets C s)) = filter (fun x => N.ltb x (u_w C s + 4096)) L).
    { apply ssorted_ext.
      - apply ssorted_map_add. now apply all_bits_sorted.
      - apply ssorted_filter. apply H5.
      - intros x. rewrite filter_lt_In, HM. split.
        + intros Hx. apply in_map_iff in Hx. destruct Hx as [dl [<- Hdl]].
          destruct (all_bits_In_inv _ _ _ Hdl) as [k [j [Hk [Hb ->]]]]. pose proof (nth_small _ k H3 _ Hb) as Hj.
          rewrite H2 in Hk. cbn [Nat.add]. split; [|lia]. left. exists (64 * N.of_nat k + j). split; [lia|split; [|reflexivity]].
          unfold hasbit. replace ((64 * N.of_nat k + j) / 64) with (N.of_nat k) by dlia.
          replace ((64 * N.of_nat k + j) mod 64) with j by dlia. rewrite Nat2N.id. exact Hb.
        + intros [[[dl [Hdl [Hh ->]]]|Hc] Hlt].
          * apply in_map. unfold hasbit in Hh. replace dl with (64 * N.of_nat (0 + N.to_nat (dl / 64)) + dl mod 64) by dlia.
            apply all_bits_In; [rewrite H2; dlia|exact Hh].
          * destruct (inchild_ge C strong RC DC CC _ _ _ _ HK Hc). lia. }
    rewrite <- E, map_length. symmetry. apply all_bits_len.
  Qed.

  Lemma cnt_loop_ok : forall fuel count s L, Q_u s L -> (length L <= fuel)%nat ->
    fst (cnt_loop C fuel count s) = count + N.of_nat (length L) /\ u_ok C (snd (cnt_loop C fuel count s)) = true.
  Proof.
    induction fuel as [|f IH]; intros count s L HQ Hf; cbn [cnt_loop];
      (destruct (refill_ok C strong RC DC CC s L HQ) as [[Hds [-> Er]]|[s2 [Er [HP2 [Hh2 Hb2]]]]]; rewrite Er;
       [cbn [fst snd length]; split; [lia|]; unfold u_ok; rewrite Hds, (q_oof _ _ _ _ HQ); reflexivity|]).
    - exfalso. destruct L; [|cbn in Hf; lia]. destruct HP2 as [_ _ _ _ _ [lcs [_ HM]]].
      assert (Hx : In (u_w C s2 + 0) []) by (apply HM; left; exists 0; split; [lia|split; [assumption|reflexivity]]). destruct Hx.
    - set (h := u_w C s2 + 4096).
      set (s3 := upd C s2 (u_docsets C s2) empty_bitsets (u_bucket C s2) (u_w C s2) (u_doc C s2) (u_oof C s2)).
      pose proof (window_count s2 L HP2) as Hwc. fold h in Hwc.
      destruct HP2 as [H1 H2 H3 H4 H5 [lcs [HK HM]]].
      assert (Hin : In (u_w C s2) (filter (fun x => N.ltb x h) L)).
      { apply filter_lt_In. split; [|unfold h; lia]. apply HM. left. exists 0. split; [lia|split; [assumption|lia]]. }
      assert (HQ3 : Q_u s3 (ds_seek h L)).
      { constructor; cbn [s3 upd u_oof u_bitsets u_bucket u_w u_docsets].
        - assumption.
        - unfold empty_bitsets. now rewrite repeat_length, HNT.
        - intros i. apply nth_repeat_0.
        - now apply wf_docs_seek.
        - exists lcs. split; [eapply (kids_weaken C RC); [|exact HK]; lia|]. intros x.
          rewrite ds_seek_In by apply H5. rewrite HM. split.
          + intros [[[dl [Hdl [_ ->]]]|Hc] Hge]; [unfold h in Hge; lia|exact Hc].
          + intros Hc. split; [now right|]. destruct (inchild_ge C strong RC DC CC _ _ _ _ HK Hc). unfold h. lia. }
      pose proof (split_len h L H5) as Hsl.
      assert (Hpos : (1 <= length (filter (fun x => N.ltb x h) L))%nat) by (destruct (filter _ L); [destruct Hin|cbn; lia]).
      destruct (IH (count + sum_len (u_bitsets C s2)) s3 _ HQ3 ltac:(lia)) as [I1 I2]. fold s3. rewrite I1. split; [|exact I2]. lia.
  Qed.

  Lemma H_count : forall s l, R_u s l -> fst (u_count C s) = ds_count l /\ u_ok C (snd (u_count C s)) = true.
  Proof.
    intros s l HR. pose proof (H_ok C strong RC DC CC _ _ HR) as Hok. pose proof (H_size C strong RC DC CC _ _ HR) as Hsz.
    unfold u_count. destruct HR as [L [HP [[-> [Hwf [Hw1 Hw2]]]|[-> [-> [HdT Hds]]]]]].
    - pose proof (wf_docs_cons _ _ Hwf) as [HdT _]. destruct (N.eqb_spec (u_doc C s) DOCSET_TERMINATED); [lia|].
      pose proof (window_count s L HP) as Hwc. set (h := u_w C s + 4096) in *.
      set (s0 := upd C s (u_docsets C s) empty_bitsets (u_bucket C s) (u_w C s) (u_doc C s) (u_oof C s)).
      destruct HP as [H1 H2 H3 H4 H5 [lcs [HK HM]]].
      assert (HQ0 : Q_u s0 (ds_seek h L)).
      { constructor; cbn [s0 upd u_oof u_bitsets u_bucket u_w u_docsets].
        - assumption.
        - unfold empty_bitsets. now rewrite repeat_length, HNT.
        - intros i. apply nth_repeat_0.
        - now apply wf_docs_seek.
        - exists lcs. split; [eapply (kids_weaken C RC); [|exact HK]; lia|]. intros x.
          rewrite ds_seek_In by apply H5. rewrite HM. split.
          + intros [[[dl [Hdl [_ ->]]]|Hc] Hge]; [unfold h in Hge; lia|exact Hc].
          + intros Hc. split; [now right|]. destruct (inchild_ge C strong RC DC CC _ _ _ _ HK Hc). unfold h. lia. }
      pose proof (split_len h L H5) as Hsl. cbn [length] in Hsz.
      destruct (cnt_loop_ok (u_size C s) (sum_len (skipn (u_bucket C s) (u_bitsets C s)) + 1) s0 _ HQ0 ltac:(lia)) as [I1 I2].
      fold s0. destruct (cnt_loop C (u_size C s) _ s0) as [cn s'] eqn:Ec. cbn [fst snd] in *. split.
      + rewrite I1, (sum_len_skipn_zero _ _ H4), Hwc. unfold ds_count. cbn [length]. lia.
      + unfold u_ok in *. cbn [upd u_oof u_docsets]. exact I2.
    - rewrite HdT, N.eqb_refl. cbn [fst snd]. split; [reflexivity|exact Hok].
  Qed.
End UnionRepr2.

(* ---------- the R-part of the contract for ANY children, and program equivalence ---------- *)
Section UnionPrograms.
  Variables (C : impl) (strong : bool) (RC : st C -> list N -> Prop) (DC : st C -> N -> list N -> Prop).
  Hypothesis CC : contract C strong RC DC.
  Notation R_u := (R_u C RC).

  Lemma H_fill_bitset s l m : R_u s l -> u_doc C s <= m -> m + BLOCK_WINDOW <= DOCSET_TERMINATED ->
    fst (default_fill_bitset (u_doc C) (u_advance C) (u_size C) (u_set_oof C) (u_seek C) m s)
      = (mask_of m (fst (ds_fill_bitset m l)), ds_doc (snd (ds_fill_bitset m l))) /\
    R_u (snd (default_fill_bitset (u_doc C) (u_advance C) (u_size C) (u_set_oof C) (u_seek C) m s)) (snd (ds_fill_bitset m l)).
  Proof.
    exact (default_fill_bitset_ok (u_doc C) (u_advance C) (u_seek C) (u_size C) (u_set_oof C) (u_ok C) R_u
             (H_wf C RC) (H_ok C strong RC DC CC) (H_size C strong RC DC CC) (H_doc C RC) (H_adv C strong RC DC CC) (H_seek C strong RC DC CC) s l m).
  Qed.

  (* every method of the trait except seek_danger, for both shapes of seek_danger *)
  Theorem union_program_equivalence (g : bool) : forall prog s l, R_u s l -> valid_prog l prog ->
    run (union_impl_g C g) s prog = spec_run l prog.
  Proof.
    induction prog as [|c r IH]; intros s l HR HV; [reflexivity|].
    destruct c; cbn [run spec_run valid_prog union_impl_g st doc advance seek fill_buffer fill_bitset count ok] in *.
    - pose proof (H_adv C strong RC DC CC _ _ HR) as HA.
      rewrite (H_ok C strong RC DC CC _ _ HA), (H_doc C RC _ _ HA). cbn [guard]. f_equal. now apply IH.
    - destruct HV as [H1 [H2 H3]]. rewrite <- (H_doc C RC _ _ HR) in H1.
      pose proof (H_seek C strong RC DC CC t _ _ H2 HR H1) as HA.
      rewrite (H_ok C strong RC DC CC _ _ HA), (H_doc C RC _ _ HA). cbn [guard]. f_equal. now apply IH.
    - destruct (H_fill_buffer C strong RC DC CC _ _ HR) as [H1 H2].
      destruct (u_fill_buffer C s) as [b s']. destruct (ds_fill_buffer l) as [b' l']. cbn [fst snd] in *. subst b'.
      rewrite (H_ok C strong RC DC CC _ _ H2), (H_doc C RC _ _ H2). cbn [guard]. f_equal. now apply IH.
    - destruct HV as [H1 [H2 H3]]. rewrite <- (H_doc C RC _ _ HR) in H1.
      destruct (H_fill_bitset s l m HR H1 H2) as [H4 H5].
      destruct (default_fill_bitset (u_doc C) (u_advance C) (u_size C) (u_set_oof C) (u_seek C) m s) as [[mk ret] s'].
      destruct (ds_fill_bitset m l) as [ms l']. cbn [fst snd] in *. injection H4 as -> ->.
      rewrite (H_ok C strong RC DC CC _ _ H5), (H_doc C RC _ _ H5). cbn [guard]. f_equal. now apply IH.
    - destruct HV.
    - destruct (H_count C strong RC DC CC _ _ HR) as [H1 H2]. destruct (u_count C s) as [n s']. cbn [fst snd] in *.
      rewrite H2, H1. reflexivity.
  Qed.

  Theorem union_sequence_is_sem_union (g : bool) ds lcs prog : Forall2 RC ds lcs -> valid_prog (sem_union lcs) prog ->
    run (union_impl_g C g) (u_build C ds) prog = spec_run (sem_union lcs) prog.
  Proof. intros HF HV. apply union_program_equivalence; [now apply (union_build_repr C strong RC DC CC)|exact HV]. Qed.
End UnionPrograms.

(* ---------- seek_danger (shape of the current source: guard on the current document) ----------
   The hit branch calls doc()/seek() on children that have just missed, which the contract of Impl.v does not
   cover, and a miss below a weak child's document has no bound in the contract (c_danger_below); so this part is
   for children that are strong and never dangle (leaves, Exclude, every implementation with the default
   seek_danger): then the union itself meets the strong contract. *)
From TV Require Import DocSet.IntersectAdvanceProofs.

Section UnionDanger.
  Variables (C : impl) (RC : st C -> list N -> Prop) (DC : st C -> N -> list N -> Prop).
  Hypothesis CC : contract C true RC DC.
  Hypothesis Hnd : forall c tau l, DC c tau l -> RC c l.
  Notation R_u := (R_u C RC).
  Notation P_u := (P_u C RC).
  Notation Q_u := (Q_u C RC).

  Definition Dg (s : ustate C) (tau : N) (l : list N) : Prop :=
    exists t0 lcs, t0 <= tau /\ t0 < DOCSET_TERMINATED /\ u_doc C s < t0 /\ u_w C s <= u_doc C s /\ u_w C s + 4096 <= t0 /\
      u_oof C s = false /\ wf_docs l /\ Forall2 RC (u_docsets C s) lcs /\ forall x, In x l <-> inchild lcs x.
  Definition D_u (s : ustate C) (tau : N) (l : list N) : Prop := R_u s l \/ Dg s tau l.

  Lemma seek_out_ok s t lcs Lt : u_oof C s = false -> Forall2 RC (u_docsets C s) lcs -> u_doc C s < t -> 4096 <= t - u_w C s ->
    t <= DOCSET_TERMINATED -> wf_docs Lt -> (forall x, In x Lt <-> inchild lcs x /\ t <= x) -> R_u (u_seek C t s) Lt.
  Proof.
    intros H1 HF Hd Hout Ht Hwf HM. unfold u_seek. destruct (N.leb_spec t (u_doc C s)); [lia|]. change UNION_HORIZON with 4096.
    destruct (N.ltb_spec (t - u_w C s) 4096); [lia|].
    destruct (drain_seek_ok C true RC DC CC (length (u_docsets C s)) t _ _ HF (le_n _) Ht) as [ds' [lcs' [E [HK' Hch]]]]. rewrite E.
    set (s1 := upd C s ds' (empty_bitsets) (u_bucket C s) (u_w C s) (u_doc C s) (u_oof C s || false)).
    assert (HQ : Q_u s1 Lt).
    { constructor; cbn [s1 upd u_oof u_bitsets u_bucket u_w u_docsets].
      - rewrite H1. reflexivity.
      - unfold empty_bitsets. now rewrite repeat_length, HNT.
      - intros i. apply nth_repeat_0.
      - assumption.
      - exists lcs'. split; [eapply (kids_weaken C RC); [|exact HK']; lia|]. intros x. rewrite HM, Hch. tauto. }
    destruct (refill_ok C true RC DC CC s1 _ HQ) as [[Hds [EL Er]]|[s2 [Er [HP2 _]]]]; rewrite Er; cbn [negb].
    - rewrite EL in *. exists []. split; [|right; cbn [upd u_doc u_docsets]; tauto]. apply P_u_doc_irrel. now apply Q_nil_P.
    - now apply (u_advance_P C true RC DC CC).
  Qed.

  Lemma children_danger_ok t : t < DOCSET_TERMINATED -> forall ds lcs, Forall2 RC ds lcs -> forall mn0, t < mn0 -> mn0 <= DOCSET_TERMINATED ->
    match children_danger C t ds mn0 with
    | (true, mn, ds') => exists lcs', Forall2 RC ds' lcs' /\ Forall2 (sub_from t) lcs' lcs /\ inchild lcs t
    | (false, mn, ds') => Forall2 RC ds' (map (ds_seek t) lcs) /\ ~ inchild lcs t /\ t < mn /\ mn <= mn0 /\
                          (forall x, inchild lcs x -> t <= x -> mn <= x)
    end.
  Proof.
    intros HT. induction 1 as [|c lc r lr Hc Hr IH]; intros mn0 H0 H0T; cbn [children_danger].
    - split; [constructor|split; [apply inchild_nil|split; [assumption|split; [lia|]]]]. intros x Hx. destruct (inchild_nil _ Hx).
    - pose proof (c_wf _ _ _ _ CC _ _ Hc) as Hwf.
      pose proof (c_danger _ _ _ _ CC _ _ _ t (c_RD _ _ _ _ CC _ _ t Hc (or_introl eq_refl)) (N.le_refl t) HT) as Hd.
      destruct (seek_danger C t c) as [[|b] c'].
      + destruct Hd as [Hin Hc']. exists (ds_seek t lc :: lr). split; [constructor; assumption|split].
        * constructor; [apply sub_from_seek; [assumption|lia]|apply Forall2_sub_refl].
        * apply inchild_cons. now left.
      + destruct Hd as [Hn [Hlt [Hle HD]]]. apply Hnd in HD.
        assert (HbT : b <= DOCSET_TERMINATED) by (pose proof (ds_doc_le_T _ (wf_docs_seek t lc Hwf)); lia).
        specialize (IH (N.min mn0 b) ltac:(lia) ltac:(lia)).
        destruct (children_danger C t r (N.min mn0 b)) as [[[|] mn] r'].
        * destruct IH as [lcs' [I1 [I2 I3]]]. exists (ds_seek t lc :: lcs'). split; [constructor; assumption|split].
          -- constructor; [apply sub_from_seek; [assumption|lia]|assumption].
          -- apply inchild_cons. now right.
        * destruct IH as [I1 [I2 [I3 [I4 I5]]]]. cbn [map]. split; [constructor; assumption|split; [|split; [assumption|split; [lia|]]]].
          -- intros Hx. apply inchild_cons in Hx. tauto.
          -- intros x Hx Htx. apply inchild_cons in Hx. destruct Hx as [Hx|Hx]; [|now apply I5].
             pose proof (seek_head_le_mem t lc x Hwf Hx Htx). lia.
  Qed.

  Lemma sub_inchild t lcs' lcs x : Forall2 (sub_from t) lcs' lcs -> t <= x -> (inchild lcs' x <-> inchild lcs x).
  Proof.
    intros HF Hx. induction HF as [|a b ra rb [H1 H2] _ IH]; [tauto|]. rewrite !inchild_cons, IH. split; (intros [H|H]; [left|now right]); auto.
  Qed.

  Lemma map_seek_inchild t lcs x : Forall wf_docs lcs -> (inchild (map (ds_seek t) lcs) x <-> inchild lcs x /\ t <= x).
  Proof.
    induction 1 as [|lc r Hwf _ IH]; cbn [map]; [pose proof (inchild_nil x); tauto|].
    rewrite !inchild_cons, IH, ds_seek_In by apply Hwf. tauto.
  Qed.

  Lemma RC_all_wf ds lcs : Forall2 RC ds lcs -> Forall wf_docs lcs.
  Proof. induction 1 as [|c lc ds lcs Hc _ IH]; constructor; [exact (c_wf _ _ _ _ CC _ _ Hc)|assumption]. Qed.

  Lemma RC_all_ok ds lcs : Forall2 RC ds lcs -> forallb (ok C) ds = true.
  Proof. induction 1 as [|c lc ds lcs Hc _ IH]; [reflexivity|]. cbn [forallb]. now rewrite (c_ok _ _ _ _ CC _ _ Hc), IH. Qed.

  (* the out-of-horizon part, from any state whose children are valid and whose members from t on are the children's *)
  Lemma danger_out s t l lcs : t < DOCSET_TERMINATED -> u_oof C s = false -> u_w C s <= u_doc C s -> u_doc C s < t -> u_w C s + 4096 <= t ->
    wf_docs l -> Forall2 RC (u_docsets C s) lcs -> (forall x, t <= x -> (In x l <-> inchild lcs x)) ->
    let '(hit, mn, ds) := children_danger C t (u_docsets C s) DOCSET_TERMINATED in
    let s1 := upd C s ds (u_bitsets C s) (u_bucket C s) (u_w C s) (u_doc C s) (u_oof C s) in
    if hit then In t l /\ R_u (u_seek C t s1) (ds_seek t l)
    else ~ In t l /\ t < mn /\ mn <= ds_doc (ds_seek t l) /\ Dg s1 t (ds_seek t l).
  Proof.
    intros HT H1 Hw Hd Hh Hwf HF HM.
    pose proof (children_danger_ok t HT _ _ HF DOCSET_TERMINATED HT (N.le_refl _)) as HC.
    destruct (children_danger C t (u_docsets C s) DOCSET_TERMINATED) as [[[|] mn] ds'].
    - destruct HC as [lcs' [I1 [I2 I3]]]. split; [apply HM; [lia|assumption]|].
      apply (seek_out_ok _ t lcs'); cbn [upd u_oof u_docsets u_doc u_w]; try assumption; try lia; [now apply wf_docs_seek|].
      intros x. rewrite ds_seek_In by apply Hwf. split.
      + intros [Hx Htx]. split; [|assumption]. apply (sub_inchild t lcs' lcs x I2 Htx). now apply HM.
      + intros [Hx Htx]. split; [|assumption]. apply HM; [assumption|]. now apply (sub_inchild t lcs' lcs x I2 Htx).
    - destruct HC as [I1 [I2 [I3 [I4 I5]]]]. split; [intros Hx; apply I2; apply HM; [lia|assumption]|]. split; [assumption|split].
      + apply ds_doc_ge_all; [assumption|]. intros x Hx. apply ds_seek_In in Hx; [|apply Hwf]. destruct Hx as [Hx Htx].
        apply I5; [|assumption]. now apply HM.
      + exists t, (map (ds_seek t) lcs). cbn [upd u_oof u_docsets u_doc u_w]. repeat split; try assumption; try lia; try (now apply wf_docs_seek).
        * intros Hx. apply (map_seek_inchild t lcs x (RC_all_wf _ _ HF)). apply ds_seek_In in Hx; [|apply Hwf]. destruct Hx as [Hx Htx].
          split; [|assumption]. now apply HM.
        * intros Hx. apply (map_seek_inchild t lcs x (RC_all_wf _ _ HF)) in Hx. destruct Hx as [Hx Htx]. apply ds_seek_In; [apply Hwf|].
          split; [|assumption]. now apply HM.
  Qed.

  Let HS := H_seek C true RC DC CC.
  Let HD := H_doc C RC.
  Let HW := H_wf C RC.

  Lemma u_danger_ok s tau l t : D_u s tau l -> tau <= t -> t < DOCSET_TERMINATED ->
    match u_seek_danger_g C true t s with
    | (SdFound, s') => In t l /\ R_u s' (ds_seek t l)
    | (SdLower b, s') => ~ In t l /\ t < b /\ b <= ds_doc (ds_seek t l) /\ D_u s' t (ds_seek t l)
    end.
  Proof.
    intros HDs Htau HT. unfold u_seek_danger_g. destruct (N.leb_spec DOCSET_TERMINATED t); [lia|]. cbn [andb].
    assert (Hmod : u_w C s <= u_doc C s -> u_doc C s < t -> (t + 2 ^ 32 - u_w C s) mod 2 ^ 32 = t - u_w C s).
    { intros Ha Hb. pose proof DOCSET_TERMINATED_u32 as HT32. change (2 ^ 32) with 4294967296 in *. dlia. }
    destruct HDs as [HR|[t0 [lcs [Ht0 [Ht0T [Hd0 [Hw0 [Hh0 [H1 [Hwf [HF HM]]]]]]]]]]].
    - pose proof (HW _ _ HR) as Hwf. pose proof (HD _ _ HR) as Hdoc.
      destruct (N.leb_spec t (u_doc C s)) as [Hle|Hlt].
      + destruct (N.eqb_spec t (u_doc C s)) as [E|E].
        * rewrite ds_seek_le by lia. split; [|assumption]. rewrite E, Hdoc. apply ds_doc_In. lia.
        * rewrite ds_seek_le by lia. repeat split; try lia; [|now left].
          intros Hin. pose proof (ds_doc_le_In l t (proj1 Hwf) Hin). lia.
      + destruct HR as [L [HP [[-> [_ [Hw1 Hw2]]]|[_ [_ [HdT _]]]]]]; [|lia].
        unfold is_in_horizon. rewrite (Hmod Hw1 Hlt). change UNION_HORIZON with 4096.
        assert (HR : R_u s (u_doc C s :: L)) by (exists L; split; [assumption|left; tauto]).
        destruct (N.ltb_spec (t - u_w C s) 4096) as [Hin|Hout].
        * pose proof (HS t _ _ ltac:(lia) HR ltac:(lia)) as HR'. pose proof (HD _ _ HR') as Hd'. pose proof (HW _ _ HR') as Hwf'.
          destruct (N.eqb_spec (u_doc C (u_seek C t s)) t) as [E|E].
          -- split; [|assumption]. apply (ds_seek_In_sub t). rewrite <- E at 1. rewrite Hd'. apply ds_doc_In. lia.
          -- assert (Hn : ~ In t (u_doc C s :: L)). { intros Hi. apply E. rewrite Hd'. apply ds_seek_head_In; [apply Hwf|assumption]. }
             split; [assumption|]. rewrite <- Hd'. split; [|split; [lia|now left]].
             destruct (ds_seek_head t _ Hwf) as [Hh|[Hh _]]; [|lia]. rewrite <- Hd' in Hh. lia.
        * destruct HP as [H1 H2 H3 H4 H5 [lcs [[HF HA] HM]]].
          assert (HM' : forall x, t <= x -> (In x (u_doc C s :: L) <-> inchild lcs x)).
          { intros x Hx. cbn [In]. rewrite HM. split; [|tauto]. intros [E|[[dl [Hdl [_ ->]]]|Hc]]; [lia|lia|exact Hc]. }
          pose proof (danger_out s t _ lcs HT H1 Hw1 Hlt ltac:(lia) Hwf HF HM') as HO.
          destruct (children_danger C t (u_docsets C s) DOCSET_TERMINATED) as [[[|] mn] ds']; [exact HO|].
          destruct HO as [O1 [O2 [O3 O4]]]. repeat split; try assumption. now right.
    - destruct (N.leb_spec t (u_doc C s)); [lia|]. unfold is_in_horizon. rewrite (Hmod Hw0 ltac:(lia)). change UNION_HORIZON with 4096.
      destruct (N.ltb_spec (t - u_w C s) 4096); [lia|].
      pose proof (danger_out s t l lcs HT H1 Hw0 ltac:(lia) ltac:(lia) Hwf HF (fun x _ => HM x)) as HO.
      destruct (children_danger C t (u_docsets C s) DOCSET_TERMINATED) as [[[|] mn] ds']; [exact HO|].
      destruct HO as [O1 [O2 [O3 O4]]]. repeat split; try assumption. now right.
  Qed.

  (* the buffered union over strong, never dangling children meets the strong contract: it can be nested anywhere *)
  Theorem union_contract : contract (union_impl_g C true) true R_u D_u.
  Proof.
    constructor; cbn [st doc advance seek seek_danger fill_buffer fill_bitset count size ok union_impl_g].
    - exact HW.
    - exact (H_ok C true RC DC CC).
    - exact (H_size C true RC DC CC).
    - exact HD.
    - exact (H_adv C true RC DC CC).
    - intros s l t HR Hd Ht. exact (HS t s l Ht HR Hd).
    - exact (H_fill_buffer C true RC DC CC).
    - exact (H_count C true RC DC CC).
    - intros s l m. exact (H_fill_bitset C true RC DC CC s l m).
    - intros s l tau HR _. now left.
    - intros s tau l [HR|[t0 [lcs [_ [_ [_ [_ [_ [_ [Hwf _]]]]]]]]]]; [exact (HW _ _ HR)|exact Hwf].
    - intros s tau l [HR|[t0 [lcs [_ [_ [_ [_ [_ [H1 [_ [HF _]]]]]]]]]]]; [exact (H_ok C true RC DC CC _ _ HR)|].
      unfold u_ok. rewrite H1, (RC_all_ok _ _ HF). reflexivity.
    - intros s tau tau' l [HR|[t0 [lcs [Ht0 Hrest]]]] Ht; [now left|right]. exists t0, lcs. split; [lia|exact Hrest].
    - intros s tau l [HR|[t0 [lcs [_ [Ht0T [Hd0 _]]]]]]; [|lia]. rewrite (HD _ _ HR). apply ds_doc_le_T. exact (HW _ _ HR).
    - intros s tau l [HR|[t0 [lcs [Ht0 [Ht0T [Hd0 [Hw0 [Hh0 [H1 [Hwf [HF HM]]]]]]]]]]].
      + rewrite <- (ds_seek_nil_T l (HW _ _ HR)). apply HS; [lia|assumption|]. rewrite (HD _ _ HR). apply ds_doc_le_T. exact (HW _ _ HR).
      + apply (seek_out_ok s DOCSET_TERMINATED lcs []); try assumption; try lia; [split; [exact I|constructor]|].
        intros x. cbn [In]. split; [tauto|]. intros [[lc [Hlc Hx]] Hge].
        pose proof (RC_all_wf _ _ HF) as Hall. rewrite Forall_forall in Hall. pose proof (In_lt_T_local lc x (Hall _ Hlc) Hx). lia.
    - exact u_danger_ok.
    - intros s l t HR Ht. unfold u_seek_danger_g.
      assert (HdT : u_doc C s <= DOCSET_TERMINATED) by (rewrite (HD _ _ HR); apply ds_doc_le_T; exact (HW _ _ HR)).
      destruct (N.leb_spec DOCSET_TERMINATED t); [lia|]. cbn [andb]. destruct (N.leb_spec t (u_doc C s)); [|lia].
      destruct (N.eqb_spec t (u_doc C s)); [lia|]. exists (u_doc C s). cbn [fst snd]. tauto.
    - intros s tau l t HDs Ht. unfold u_seek_danger_g. destruct (N.leb_spec DOCSET_TERMINATED t); [|lia].
      exists DOCSET_TERMINATED. cbn [fst snd]. repeat split; [lia|assumption].
  Qed.

  (* ---------- the shape after the fix of F134 (u_seek_danger_r): with children that never dangle the extra
     re-synchronisation `seek(doc())` keeps every child's representation ---------- *)
  Lemma resync1_RC t c lc : RC c lc -> RC (resync1 C t c) lc.
  Proof.
    intros Hc. unfold resync1. destruct (N.leb_spec t (doc C c)); [|assumption].
    pose proof (c_wf _ _ _ _ CC _ _ Hc) as Hwf. pose proof (c_doc _ _ _ _ CC _ _ Hc) as Hd.
    rewrite <- (ds_seek_le (doc C c) lc) by (rewrite Hd; lia).
    apply (c_seek _ _ _ _ CC _ _ _ Hc); [lia|]. rewrite Hd. now apply ds_doc_le_T.
  Qed.
  Lemma resync_prefix_RC t n : forall ds lcs, Forall2 RC ds lcs -> Forall2 RC (resync_prefix C t n ds) lcs.
  Proof.
    induction n as [|n IH]; intros ds lcs HF; [destruct ds; exact HF|]. destruct HF as [|c lc ds lcs Hc HF]; [constructor|].
    cbn [resync_prefix]. constructor; [now apply resync1_RC|now apply IH].
  Qed.

  Lemma danger_out_hit_r s t l lcs n : t < DOCSET_TERMINATED -> u_oof C s = false -> u_w C s <= u_doc C s -> u_doc C s < t -> u_w C s + 4096 <= t ->
    wf_docs l -> Forall2 RC (u_docsets C s) lcs -> (forall x, t <= x -> (In x l <-> inchild lcs x)) ->
    let '(hit, mn, ds) := children_danger C t (u_docsets C s) DOCSET_TERMINATED in
    hit = true ->
    In t l /\ R_u (u_seek C t (upd C s (resync_prefix C t n ds) (u_bitsets C s) (u_bucket C s) (u_w C s) (u_doc C s) (u_oof C s))) (ds_seek t l).
  Proof.
    intros HT H1 Hw Hd Hh Hwf HF HM.
    pose proof (children_danger_ok t HT _ _ HF DOCSET_TERMINATED HT (N.le_refl _)) as HC.
    destruct (children_danger C t (u_docsets C s) DOCSET_TERMINATED) as [[[|] mn] ds']; [intros _|discriminate].
    destruct HC as [lcs' [I1 [I2 I3]]]. split; [apply HM; [lia|assumption]|].
    apply (seek_out_ok _ t lcs'); cbn [upd u_oof u_docsets u_doc u_w]; try assumption; try lia;
      [now apply resync_prefix_RC|now apply wf_docs_seek|].
    intros x. rewrite ds_seek_In by apply Hwf. split.
    + intros [Hx Htx]. split; [|assumption]. apply (sub_inchild t lcs' lcs x I2 Htx). now apply HM.
    + intros [Hx Htx]. split; [|assumption]. apply HM; [assumption|]. now apply (sub_inchild t lcs' lcs x I2 Htx).
  Qed.

  Lemma u_danger_ok_r s tau l t : D_u s tau l -> tau <= t -> t < DOCSET_TERMINATED ->
    match u_seek_danger_r C true t s with
    | (SdFound, s') => In t l /\ R_u s' (ds_seek t l)
    | (SdLower b, s') => ~ In t l /\ t < b /\ b <= ds_doc (ds_seek t l) /\ D_u s' t (ds_seek t l)
    end.
  Proof.
    intros HDs Htau HT. unfold u_seek_danger_r. destruct (N.leb_spec DOCSET_TERMINATED t); [lia|]. cbn [andb].
    assert (Hmod : u_w C s <= u_doc C s -> u_doc C s < t -> (t + 2 ^ 32 - u_w C s) mod 2 ^ 32 = t - u_w C s).
    { intros Ha Hb. pose proof DOCSET_TERMINATED_u32 as HT32. change (2 ^ 32) with 4294967296 in *. dlia. }
    destruct HDs as [HR|[t0 [lcs [Ht0 [Ht0T [Hd0 [Hw0 [Hh0 [H1 [Hwf [HF HM]]]]]]]]]]].
    - pose proof (HW _ _ HR) as Hwf. pose proof (HD _ _ HR) as Hdoc.
      destruct (N.leb_spec t (u_doc C s)) as [Hle|Hlt].
      + destruct (N.eqb_spec t (u_doc C s)) as [E|E].
        * rewrite ds_seek_le by lia. split; [|assumption]. rewrite E, Hdoc. apply ds_doc_In. lia.
        * rewrite ds_seek_le by lia. repeat split; try lia; [|now left].
          intros Hin. pose proof (ds_doc_le_In l t (proj1 Hwf) Hin). lia.
      + destruct HR as [L [HP [[-> [_ [Hw1 Hw2]]]|[_ [_ [HdT _]]]]]]; [|lia].
        unfold is_in_horizon. rewrite (Hmod Hw1 Hlt). change UNION_HORIZON with 4096.
        assert (HR : R_u s (u_doc C s :: L)) by (exists L; split; [assumption|left; tauto]).
        destruct (N.ltb_spec (t - u_w C s) 4096) as [Hin|Hout].
        * pose proof (HS t _ _ ltac:(lia) HR ltac:(lia)) as HR'. pose proof (HD _ _ HR') as Hd'. pose proof (HW _ _ HR') as Hwf'.
          destruct (N.eqb_spec (u_doc C (u_seek C t s)) t) as [E|E].
          -- split; [|assumption]. apply (ds_seek_In_sub t). rewrite <- E at 1. rewrite Hd'. apply ds_doc_In. lia.
          -- assert (Hn : ~ In t (u_doc C s :: L)). { intros Hi. apply E. rewrite Hd'. apply ds_seek_head_In; [apply Hwf|assumption]. }
             split; [assumption|]. rewrite <- Hd'. split; [|split; [lia|now left]].
             destruct (ds_seek_head t _ Hwf) as [Hh|[Hh _]]; [|lia]. rewrite <- Hd' in Hh. lia.
        * destruct HP as [H1 H2 H3 H4 H5 [lcs [[HF HA] HM]]].
          assert (HM' : forall x, t <= x -> (In x (u_doc C s :: L) <-> inchild lcs x)).
          { intros x Hx. cbn [In]. rewrite HM. split; [|tauto]. intros [E|[[dl [Hdl [_ ->]]]|Hc]]; [lia|lia|exact Hc]. }
          pose proof (danger_out s t _ lcs HT H1 Hw1 Hlt ltac:(lia) Hwf HF HM') as HO.
          pose proof (danger_out_hit_r s t _ lcs (num_missed C t (u_docsets C s)) HT H1 Hw1 Hlt ltac:(lia) Hwf HF HM') as HOr.
          destruct (children_danger C t (u_docsets C s) DOCSET_TERMINATED) as [[[|] mn] ds']; [exact (HOr eq_refl)|].
          destruct HO as [O1 [O2 [O3 O4]]]. repeat split; try assumption. now right.
    - destruct (N.leb_spec t (u_doc C s)); [lia|]. unfold is_in_horizon. rewrite (Hmod Hw0 ltac:(lia)). change UNION_HORIZON with 4096.
      destruct (N.ltb_spec (t - u_w C s) 4096); [lia|].
      pose proof (danger_out s t l lcs HT H1 Hw0 ltac:(lia) ltac:(lia) Hwf HF (fun x _ => HM x)) as HO.
      pose proof (danger_out_hit_r s t l lcs (num_missed C t (u_docsets C s)) HT H1 Hw0 ltac:(lia) ltac:(lia) Hwf HF (fun x _ => HM x)) as HOr.
      destruct (children_danger C t (u_docsets C s) DOCSET_TERMINATED) as [[[|] mn] ds']; [exact (HOr eq_refl)|].
      destruct HO as [O1 [O2 [O3 O4]]]. repeat split; try assumption. now right.
  Qed.

  Theorem union_contract_r : contract (union_impl_r C true) true R_u D_u.
  Proof.
    pose proof union_contract as U.
    constructor; cbn [st doc advance seek seek_danger fill_buffer fill_bitset count size ok union_impl_r].
    - exact (c_wf _ _ _ _ U).
    - exact (c_ok _ _ _ _ U).
    - exact (c_size _ _ _ _ U).
    - exact (c_doc _ _ _ _ U).
    - exact (c_advance _ _ _ _ U).
    - exact (c_seek _ _ _ _ U).
    - exact (c_fill_buffer _ _ _ _ U).
    - exact (c_count _ _ _ _ U).
    - exact (c_fill_bitset _ _ _ _ U).
    - exact (c_RD _ _ _ _ U).
    - exact (c_Dwf _ _ _ _ U).
    - exact (c_Dok _ _ _ _ U).
    - exact (c_Dmono _ _ _ _ U).
    - exact (c_Ddoc _ _ _ _ U).
    - exact (c_Dterm _ _ _ _ U).
    - exact u_danger_ok_r.
    - intros s l t HR Ht. unfold u_seek_danger_r.
      assert (HdT : u_doc C s <= DOCSET_TERMINATED) by (rewrite (HD _ _ HR); apply ds_doc_le_T; exact (HW _ _ HR)).
      destruct (N.leb_spec DOCSET_TERMINATED t); [lia|]. cbn [andb]. destruct (N.leb_spec t (u_doc C s)); [|lia].
      destruct (N.eqb_spec t (u_doc C s)); [lia|]. exists (u_doc C s). cbn [fst snd]. tauto.
    - intros s tau l t HDs Ht. unfold u_seek_danger_r. destruct (N.leb_spec DOCSET_TERMINATED t); [|lia].
      exists DOCSET_TERMINATED. cbn [fst snd]. repeat split; [lia|assumption].
  Qed.
End UnionDanger.

(* ---------- consequences ---------- *)
(* a union of leaves inside an intersection inside ... : every level meets the contract *)
Theorem union_of_leaves_contract :
  contract (union_impl_g vec_impl true) true (R_u vec_impl R_vec) (D_u vec_impl R_vec).
Proof. apply (union_contract vec_impl R_vec (fun s _ l => R_vec s l) vec_contract). intros c tau l H. exact H. Qed.

Example union_nonvacuous :
  run (union_impl vec_impl) (u_build vec_impl [vec_of [1; 5000; 9000]; vec_of [2; 5000; 20000]])
      [CAdvance; CSeek 4097; CSeek 9000; CFill]
  = spec_run (sem_union [[1; 5000; 9000]; [2; 5000; 20000]]) [CAdvance; CSeek 4097; CSeek 9000; CFill].
Proof. vm_compute. reflexivity. Qed.

(* the pinned shape of the source is the guarded one *)
Theorem union_contract_current_source (C : impl) RC DC : contract C true RC DC -> (forall c tau l, DC c tau l -> RC c l) ->
  contract (union_impl C) true (R_u C RC) (D_u C RC).
Proof. intros CC Hnd. exact (union_contract_r C RC DC CC Hnd). Qed.

(* nesting: `+a +(x y z)` = Intersection [leaf a; BufferedUnion of leaves], children boxed as a sum (Box<dyn Scorer>),
   on every valid program; the intersection drives the union with seek_danger *)
From TV Require Import DocSet.Sum DocSet.Intersect.
Theorem inter_of_leaf_and_union_all_programs a xs prog : wf_docs a -> Forall wf_docs xs ->
  valid_prog (sem_inter [a; sem_union xs]) prog ->
  let LUc := sum_impl vec_impl (union_impl vec_impl) in
  run (inter_impl LUc) (i_new LUc (inl (vec_of a)) (inr (u_build vec_impl (map vec_of xs))) [] false) prog
  = spec_run (sem_inter [a; sem_union xs]) prog.
Proof.
  intros Ha Hxs HV LUc.
  pose proof (sum_contract vec_impl (union_impl vec_impl) true true _ _ _ _ vec_contract
                (union_contract_current_source vec_impl R_vec (fun s _ l => R_vec s l) vec_contract (fun c tau l H => H))) as CS.
  apply (inter_program_equivalence LUc _ _ _ CS); [| | |exact HV].
  - cbn [R_sum]. now apply R_vec_of.
  - cbn [R_sum]. apply (union_build_repr vec_impl true R_vec (fun s _ l => R_vec s l) vec_contract).
    clear - Hxs. induction Hxs as [|x r Hx _ IH]; cbn [map]; constructor; [now apply R_vec_of|assumption].
  - constructor.
Qed.
